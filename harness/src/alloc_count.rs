//! Counting global allocator: live bytes, peak live bytes and the largest single request
//! between `start()` and `stop()`.  Requests above `REFUSE_ABOVE` are refused (null) and
//! recorded, so that an input announcing a huge item count cannot take the harness down.
use std::alloc::{GlobalAlloc, Layout, System};
use std::sync::atomic::{AtomicBool, AtomicUsize, Ordering::SeqCst};

pub struct Counting;

static ON: AtomicBool = AtomicBool::new(false);
static LIVE: AtomicUsize = AtomicUsize::new(0);
static PEAK: AtomicUsize = AtomicUsize::new(0);
static LARGEST: AtomicUsize = AtomicUsize::new(0);
static TOTAL: AtomicUsize = AtomicUsize::new(0);
pub const REFUSE_ABOVE: usize = 1 << 40;

unsafe impl GlobalAlloc for Counting {
    unsafe fn alloc(&self, layout: Layout) -> *mut u8 {
        if ON.load(SeqCst) {
            let sz = layout.size();
            LARGEST.fetch_max(sz, SeqCst);
            TOTAL.fetch_add(sz, SeqCst);
            if sz > REFUSE_ABOVE {
                return std::ptr::null_mut();
            }
            let live = LIVE.fetch_add(sz, SeqCst) + sz;
            PEAK.fetch_max(live, SeqCst);
        }
        System.alloc(layout)
    }
    unsafe fn dealloc(&self, ptr: *mut u8, layout: Layout) {
        if ON.load(SeqCst) {
            let sz = layout.size();
            // frees of blocks allocated before start() are clamped
            let _ = LIVE.fetch_update(SeqCst, SeqCst, |l| Some(l.saturating_sub(sz)));
        }
        System.dealloc(ptr, layout)
    }
    unsafe fn realloc(&self, ptr: *mut u8, layout: Layout, new_size: usize) -> *mut u8 {
        if ON.load(SeqCst) {
            LARGEST.fetch_max(new_size, SeqCst);
            TOTAL.fetch_add(new_size, SeqCst);
            if new_size > REFUSE_ABOVE {
                return std::ptr::null_mut();
            }
            let old = layout.size();
            if new_size >= old {
                let live = LIVE.fetch_add(new_size - old, SeqCst) + (new_size - old);
                PEAK.fetch_max(live, SeqCst);
            } else {
                let _ = LIVE.fetch_update(SeqCst, SeqCst, |l| Some(l.saturating_sub(old - new_size)));
            }
        }
        System.realloc(ptr, layout, new_size)
    }
}

pub fn start() {
    LIVE.store(0, SeqCst);
    PEAK.store(0, SeqCst);
    LARGEST.store(0, SeqCst);
    TOTAL.store(0, SeqCst);
    ON.store(true, SeqCst);
}
/// (peak live bytes, largest single request)
pub fn stop() -> (usize, usize) {
    ON.store(false, SeqCst);
    (PEAK.load(SeqCst), LARGEST.load(SeqCst))
}
pub fn total() -> usize {
    TOTAL.load(SeqCst)
}
