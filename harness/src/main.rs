//! Correspondence harness: runs the crate built from /repo's working tree on generated inputs
//! and writes one observation per line for the OCaml driver (see DESIGN.md section 4).
mod alloc_count;
mod extra;
mod generated;
mod model;
mod rng;
mod runner;
mod special;

use runner::Ctx;
use std::collections::HashSet;
use std::io::BufWriter;

#[global_allocator]
static GLOBAL: alloc_count::Counting = alloc_count::Counting;

fn arg<T: std::str::FromStr>(args: &[String], key: &str, default: T) -> T {
    for i in 0..args.len() {
        if args[i] == key && i + 1 < args.len() {
            if let Ok(v) = args[i + 1].parse() {
                return v;
            }
        }
    }
    default
}
fn arg_s(args: &[String], key: &str) -> Option<String> {
    for i in 0..args.len() {
        if args[i] == key && i + 1 < args.len() {
            return Some(args[i + 1].clone());
        }
    }
    None
}

/// A self-referential derive input: outside the finite type algebra of the model; decoding
/// recurses once per nesting level of the INPUT (C05, known finding D7).
#[derive(Debug, PartialEq, ssz_derive::Encode, ssz_derive::Decode)]
struct Tree {
    c: Vec<Tree>,
}

fn deep(depth: usize) {
    use ssz::Decode;
    let mut bytes: Vec<u8> = Vec::with_capacity(8 * depth + 4);
    for _ in 0..depth {
        bytes.extend_from_slice(&[4, 0, 0, 0, 4, 0, 0, 0]);
    }
    bytes.extend_from_slice(&[4, 0, 0, 0]);
    match Tree::from_ssz_bytes(&bytes) {
        Ok(t) => {
            let mut d = 0usize;
            let mut cur = &t;
            while let Some(n) = cur.c.first() {
                d += 1;
                cur = n;
            }
            println!("deep\t{}\tok\t{}", depth, d);
            // the value is dropped iteratively: Drop of a deep tree would itself recurse
            let mut stack = vec![t];
            while let Some(mut n) = stack.pop() {
                stack.append(&mut n.c);
            }
        }
        Err(_) => println!("deep\t{}\terr", depth),
    }
}

fn unhex(s: &str) -> Vec<u8> {
    if s == "-" {
        return vec![];
    }
    (0..s.len() / 2)
        .map(|i| u8::from_str_radix(&s[2 * i..2 * i + 2], 16).unwrap())
        .collect()
}

fn main() {
    assert_eq!(std::mem::size_of::<usize>(), 8, "the model assumes a 64-bit target");
    if std::env::var_os("VERIF_PANIC_MSG").is_none() {
        std::panic::set_hook(Box::new(|_| {}));
    }
    let args: Vec<String> = std::env::args().collect();
    if let Some(d) = arg_s(&args, "--deep") {
        deep(d.parse().unwrap());
        return;
    }
    let out = arg_s(&args, "--out").expect("--out <file>");
    let seed: u64 = arg(&args, "--seed", 1);
    let ops: HashSet<String> = arg_s(&args, "--ops")
        .unwrap_or_default()
        .split(',')
        .filter(|s| !s.is_empty())
        .map(|s| s.to_string())
        .collect();
    let shard_s = arg_s(&args, "--shard").unwrap_or_else(|| "0/1".into());
    let mut sp = shard_s.split('/');
    let shard = (
        sp.next().unwrap().parse::<usize>().unwrap(),
        sp.next().unwrap().parse::<usize>().unwrap(),
    );
    let file = std::fs::File::create(&out).expect("create output");
    let mut ctx = Ctx {
        out: Box::new(BufWriter::with_capacity(1 << 20, file)),
        rng: rng::Rng::new(seed.wrapping_mul(0x1000_0001).wrapping_add(shard.0 as u64)),
        ops,
        n_values: arg(&args, "--values", 20),
        n_bytes: arg(&args, "--bytes", 100),
        exhaustive: arg(&args, "--exhaustive", 0),
        filter: arg_s(&args, "--filter"),
        tag: arg_s(&args, "--tag"),
        selectors: args.iter().any(|a| a == "--selectors"),
        shard,
        type_index: 0,
        lines: 0,
    };
    let count: usize = arg(&args, "--count", 1000);
    // single-case modes used by the shrinker and by --replay
    if let Some(ty) = arg_s(&args, "--dec-ty") {
        let hexs = arg_s(&args, "--dec-hex").unwrap_or_default();
        let bytes = unhex(&hexs);
        for t in generated::catalogue() {
            if (t.dec_ty)() == ty {
                let r = (t.dec)(&bytes);
                ctx.line(&format!("dec\t{}\t{}\t{}", ty, model::hex(&bytes), r));
                break;
            }
        }
        return;
    }
    if let Some(regs) = arg_s(&args, "--builder-regs") {
        let hexs = arg_s(&args, "--builder-hex").unwrap_or_default();
        let bytes = unhex(&hexs);
        let regs_v: Vec<(bool, usize)> = if regs == "-" {
            vec![]
        } else {
            regs.split(',')
                .map(|it| {
                    let mut p = it.split(':');
                    let f = p.next().unwrap() == "f";
                    let l: usize = p.next().map(|x| x.parse().unwrap()).unwrap_or(4);
                    (f, l)
                })
                .collect()
        };
        special::builder_case(&mut ctx, &regs_v, &bytes);
        return;
    }
    if shard.0 == 0 {
        special::consts(&mut ctx);
    }
    if ctx.has("word") {
        special::words(&mut ctx, count);
    }
    if ctx.has("helpers") {
        special::helpers(&mut ctx, count);
    }
    if ctx.has("builder") {
        special::builders(&mut ctx, count, arg(&args, "--max-items", 6));
    }
    if ctx.has("encoder") {
        special::encoders(&mut ctx, count);
    }
    if ctx.has("listvar") {
        special::listvars(&mut ctx, count);
    }
    if ctx.has("meta") || ctx.has("enc") || ctx.has("dec") || ctx.has("app") || ctx.has("decalloc") {
        generated::run_catalogue(&mut ctx);
    }
    if ctx.has("derive") && shard.0 == 0 {
        for (d, e, r) in generated::derive_defs() {
            ctx.line(&format!("derive\t{}\t{}\t{}", d, e, r));
        }
    }
    extra::run(&mut ctx, &args);
    let n = ctx.lines;
    drop(ctx);
    eprintln!("harness: wrote {} lines to {}", n, out);
}
