//! `Model`: how each Rust type presents itself to the Coq model — its type expression, its
//! values in the model's syntax, and a boundary-biased value generator.
use crate::rng::Rng;
use alloy_primitives::{Address, Bloom, Bytes, FixedBytes, U128, U256};
use smallvec::SmallVec;
use ssz::{BitList, BitVector, BitVectorDynamic};
use std::collections::{BTreeMap, BTreeSet};
use std::num::NonZeroUsize;
use std::sync::Arc;
use ssz::{Decode, Encode};
use typenum::Unsigned;

pub fn hex(bytes: &[u8]) -> String {
    if bytes.is_empty() {
        return "-".to_string();
    }
    let mut s = String::with_capacity(bytes.len() * 2);
    for b in bytes {
        s.push_str(&format!("{:02x}", b));
    }
    s
}

pub trait Model: Sized {
    /// model type expression of what `Encode` writes
    fn ty() -> String;
    /// model type expression of what `Decode` reads (differs only for derive inputs whose
    /// skip flags are asymmetric)
    fn dec_ty() -> String {
        Self::ty()
    }
    /// the value as `Encode` sees it
    fn to_model(&self) -> String;
    /// the value as `Decode` produced it
    fn to_model_dec(&self) -> String {
        self.to_model()
    }
    fn gen(r: &mut Rng, size: usize) -> Self;
    /// does decode(encode(v)) == v make sense for this type (false for asymmetric skips)
    fn symmetric() -> bool {
        true
    }
    /// further byte strings worth decoding at this type (maps / sets: entry lists with
    /// duplicated keys and shuffled order, C19)
    fn extra_byte_strings(_r: &mut Rng, _size: usize) -> Vec<Vec<u8>> {
        vec![]
    }
    /// largest size_of over this type and every element / field type nested in it (C06)
    fn max_slot() -> usize {
        std::mem::size_of::<Self>()
    }
}

macro_rules! impl_uint {
    ($t:ty, $bytes:expr) => {
        impl Model for $t {
            fn ty() -> String {
                format!("(uint {})", $bytes)
            }
            fn to_model(&self) -> String {
                format!("(u {:x})", self)
            }
            fn gen(r: &mut Rng, _size: usize) -> Self {
                r.uint($bytes * 8) as $t
            }
        }
    };
}
impl_uint!(u8, 1);
impl_uint!(u16, 2);
impl_uint!(u32, 4);
impl_uint!(u64, 8);
impl_uint!(u128, 16);
impl_uint!(usize, 8);

impl Model for U128 {
    fn ty() -> String {
        "(uint 16)".into()
    }
    fn to_model(&self) -> String {
        format!("(u {:x})", self)
    }
    fn gen(r: &mut Rng, _size: usize) -> Self {
        U128::from(r.uint(128))
    }
}
impl Model for U256 {
    fn ty() -> String {
        "(uint 32)".into()
    }
    fn to_model(&self) -> String {
        format!("(u {:x})", self)
    }
    fn gen(r: &mut Rng, _size: usize) -> Self {
        match r.below(6) {
            0 => U256::ZERO,
            1 => U256::MAX,
            2 => U256::from(r.uint(128)),
            3 | 4 => U256::from_limbs(r.limbs4()),
            _ => {
                let b = r.bytes(32);
                U256::from_le_slice(&b)
            }
        }
    }
}
impl Model for bool {
    fn ty() -> String {
        "bool".into()
    }
    fn to_model(&self) -> String {
        format!("(b {})", *self as u8)
    }
    fn gen(r: &mut Rng, _size: usize) -> Self {
        r.chance(1, 2)
    }
}
impl Model for NonZeroUsize {
    fn ty() -> String {
        "nonzero".into()
    }
    fn to_model(&self) -> String {
        format!("(u {:x})", self.get())
    }
    fn gen(r: &mut Rng, _size: usize) -> Self {
        let x = r.uint(64) as usize;
        NonZeroUsize::new(if x == 0 { 1 } else { x }).unwrap()
    }
}
fn xbytes(b: &[u8]) -> String {
    if b.is_empty() {
        "(x)".into()
    } else {
        format!("(x {})", hex(b))
    }
}
fn gen_bytes(r: &mut Rng, n: usize) -> Vec<u8> {
    match r.below(4) {
        0 => vec![0; n],
        1 => vec![255; n],
        _ => r.bytes(n),
    }
}
impl<const N: usize> Model for [u8; N] {
    fn ty() -> String {
        format!("(bytesn {})", N)
    }
    fn to_model(&self) -> String {
        xbytes(&self[..])
    }
    fn gen(r: &mut Rng, _size: usize) -> Self {
        let v = gen_bytes(r, N);
        let mut a = [0u8; N];
        a.copy_from_slice(&v);
        a
    }
}
impl<const N: usize> Model for FixedBytes<N> {
    fn ty() -> String {
        format!("(bytesn {})", N)
    }
    fn to_model(&self) -> String {
        xbytes(&self.0)
    }
    fn gen(r: &mut Rng, _size: usize) -> Self {
        FixedBytes::<N>::from_slice(&gen_bytes(r, N))
    }
}
impl Model for Address {
    fn ty() -> String {
        "(bytesn 20)".into()
    }
    fn to_model(&self) -> String {
        xbytes(self.as_slice())
    }
    fn gen(r: &mut Rng, _size: usize) -> Self {
        Address::from_slice(&gen_bytes(r, 20))
    }
}
impl Model for Bloom {
    fn ty() -> String {
        "(bytesn 256)".into()
    }
    fn to_model(&self) -> String {
        xbytes(self.as_slice())
    }
    fn gen(r: &mut Rng, _size: usize) -> Self {
        Bloom::from_slice(&gen_bytes(r, 256))
    }
}
impl Model for Bytes {
    fn ty() -> String {
        "bytelist".into()
    }
    fn to_model(&self) -> String {
        xbytes(&self.0)
    }
    fn gen(r: &mut Rng, size: usize) -> Self {
        let n = r.below(size + 1);
        Bytes::from(gen_bytes(r, n))
    }
}

fn gen_len(r: &mut Rng, size: usize) -> usize {
    // outermost collections are occasionally long: past the insertion-sort cut-off of the std sorts
    // (20), a B-tree node (11), the inline capacity of the catalogue's SmallVecs and a few Vec
    // growth steps
    if size >= 6 && r.chance(1, 16) {
        return 21 + r.below(44);
    }
    match r.below(6) {
        0 => 0,
        1 => 1,
        2 => 2,
        _ => r.below(size + 1),
    }
}
fn list_model<'a, T: Model + 'a, I: Iterator<Item = &'a T>>(it: I, dec: bool) -> String {
    let mut s = String::from("(l");
    for x in it {
        s.push(' ');
        s.push_str(&if dec { x.to_model_dec() } else { x.to_model() });
    }
    s.push(')');
    s
}
impl<T: Model> Model for Vec<T> {
    fn ty() -> String {
        format!("(list {})", T::ty())
    }
    fn dec_ty() -> String {
        format!("(list {})", T::dec_ty())
    }
    fn to_model(&self) -> String {
        list_model(self.iter(), false)
    }
    fn to_model_dec(&self) -> String {
        list_model(self.iter(), true)
    }
    fn max_slot() -> usize {
        std::cmp::max(std::mem::size_of::<Self>(), T::max_slot())
    }
    fn gen(r: &mut Rng, size: usize) -> Self {
        let n = gen_len(r, size);
        (0..n).map(|_| T::gen(r, size / 2)).collect()
    }
    fn symmetric() -> bool {
        T::symmetric()
    }
}
impl<T: Model, const N: usize> Model for SmallVec<[T; N]> {
    fn ty() -> String {
        format!("(list {})", T::ty())
    }
    fn dec_ty() -> String {
        format!("(list {})", T::dec_ty())
    }
    fn to_model(&self) -> String {
        list_model(self.iter(), false)
    }
    fn to_model_dec(&self) -> String {
        list_model(self.iter(), true)
    }
    fn max_slot() -> usize {
        std::cmp::max(std::mem::size_of::<Self>(), T::max_slot())
    }
    fn gen(r: &mut Rng, size: usize) -> Self {
        let n = gen_len(r, size);
        (0..n).map(|_| T::gen(r, size / 2)).collect()
    }
    fn symmetric() -> bool {
        T::symmetric()
    }
}
fn shuffle<T>(r: &mut Rng, v: &mut Vec<T>) {
    for i in (1..v.len()).rev() {
        let j = r.below(i + 1);
        v.swap(i, j);
    }
}

impl<T: Model + Ord + Encode + Decode> Model for BTreeSet<T> {
    fn extra_byte_strings(r: &mut Rng, size: usize) -> Vec<Vec<u8>> {
        let mut out = vec![];
        for _ in 0..4 {
            let n = 1 + r.below(size + 2);
            let mut es: Vec<T> = (0..n).map(|_| T::gen(r, size / 2)).collect();
            // duplicates: re-decode an element's own encoding
            for _ in 0..(1 + r.below(3)) {
                let i = r.below(es.len());
                if let Ok(c) = T::from_ssz_bytes(&es[i].as_ssz_bytes()) {
                    let p = r.below(es.len() + 1);
                    es.insert(p, c);
                }
            }
            if r.chance(3, 4) {
                shuffle(r, &mut es);
            }
            out.push(es.as_ssz_bytes());
        }
        if size >= 6 {
            // long lists over a handful of distinct elements, in no particular order
            let distinct: Vec<T> = (0..(2 + r.below(3))).map(|_| T::gen(r, 2)).collect();
            let n = 21 + r.below(28);
            let mut es: Vec<T> = vec![];
            for _ in 0..n {
                let d = r.pick(&distinct);
                if let Ok(c) = T::from_ssz_bytes(&d.as_ssz_bytes()) {
                    es.push(c);
                }
            }
            out.push(es.as_ssz_bytes());
        }
        out
    }
    fn ty() -> String {
        format!("(set {})", T::ty())
    }
    fn to_model(&self) -> String {
        list_model(self.iter(), false)
    }
    fn max_slot() -> usize {
        std::cmp::max(std::mem::size_of::<Self>(), T::max_slot())
    }
    fn gen(r: &mut Rng, size: usize) -> Self {
        let n = gen_len(r, size);
        (0..n).map(|_| T::gen(r, size / 2)).collect()
    }
}
impl<K: Model + Ord + Encode + Decode, V: Model + Encode + Decode> Model for BTreeMap<K, V> {
    fn extra_byte_strings(r: &mut Rng, size: usize) -> Vec<Vec<u8>> {
        let mut out = vec![];
        for _ in 0..4 {
            let n = 1 + r.below(size + 2);
            let mut es: Vec<(K, V)> = (0..n).map(|_| (K::gen(r, size / 2), V::gen(r, size / 2))).collect();
            // the same key again with another value, at a random position
            for _ in 0..(1 + r.below(3)) {
                let i = r.below(es.len());
                if let Ok(k) = K::from_ssz_bytes(&es[i].0.as_ssz_bytes()) {
                    let p = r.below(es.len() + 1);
                    es.insert(p, (k, V::gen(r, size / 2)));
                }
            }
            if r.chance(3, 4) {
                shuffle(r, &mut es);
            }
            out.push(es.as_ssz_bytes());
        }
        if size >= 6 {
            // long entry lists over a handful of distinct keys with differing values, unsorted:
            // "a later duplicate replaces an earlier one" must not depend on the list length
            for _ in 0..2 {
                let keys: Vec<K> = (0..(2 + r.below(3))).map(|_| K::gen(r, 2)).collect();
                let n = 21 + r.below(28);
                let mut es: Vec<(K, V)> = vec![];
                for _ in 0..n {
                    let d = r.pick(&keys);
                    if let Ok(k) = K::from_ssz_bytes(&d.as_ssz_bytes()) {
                        es.push((k, V::gen(r, 2)));
                    }
                }
                out.push(es.as_ssz_bytes());
            }
        }
        out
    }
    fn ty() -> String {
        format!("(map {} {})", K::ty(), V::ty())
    }
    fn to_model(&self) -> String {
        let mut s = String::from("(l");
        for (k, v) in self.iter() {
            s.push_str(&format!(" (c {} {})", k.to_model(), v.to_model()));
        }
        s.push(')');
        s
    }
    fn max_slot() -> usize {
        std::cmp::max(std::mem::size_of::<Self>(), std::cmp::max(K::max_slot(), V::max_slot()) + std::mem::size_of::<(K, V)>())
    }
    fn gen(r: &mut Rng, size: usize) -> Self {
        let n = gen_len(r, size);
        (0..n)
            .map(|_| (K::gen(r, size / 2), V::gen(r, size / 2)))
            .collect()
    }
}
impl<T: Model> Model for Option<T> {
    fn ty() -> String {
        format!("(option {})", T::ty())
    }
    fn dec_ty() -> String {
        format!("(option {})", T::dec_ty())
    }
    fn to_model(&self) -> String {
        match self {
            None => "none".into(),
            Some(x) => format!("(some {})", x.to_model()),
        }
    }
    fn to_model_dec(&self) -> String {
        match self {
            None => "none".into(),
            Some(x) => format!("(some {})", x.to_model_dec()),
        }
    }
    fn max_slot() -> usize {
        std::cmp::max(std::mem::size_of::<Self>(), T::max_slot())
    }
    fn gen(r: &mut Rng, size: usize) -> Self {
        if r.chance(1, 3) {
            None
        } else {
            Some(T::gen(r, size))
        }
    }
    fn symmetric() -> bool {
        T::symmetric()
    }
}
impl<T: Model> Model for Arc<T> {
    fn ty() -> String {
        format!("(wrap {})", T::ty())
    }
    fn dec_ty() -> String {
        format!("(wrap {})", T::dec_ty())
    }
    fn to_model(&self) -> String {
        self.as_ref().to_model()
    }
    fn to_model_dec(&self) -> String {
        self.as_ref().to_model_dec()
    }
    fn max_slot() -> usize {
        std::cmp::max(std::mem::size_of::<Self>(), T::max_slot() + 16)
    }
    fn gen(r: &mut Rng, size: usize) -> Self {
        Arc::new(T::gen(r, size))
    }
    fn symmetric() -> bool {
        T::symmetric()
    }
}

macro_rules! impl_tuple {
    ($(($idx:tt, $T:ident)),+) => {
        impl<$($T: Model),+> Model for ($($T,)+) {
            fn ty() -> String {
                let mut s = String::from("(cont 0");
                $( s.push(' '); s.push_str(&$T::ty()); )+
                s.push(')');
                s
            }
            fn dec_ty() -> String {
                let mut s = String::from("(cont 0");
                $( s.push(' '); s.push_str(&$T::dec_ty()); )+
                s.push(')');
                s
            }
            fn to_model(&self) -> String {
                let mut s = String::from("(c");
                $( s.push(' '); s.push_str(&self.$idx.to_model()); )+
                s.push(')');
                s
            }
            fn to_model_dec(&self) -> String {
                let mut s = String::from("(c");
                $( s.push(' '); s.push_str(&self.$idx.to_model_dec()); )+
                s.push(')');
                s
            }
            fn gen(r: &mut Rng, size: usize) -> Self {
                ($($T::gen(r, size / 2),)+)
            }
            fn max_slot() -> usize {
                let mut m = std::mem::size_of::<Self>();
                $( m = std::cmp::max(m, $T::max_slot()); )+
                m
            }
            fn symmetric() -> bool {
                true $(&& $T::symmetric())+
            }
        }
    };
}
impl_tuple!((0, A), (1, B));
impl_tuple!((0, A), (1, B), (2, C));
impl_tuple!((0, A), (1, B), (2, C), (3, D));
impl_tuple!((0, A), (1, B), (2, C), (3, D), (4, E));
impl_tuple!((0, A), (1, B), (2, C), (3, D), (4, E), (5, F));
impl_tuple!((0, A), (1, B), (2, C), (3, D), (4, E), (5, F), (6, G));
impl_tuple!((0, A), (1, B), (2, C), (3, D), (4, E), (5, F), (6, G), (7, H));
impl_tuple!((0, A), (1, B), (2, C), (3, D), (4, E), (5, F), (6, G), (7, H), (8, I));
impl_tuple!((0, A), (1, B), (2, C), (3, D), (4, E), (5, F), (6, G), (7, H), (8, I), (9, J));
impl_tuple!((0, A), (1, B), (2, C), (3, D), (4, E), (5, F), (6, G), (7, H), (8, I), (9, J), (10, K));
impl_tuple!((0, A), (1, B), (2, C), (3, D), (4, E), (5, F), (6, G), (7, H), (8, I), (9, J), (10, K), (11, L));

pub fn bits_model<I: Iterator<Item = bool>>(it: I) -> String {
    // a value that claims more bits than any input of this harness can back (only a defect makes one)
    // is not walked: its length alone is the observation
    const WALK: usize = 1 << 22;
    let s: String = it.take(WALK + 1).map(|b| if b { '1' } else { '0' }).collect();
    if s.len() > WALK {
        return "(bits-huge)".into();
    }
    if s.is_empty() {
        "(bits)".into()
    } else {
        format!("(bits {})", s)
    }
}
fn gen_bit(r: &mut Rng, mode: usize) -> bool {
    match mode {
        0 => false,
        1 => true,
        _ => r.chance(1, 2),
    }
}
impl<N: Unsigned + Clone> Model for BitVector<N> {
    fn ty() -> String {
        format!("(bitvector {})", N::to_usize())
    }
    fn to_model(&self) -> String {
        bits_model(self.iter())
    }
    fn gen(r: &mut Rng, _size: usize) -> Self {
        let mut b = BitVector::<N>::new();
        let mode = r.below(4);
        for i in 0..N::to_usize() {
            b.set(i, gen_bit(r, mode)).unwrap();
        }
        b
    }
}
impl<N: Unsigned + Clone> Model for BitList<N> {
    fn ty() -> String {
        format!("(bitlist {})", N::to_usize())
    }
    fn to_model(&self) -> String {
        bits_model(self.iter())
    }
    fn gen(r: &mut Rng, _size: usize) -> Self {
        let cap = N::to_usize();
        let len = match r.below(6) {
            0 => 0,
            1 => cap,
            2 => cap.saturating_sub(1),
            3 => std::cmp::min(cap, 8 * r.below(cap / 8 + 1)),
            _ => r.below(cap + 1),
        };
        let mut b = BitList::<N>::with_capacity(len).unwrap();
        let mode = r.below(4);
        for i in 0..len {
            b.set(i, gen_bit(r, mode)).unwrap();
        }
        b
    }
}
impl Model for BitVectorDynamic {
    fn ty() -> String {
        "bitdyn".into()
    }
    fn to_model(&self) -> String {
        bits_model(self.iter())
    }
    fn gen(r: &mut Rng, size: usize) -> Self {
        let len = 8 * (1 + r.below(size / 2 + 1));
        let mut b = BitVectorDynamic::new(len).unwrap();
        let mode = r.below(4);
        for i in 0..len {
            b.set(i, gen_bit(r, mode)).unwrap();
        }
        b
    }
}
