//! Bitfield histories, set operations, byte-level API, serde and arbitrary observations.
use crate::runner::Ctx;

pub fn run(_ctx: &mut Ctx, _args: &[String]) {}
