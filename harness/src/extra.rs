//! Bitfield histories, set operations, byte-level API, serde and arbitrary observations
//! (C11-C14, C18, C20).
use crate::model::{bits_model, hex};
use crate::rng::Rng;
use crate::runner::{catch, Caught, Ctx};
use smallvec::SmallVec;
use ssz::{BitList, BitVector, BitVectorDynamic, Decode, Encode};
use std::hash::{Hash, Hasher};
use typenum::Unsigned;

/// The bit sequence of a bitfield as seen through its iterator.  Sequential iteration is the reference; every
/// other way the `Iterator` API lets a caller walk the sequence (`nth`, `skip`, `step_by`, `take` then the
/// rest, `last`, `count`, `fold`, `size_hint` after a partial walk) must show the same bits (C11: "iteration
/// equals that of a plain sequence of booleans").  When one of them does not, the sequence *it* shows is
/// reported instead of the sequential one, so the disagreement surfaces as bits that differ from the model.
pub fn iter_views<I: Iterator<Item = bool>, F: Fn() -> I>(mk: F) -> Vec<bool> {
    let seq: Vec<bool> = mk().collect();
    let n = seq.len();
    let mut ks: Vec<usize> = (0..n.min(20)).collect();
    for c in [8usize, 16, 24, 32, 64, 128, 256, 1024] {
        for d in [c.saturating_sub(1), c, c + 1] {
            if d <= n + 1 {
                ks.push(d);
            }
        }
    }
    for d in [n.saturating_sub(2), n.saturating_sub(1), n, n + 1] {
        ks.push(d);
    }
    ks.sort();
    ks.dedup();
    // a view that disagrees: the sequence it implies (same length where that makes sense)
    let differs = |alt: Vec<bool>| -> Vec<bool> {
        if alt != seq { alt } else { let mut a = alt; a.push(true); a }
    };
    // nth(k) on a fresh iterator
    for &k in &ks {
        let got = mk().nth(k);
        if got != seq.get(k).copied() {
            let mut alt = seq.clone();
            match got {
                Some(b) if k < n => alt[k] = b,
                Some(b) => alt.push(b),
                None => alt.truncate(k),
            }
            return differs(alt);
        }
    }
    // skip(k): the tail
    for &k in &ks {
        let tail: Vec<bool> = mk().skip(k).collect();
        let want: Vec<bool> = seq.iter().skip(k).copied().collect();
        if tail != want {
            let mut alt: Vec<bool> = seq.iter().take(k).copied().collect();
            alt.extend(tail);
            return differs(alt);
        }
    }
    // step_by(s)
    for s in [2usize, 3, 5, 7, 8, 9, 16] {
        let got: Vec<bool> = mk().step_by(s).collect();
        let want: Vec<bool> = seq.iter().step_by(s).copied().collect();
        if got != want {
            let mut alt = seq.clone();
            for (j, b) in got.iter().enumerate() {
                if j * s < alt.len() {
                    alt[j * s] = *b;
                } else {
                    alt.push(*b);
                }
            }
            if got.len() < want.len() {
                alt.truncate(got.len() * s);
            }
            return differs(alt);
        }
    }
    // a partial walk, then nth / the rest / size_hint
    for &j in &ks {
        if j > n {
            continue;
        }
        let mut it = mk();
        let mut head = vec![];
        for _ in 0..j {
            match it.next() {
                Some(b) => head.push(b),
                None => break,
            }
        }
        let (lo, hi) = it.size_hint();
        let remaining = n - head.len().min(n);
        if lo > remaining || hi.map(|h| h < remaining).unwrap_or(false) {
            let mut alt = seq.clone();
            alt.truncate(head.len() + hi.unwrap_or(lo).min(lo.max(0)));
            return differs(alt);
        }
        let third = it.nth(2);
        if third != seq.get(j + 2).copied() {
            let mut alt = seq.clone();
            match third {
                Some(b) if j + 2 < n => alt[j + 2] = b,
                Some(b) => alt.push(b),
                None => alt.truncate(j + 2),
            }
            return differs(alt);
        }
        let rest: Vec<bool> = it.collect();
        let want: Vec<bool> = seq.iter().skip(j + 3).copied().collect();
        if rest != want {
            let mut alt: Vec<bool> = seq.iter().take(j + 3).copied().collect();
            alt.extend(rest);
            return differs(alt);
        }
    }
    // whole-sequence consumers
    if mk().count() != n {
        let mut alt = seq.clone();
        alt.resize(mk().count(), true);
        return differs(alt);
    }
    if mk().last() != seq.last().copied() {
        let mut alt = seq.clone();
        match mk().last() {
            Some(b) if n > 0 => alt[n - 1] = b,
            Some(b) => alt.push(b),
            None => alt.clear(),
        }
        return differs(alt);
    }
    let folded: Vec<bool> = mk().fold(vec![], |mut a, b| { a.push(b); a });
    if folded != seq {
        return differs(folded);
    }
    let mut each = vec![];
    mk().for_each(|b| each.push(b));
    if each != seq {
        return differs(each);
    }
    let zipped: Vec<bool> = mk().zip(0..n + 3).map(|(b, _)| b).collect();
    if zipped != seq {
        return differs(zipped);
    }
    seq
}

/// Records what `Hash` feeds to the hasher.
#[derive(Default)]
struct Recorder(Vec<u64>);
impl Hasher for Recorder {
    fn finish(&self) -> u64 {
        0
    }
    fn write(&mut self, bytes: &[u8]) {
        for b in bytes {
            self.0.push(*b as u64);
        }
    }
    fn write_usize(&mut self, i: usize) {
        self.0.push(i as u64);
    }
    fn write_u64(&mut self, i: u64) {
        self.0.push(i);
    }
}

/// The operations of `BitfieldOps.v`, uniformly over the three flavours.
pub trait Flav: Sized + Clone + PartialEq + Hash + Encode + Decode {
    fn name() -> String;
    fn new_(n: usize) -> Result<Self, ()>;
    fn set_(&mut self, i: usize, v: bool) -> Result<(), ()>;
    fn shift_(&mut self, n: usize) -> Result<(), ()>;
    fn diffi_(&mut self, o: &Self);
    fn diff_(&self, o: &Self) -> Self;
    fn union_(&self, o: &Self) -> Result<Self, ()>;
    fn inter_(&self, o: &Self) -> Result<Self, ()>;
    fn subset_(&self, o: &Self) -> bool;
    fn from_bytes_(b: &[u8]) -> Result<Self, ()>;
    fn into_bytes_(self) -> Vec<u8>;
    fn observe(&self) -> (usize, String, usize, Option<usize>, bool, Vec<u8>);
    fn get_(&self, i: usize) -> Result<bool, ()>;
    fn raw_(&self) -> Vec<u8>;
    fn empty_(&self) -> bool;
}

macro_rules! common_flav {
    () => {
        fn set_(&mut self, i: usize, v: bool) -> Result<(), ()> {
            self.set(i, v).map_err(|_| ())
        }
        fn shift_(&mut self, n: usize) -> Result<(), ()> {
            self.shift_up(n).map_err(|_| ())
        }
        fn diffi_(&mut self, o: &Self) {
            self.difference_inplace(o)
        }
        fn diff_(&self, o: &Self) -> Self {
            self.difference(o)
        }
        fn into_bytes_(self) -> Vec<u8> {
            self.into_bytes().to_vec()
        }
        fn get_(&self, i: usize) -> Result<bool, ()> {
            self.get(i).map_err(|_| ())
        }
        fn raw_(&self) -> Vec<u8> {
            self.clone().into_raw_bytes().to_vec()
        }
        fn empty_(&self) -> bool {
            self.is_empty()
        }
        fn observe(&self) -> (usize, String, usize, Option<usize>, bool, Vec<u8>) {
            (
                self.len(),
                bits_model(iter_views(|| self.iter()).into_iter()),
                self.num_set_bits(),
                self.highest_set_bit(),
                self.is_zero(),
                self.as_slice().to_vec(),
            )
        }
    };
}

impl<N: Unsigned + Clone> Flav for BitList<N> {
    fn name() -> String {
        format!("list:{}", N::to_usize())
    }
    fn new_(n: usize) -> Result<Self, ()> {
        Self::with_capacity(n).map_err(|_| ())
    }
    fn union_(&self, o: &Self) -> Result<Self, ()> {
        Ok(self.union(o))
    }
    fn inter_(&self, o: &Self) -> Result<Self, ()> {
        Ok(self.intersection(o))
    }
    fn subset_(&self, o: &Self) -> bool {
        self.is_subset(o)
    }
    fn from_bytes_(b: &[u8]) -> Result<Self, ()> {
        Self::from_bytes(SmallVec::from_slice(b)).map_err(|_| ())
    }
    common_flav!();
}
impl<N: Unsigned + Clone> Flav for BitVector<N> {
    fn name() -> String {
        format!("vec:{}", N::to_usize())
    }
    fn new_(_n: usize) -> Result<Self, ()> {
        Ok(Self::new())
    }
    fn union_(&self, o: &Self) -> Result<Self, ()> {
        Ok(self.union(o))
    }
    fn inter_(&self, o: &Self) -> Result<Self, ()> {
        Ok(self.intersection(o))
    }
    fn subset_(&self, o: &Self) -> bool {
        self.is_subset(o)
    }
    fn from_bytes_(b: &[u8]) -> Result<Self, ()> {
        Self::from_bytes(SmallVec::from_slice(b)).map_err(|_| ())
    }
    common_flav!();
}
impl Flav for BitVectorDynamic {
    fn name() -> String {
        "dyn".into()
    }
    fn new_(n: usize) -> Result<Self, ()> {
        Self::new(n).map_err(|_| ())
    }
    fn union_(&self, o: &Self) -> Result<Self, ()> {
        self.union(o).map_err(|_| ())
    }
    fn inter_(&self, o: &Self) -> Result<Self, ()> {
        self.intersection(o).map_err(|_| ())
    }
    fn subset_(&self, o: &Self) -> bool {
        self.difference(o).is_zero()
    }
    fn from_bytes_(b: &[u8]) -> Result<Self, ()> {
        Self::from_bytes_with_len(SmallVec::from_slice(b), b.len() * 8).map_err(|_| ())
    }
    common_flav!();
}

#[derive(Clone, Debug)]
pub enum Op {
    New(usize, usize),
    Set(usize, usize, bool),
    Shift(usize, usize),
    DiffI(usize, usize),
    Clone(usize, usize),
    Dec(usize, Vec<u8>),
    Union(usize, usize, usize),
    Inter(usize, usize, usize),
    Diff(usize, usize, usize),
    Subset(usize, usize, usize),
}

fn op_str(o: &Op) -> String {
    match o {
        Op::New(r, n) => format!("new {} {}", r, n),
        Op::Set(r, i, v) => format!("set {} {} {}", r, i, *v as u8),
        Op::Shift(r, n) => format!("shift {} {}", r, n),
        Op::DiffI(r, s) => format!("diffi {} {}", r, s),
        Op::Clone(r, s) => format!("clone {} {}", r, s),
        Op::Dec(r, b) => format!("dec {} {}", r, hex(b)),
        Op::Union(r, a, b) => format!("union {} {} {}", r, a, b),
        Op::Inter(r, a, b) => format!("inter {} {} {}", r, a, b),
        Op::Diff(r, a, b) => format!("diff {} {} {}", r, a, b),
        Op::Subset(r, a, b) => format!("subset {} {} {}", r, a, b),
    }
}
fn target(o: &Op) -> usize {
    match o {
        Op::New(r, _)
        | Op::Set(r, _, _)
        | Op::Shift(r, _)
        | Op::DiffI(r, _)
        | Op::Clone(r, _)
        | Op::Dec(r, _)
        | Op::Union(r, _, _)
        | Op::Inter(r, _, _)
        | Op::Diff(r, _, _)
        | Op::Subset(r, _, _) => *r,
    }
}

fn observe_reg<F: Flav>(regs: &[Option<F>; 4], r: usize, status: u8, sub: Option<bool>) -> String {
    let subs = match sub {
        None => "-".to_string(),
        Some(b) => (b as u8).to_string(),
    };
    match &regs[r % 4] {
        None => format!("{}|0|0|(bits)|0|-|0|-|-|-|-|{}", status, subs),
        Some(b) => {
            let (len, bits, nsb, hsb, zero, slice) = b.observe();
            let ssz_hex = match catch(|| b.as_ssz_bytes()) {
                Caught::Val(v) => hex(&v),
                Caught::Panic => "panic".to_string(),
            };
            let eq: String = regs
                .iter()
                .map(|x| match x {
                    Some(c) => {
                        if b == c {
                            '1'
                        } else {
                            '0'
                        }
                    }
                    None => '0',
                })
                .collect();
            let mut rec = Recorder::default();
            b.hash(&mut rec);
            let hash = rec.0.iter().map(|x| x.to_string()).collect::<Vec<_>>().join(",");
            format!(
                "{}|1|{}|{}|{}|{}|{}|{}|{}|{}|{}|{}",
                status,
                len,
                bits,
                nsb,
                hsb.map(|h| h.to_string()).unwrap_or_else(|| "-".into()),
                zero as u8,
                hex(&slice),
                ssz_hex,
                eq,
                hash,
                subs
            )
        }
    }
}

fn step<F: Flav>(regs: &mut [Option<F>; 4], o: &Op) -> (u8, Option<bool>) {
    fn put<F: Flav>(regs: &mut [Option<F>; 4], r: usize, res: Caught<Result<F, ()>>) -> (u8, Option<bool>) {
        match res {
            Caught::Val(Ok(b)) => {
                regs[r % 4] = Some(b);
                (0, None)
            }
            Caught::Val(Err(_)) => (1, None),
            Caught::Panic => (2, None),
        }
    }
    match o {
        Op::New(r, n) => {
            let res = catch(|| F::new_(*n));
            put(regs, *r, res)
        }
        Op::Set(r, i, v) => match regs[*r % 4].clone() {
            Some(mut b) => {
                let res = catch(|| b.set_(*i, *v).map(|_| b));
                put(regs, *r, res)
            }
            None => (1, None),
        },
        Op::Shift(r, n) => match regs[*r % 4].clone() {
            Some(mut b) => {
                // a failed shift must leave the value unchanged: keep the mutated copy only on Ok
                let res = catch(|| b.shift_(*n).map(|_| b));
                put(regs, *r, res)
            }
            None => (1, None),
        },
        Op::DiffI(r, s) => match (regs[*r % 4].clone(), regs[*s % 4].clone()) {
            (Some(mut a), Some(c)) => {
                let res = catch(|| {
                    a.diffi_(&c);
                    Ok(a)
                });
                put(regs, *r, res)
            }
            _ => (1, None),
        },
        Op::Clone(r, s) => match regs[*s % 4].clone() {
            Some(b) => {
                regs[*r % 4] = Some(b);
                (0, None)
            }
            None => (1, None),
        },
        Op::Dec(r, bytes) => {
            let res = catch(|| F::from_ssz_bytes(bytes).map_err(|_| ()));
            put(regs, *r, res)
        }
        Op::Union(r, a, b) => match (regs[*a % 4].clone(), regs[*b % 4].clone()) {
            (Some(x), Some(y)) => {
                let res = catch(|| x.union_(&y));
                put(regs, *r, res)
            }
            _ => (1, None),
        },
        Op::Inter(r, a, b) => match (regs[*a % 4].clone(), regs[*b % 4].clone()) {
            (Some(x), Some(y)) => {
                let res = catch(|| x.inter_(&y));
                put(regs, *r, res)
            }
            _ => (1, None),
        },
        Op::Diff(r, a, b) => match (regs[*a % 4].clone(), regs[*b % 4].clone()) {
            (Some(x), Some(y)) => {
                let res = catch(|| Ok(x.diff_(&y)));
                put(regs, *r, res)
            }
            _ => (1, None),
        },
        Op::Subset(_r, a, b) => match (regs[*a % 4].clone(), regs[*b % 4].clone()) {
            (Some(x), Some(y)) => match catch(|| x.subset_(&y)) {
                Caught::Val(s) => (0, Some(s)),
                Caught::Panic => (2, None),
            },
            _ => (1, None),
        },
    }
}

/// A failed set/shift in the Rust API mutates in place; the check that the value is unchanged
/// after a failure is done by applying the operation to the register itself here.
fn step_inplace<F: Flav>(regs: &mut [Option<F>; 4], o: &Op) -> (u8, Option<bool>) {
    match o {
        Op::Set(r, i, v) => match regs[*r % 4].as_mut() {
            Some(b) => match catch(|| b.set_(*i, *v)) {
                Caught::Val(Ok(())) => (0, None),
                Caught::Val(Err(())) => (1, None),
                Caught::Panic => (2, None),
            },
            None => (1, None),
        },
        Op::Shift(r, n) => match regs[*r % 4].as_mut() {
            Some(b) => match catch(|| b.shift_(*n)) {
                Caught::Val(Ok(())) => (0, None),
                Caught::Val(Err(())) => (1, None),
                Caught::Panic => (2, None),
            },
            None => (1, None),
        },
        _ => step(regs, o),
    }
}

pub fn run_history<F: Flav>(ctx: &mut Ctx, ops: &[Op]) {
    let mut regs: [Option<F>; 4] = [None, None, None, None];
    let mut obs = vec![];
    for o in ops {
        let (st, sub) = step_inplace(&mut regs, o);
        obs.push(observe_reg(&regs, target(o), st, sub));
    }
    let l = format!(
        "bfhist\t{}\t{}\t{}",
        F::name(),
        ops.iter().map(op_str).collect::<Vec<_>>().join(";"),
        obs.join(";")
    );
    ctx.line(&l);
    for reg in regs.iter().flatten() {
        enc_line(ctx, reg);
    }
}

/// Codec-side and accessor observations of a bitfield value that was reached through the mutation
/// API (C01, C03, C07, C10, C14 quantify over *every* value, not only freshly built ones).
fn enc_line<F: Flav>(ctx: &mut Ctx, b: &F) {
    let (len, bits, _, _, _, slice) = b.observe();
    let ssz = catch(|| b.as_ssz_bytes());
    let blen = match catch(|| b.ssz_bytes_len()) {
        Caught::Val(n) => n.to_string(),
        Caught::Panic => "panic".into(),
    };
    let (ssz_s, rt, app, asb) = match &ssz {
        Caught::Val(bytes) => {
            let rt = match catch(|| F::from_ssz_bytes(bytes)) {
                Caught::Val(Ok(y)) => {
                    if y == *b {
                        "1"
                    } else {
                        "0"
                    }
                }
                Caught::Val(Err(_)) => "0",
                Caught::Panic => "panic",
            };
            let app = match catch(|| {
                let mut buf = vec![0xAAu8, 0x55, 0xFF];
                b.ssz_append(&mut buf);
                buf
            }) {
                Caught::Val(v) => hex(&v),
                Caught::Panic => "panic".into(),
            };
            let asb = match catch(|| ssz::ssz_encode(b)) {
                Caught::Val(v) => hex(&v),
                Caught::Panic => "panic".into(),
            };
            (hex(bytes), rt.to_string(), app, asb)
        }
        Caught::Panic => ("panic".into(), "panic".into(), "panic".into(), "panic".into()),
    };
    let into = match catch(|| b.clone().into_bytes_()) {
        Caught::Val(v) => hex(&v),
        Caught::Panic => "panic".into(),
    };
    // get() at and around the length: failed reads are errors, reads below the length are the bits
    let mut probes = vec![0usize, len.saturating_sub(1), len, len + 1, 8 * slice.len(), 8 * slice.len() + 1, usize::MAX];
    if len > 9 {
        probes.push(len / 2);
        probes.push(8 * (len / 8));
    }
    let gets: Vec<String> = probes
        .iter()
        .map(|&i| {
            let g = match catch(|| b.get_(i)) {
                Caught::Val(Ok(true)) => "1",
                Caught::Val(Ok(false)) => "0",
                Caught::Val(Err(())) => "e",
                Caught::Panic => "p",
            };
            format!("{}={}", i, g)
        })
        .collect();
    ctx.line(&format!(
        "bfenc\t{}\t{}\t{}\t{}\t{}\t{}\t{}\t{}\t{}\t{}\t{}",
        F::name(),
        bits,
        ssz_s,
        blen,
        rt,
        app,
        asb,
        into,
        hex(&b.raw_()),
        b.empty_() as u8,
        gets.join(",")
    ));
}

fn gen_index(r: &mut Rng, cap: usize) -> usize {
    match r.below(10) {
        0 => 0,
        1 => cap,
        2 => cap.saturating_sub(1),
        3 => cap + 1,
        4 => 8 * (cap / 8),
        5 => (8 * (cap / 8)).saturating_sub(1),
        6 => *r.pick(&[usize::MAX, 1 << 32, 1 << 63, 7, 8, 9]),
        _ => r.below(cap + 2),
    }
}

fn gen_bf_bytes(r: &mut Rng, cap: usize) -> Vec<u8> {
    let nbytes = match r.below(6) {
        0 => 0,
        1 => cap / 8 + 1,
        2 => std::cmp::max(1, (cap + 7) / 8),
        3 => cap / 8 + 2,
        _ => r.below(cap / 8 + 3),
    };
    let mut b = match r.below(4) {
        0 => vec![0u8; nbytes],
        1 => vec![255u8; nbytes],
        _ => r.bytes(nbytes),
    };
    if let Some(l) = b.last_mut() {
        match r.below(4) {
            0 => *l = 1,
            1 => *l &= (1u16 << (cap % 8 + 1)).wrapping_sub(1) as u8,
            2 => *l = 1 << r.below(8),
            _ => {}
        }
    }
    b
}

pub fn gen_history(r: &mut Rng, cap: usize, dynamic: bool, len: usize) -> Vec<Op> {
    let mut ops = vec![];
    let n_ops = 1 + r.below(len);
    for k in 0..n_ops {
        let reg = r.below(4);
        let o = match if k < 2 { r.below(3) } else { r.below(16) } {
            0 | 1 => {
                let n = if dynamic {
                    *r.pick(&[8usize, 16, 24, 64, 72, 0, 7, 9, 128, 1032])
                } else {
                    gen_index(r, cap).min(1 << 20)
                };
                Op::New(reg, n)
            }
            2 => Op::Dec(reg, gen_bf_bytes(r, if dynamic { 24 } else { cap })),
            3..=6 => Op::Set(reg, gen_index(r, if dynamic { 24 } else { cap }), r.chance(2, 3)),
            7 | 8 => Op::Shift(reg, gen_index(r, if dynamic { 24 } else { cap })),
            9 => Op::DiffI(reg, r.below(4)),
            10 => Op::Clone(reg, r.below(4)),
            11 => Op::Union(reg, r.below(4), r.below(4)),
            12 => Op::Inter(reg, r.below(4), r.below(4)),
            13 => Op::Diff(reg, r.below(4), r.below(4)),
            14 => Op::Subset(reg, r.below(4), r.below(4)),
            _ => Op::Dec(reg, gen_bf_bytes(r, if dynamic { 24 } else { cap })),
        };
        ops.push(o);
    }
    ops
}

/// Operand pairs for the set operations (C12): operands enter through their SSZ encoding.
pub fn gen_pair_history<F: Flav>(r: &mut Rng, la: usize, lb: usize) -> Option<Vec<Op>> {
    let mk = |l: usize, r: &mut Rng| -> Option<Vec<u8>> {
        let mut x = F::new_(l).ok()?;
        let (len, _, _, _, _, _) = x.observe();
        let mode = r.below(4);
        for i in 0..len {
            let v = match mode {
                0 => false,
                1 => true,
                _ => r.chance(1, 2),
            };
            if v {
                x.set_(i, true).ok()?;
            }
        }
        Some(x.as_ssz_bytes())
    };
    let a = mk(la, r)?;
    let b = mk(lb, r)?;
    Some(vec![
        Op::Dec(0, a),
        Op::Dec(1, b),
        Op::Union(2, 0, 1),
        Op::Inter(2, 0, 1),
        Op::Diff(2, 0, 1),
        Op::Diff(3, 1, 0),
        Op::Subset(2, 0, 1),
        Op::Subset(2, 1, 0),
        Op::Union(3, 1, 0),
        Op::Inter(3, 1, 0),
    ])
}

/// byte-level API vs SSZ codec on one byte string (C14)
fn bytes_case<F: Flav>(ctx: &mut Ctx, b: &[u8]) {
    let show = |r: Caught<Result<F, ()>>| match r {
        Caught::Val(Ok(x)) => {
            let bits = x.observe().1;
            let back = x.clone().into_bytes_();
            let ssz = x.as_ssz_bytes();
            format!("ok {} {} {}", bits, hex(&back), hex(&ssz))
        }
        Caught::Val(Err(_)) => "err".to_string(),
        Caught::Panic => "panic".to_string(),
    };
    let via_bytes = show(catch(|| F::from_bytes_(b)));
    let via_ssz = show(catch(|| F::from_ssz_bytes(b).map_err(|_| ())));
    ctx.line(&format!("bfbytes\t{}\t{}\t{}\t{}", F::name(), hex(b), via_bytes, via_ssz));
}

/// Capacities near 2^32, 2^63 and 2^64.  No value of such a `BitVector` can be built and no `BitList` of
/// this harness comes near the limit; what is observable is that every short byte string is refused (vector)
/// or decoded as at small capacities (list), without a panic: arithmetic on the capacity itself (`N + 7`,
/// `N as isize`, `N / 8 + 1`) shows here and nowhere else.
fn huge_bytes_case<F: Flav>(ctx: &mut Ctx, b: &[u8], vector: bool) {
    if !vector {
        return bytes_case::<F>(ctx, b);
    }
    let show = |r: Caught<Result<F, ()>>| match r {
        Caught::Val(Ok(_)) => "ok huge".to_string(),
        Caught::Val(Err(_)) => "err".to_string(),
        Caught::Panic => "panic".to_string(),
    };
    let via_bytes = show(catch(|| F::from_bytes_(b)));
    let via_ssz = show(catch(|| F::from_ssz_bytes(b).map_err(|_| ())));
    ctx.line(&format!("bfbytes\t{}\t{}\t{}\t{}", F::name(), hex(b), via_bytes, via_ssz));
}

fn huge_flavour<F: Flav + crate::model::Model>(ctx: &mut Ctx, vector: bool, count: usize) {
    if !ctx.has("bfbytes") || !ctx.wants(&F::name(), "bitfield,hugecap") {
        return;
    }
    ctx.line(&format!("# flavour {}", F::name()));
    ctx.line(&crate::runner::obs_meta::<F>());
    let fixed: Vec<Vec<u8>> = vec![
        vec![], vec![0], vec![1], vec![2], vec![0x7f], vec![0x80], vec![0xff], vec![0, 0], vec![0xff, 0x01], vec![0, 1],
        vec![0xff; 3], vec![0; 8], vec![0xff; 8], vec![0; 9], vec![0x55; 16], vec![0; 31], vec![0; 32], vec![0xff; 33],
    ];
    for b in &fixed {
        huge_bytes_case::<F>(ctx, b, vector);
    }
    for _ in 0..std::cmp::max(8, count / 8) {
        let mut r = ctx.rng.clone();
        let b = gen_bf_bytes(&mut r, 24);
        ctx.rng = r;
        huge_bytes_case::<F>(ctx, &b, vector);
    }
}

type UMaxM7 = typenum::UInt<typenum::UInt<typenum::UInt<typenum::U2305843009213693951, typenum::B0>, typenum::B0>, typenum::B1>;
type UMaxM8 = typenum::UInt<typenum::UInt<typenum::UInt<typenum::U2305843009213693951, typenum::B0>, typenum::B0>, typenum::B0>;
type UMax = typenum::UInt<typenum::UInt<typenum::UInt<typenum::U2305843009213693951, typenum::B1>, typenum::B1>, typenum::B1>;
type UMaxM3 = typenum::UInt<typenum::UInt<typenum::UInt<typenum::U2305843009213693951, typenum::B1>, typenum::B0>, typenum::B0>;
type U2p63p8 = typenum::Sum<typenum::U9223372036854775808, typenum::U8>;
type U2p63p1 = typenum::Sum<typenum::U9223372036854775808, typenum::U1>;
type U2p63p64 = typenum::Sum<typenum::U9223372036854775808, typenum::U64>;

macro_rules! for_huge_caps {
    ($ctx:expr, $count:expr) => {
        for_huge_caps!(@one $ctx, $count, typenum::U4294967295, typenum::U4294967296, typenum::U34359738368,
            typenum::U4611686018427387904, typenum::U9223372036854775807, typenum::U9223372036854775808,
            U2p63p1, U2p63p8, U2p63p64, typenum::U10000000000000000000, UMaxM8, UMaxM7, UMaxM3, UMax);
    };
    (@one $ctx:expr, $count:expr, $($n:ty),*) => {
        $(
            huge_flavour::<BitVector<$n>>($ctx, true, $count);
            huge_flavour::<BitList<$n>>($ctx, false, $count);
        )*
    };
}

fn resize_case<N: Unsigned + Clone, M: Unsigned + Clone>(ctx: &mut Ctx, r: &mut Rng) {
    let cap = N::to_usize();
    let len = r.below(cap + 1);
    let mut b = BitList::<N>::with_capacity(len).unwrap();
    for i in 0..len {
        if r.chance(1, 2) {
            b.set(i, true).unwrap();
        }
    }
    let res = match catch(|| b.resize::<M>()) {
        Caught::Val(Ok(x)) => format!("ok {}", bits_model(x.iter())),
        Caught::Val(Err(_)) => "err".into(),
        Caught::Panic => "panic".into(),
    };
    ctx.line(&format!(
        "bfresize\t{}\t{}\t{}\t{}",
        cap,
        M::to_usize(),
        bits_model(b.iter()),
        res
    ));
}

fn withlen_case(ctx: &mut Ctx, b: &[u8], l: usize) {
    let mut rt = "na";
    let res = match catch(|| BitVectorDynamic::from_bytes_with_len(SmallVec::from_slice(b), l)) {
        Caught::Val(Ok(x)) => {
            // the value as a value of the type: does its encoding decode back to it (C01)?
            rt = match catch(|| BitVectorDynamic::from_ssz_bytes(&x.as_ssz_bytes())) {
                Caught::Val(Ok(y)) if y == x => "ok",
                Caught::Val(_) => "fail",
                Caught::Panic => "panic",
            };
            format!("ok {}", bits_model(x.iter()))
        }
        Caught::Val(Err(_)) => "err".into(),
        Caught::Panic => "panic".into(),
    };
    ctx.line(&format!("bfwithlen\t{}\t{}\t{}\t{}", hex(b), l, res, rt));
}

/// serde form (C18)
fn serde_value<F: Flav + serde::Serialize + serde::de::DeserializeOwned>(ctx: &mut Ctx, x: &F) {
    let ssz = x.as_ssz_bytes();
    let json = serde_json::to_string(x).unwrap_or_else(|_| "SERFAIL".into());
    let back = match serde_json::from_str::<F>(&json) {
        Ok(y) => {
            if y == *x {
                "same"
            } else {
                "different"
            }
        }
        Err(_) => "err",
    };
    ctx.line(&format!("serde_ser\t{}\t{}\t{}\t{}", F::name(), hex(&ssz), json, back));
}
fn serde_string<F: Flav + serde::Serialize + serde::de::DeserializeOwned>(ctx: &mut Ctx, s: &str) {
    // through JSON, and through serde's plain string deserializer (no JSON layer)
    let quoted = serde_json::to_string(s).unwrap();
    let show = |r: Result<F, ()>| match r {
        Ok(x) => format!("ok {}", x.observe().1),
        Err(_) => "err".to_string(),
    };
    let via_json = match catch(|| serde_json::from_str::<F>(&quoted).map_err(|_| ())) {
        Caught::Val(r) => show(r),
        Caught::Panic => "panic".into(),
    };
    let via_str = match catch(|| {
        use serde::de::IntoDeserializer;
        let d: serde::de::value::StrDeserializer<serde::de::value::Error> = s.into_deserializer();
        F::deserialize(d).map_err(|_| ())
    }) {
        Caught::Val(r) => show(r),
        Caught::Panic => "panic".into(),
    };
    // the harness only emits strings without tabs / newlines
    ctx.line(&format!("serde_de\t{}\t{}\t{}\t{}", F::name(), s, via_json, via_str));
}

fn gen_hex_string(r: &mut Rng, valid_ssz: &[u8]) -> String {
    let h: String = valid_ssz.iter().map(|b| format!("{:02x}", b)).collect();
    match r.below(12) {
        0 => format!("0x{}", h),
        1 => format!("0x{}", h.to_uppercase()),
        2 => h,
        3 => format!("0X{}", h),
        4 => format!("0x{}0", h),
        5 => {
            let mut s = format!("0x{}", h);
            if s.len() > 2 {
                // one character that is not a hex digit; '+' and '-' are what integer parsers accept
                let p = 2 + r.below(s.len() - 2);
                let c = *r.pick(&["g", "+", "-", " ", "_", "G", "x", "+", "."]);
                s.replace_range(p..p + 1, c);
                if r.chance(1, 2) && p % 2 == 1 && c == "+" {
                    // '+' in the first position of a byte pair
                    let q = p - 1;
                    if q >= 2 {
                        let d = s[p..p + 1].to_string();
                        s.replace_range(q..q + 1, &d);
                        s.replace_range(p..p + 1, "1");
                    }
                }
            }
            s
        }
        6 => (*r.pick(&["0x", "0x+1", "0x-1", "0x+f", "0x1+", "0x 1", "0x0_"])).to_string(),
        7 => "".into(),
        8 => format!("0x{}ff", h),
        9 => format!(" 0x{}", h),
        10 => {
            let n = r.below(5);
            let alphabet = ['0', 'x', 'X', '1', 'a', 'F', 'g', '+', '-'];
            (0..n).map(|_| *r.pick(&alphabet)).collect()
        }
        _ => {
            let k = r.below(4);
            let b = r.bytes(k);
            format!("0x{}", b.iter().map(|x| format!("{:02x}", x)).collect::<String>())
        }
    }
}

/// arbitrary (C20)
fn arbitrary_case<F>(ctx: &mut Ctx, data: &[u8])
where
    F: Flav + for<'a> arbitrary::Arbitrary<'a>,
{
    let res = match catch(|| {
        let mut u = arbitrary::Unstructured::new(data);
        F::arbitrary(&mut u).map_err(|_| ())
    }) {
        Caught::Val(Ok(x)) => {
            // a generated value that makes its own accessors or encoder panic is an invalid value
            let rt = match catch(|| F::from_ssz_bytes(&x.as_ssz_bytes())) {
                Caught::Val(Ok(y)) => {
                    if y == x {
                        "rt"
                    } else {
                        "nort"
                    }
                }
                Caught::Val(Err(_)) => "nort",
                Caught::Panic => "nort-panic",
            };
            let (len, bits, nsb, _, _, slice) = x.observe();
            // validity beyond the round trip: minimal byte view, no bit at or beyond the length
            let ones = bits.chars().filter(|c| *c == '1').count();
            let wf = if slice.len() == std::cmp::max(1, (len + 7) / 8) && nsb == ones { "wf" } else { "notwf" };
            format!("ok {} {} {}", bits, rt, wf)
        }
        Caught::Val(Err(_)) => "err".into(),
        Caught::Panic => "panic".into(),
    };
    ctx.line(&format!("arb\t{}\t{}\t{}", F::name(), hex(data), res));
}

fn per_flavour<F>(ctx: &mut Ctx, cap: usize, dynamic: bool, count: usize)
where
    F: Flav + serde::Serialize + serde::de::DeserializeOwned,
{
    let spread = cap >= 256 && !dynamic && ctx.filter.is_none();
    let mut unit = 0usize;
    if ctx.has("bfhist") {
        // the model machines are quadratic in the bit length: fewer and shorter histories at 1024
        let (hist_count, hist_len) = if cap >= 256 { (std::cmp::max(16, count / 16), 8) } else { (count, 40) };
        for _ in 0..hist_count {
            if !mine(ctx, spread, &mut unit) {
                continue;
            }
            let mut r = ctx.rng.clone();
            let ops = gen_history(&mut r, cap, dynamic, hist_len);
            ctx.rng = r;
            run_history::<F>(ctx, &ops);
        }
    }
    if ctx.has("bfpairs") {
        let lens: Vec<usize> = if dynamic {
            vec![8, 16, 24, 64, 72]
        } else {
            let mut v: Vec<usize> = (0..=std::cmp::min(cap, 17)).collect();
            for l in [31usize, 32, 33, 63, 64, 65, 66, 1023, 1024] {
                if l <= cap {
                    v.push(l);
                }
            }
            v
        };
        let reps = if cap >= 256 { 1 } else { std::cmp::max(1, count / (lens.len() * lens.len())) };
        let lens: Vec<usize> = if cap >= 256 { lens.into_iter().filter(|l| *l <= 9 || *l >= 1023 || *l == 64).collect() } else { lens };
        for &la in &lens {
            for &lb in &lens {
                for _ in 0..reps {
                    if !mine(ctx, spread, &mut unit) {
                        continue;
                    }
                    let mut r = ctx.rng.clone();
                    let ops = gen_pair_history::<F>(&mut r, la, lb);
                    ctx.rng = r;
                    if let Some(ops) = ops {
                        run_history::<F>(ctx, &ops);
                    }
                }
            }
        }
    }
    if ctx.has("bfbytes") {
        if mine(ctx, spread, &mut unit) {
            bytes_case::<F>(ctx, &[]);
        }
        for a in 0..=255u8 {
            if mine(ctx, spread, &mut unit) {
                bytes_case::<F>(ctx, &[a]);
            }
        }
        if ctx.exhaustive >= 2 {
            for a in 0..=255u8 {
                if !mine(ctx, spread, &mut unit) {
                    continue;
                }
                for b in 0..=255u8 {
                    bytes_case::<F>(ctx, &[a, b]);
                }
            }
        }
        for _ in 0..count {
            if !mine(ctx, spread, &mut unit) {
                continue;
            }
            let mut r = ctx.rng.clone();
            let b = if r.chance(1, 8) {
                // around the 128-byte SmallVec spill
                let n = 126 + r.below(6);
                let mut v = r.bytes(n);
                if let Some(l) = v.last_mut() {
                    *l = 1;
                }
                v
            } else {
                gen_bf_bytes(&mut r, if dynamic { 24 } else { cap })
            };
            ctx.rng = r;
            bytes_case::<F>(ctx, &b);
        }
    }
    if ctx.has("serde") {
        for _ in 0..count {
            if !mine(ctx, spread, &mut unit) {
                continue;
            }
            let mut r = ctx.rng.clone();
            let b = gen_bf_bytes(&mut r, if dynamic { 24 } else { cap });
            let s = gen_hex_string(&mut r, &b);
            ctx.rng = r;
            if let Ok(x) = F::from_ssz_bytes(&b) {
                serde_value::<F>(ctx, &x);
            }
            serde_string::<F>(ctx, &s);
        }
    }
}

macro_rules! for_caps {
    ($f:ident, $ctx:expr, $count:expr) => {{
        $f::<typenum::U0>($ctx, $count);
        $f::<typenum::U1>($ctx, $count);
        $f::<typenum::U2>($ctx, $count);
        $f::<typenum::U7>($ctx, $count);
        $f::<typenum::U8>($ctx, $count);
        $f::<typenum::U9>($ctx, $count);
        $f::<typenum::U15>($ctx, $count);
        $f::<typenum::U16>($ctx, $count);
        $f::<typenum::U17>($ctx, $count);
        $f::<typenum::U31>($ctx, $count);
        $f::<typenum::U32>($ctx, $count);
        $f::<typenum::U33>($ctx, $count);
        $f::<typenum::U64>($ctx, $count);
        $f::<typenum::U65>($ctx, $count);
        $f::<typenum::U1024>($ctx, $count);
    }};
}

/// Capacities of 256 bits and more are expensive for the extracted model (every bit operation walks a
/// byte list): their work is dealt out over all shards, unit by unit, instead of loading one of them.
fn cap_tags<N: Unsigned>() -> &'static str {
    if N::to_usize() >= 256 { "bitfield,spread" } else { "bitfield" }
}
fn cap_list<N: Unsigned + Clone>(ctx: &mut Ctx, count: usize) {
    if ctx.wants(&BitList::<N>::name(), cap_tags::<N>()) {
        per_flavour::<BitList<N>>(ctx, N::to_usize(), false, count);
        arb_flavour::<BitList<N>>(ctx, count);
    }
}
fn cap_vec<N: Unsigned + Clone>(ctx: &mut Ctx, count: usize) {
    if ctx.wants(&BitVector::<N>::name(), cap_tags::<N>()) {
        per_flavour::<BitVector<N>>(ctx, N::to_usize(), false, count);
        arb_flavour::<BitVector<N>>(ctx, count);
    }
}

/// Is this unit of work of a spread flavour dealt to this shard?  (Flavours that are not spread are
/// wholly in one shard: every unit is theirs.)
fn mine(ctx: &Ctx, spread: bool, unit: &mut usize) -> bool {
    *unit += 1;
    !spread || (*unit - 1) % ctx.shard.1 == ctx.shard.0
}

fn arb_flavour<F>(ctx: &mut Ctx, count: usize)
where
    F: Flav + for<'a> arbitrary::Arbitrary<'a>,
{
    if !ctx.has("arb") {
        return;
    }
    let spread = F::name().split(':').nth(1).and_then(|c| c.parse::<usize>().ok()).map(|c| c >= 256).unwrap_or(false) && ctx.filter.is_none();
    let mut unit = 0usize;
    if mine(ctx, spread, &mut unit) {
        arbitrary_case::<F>(ctx, &[]);
        arbitrary_case::<F>(ctx, &[0; 16]);
        arbitrary_case::<F>(ctx, &[255; 16]);
        arbitrary_case::<F>(ctx, &[1, 0, 0, 0, 0, 0, 0, 0, 1]);
        for k in 0..9u8 {
            arbitrary_case::<F>(ctx, &[k, 0, 0, 0, 0, 0, 0, 0, 1, 1, 1, 1, 1, 1, 1, 1, 1]);
        }
    }
    for _ in 0..count {
        if !mine(ctx, spread, &mut unit) {
            continue;
        }
        let mut r = ctx.rng.clone();
        let hi = if r.chance(1, 6) { 200 } else { 24 };
        let n = r.below(hi);
        let mut d = r.bytes(n);
        if d.len() >= 8 && r.chance(2, 3) {
            // a small size word, so that the bitlist generator gets past min(rand, N)
            let w = (r.below(40) as u64).to_le_bytes();
            d[..8].copy_from_slice(&w);
            if r.chance(1, 2) {
                for x in d[8..].iter_mut() {
                    if r.chance(2, 3) {
                        *x = 0;
                    }
                }
                if let Some(l) = d.last_mut() {
                    *l = 1;
                }
            }
        }
        ctx.rng = r;
        arbitrary_case::<F>(ctx, &d);
    }
}

pub fn run(ctx: &mut Ctx, args: &[String]) {
    let wanted = ["bfhist", "bfpairs", "bfbytes", "serde", "arb", "bfresize", "bfwithlen"];
    if !wanted.iter().any(|o| ctx.has(o)) {
        return;
    }
    let mut count: usize = 200;
    for i in 0..args.len() {
        if args[i] == "--count" && i + 1 < args.len() {
            count = args[i + 1].parse().unwrap_or(200);
        }
    }
    let count = std::cmp::max(1, count / 4);
    for_caps!(cap_list, ctx, count);
    for_caps!(cap_vec, ctx, count);
    // capacities above the 128-byte inline buffer of the SmallVec, generators only.  Like the other capacities of 256 and
    // more they are `spread`: every shard runs the flavour and `arb_flavour` deals its units round-robin, so the fixed
    // block of entropy inputs that make the generators succeed is always among the inputs (it is unit 0, shard 0)
    if ctx.has("arb") {
        if ctx.wants("list:2048", "bitfield,spread") {
            arb_flavour::<BitList<typenum::U2048>>(ctx, count);
        }
        if ctx.wants("vec:2048", "bitfield,spread") {
            arb_flavour::<BitVector<typenum::U2048>>(ctx, count);
        }
        if ctx.wants("vec:4096", "bitfield,spread") {
            arb_flavour::<BitVector<typenum::U4096>>(ctx, count);
        }
    }
    if ctx.wants("dyn", "bitfield") {
        per_flavour::<BitVectorDynamic>(ctx, 24, true, count);
    }
    for_huge_caps!(ctx, count);
    if ctx.has("bfresize") && ctx.shard.0 == 0 {
        for _ in 0..std::cmp::max(1, count / 4) {
            let mut r = ctx.rng.clone();
            resize_case::<typenum::U8, typenum::U16>(ctx, &mut r);
            resize_case::<typenum::U16, typenum::U8>(ctx, &mut r);
            resize_case::<typenum::U9, typenum::U9>(ctx, &mut r);
            resize_case::<typenum::U0, typenum::U7>(ctx, &mut r);
            resize_case::<typenum::U7, typenum::U0>(ctx, &mut r);
            resize_case::<typenum::U1, typenum::U65>(ctx, &mut r);
            resize_case::<typenum::U33, typenum::U1024>(ctx, &mut r);
            resize_case::<typenum::U65, typenum::U64>(ctx, &mut r);
            ctx.rng = r;
        }
    }
    if ctx.has("bfwithlen") && ctx.shard.0 == 0 {
        // every small (bytes, declared length) pair, whatever the budget: the boundary cases of the constructor
        // (no bytes, one zero byte, a length of zero, lengths that are not whole bytes) are not left to chance
        let small: Vec<Vec<u8>> = vec![
            vec![], vec![0], vec![1], vec![0x80], vec![0xff], vec![0, 0], vec![0, 1], vec![0xff, 0x7f], vec![0xff, 0xff],
            vec![0, 0, 0], vec![1, 2, 3],
        ];
        for b in &small {
            for l in [0usize, 1, 7, 8, 9, 15, 16, 17, 23, 24, 25, 32] {
                withlen_case(ctx, b, l);
            }
        }
        for _ in 0..count {
            let mut r = ctx.rng.clone();
            let b = gen_bf_bytes(&mut r, 24);
            let l = match r.below(6) {
                0 => b.len() * 8,
                1 => (b.len() * 8).saturating_sub(1),
                2 => b.len() * 8 + 8,
                3 => 0,
                4 => b.len(),
                _ => r.below(64),
            };
            ctx.rng = r;
            withlen_case(ctx, &b, l);
        }
    }
}
