//! Observations that are not per-type: constants, the offset word codec, the byte-parsing
//! helpers, decoder-builder and encoder histories, variable-length list decoding into
//! harness-defined collections with a call-counting item type.
use crate::alloc_count;
use crate::model::{hex, Model};
use crate::rng::Rng;
use crate::runner::{catch, grammar, mutate, Caught, Ctx};
use ssz::{Decode, DecodeError, Encode, SszDecoderBuilder, SszEncoder, TryFromIter};
use std::cell::Cell;
use std::io::Write;

pub fn consts(ctx: &mut Ctx) {
    ctx.line(&format!(
        "const\t{}\t{}\t{}\t{}",
        ssz::BYTES_PER_LENGTH_OFFSET,
        ssz::BYTES_PER_UNION_SELECTOR,
        ssz::MAX_UNION_SELECTOR,
        ssz::MAX_LENGTH_VALUE
    ));
}

fn word_line(ctx: &mut Ctx, n: usize) {
    let w = ssz::encode_length(n);
    let back = match catch(|| ssz::read_offset(&w)) {
        Caught::Val(Ok(x)) => format!("ok {}", x),
        Caught::Val(Err(_)) => "err".into(),
        Caught::Panic => "panic".into(),
    };
    ctx.line(&format!("word\t{}\t{}\t{}", n, hex(&w), back));
}

pub fn words(ctx: &mut Ctx, count: usize) {
    let mut bounds: Vec<usize> = vec![0, 1, 2, 3, 4, 5, 127, 128, 255, 256, 257, 65535, 65536, 65537];
    for k in [8usize, 16, 24, 31, 32] {
        let p = 1usize << k;
        bounds.push(p - 1);
        if k < 32 {
            bounds.push(p);
            bounds.push(p + 1);
        }
    }
    bounds.push(0x0102_0304);
    bounds.push(0xff00_ff00);
    bounds.push(0xffff_fffe);
    for n in bounds {
        word_line(ctx, n);
    }
    for _ in 0..count {
        let n = (ctx.rng.next() & 0xffff_ffff) as usize;
        word_line(ctx, n);
    }
}

fn roff_line(ctx: &mut Ctx, b: &[u8]) {
    let r = match catch(|| ssz::read_offset(b)) {
        Caught::Val(Ok(x)) => format!("ok {}", x),
        Caught::Val(Err(_)) => "err".into(),
        Caught::Panic => "panic".into(),
    };
    ctx.line(&format!("roff\t{}\t{}", hex(b), r));
}
fn sunion_line(ctx: &mut Ctx, b: &[u8]) {
    let r = match catch(|| ssz::split_union_bytes(b).map(|(s, body)| (u8::from(s), body.to_vec()))) {
        Caught::Val(Ok((s, body))) => format!("ok {} {}", s, hex(&body)),
        Caught::Val(Err(_)) => "err".into(),
        Caught::Panic => "panic".into(),
    };
    ctx.line(&format!("sunion\t{}\t{}", hex(b), r));
}

fn usel_line(ctx: &mut Ctx, b: u8) {
    // UnionSelector::new, From<UnionSelector> for u8, PartialEq<u8>
    let r = match catch(|| ssz::UnionSelector::new(b).map(|s| (u8::from(s), s == b, s == b.wrapping_add(1)))) {
        Caught::Val(Ok((v, same, other))) => format!("ok {} {} {}", v, same as u8, other as u8),
        Caught::Val(Err(_)) => "err".into(),
        Caught::Panic => "panic".into(),
    };
    ctx.line(&format!("usel\t{}\t{}", b, r));
}
fn legacy_word_line(ctx: &mut Ctx, n: usize, b: &[u8]) {
    // the legacy module's four-byte selector helpers
    let w = ssz::legacy::encode_four_byte_union_selector(n);
    let back = match catch(|| ssz::legacy::read_four_byte_union_selector(&w)) {
        Caught::Val(Ok(x)) => format!("ok {}", x),
        Caught::Val(Err(_)) => "err".into(),
        Caught::Panic => "panic".into(),
    };
    let rd = match catch(|| ssz::legacy::read_four_byte_union_selector(b)) {
        Caught::Val(Ok(x)) => format!("ok {}", x),
        Caught::Val(Err(_)) => "err".into(),
        Caught::Panic => "panic".into(),
    };
    ctx.line(&format!("word4\t{}\t{}\t{}\t{}\t{}", n, hex(&w), back, hex(b), rd));
}

// Types whose fixed-size parts sum past `usize::MAX`: eight bit vectors of 2^64 - 1 bits (2^61 bytes each).
type UMaxBits = typenum::UInt<typenum::UInt<typenum::UInt<typenum::U2305843009213693951, typenum::B1>, typenum::B1>, typenum::B1>;
type HugeBv = ssz::BitVector<UMaxBits>;
type HugeTuple8 = (HugeBv, HugeBv, HugeBv, HugeBv, HugeBv, HugeBv, HugeBv, HugeBv);
#[derive(ssz_derive::Encode, ssz_derive::Decode)]
pub struct HugeStruct8 {
    pub a: HugeBv,
    pub b: HugeBv,
    pub c: HugeBv,
    pub d: HugeBv,
    pub e: HugeBv,
    pub f: HugeBv,
    pub g: HugeBv,
    pub h: HugeBv,
}

fn hugesum_line<T: Decode>(ctx: &mut Ctx, what: &str, bytes: &[u8]) {
    let r = match catch(|| T::from_ssz_bytes(bytes).is_ok()) {
        Caught::Val(true) => "ok",
        Caught::Val(false) => "err",
        Caught::Panic => "panic",
    };
    ctx.line(&format!("hugesum\t{}\t{}\t{}", what, hex(bytes), r));
}

/// Decoding three bytes as a type whose fixed-size part does not fit `usize`.
pub fn hugesums(ctx: &mut Ctx) {
    hugesum_line::<HugeTuple8>(ctx, "tuple8", &[1, 2, 3]);
    hugesum_line::<Vec<HugeTuple8>>(ctx, "vec-of-tuple8", &[1, 2, 3]);
    hugesum_line::<Option<HugeTuple8>>(ctx, "option-of-tuple8", &[1, 2, 3]);
    hugesum_line::<HugeStruct8>(ctx, "struct8", &[1, 2, 3]);
    hugesum_line::<Vec<HugeStruct8>>(ctx, "vec-of-struct8", &[1, 2, 3]);
}

pub fn helpers(ctx: &mut Ctx, count: usize) {
    if ctx.shard.0 == 0 {
        hugesums(ctx);
    }
    roff_line(ctx, &[]);
    sunion_line(ctx, &[]);
    for a in 0..=255u8 {
        usel_line(ctx, a);
        legacy_word_line(ctx, a as usize, &[a]);
        legacy_word_line(ctx, (a as usize) << 8, &[0, a, 0, 0]);
        legacy_word_line(ctx, (a as usize) << 24, &[a, 0, 0, 0, 1]);
        legacy_word_line(ctx, 0xffff_ff00 | a as usize, &[0, 0, 0, a]);
        sunion_line(ctx, &[a]);
        sunion_line(ctx, &[a, 0x55]);
        sunion_line(ctx, &[a, 1, 2, 3]);
        roff_line(ctx, &[a]);
        roff_line(ctx, &[a, 1, 2]);
        roff_line(ctx, &[1, 2, 3, a]);
        roff_line(ctx, &[a, 0, 0, 0, 9]);
    }
    for _ in 0..count {
        let n = ctx.rng.below(9);
        let b = ctx.rng.bytes(n);
        roff_line(ctx, &b);
        sunion_line(ctx, &b);
        let w = (ctx.rng.next() & 0xffff_ffff) as usize;
        legacy_word_line(ctx, w, &b);
    }
}

// ---------------------------------------------------------------------------------------------
// Decoder builder histories

fn gen_regs(r: &mut Rng, max_items: usize) -> Vec<(bool, usize)> {
    let n = r.below(max_items + 1);
    (0..n)
        .map(|_| {
            if r.chance(2, 5) {
                (false, *r.pick(&[4usize, 0, 1, 7, usize::MAX]))
            } else {
                let l = match r.below(12) {
                    0 => 0,
                    1 => 1,
                    2 => 2,
                    3 => 4,
                    4 => 5,
                    5 => 8,
                    6 => 1usize << 32,
                    7 => 1usize << 63,
                    8 => usize::MAX,
                    9 => usize::MAX - 3,
                    _ => r.below(7),
                };
                (true, l)
            }
        })
        .collect()
}

fn valid_layout(r: &mut Rng, regs: &[(bool, usize)]) -> Vec<u8> {
    let fixed_total: usize = regs
        .iter()
        .map(|(f, l)| if *f { std::cmp::min(*l, 16) } else { 4 })
        .sum();
    let mut fixed = vec![];
    let mut var = vec![];
    for (f, l) in regs {
        if *f {
            let l = std::cmp::min(*l, 16);
            fixed.extend(r.bytes(l));
        } else {
            let off = (fixed_total + var.len()) as u32;
            fixed.extend_from_slice(&off.to_le_bytes());
            let k = r.below(5);
            var.extend(r.bytes(k));
        }
    }
    fixed.extend(var);
    fixed
}

fn regs_str(regs: &[(bool, usize)]) -> String {
    if regs.is_empty() {
        return "-".into();
    }
    regs.iter()
        .map(|(f, l)| if *f { format!("f:{}", l) } else { format!("v:{}", l) })
        .collect::<Vec<_>>()
        .join(",")
}

pub fn run_builder(regs: &[(bool, usize)], bytes: &[u8]) -> String {
    run_builder_v(regs, bytes, 0)
}

/// `variant` chooses, item by item, between the parameterized entry points and the typed ones
/// (`register_type::<T>`, `register_anonymous_variable_length_item`, `decode_next::<T>`) where a
/// real type with the same metadata exists; the observable result must not depend on it.
pub fn run_builder_v(regs: &[(bool, usize)], bytes: &[u8], variant: u64) -> String {
    let res = catch(|| -> Result<Vec<Vec<u8>>, DecodeError> {
        let mut b = SszDecoderBuilder::new(bytes);
        for (i, (f, l)) in regs.iter().enumerate() {
            let typed = (variant >> (2 * (i % 32))) & 3;
            match (*f, *l, typed) {
                (false, 4, 1) => b.register_anonymous_variable_length_item()?,
                (false, 4, 2) => b.register_type::<Vec<u8>>()?,
                (true, 1, 1) => b.register_type::<u8>()?,
                (true, 2, 1) => b.register_type::<u16>()?,
                (true, 4, 1) => b.register_type::<[u8; 4]>()?,
                (true, 8, 1) => b.register_type::<u64>()?,
                (true, 0, 1) => b.register_type::<[u8; 0]>()?,
                _ => b.register_type_parameterized(*f, *l)?,
            }
        }
        let mut d = b.build()?;
        let mut out = vec![];
        for (i, (f, _)) in regs.iter().enumerate() {
            let typed = (variant >> (2 * (i % 32))) & 3;
            if !*f && typed == 3 {
                // Vec<u8> decodes to exactly its slice
                out.push(d.decode_next::<Vec<u8>>()?);
            } else {
                out.push(d.decode_next_with(|s| Ok(s.to_vec()))?);
            }
        }
        Ok(out)
    });
    match res {
        Caught::Val(Ok(slices)) => format!(
            "ok {}",
            slices.iter().map(|s| hex(s)).collect::<Vec<_>>().join(",")
        ),
        Caught::Val(Err(_)) => "err".into(),
        Caught::Panic => "panic".into(),
    }
}

pub fn builder_case(ctx: &mut Ctx, regs: &[(bool, usize)], bytes: &[u8]) {
    let variant = ctx.rng.next();
    let r = run_builder_v(regs, bytes, variant);
    ctx.line(&format!("builder\t{}\t{}\t{}", regs_str(regs), hex(bytes), r));
}

/// The decoder driven leniently: closures fail for the items picked by `mask` and the caller goes on.  Each call
/// consumes one item whether or not its closure succeeds, so every later item is still handed exactly its own bytes.
pub fn builder_lenient_case(ctx: &mut Ctx, regs: &[(bool, usize)], bytes: &[u8], mask: u64) {
    let res = catch(|| -> Result<Vec<Option<Vec<u8>>>, DecodeError> {
        let mut b = SszDecoderBuilder::new(bytes);
        for (f, l) in regs.iter() {
            b.register_type_parameterized(*f, *l)?;
        }
        let mut d = b.build()?;
        let mut out = vec![];
        for i in 0..regs.len() {
            let fail = (mask >> (i % 64)) & 1 == 1;
            let r: Result<Vec<u8>, DecodeError> =
                d.decode_next_with(|s| if fail { Err(DecodeError::BytesInvalid("refused by the caller".into())) } else { Ok(s.to_vec()) });
            out.push(r.ok());
        }
        Ok(out)
    });
    let r = match res {
        Caught::Val(Ok(slices)) => format!(
            "ok {}",
            slices.iter().map(|s| match s { Some(x) => hex(x), None => "x".to_string() }).collect::<Vec<_>>().join(",")
        ),
        Caught::Val(Err(_)) => "err".into(),
        Caught::Panic => "panic".into(),
    };
    ctx.line(&format!("builderl\t{}\t{}\t{}\t{}", regs_str(regs), hex(bytes), mask, r));
}

pub fn builders(ctx: &mut Ctx, count: usize, max_items: usize) {
    // corpus-like fixed cases
    builder_case(ctx, &[], &[]);
    builder_case(ctx, &[], &[1]);
    builder_case(ctx, &[(true, 2), (true, usize::MAX)], &[1, 2, 3]);
    builder_case(ctx, &[(true, 1), (true, usize::MAX)], &[1]);
    builder_case(ctx, &[(false, 4)], &[4, 0, 0, 0]);
    builder_case(ctx, &[(false, 4)], &[4, 0, 0, 0, 9]);
    builder_case(ctx, &[(false, 4)], &[5, 0, 0, 0, 9]);
    builder_case(ctx, &[(false, 4), (false, 4)], &[8, 0, 0, 0, 8, 0, 0, 0]);
    builder_case(ctx, &[(false, 4), (false, 4)], &[8, 0, 0, 0, 9, 0, 0, 0, 7]);
    builder_case(ctx, &[(false, 4), (false, 4)], &[8, 0, 0, 0, 7, 0, 0, 0, 7]);
    for _ in 0..count {
        let mut r = ctx.rng.clone();
        let regs = gen_regs(&mut r, max_items);
        let base = valid_layout(&mut r, &regs);
        let bytes = match r.below(10) {
            0..=3 => base,
            4..=7 => mutate(&mut r, &base),
            8 => grammar(&mut r),
            _ => {
                let n = r.below(24);
                r.bytes(n)
            }
        };
        let lenient = r.chance(1, 4);
        let mask = (r.next() & r.next()) >> 1;
        ctx.rng = r;
        builder_case(ctx, &regs, &bytes);
        if lenient && !regs.is_empty() {
            builder_lenient_case(ctx, &regs, &bytes, mask);
        }
    }
}

// ---------------------------------------------------------------------------------------------
// Encoder histories

/// One encoder driven through two rounds (fields, `finalize`, more fields, `finalize`): the second round must write
/// exactly what a fresh encoder with the same fixed length would, whatever the first round emitted.
fn encoder_two_rounds(ctx: &mut Ctx) {
    let mut r = ctx.rng.clone();
    let plen = *r.pick(&[0usize, 0, 1, 4, 9]);
    let prefix = r.bytes(plen);
    let mut rounds: Vec<Vec<(bool, Vec<u8>)>> = vec![];
    for _ in 0..2 {
        let n = r.below(5);
        rounds.push((0..n).map(|_| { let f = r.chance(1, 2); let k = r.below(5); (f, r.bytes(k)) }).collect());
    }
    let natural: usize = rounds[0].iter().map(|(f, b)| if *f { b.len() } else { 4 }).sum();
    let nf = if r.chance(3, 4) { natural } else { r.below(24) };
    ctx.rng = r;
    let mut buf = prefix.clone();
    {
        let mut e = SszEncoder::container(&mut buf, nf);
        for items in &rounds {
            for (f, b) in items {
                e.append_parameterized(*f, |out| out.extend_from_slice(b));
            }
            e.finalize();
        }
    }
    let show = |items: &Vec<(bool, Vec<u8>)>| if items.is_empty() { "-".to_string() } else {
        items.iter().map(|(f, b)| format!("{}:{}", if *f { "f" } else { "v" }, hex(b))).collect::<Vec<_>>().join(",")
    };
    ctx.line(&format!("encoder2\t{}\t{}\t{}\t{}\t{}", hex(&prefix), nf, show(&rounds[0]), show(&rounds[1]), hex(&buf)));
}

pub fn encoders(ctx: &mut Ctx, count: usize) {
    for _ in 0..std::cmp::max(4, count / 8) {
        encoder_two_rounds(ctx);
    }
    for _ in 0..count {
        let mut r = ctx.rng.clone();
        let plen = *r.pick(&[0usize, 0, 1, 3, 4, 7, 255]);
        let prefix = r.bytes(plen);
        let n = r.below(7);
        let items: Vec<(bool, Vec<u8>)> = (0..n)
            .map(|_| {
                let f = r.chance(1, 2);
                let k = r.below(6);
                (f, r.bytes(k))
            })
            .collect();
        let natural: usize = items.iter().map(|(f, b)| if *f { b.len() } else { 4 }).sum();
        let nf = if r.chance(3, 4) { natural } else { r.below(40) };
        ctx.rng = r;
        let mut buf = prefix.clone();
        {
            // items enter either through append_parameterized or through append(&T) with a real
            // Encode value of the same bytes (Vec<u8> for variable items, u16/u32/u64 for fixed ones)
            let mut e = SszEncoder::container(&mut buf, nf);
            for (f, b) in &items {
                let plain = ctx.rng.chance(1, 2);
                if plain && !*f {
                    e.append(&b.clone());
                } else if plain && *f && b.len() == 2 {
                    e.append(&u16::from_le_bytes([b[0], b[1]]));
                } else if plain && *f && b.len() == 4 {
                    e.append(&u32::from_le_bytes([b[0], b[1], b[2], b[3]]));
                } else {
                    e.append_parameterized(*f, |out| out.extend_from_slice(b));
                }
            }
            e.finalize();
        }
        let items_s = if items.is_empty() {
            "-".to_string()
        } else {
            items
                .iter()
                .map(|(f, b)| format!("{}:{}", if *f { "f" } else { "v" }, hex(b)))
                .collect::<Vec<_>>()
                .join(",")
        };
        ctx.line(&format!(
            "encoder\t{}\t{}\t{}\t{}",
            hex(&prefix),
            nf,
            items_s,
            hex(&buf)
        ));
    }
}

// ---------------------------------------------------------------------------------------------
// decode_list_of_variable_length_items with a counting item type and fallible collections

thread_local! {
    static PROBE_CALLS: Cell<usize> = Cell::new(0);
}

/// Decodes as `Vec<u16>` and counts how often its decoder is invoked.
#[derive(Debug, PartialEq, Clone)]
pub struct Probe(pub Vec<u16>);
impl Decode for Probe {
    fn is_ssz_fixed_len() -> bool {
        false
    }
    fn from_ssz_bytes(bytes: &[u8]) -> Result<Self, DecodeError> {
        PROBE_CALLS.with(|c| c.set(c.get() + 1));
        Vec::<u16>::from_ssz_bytes(bytes).map(Probe)
    }
}

/// Pulls every item, then refuses more than K.
pub struct Bounded<const K: usize>(pub Vec<Probe>);
impl<const K: usize> TryFromIter<Probe> for Bounded<K> {
    type Error = String;
    fn try_from_iter<I: IntoIterator<Item = Probe>>(iter: I) -> Result<Self, String> {
        let v: Vec<Probe> = iter.into_iter().collect();
        if v.len() > K {
            Err(format!("more than {} items", K))
        } else {
            Ok(Bounded(v))
        }
    }
}
/// Refuses without pulling anything.
pub struct Refusing;
impl TryFromIter<Probe> for Refusing {
    type Error = String;
    fn try_from_iter<I: IntoIterator<Item = Probe>>(_iter: I) -> Result<Self, String> {
        Err("refused".into())
    }
}

fn probes_model(v: &[Probe]) -> String {
    let mut s = String::from("(l");
    for p in v {
        s.push(' ');
        s.push_str(&p.0.to_model());
    }
    s.push(')');
    s
}

fn listvar_run(kind: &str, bytes: &[u8], max: Option<usize>) -> (String, usize, usize) {
    PROBE_CALLS.with(|c| c.set(0));
    alloc_count::start();
    let res: Caught<Result<String, DecodeError>> = match kind {
        "vec" => catch(|| {
            ssz::decode_list_of_variable_length_items::<Probe, Vec<Probe>>(bytes, max)
                .map(|v| probes_model(&v))
        }),
        "bounded:0" => catch(|| {
            ssz::decode_list_of_variable_length_items::<Probe, Bounded<0>>(bytes, max)
                .map(|v| probes_model(&v.0))
        }),
        "bounded:1" => catch(|| {
            ssz::decode_list_of_variable_length_items::<Probe, Bounded<1>>(bytes, max)
                .map(|v| probes_model(&v.0))
        }),
        "bounded:2" => catch(|| {
            ssz::decode_list_of_variable_length_items::<Probe, Bounded<2>>(bytes, max)
                .map(|v| probes_model(&v.0))
        }),
        "bounded:3" => catch(|| {
            ssz::decode_list_of_variable_length_items::<Probe, Bounded<3>>(bytes, max)
                .map(|v| probes_model(&v.0))
        }),
        _ => catch(|| {
            ssz::decode_list_of_variable_length_items::<Probe, Refusing>(bytes, max)
                .map(|_| "(l)".to_string())
        }),
    };
    let (_peak, largest) = alloc_count::stop();
    let calls = PROBE_CALLS.with(|c| c.get());
    let r = match res {
        Caught::Val(Ok(m)) => format!("ok {}", m),
        Caught::Val(Err(_)) => "err".into(),
        Caught::Panic => "panic".into(),
    };
    (r, calls, largest)
}

fn gen_listvar_bytes(r: &mut Rng) -> Vec<u8> {
    // a valid Vec<Vec<u16>> encoding, possibly mutated; or grammar; or announced-count attack
    let n = r.below(6);
    let items: Vec<Vec<u16>> = (0..n)
        .map(|_| {
            let k = r.below(4);
            (0..k).map(|_| r.next() as u16).collect()
        })
        .collect();
    let base = items.as_ssz_bytes();
    match r.below(10) {
        0..=4 => base,
        5..=6 => mutate(r, &base),
        7 => grammar(r),
        8 => {
            // first word announces many items
            let len = 4 + 4 * r.below(8);
            let mut b = r.bytes(len);
            let w = *r.pick(&[len as u32, (len as u32) + 4, 1 << 16, 1 << 20, 1 << 24, 0xffff_fffc, 8, 12, (len as u32) + 8, 4 * (len as u32)]);
            b[0..4].copy_from_slice(&w.to_le_bytes());
            b
        }
        _ => {
            let n = r.below(16);
            r.bytes(n)
        }
    }
}

pub fn listvars(ctx: &mut Ctx, count: usize) {
    let kinds = ["vec", "vec", "bounded:0", "bounded:1", "bounded:2", "bounded:3", "refusing"];
    let mut cases: Vec<Vec<u8>> = vec![];
    for _ in 0..7 {
        cases.push(vec![]);
    }
    for _ in 0..7 {
        cases.push(vec![4, 0, 0, 0]);
    }
    for _ in 0..7 {
        cases.push(vec![8, 0, 0, 0, 8, 0, 0, 0]);
    }
    for _ in 0..count {
        let mut r = ctx.rng.clone();
        cases.push(gen_listvar_bytes(&mut r));
        ctx.rng = r;
    }
    for (ci, bytes) in cases.into_iter().enumerate() {
        let announced = if bytes.len() >= 4 {
            (u32::from_le_bytes([bytes[0], bytes[1], bytes[2], bytes[3]]) / 4) as usize
        } else {
            0
        };
        // the fixed corpus (empty input, minimal tables) meets every collection kind
        let kind = if ci < 21 { kinds[ci % 7] } else { *ctx.rng.pick(&kinds) };
        let mut limits: Vec<Option<usize>> = vec![None, Some(0)];
        for m in [announced.wrapping_sub(1), announced, announced + 1] {
            if m < (1 << 40) {
                limits.push(Some(m));
            }
        }
        // limits are caller-supplied numbers too: "unbounded" spelled as a huge limit, and limits
        // whose size in bytes does not fit a usize
        if ci % 3 == 0 {
            let big = [1usize << 20, 1 << 30, 1 << 32, usize::MAX / 4, usize::MAX / 4 + 1, 1 << 62, 1 << 63, usize::MAX - 1, usize::MAX];
            limits.push(Some(*ctx.rng.pick(&big)));
            limits.push(Some(*ctx.rng.pick(&big)));
        }
        let (unlim, _, _) = listvar_run(kind, &bytes, None);
        for max in limits {
            // announce the case before running it: an abort is attributed to the last line
            ctx.line(&format!(
                "#pre\tlistvar\t{}\t{}\t{}",
                kind,
                max.map(|m| m.to_string()).unwrap_or_else(|| "none".into()),
                hex(&bytes)
            ));
            let _ = ctx.out.flush();
            let (res, calls, largest) = listvar_run(kind, &bytes, max);
            let maxs = max.map(|m| m.to_string()).unwrap_or_else(|| "none".into());
            ctx.line(&format!(
                "listvar\t(list (uint 2))\t{}\t{}\t{}\t{}\t{}\t{}",
                kind,
                maxs,
                hex(&bytes),
                res,
                calls,
                largest
            ));
            if let Some(m) = max {
                if bytes.len() >= 4 {
                    ctx.line(&format!(
                        "lvsame\t(list (uint 2))\t{}\t{}\t{}\t{}\t{}",
                        hex(&bytes),
                        m,
                        res,
                        unlim,
                        announced
                    ));
                }
            }
        }
    }
}
