//! splitmix64: every random choice of the harness derives from one seed.
#[derive(Clone)]
pub struct Rng(pub u64);

impl Rng {
    pub fn new(seed: u64) -> Self {
        Rng(seed ^ 0x9E37_79B9_7F4A_7C15)
    }
    pub fn next(&mut self) -> u64 {
        self.0 = self.0.wrapping_add(0x9E37_79B9_7F4A_7C15);
        let mut z = self.0;
        z = (z ^ (z >> 30)).wrapping_mul(0xBF58_476D_1CE4_E5B9);
        z = (z ^ (z >> 27)).wrapping_mul(0x94D0_49BB_1331_11EB);
        z ^ (z >> 31)
    }
    /// uniform in 0..n (n > 0)
    pub fn below(&mut self, n: usize) -> usize {
        (self.next() % (n as u64)) as usize
    }
    pub fn chance(&mut self, num: usize, den: usize) -> bool {
        self.below(den) < num
    }
    pub fn byte(&mut self) -> u8 {
        self.next() as u8
    }
    pub fn bytes(&mut self, n: usize) -> Vec<u8> {
        (0..n).map(|_| self.byte()).collect()
    }
    pub fn pick<'a, T>(&mut self, xs: &'a [T]) -> &'a T {
        &xs[self.below(xs.len())]
    }
    /// boundary-biased u128 below 2^bits
    pub fn uint(&mut self, bits: u32) -> u128 {
        let max: u128 = if bits >= 128 { u128::MAX } else { (1u128 << bits) - 1 };
        match self.below(12) {
            0 => 0,
            1 => 1,
            2 => max,
            3 => max - 1,
            4 => (self.next() as u128) & max & 0xff,
            // structured values: a single bit, a run of low bits, whole bytes / 64-bit digits zeroed
            // (an encoder that special-cases zero bytes, digits or leading zeros shows on these only)
            5 => (1u128 << self.below(bits.min(128) as usize)) & max,
            6 => ((1u128 << self.below(bits.min(128) as usize)) - 1) & max,
            7 => self.sparse(16) & max,
            8 => {
                let lo = if self.below(2) == 0 { 0 } else { self.next() as u128 };
                let hi = if self.below(3) == 0 { 0 } else { self.next() as u128 };
                ((hi << 64) | lo) & max
            }
            _ => (((self.next() as u128) << 64) | self.next() as u128) & max,
        }
    }
    /// `n` random bytes (n <= 16), each zeroed with probability 1/2, as a little-endian number
    pub fn sparse(&mut self, n: usize) -> u128 {
        let mut v: u128 = 0;
        for i in 0..n {
            if self.below(2) == 0 {
                v |= ((self.next() & 0xff) as u128) << (8 * i);
            }
        }
        v
    }
    /// a 256-bit value as four 64-bit digits (least significant first), structured like `uint`
    pub fn limbs4(&mut self) -> [u64; 4] {
        let mut l = [0u64; 4];
        match self.below(4) {
            0 => l[self.below(4)] = 1u64 << self.below(64),
            1 => {
                for d in l.iter_mut() {
                    *d = match self.below(3) { 0 => 0, 1 => self.next(), _ => self.sparse(8) as u64 };
                }
            }
            2 => {
                let k = self.below(4);
                for (i, d) in l.iter_mut().enumerate() {
                    *d = if i == k { 0 } else { u64::MAX };
                }
            }
            _ => {
                let k = self.below(4);
                l[k] = self.next() | 1;
            }
        }
        l
    }
}
