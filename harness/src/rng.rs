//! splitmix64: every random choice of the harness derives from one seed.
#[derive(Clone)]
pub struct Rng(pub u64);

impl Rng {
    pub fn new(seed: u64) -> Self {
        Rng(seed ^ 0x9E37_79B9_7F4A_7C15)
    }
    pub fn next(&mut self) -> u64 {
        self.0 = self.0.wrapping_add(0x9E37_79B9_7F4A_7C15);
        let mut z = self.0;
        z = (z ^ (z >> 30)).wrapping_mul(0xBF58_476D_1CE4_E5B9);
        z = (z ^ (z >> 27)).wrapping_mul(0x94D0_49BB_1331_11EB);
        z ^ (z >> 31)
    }
    /// uniform in 0..n (n > 0)
    pub fn below(&mut self, n: usize) -> usize {
        (self.next() % (n as u64)) as usize
    }
    pub fn chance(&mut self, num: usize, den: usize) -> bool {
        self.below(den) < num
    }
    pub fn byte(&mut self) -> u8 {
        self.next() as u8
    }
    pub fn bytes(&mut self, n: usize) -> Vec<u8> {
        (0..n).map(|_| self.byte()).collect()
    }
    pub fn pick<'a, T>(&mut self, xs: &'a [T]) -> &'a T {
        &xs[self.below(xs.len())]
    }
    /// boundary-biased u128 below 2^bits
    pub fn uint(&mut self, bits: u32) -> u128 {
        let max: u128 = if bits >= 128 { u128::MAX } else { (1u128 << bits) - 1 };
        match self.below(8) {
            0 => 0,
            1 => 1,
            2 => max,
            3 => max - 1,
            4 => (self.next() as u128) & max & 0xff,
            _ => (((self.next() as u128) << 64) | self.next() as u128) & max,
        }
    }
}
