#!/usr/bin/env python3
"""Writes GenEquivTupleN.v: the per-arity proofs (5..12) that the tuple impls rustc expands the crate to are the
model's container codec.  The proofs are the arity-3 / arity-4 proofs of GenEquivTuple.v unrolled mechanically
(linear in the arity: no case split over the components' size classes)."""
import sys
L = "ABCDEFGHIJKL"

def proj(n, k, p="p"):
    # component k of a left-nested n-tuple p
    t = p
    for _ in range(n - 1 if k == 0 else n - 1 - k):
        t = "(fst %s)" % t
    if k > 0:
        t = "(snd %s)" % t
    return t

def gen(n):
    ts = ["t" + c for c in L[:n]]
    vs = [c.lower() + "v" for c in L[:n]]
    out = []
    tl = "; ".join(ts)
    # ---- decode
    dargs = " ".join("(d_is_fixed %s) (d_fixed_len %s) (dec %s)" % (t, t, t) for t in ts)
    ptype = " * ".join(["val"] * n)
    inj = "; ".join(proj(n, k) for k in range(n))
    out.append("Theorem gen_tuple%d_from_ssz_bytes %s bs :" % (n, " ".join(ts)))
    out.append("  omap (fun p : %s => VCont [%s])" % (ptype, inj))
    out.append("    (GenD.tuple%d_from_ssz_bytes %s bs)" % (n, dargs))
    out.append("  = dec (TContainer false [%s]) bs." % tl)
    out.append("Proof.")
    out.append("  unfold GenD.tuple%d_from_ssz_bytes. unfold Gen.builder_new. cbn [bind]." % n)
    out.append("  rewrite dec_container. cbn [andb]. unfold regs_of. cbn [map]. unfold builder_build. cbn [register_all].")
    out.append("  set (s0 := {| Gen.SszDecoderBuilder_bytes := bs; Gen.SszDecoderBuilder_items := []; Gen.SszDecoderBuilder_offsets := []; Gen.SszDecoderBuilder_items_index := 0 |}).")
    out.append("  change builder_new with (st_abs s0).")
    out.append("  replace bs with (Gen.SszDecoderBuilder_bytes s0) by reflexivity.")
    prev = "s0"
    for k, t in enumerate(ts):
        sfx = "" if k == 0 else str(k - 1)
        out.append("  reg_step2 %s (d_is_fixed %s) (d_fixed_len %s). rewrite <- Es%s, <- Eb%s." % (prev, t, t, sfx, sfx))
        prev = "s" if k == 0 else "s%d" % k
    out.append("  build_step %s." % prev)
    out.append("  cbn [decode_all].")
    items = "its"
    for k, t in enumerate(ts):
        out.append("  dec_step0 %s %s." % (items, t))
        items = "itm" if k == 0 else "itm%d" % (k - 1)
    out.append("  reflexivity.")
    out.append("Qed.\n")
    # ---- append
    eargs = " ".join("(e_is_fixed %s) (e_fixed_len %s) (app_of %s)" % (t, t, t) for t in ts)
    fsum = " + ".join("e_fixed_len %s" % t for t in ts)
    vsum = " + ".join("len (enc %s %s)" % (ts[k], vs[k]) for k in range(n - 1))
    out.append("Theorem gen_tuple%d_ssz_append %s %s buf :" % (n, " ".join(ts), " ".join(vs)))
    out.append("  %s + %s <= usize_max ->" % (fsum, vsum))
    out.append("  GenD.tuple%d_ssz_append %s (%s) buf" % (n, eargs, ", ".join(vs)))
    out.append("  = Ok (append (TContainer false [%s]) (VCont [%s]) buf)." % (tl, "; ".join(vs)))
    out.append("Proof.")
    out.append("  intro H. unfold GenD.tuple%d_ssz_append, app_of. cbn [fst snd]." % n)
    acc = "e_fixed_len %s" % ts[0]
    for k in range(1, n):
        acc = acc + " + e_fixed_len %s" % ts[k]
        out.append("  unfold usize_add at 1. destruct (%s <=? usize_max) eqn:E%d; [|apply N.leb_gt in E%d; lia]. cbn [bind]." % (acc, k, k))
    out.append("  unfold usize_add at 1. destruct (%s + 0 <=? usize_max) eqn:E%d; [|apply N.leb_gt in E%d; lia]. cbn [bind]." % (acc, n, n))
    out.append("  unfold Gen.encoder_container. cbn [bind].")
    out.append("  set (F := %s + 0)." % acc)
    out.append("  set (s0 := {| Gen.SszEncoder_offset := F; Gen.SszEncoder_buf := buf; Gen.SszEncoder_variable_bytes := [] |}).")
    out.append("  assert (V0 : len (e_var (enc_abs s0)) = 0) by reflexivity. assert (O0 : e_offset (enc_abs s0) = F) by reflexivity.")
    for k in range(n):
        out.append("  destruct (append_item_ok (e_is_fixed %s) (append %s) s%d %s) as (s%d & -> & A%d); [unfold F in *; lia|]. cbn [bind]." % (ts[k], ts[k], k, vs[k], k + 1, k + 1))
        if k < n - 1:
            out.append("  pose proof (enc_append_var_len (enc_abs s%d) (e_is_fixed %s) %s %s) as V%d. rewrite <- A%d in V%d." % (k, ts[k], ts[k], vs[k], k + 1, k + 1, k + 1))
            out.append("  assert (O%d : e_offset (enc_abs s%d) = F) by (rewrite A%d, enc_append_offset; exact O%d)." % (k + 1, k + 1, k + 1, k))
    out.append("  rewrite finalize_bind, %s. f_equal." % ", ".join("A%d" % k for k in range(n, 0, -1)))
    out.append("  rewrite append_container. unfold enc_run, cont_items. cbn [combine map fold_left fst snd sumN].")
    nested = "0"
    for t in reversed(ts):
        nested = "e_fixed_len %s + %s" % (t, nested) if nested == "0" else "e_fixed_len %s + (%s)" % (t, nested)
    out.append("  replace (%s) with F by (unfold F; lia)." % nested)
    out.append("  reflexivity.")
    out.append("Qed.\n")
    out.append("Print Assumptions gen_tuple%d_from_ssz_bytes." % n)
    out.append("Print Assumptions gen_tuple%d_ssz_append.\n" % n)
    return "\n".join(out)

def rnest(items, op, unit):
    t = unit
    for x in reversed(items):
        t = "%s %s %s" % (x, op, t) if t == unit else "%s %s (%s)" % (x, op, t)
    return t

def gen_meta(n):
    ts = ["t" + c for c in L[:n]]
    vs = [c.lower() + "v" for c in L[:n]]
    tl = "; ".join(ts)
    out = []
    for side, pre in (("enc", "e"), ("dec", "d")):
        fsum = " + ".join("%s_fixed_len %s" % (pre, t) for t in ts)
        flags = ["%s_is_fixed %s" % (pre, t) for t in ts]
        out.append("Theorem gen_tuple%d_%s_metadata %s :" % (n, side, " ".join(ts)))
        out.append("  %s <= usize_max ->" % fsum)
        out.append("  GenD.tuple%d_%s_is_ssz_fixed_len %s = Ok (%s_is_fixed (TContainer false [%s])) /\\" % (n, side, " ".join("(%s)" % f for f in flags), pre, tl))
        out.append("  GenD.tuple%d_%s_ssz_fixed_len %s" % (n, side, " ".join("(%s_is_fixed %s) (%s_fixed_len %s)" % (pre, t, pre, t) for t in ts)))
        out.append("    = Ok (%s_fixed_len (TContainer false [%s]))." % (pre, tl))
        out.append("Proof.")
        out.append("  intro H. rewrite %s_is_fixed_container, %s_fixed_len_container. cbn [forallb map sumN]." % (pre, pre))
        out.append("  unfold GenD.tuple%d_%s_ssz_fixed_len, GenD.tuple%d_%s_is_ssz_fixed_len. cbn [bind]." % (n, side, n, side))
        out.append("  rewrite gen_BYTES_PER_LENGTH_OFFSET.")
        left = " && ".join(flags) + " && true"
        right = rnest(flags, "&&", "true")
        out.append("  replace (%s) with (%s) by (rewrite <- !andb_assoc; reflexivity)." % (left, right))
        out.append("  split; [reflexivity|].")
        out.append("  destruct (%s); [|reflexivity]." % right)
        out.append("  unfold usize_add. fits. f_equal. lia.")
        out.append("Qed.\n")
    # bytes_len
    fsum = " + ".join("e_fixed_len %s" % t for t in ts)
    lsum = " + ".join("field_len %s %s" % (ts[k], vs[k]) for k in range(n))
    flags = ["e_is_fixed %s" % t for t in ts]
    right = rnest(flags, "&&", "true")
    out.append("Theorem gen_tuple%d_ssz_bytes_len %s %s :" % (n, " ".join(ts), " ".join(vs)))
    out.append("  %s <= usize_max ->" % fsum)
    out.append("  %s <= usize_max ->" % lsum)
    out.append("  GenD.tuple%d_ssz_bytes_len %s (%s)" % (n, " ".join("(e_is_fixed %s) (e_fixed_len %s) (len_of %s)" % (t, t, t) for t in ts), ", ".join(vs)))
    out.append("  = Ok (bytes_len (TContainer false [%s]) (VCont [%s]))." % (tl, "; ".join(vs)))
    out.append("Proof.")
    out.append("  intros HF H. unfold GenD.tuple%d_ssz_bytes_len, len_of. cbn [fst snd]." % n)
    out.append("  rewrite bytes_len_container. cbn [forallb combine map sumN fst snd].")
    out.append("  destruct (gen_tuple%d_enc_metadata %s HF) as (M1 & M2)." % (n, " ".join(ts)))
    out.append("  rewrite M1. cbn [bind]. rewrite e_is_fixed_container. cbn [forallb].")
    out.append("  destruct (%s) eqn:EF." % right)
    out.append("  - rewrite M2, e_fixed_len_container. cbn [map sumN forallb]. rewrite EF. reflexivity.")
    out.append("  - rewrite gen_BYTES_PER_LENGTH_OFFSET. unfold BYTES_PER_LENGTH_OFFSET. cbv zeta. unfold field_len, BYTES_PER_LENGTH_OFFSET in H.")
    for k in range(n):
        out.append("    rewrite tuple_len_step by lia.")
    out.append("    f_equal. unfold field_len, BYTES_PER_LENGTH_OFFSET. lia.")
    out.append("Qed.\n")
    out.append("Print Assumptions gen_tuple%d_enc_metadata." % n)
    out.append("Print Assumptions gen_tuple%d_dec_metadata." % n)
    out.append("Print Assumptions gen_tuple%d_ssz_bytes_len.\n" % n)
    return "\n".join(out)

lemma = '''(** one component of [ssz_bytes_len]'s running sum, whatever its size class *)
Lemma tuple_len_step {B} (I : bool) (F bl acc : N) (k : N -> outcome B) :
  acc + (if I then F else 4 + bl) <= usize_max ->
  (do t <- (if I then Ok F else usize_add 4 bl); do s <- usize_add acc t; k s)
  = k (acc + (if I then F else 4 + bl)).
Proof.
  intro H. destruct I; cbn [bind]; unfold usize_add.
  - destruct (acc + F <=? usize_max) eqn:E; [reflexivity | apply N.leb_gt in E; lia].
  - destruct (4 + bl <=? usize_max) eqn:E1; [|apply N.leb_gt in E1; lia]. cbn [bind].
    destruct (acc + (4 + bl) <=? usize_max) eqn:E2; [reflexivity | apply N.leb_gt in E2; lia].
Qed.

'''

head = '''(** * GenEquivTupleN: the tuple impls of arity 5 to 12 (the same two macros at more repetitions), decoder,
    encoder, size metadata and [ssz_bytes_len], equal to the model's container codec for every component type.  This file is written by
    tools/gen_tuple_proofs.py: the arity-3 / arity-4 proofs of GenEquivTuple.v unrolled; no case split over the
    components' size classes, so the proofs are linear in the arity. *)
From SSZ Require Import Base RustSem Offsets Encoder Builder Types Codec CodecUnfold BaseFacts OffsetsFacts AppendFacts MetaFacts
     Generated GenEquiv GenEquivDec GenEquivEnc GenProps GeneratedDerive GenEquivDerive GenEquivDerive2 GenEquivTuple.
From Coq Require Import ZArith ZifyN ZifyBool ZifyNat Lia.
Open Scope N_scope.
Ltac Zify.zify_post_hook ::= Z.div_mod_to_equations.

'''
def gen_props(n):
    """Src_C01_tuple<n>: the round trip stated about the expanded impls themselves."""
    ts = ["t" + c for c in L[:n]]
    vs = [c.lower() + "v" for c in L[:n]]
    tl = "; ".join(ts)
    ptype = " * ".join(["val"] * n)
    inj = "; ".join(proj(n, k) for k in range(n))
    eargs = " ".join("(e_is_fixed %s) (e_fixed_len %s) (app_of %s)" % (t, t, t) for t in ts)
    dargs = " ".join("(d_is_fixed %s) (d_fixed_len %s) (dec %s)" % (t, t, t) for t in ts)
    fsum = " + ".join("e_fixed_len %s" % t for t in ts)
    vsum = " + ".join("len (enc %s %s)" % (ts[k], vs[k]) for k in range(n - 1))
    T = "(TContainer false [%s])" % tl
    V = "(VCont [%s])" % "; ".join(vs)
    tup = "(%s)" % ", ".join(vs)
    out = []
    out.append("Definition inj%d (p : %s) : val := VCont [%s]." % (n, ptype, inj))
    out.append("Lemma inj%d_inj p p' : inj%d p' = inj%d p -> p' = p." % (n, n, n))
    pat = vs[0]
    pat2 = vs[0] + "'"
    for v in vs[1:]:
        pat = "[%s %s]" % (pat, v)
        pat2 = "[%s %s']" % (pat2, v)
    out.append("Proof. destruct p as %s, p' as %s. unfold inj%d. cbn [fst snd]. intro H. injection H; intros; subst; reflexivity. Qed.\n" % (pat, pat2, n))
    out.append("Theorem Src_C01_tuple%d %s %s :" % (n, " ".join(ts), " ".join(vs)))
    out.append("  rt_type %s = true -> has_ty %s %s = true -> len (enc %s %s) < two32 ->" % (T, T, V, T, V))
    out.append("  %s + %s <= usize_max ->" % (fsum, vsum))
    out.append("  (do bs <- GenD.tuple%d_ssz_append %s %s [];" % (n, eargs, tup))
    out.append("   GenD.tuple%d_from_ssz_bytes %s bs) = Ok %s." % (n, dargs, tup))
    out.append("Proof.")
    out.append("  intros Hrt Hty Hlen Hfit.")
    out.append("  apply (src_round_trip %s inj%d" % (T, n))
    out.append("           (fun p buf => GenD.tuple%d_ssz_append %s p buf)" % (n, eargs))
    out.append("           (GenD.tuple%d_from_ssz_bytes %s) %s)." % (n, dargs, tup))
    out.append("  - intros p'. apply inj%d_inj." % n)
    out.append("  - exact Hrt.")
    out.append("  - exact Hty.")
    out.append("  - exact Hlen.")
    out.append("  - apply gen_tuple%d_ssz_append. exact Hfit." % n)
    out.append("  - intro bs. apply gen_tuple%d_from_ssz_bytes." % n)
    out.append("Qed.")
    out.append("Print Assumptions Src_C01_tuple%d.\n" % n)
    # C02: what the expanded decoder accepts, the expanded encoder writes back
    out.append("Theorem Src_C02_tuple%d %s bs p :" % (n, " ".join(ts)))
    out.append("  canon_type %s = true -> phys bs -> 2 * len bs <= usize_max ->" % T)
    out.append("  GenD.tuple%d_from_ssz_bytes %s bs = Ok p ->" % (n, dargs))
    out.append("  GenD.tuple%d_ssz_append %s p [] = Ok bs." % (n, eargs))
    out.append("Proof.")
    out.append("  intros Hc Hp HF Hr.")
    out.append("  assert (Hd : dec %s bs = Ok (inj%d p)) by (rewrite <- gen_tuple%d_from_ssz_bytes, Hr; reflexivity)." % (T, n, n))
    out.append("  destruct (canon_facts leaf_facts _ Hc bs (inj%d p) Hp Hd) as (He & Hty)." % n)
    out.append("  destruct p as %s. unfold inj%d in *. cbn [fst snd] in *." % (pat, n))
    out.append("  rewrite gen_tuple%d_ssz_append; [f_equal; exact He|]." % n)
    out.append("  pose proof (proj1 (size_facts leaf_facts _ _ Hty)) as S. rewrite bytes_len_container_sum in S by reflexivity.")
    out.append("  cbn [combine map sumN fst snd] in S. fold (enc %s %s) in He. rewrite He in S." % (T, V))
    out.append("  rewrite has_ty_container, !has_ty_fields_cons in Hty.")
    out.append("  repeat (let H := fresh \"HT\" in apply andb_prop in Hty; destruct Hty as [H Hty]).")
    hts = ["HT"] + ["HT%d" % k for k in range(n - 1)]
    for k in range(n - 1):
        out.append("  pose proof (field_len_ge %s %s %s)." % (ts[k], vs[k], hts[k]))
    for k in range(n):
        out.append("  pose proof (fixed_len_le_field_len %s %s)." % (ts[k], vs[k]))
    # the atoms are abstracted first: zify is slow on the unabstracted terms (37 s at arity 9, 0.1 s after)
    out.append("  clear Hc Hp Hr Hd He Hty. repeat match goal with H : has_ty _ _ = true |- _ => clear H end.")
    out.append("  repeat match goal with |- context [len (enc ?t ?v)] => let x := fresh \"x\" in set (x := len (enc t v)) in *; clearbody x end.")
    out.append("  repeat match goal with H : context [field_len ?t ?v] |- _ => let y := fresh \"y\" in set (y := field_len t v) in *; clearbody y end.")
    out.append("  repeat match goal with |- context [e_fixed_len ?t] => let z := fresh \"z\" in set (z := e_fixed_len t) in *; clearbody z end.")
    out.append("  lia.")
    out.append("Qed.")
    out.append("Print Assumptions Src_C02_tuple%d.\n" % n)
    return "\n".join(out)

head_props = '''(** * GenPropsTupleN: C01 and C02 stated about the tuple impls of arity 3 to 12 as rustc expands them: what the expanded
    encoder writes for a tuple, the expanded decoder reads back as that tuple; what the expanded decoder accepts, the
    expanded encoder writes back byte for byte -- for every choice of component type expressions.  Written by
    tools/gen_tuple_proofs.py --props. *)
From SSZ Require Import Base RustSem Offsets Encoder Builder Types Codec CodecUnfold BaseFacts OffsetsFacts AppendFacts MetaFacts
     ListDecFacts NoPanic Canon OrderFacts RoundTrip LeafIface LeafProof SizeFacts Strict
     Generated GenEquiv GenEquivDec GenEquivEnc GenProps GeneratedDerive GenEquivDerive GenEquivDerive2 GenEquivTuple GenEquivTupleN GenPropsDerive.
From Coq Require Import ZArith ZifyN ZifyBool ZifyNat Lia.
Open Scope N_scope.

(** the length of a container's encoding is the sum of its fields' shares, whatever their size classes *)
Lemma sum_fixed_is_field_len fs vs : length fs = length vs -> forallb e_is_fixed fs = true ->
  sumN (map e_fixed_len fs) = sumN (map (fun p => field_len (fst p) (snd p)) (combine fs vs)).
Proof.
  revert vs. induction fs as [|f fs IH]; intros [|v vs] Hl Hf; try discriminate; [reflexivity|].
  cbn [forallb] in Hf. apply andb_prop in Hf. destruct Hf as [Hf1 Hf2].
  cbn [combine map sumN fst snd]. unfold field_len at 1. rewrite Hf1. rewrite (IH vs); [reflexivity| cbn [length] in Hl; congruence | exact Hf2].
Qed.

Lemma bytes_len_container_sum d fs vs : length fs = length vs ->
  bytes_len (TContainer d fs) (VCont vs) = sumN (map (fun p => field_len (fst p) (snd p)) (combine fs vs)).
Proof.
  intro Hl. rewrite bytes_len_container. destruct (forallb e_is_fixed fs) eqn:E; [|reflexivity].
  apply sum_fixed_is_field_len; assumption.
Qed.

Lemma field_len_ge t v : has_ty t v = true -> len (enc t v) <= field_len t v.
Proof.
  intro Hty. unfold field_len. destruct (e_is_fixed t) eqn:EF.
  - rewrite (proj2 (size_facts leaf_facts t v Hty) EF). lia.
  - rewrite <- (proj1 (size_facts leaf_facts t v Hty)). lia.
Qed.

Lemma fixed_len_le_field_len t v : e_fixed_len t <= field_len t v.
Proof.
  unfold field_len. destruct (e_is_fixed t) eqn:EF; [lia|]. rewrite (variable_fixed_len t EF). unfold BYTES_PER_LENGTH_OFFSET. lia.
Qed.

'''

if sys.argv[1] == "--props":
    lo, hi = int(sys.argv[2]), int(sys.argv[3])
    sys.stdout.write(head_props + "\n".join(gen_props(n) for n in range(lo, hi + 1)))
    sys.exit(0)
lo, hi = int(sys.argv[1]), int(sys.argv[2])
sys.stdout.write(head + lemma + "\n".join(gen(n) + "\n" + gen_meta(n) for n in range(lo, hi + 1)))
