#!/bin/bash
# Seed regression for background use:  vp run --with-repo --timeout 6h -- tools/seeds_bg.sh [prefix]
# Runs in a snapshot of /verif against the snapshot of /repo in $VP_RUN_REPO (never /repo itself):
# applies each archived patch there, runs the checks recorded as detecting it, reverts it.
cd "$(dirname "$0")/.."
export VERIF_REPO=${VP_RUN_REPO:?needs vp run --with-repo}
[ -f $VERIF_REPO/Cargo.lock ] || cp /repo/Cargo.lock $VERIF_REPO/Cargo.lock   # untracked in /repo, so not in the snapshot
./check --setup | tail -2
ok=0; bad=0
for d in seeded/${1}*/; do
  id=$(basename $d)
  props=$(python3 -c "import json;print(' '.join(json.load(open('$d/meta.json'))['detected_by']))")
  (cd $VERIF_REPO && patch -p1 -s < $OLDPWD/$d/patch.diff) || { echo "$id PATCH-DOES-NOT-APPLY"; bad=$((bad+1)); continue; }
  for p in $props; do
    out=$(timeout 1800 ./check $p --tier quick 2>&1 | grep "^VIOLATION" | head -1)
    if [ -n "$out" ]; then echo "$id $p CAUGHT ${out#VIOLATION }"; ok=$((ok+1)); else echo "$id $p MISSED"; bad=$((bad+1)); fi
  done
  (cd $VERIF_REPO && patch -p1 -R -s < $OLDPWD/$d/patch.diff)
done
echo "caught=$ok missed=$bad"
