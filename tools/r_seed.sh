#!/bin/bash
# usage: r_seed.sh <round-dir> <id> [<extra-prop>...]   e.g. r_seed.sh /tmp/r9 C02 C04
# confirms the agent's change in its scratch worktree, then runs the property's own quick check (and extra ones) against it
D=$1; id=$2; shift; shift
p=${id:0:3}
echo "##### $id"
/verif/tools/confirm_seed.sh $D/$id $D/${id}_out 2>&1 | tail -4
/verif/tools/try_seed.sh $D/${id}_out/patch.diff $p "$@" 2>&1 | grep -v conda
