#!/bin/bash
# Re-runs every archived seeded change against the checks recorded as detecting it.
# Applies each patch to /repo, runs the quick checks, restores /repo and the evidence files.
# usage: tools/run_all_seeds.sh [seed-id-prefix]      (takes about a minute per seed)
cd /verif
rm -rf .run/evidence_backup_all && cp -r evidence .run/evidence_backup_all
ok=0; bad=0
for d in seeded/${1}*/; do
  id=$(basename $d)
  props=$(python3 -c "import json;print(' '.join(json.load(open('$d/meta.json'))['detected_by']))")
  if [ -n "$(git -C /repo status --porcelain)" ]; then echo "REPO-NOT-CLEAN"; exit 2; fi
  git -C /repo apply $d/patch.diff || { echo "$id PATCH-DOES-NOT-APPLY"; bad=$((bad+1)); continue; }
  for p in $props; do
    out=$(timeout 1800 ./check $p --tier quick 2>&1 | grep "^VIOLATION" | head -1)
    if [ -n "$out" ]; then echo "$id $p CAUGHT ${out#VIOLATION }"; ok=$((ok+1)); else echo "$id $p MISSED"; bad=$((bad+1)); fi
  done
  git -C /repo checkout -- .
done
rm -rf evidence && mv .run/evidence_backup_all evidence
rm -rf replays/*
echo "caught=$ok missed=$bad"
