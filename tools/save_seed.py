#!/usr/bin/env python3
"""save_seed.py <outdir> <seed-id> <detected_by_checks(comma)> <first-line-of-check-output>"""
import json, os, shutil, sys
out, sid, det, line = sys.argv[1:5]
dst = os.path.join("/verif/seeded", sid)
os.makedirs(dst, exist_ok=True)
shutil.copy(os.path.join(out, "patch.diff"), dst)
shutil.copy(os.path.join(out, "demo.rs"), dst)
m = json.load(open(os.path.join(out, "meta.json")))
m["confirmed_by"] = "tools/confirm_seed.sh: existing suite passes with the patch; demo fails with it and passes without it (scratch worktree)"
m["checks_run"] = ["tools/try_seed.sh %s/patch.diff %s" % (dst, " ".join(det.split(",")))]
m["detected_by"] = det.split(",")
m["check_output"] = line
json.dump(m, open(os.path.join(dst, "meta.json"), "w"), indent=1)
print("saved", dst)
