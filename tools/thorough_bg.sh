#!/bin/bash
# Thorough-tier sanity for background use:  vp run --with-repo --timeout 8h -- tools/thorough_bg.sh C01 C05 ...
# Runs the thorough command of each named property in a snapshot, on the unchanged tree: every one must exit 0.
cd "$(dirname "$0")/.."
export VERIF_REPO=${VP_RUN_REPO:?needs vp run --with-repo}
[ -f $VERIF_REPO/Cargo.lock ] || cp /repo/Cargo.lock $VERIF_REPO/Cargo.lock
./check --setup | tail -1
for p in "$@"; do
  s=$(date +%s)
  out=$(timeout 6000 ./check $p --tier thorough 2>&1 | grep -v conda | tail -3 | cut -c1-300)
  echo "$p rc=$? $(( $(date +%s) - s ))s :: $out"
done
