#!/usr/bin/env python3
"""Writes /verif/MANIFEST.json from the table below (kept next to the checks so the claims
and the machinery change together)."""
import json
import os

ROOT = os.path.dirname(os.path.dirname(os.path.abspath(__file__)))
props = [json.loads(l) for l in open(os.path.join(ROOT, "properties.jsonl"))]

CLAIMS = {
    "C01": ("Theorem C01_round_trip: for every type expression except transparent enums and lists of zero-length items, every typed value with an encoding below 2^32 bytes decodes back to itself (induction on the type algebra, Coq kernel). Tie: extracted model vs crate on generated values of ~490 catalogue types; oracle decode(encode(v)) == v on the crate.",
            "hand-written model tied by sampled correspondence; std BTreeMap/BTreeSet order and Vec behaviour assumed and tied the same way; 64-bit target"),
    "C02": ("Theorems C02_canonical / C02_injective / C02_decoded_is_typed over all canonical types and all byte strings (< 2^64 bytes). Tie: decode of valid, mutated, grammar-generated, exhaustive-short and random byte strings; oracle: crate re-encoding == input.",
            "as C01"),
    "C03": ("Theorem C03_wire_format: the implementation model's bytes equal the independent spec-style serializer of Spec.v for every typed value; Spec.v reproduces the test suite's pinned vectors. Tie + oracle: crate bytes vs extracted enc and spec_enc.",
            "Spec.v is the reference for the SSZ text and the library's documented mappings; it is hand-written"),
    "C04": ("Theorem C04_exact: dec t bs = Ok v <-> Valid t bs v for strict types and inputs below 2^32; forward theorems for maps/sets and C04_collections_at_any_depth (dec t bs = Ok v <-> some L is Valid for the entry-list view of t and v is its collection, for sets/maps nested anywhere); transparent enums = first accepting variant. Oracle: crate accept/value vs extracted valid_b, and valid encodings must be accepted.",
            "the 2^32 bound is the spec's serialization bound; the crate does not enforce it and the theorem does not claim it"),
    "C05": ("Theorem C05_decode_no_panic for every type expression and every byte string, plus the helpers, the list decoder with any limit/collection and the builder with any registration sequence: every Rust panic site is an explicit Panic branch of the model and is proved unreachable. Tie: outcome class of every decode/helper/builder call under catch_unwind; a dying harness process is attributed to its last case. Known findings (open, printed as KNOWN-FINDING): D7 stack exhaustion on a 20000-level self-referential type; D8 / D9 types whose fixed-size part exceeds usize::MAX (tuple unchecked add, derive expect), which are outside the model.",
            "partial: stack depth and allocation failure are runtime behaviour outside the model (self-referential derive inputs are not terms of the type algebra); panics inside std or third-party code the model does not mention would only be seen by the differential run"),
    "C06": ("Theorem C06_linear: the allocation account units t bs (everything the decoder may reserve, collect or copy, at every nesting level, on success and error paths) is at most ufactor t x length, for every type and byte string; C06_reserved_before_decoding (reservation and work <= len/4 whatever the first offset announces). Tie: the real allocator's peak live bytes and largest request around every decode call, under a counting global allocator, must stay below growth x element size x (account + 1) + constant, and below the same with the proved linear bound.",
            "partial by nature: the theorem is about the account; the allocator's real behaviour (Vec growth, BTree nodes, error strings) is measured, not proved; a decode that takes the process down is attributed to the announced case"),
    "C07": ("Theorems C07_*: predicted size = produced length, encode/decode side agreement, 4 for variable types, fixed types encode to and accept only their fixed length. Tie + oracle on the crate's four static functions, ssz_bytes_len and decode of other lengths.",
            "as C01"),
    "C08": ("Theorems over derive-input ASTs (Derive.v mirrors each macro branch): C08_rejected_at_compile_time (derive d = None <-> rejected d), container / transparent / enum schemas, selectors = declaration indices, and C08_behaves_as_reference (the generic C03 / C04 theorems at whatever schema derive yields). Tie: ~130 machine-written derive programs compiled with the real macro and observed by the generic harness (bytes, values, metadata, accept sets), their ASTs compared with the model's derive; 13 (quick) / 25 (thorough) tiny crates whose compile-time acceptance must match both the model and the property.",
            "the AST abstraction of a derive input (attributes, field flags, variant arities) is hand-written and is what the generator emits; generics are exercised by instantiation only"),
    "C09": ("Theorems C09_word_* (exact little-endian bijection on [0,2^32)), C09_builder_tiles (builder succeeds iff the input is tiled; slices in registration order), C09_list_tiles, C09_offsets_spelled_out. Tie: builder histories, word codec, read_offset, list decoder; oracle: an independent native-integer tiling reference.",
            "as C01; thorough tier samples the 2^32 word domain rather than enumerating it"),
    "C10": ("Theorems C10_append_only (any type, value, buffer), C10_entry_points, C10_encoder_any_history, C10_encoder_is_container. Tie + oracle: ssz_append on six prefixes vs as_ssz_bytes / ssz_encode / &T / Arc<T>; manual SszEncoder histories vs the layout reference.",
            "as C01"),
    "C11": ("Theorem C11_refinement: for every flavour, capacity and operation history the byte-level implementation machine makes exactly the observations of the boolean-sequence machine; C11_reachable_invariant; failed operations are identities. Tie + oracle: random histories on the crate vs both extracted machines, every observation after every step (including Hash input and equality).",
            "std count_ones/leading_zeros/overflowing_shr and SmallVec are modelled (N.log2, popcount, shift mod 8) and tied by the correspondence"),
    "C12": ("Theorems C12_union / intersection / difference / subset / result_lengths for every operand pair of every flavour and capacity. Tie + oracle: operand pairs over all length pairs near byte boundaries, several bit patterns each.",
            "as C11"),
    "C13": ("Theorems C13_every_path (length rule holds after any history of constructors, decoders, mutations, set operations), constructors / over-capacity / dynamic rules, decoders, from_bytes_with_len, resize. Tie + oracle on the same observations plus resize and from_bytes_with_len cases.",
            "serde decoding is covered through C18 (it calls from_ssz_bytes)"),
    "C14": ("Theorems C14_codec_is_byte_api, C14_into_bytes, C14_from_bytes and the three closed-form accept sets. Tie + oracle: exhaustive byte strings up to 1 byte (2 in the thorough tier) and random strings up to the 128-byte SmallVec spill for all 31 bitfield types: from_bytes vs from_ssz_bytes vs the accept-set reference.",
            "as C11"),
    "C15": ("Theorems C15_encode_union/option, C15_decode_union (all selectors, bodies, variant lists), rejects empty/undeclared/>127, C15_split_union_bytes, and a kernel-evaluated 128x256 grid. Tie + oracle: all 256 selectors on unions of 1,2,3,127,128 variants and Option.",
            "compile-time rejection of 0 / 129 variants is exercised under C08"),
    "C16": ("Theorems C16_over_limit (error, zero item decoders run, nothing reserved), within_limit (= unlimited), refusing, bounded, empty, count, no_panic. Tie + oracle: harness-defined call-counting item type and refusing/bounded collections, limits none,0,count-1..count+1.",
            "the collection kinds are harness-defined implementations of TryFromIter"),
    "C17": ("Theorems C17_encoding, exact_sizes, round_trip (standalone and as #[ssz(with)] field at any position), rejects_short, selectors, canonical. Tie + oracle: legacy modules over fixed and variable inner types, standalone wrappers and derived containers with 0-3 legacy fields.",
            "as C01"),
    "C18": ("Theorems C18_serialize_form, deserialize_exact, hex digit and even-length characterisation, round_trip. Tie + oracle: serde_json and serde's plain string deserializer on valid/invalid hex, case, prefix and length variants, against an independent reference.",
            "the hex crate (ethereum_serde_utils) is third-party: modelled in Hex.v, tied by this correspondence"),
    "C19": ("Theorems C19_*: maps/sets encode as the entry list, decode = list decode then collect, collection semantics (ascending, later wins), key order is a strict total order, round trip, fixed point, decode-by-collection and encode-as-entry-lists at every nesting depth (dec t = collect_rec t after dec (list_view t); enc t v = enc (list_view t) v), decoded values well typed (collections strictly ascending) and re-encoding a fixed point at every depth. Tie + oracle: maps/sets over 5 key types and 6 value types, shuffled/duplicated entry lists.",
            "BTreeMap/BTreeSet::from_iter and the Rust Ord of key types are modelled (val_cmp) and tied by the correspondence"),
    "C20": ("Theorems C20_never_panics, bitvector_valid, bitlist_valid, bitvector_reachable, bitlist_reachable. Tie + oracle: Unstructured inputs on all 30 generator types; aggregate oracle: every capacity >= 1 generated at least once.",
            "arbitrary::Unstructured::fill_buffer and usize::arbitrary are third-party: modelled, tied by this correspondence"),
}
TECH = ("Coq proof (kernel-checked theorems, no axioms) over a hand-written Gallina model; the model is tied to /repo on every run by "
        "(1) a checked model/implementation correspondence (extracted OCaml model vs a Rust harness rebuilt from the working tree) and "
        "(2) a Rust->Gallina translator (rs2v) that re-derives Gallina definitions from the source text of the codec core, the bitfield files, the leaf / generic / collection impls and the entry points, "
        "from rustc's expansion of the crate (tuple and map impls written by macro repetition) and from rustc's expansion of sample definitions (what the derive macros and four_byte_option_impl! write), "
        "each derived definition being proved equal to the model's for every input (GenEquiv*.v); a break of (2) alone is reported (TIE-DEGRADED) and widens the search, the verdict rests on the theorems, (1) and the property's direct oracle")

checks = []
for p in props:
    pid = p["id"]
    if pid in CLAIMS:
        text, note = CLAIMS[pid]
        checks.append(dict(
            property_id=pid,
            quick_cmd="./check %s --tier quick" % pid,
            thorough_cmd="./check %s --tier thorough" % pid,
            evidence_file="/verif/evidence/%s.json" % pid,
            replay_cmd_template="./check %s --replay {path}" % pid,
            engine="coq-model+correspondence",
            level_claimed=dict(category="proof", text=text, design_ref="DESIGN.md section 5 (%s)" % pid),
            level_note="trusted: Coq 8.16.1 kernel (Print Assumptions: closed under the global context), extraction with ExtrOcamlBasic only, OCaml driver, Rust harness, type generator, the rs2v translator, RustSem.v and rustc's -Zunpretty=expanded output for the two expansion ties; " + note,
            technique=TECH))
NA = {
}
m = dict(
    version=1,
    setup_cmd="./check --setup",
    hooks=dict(guard="ethereum_ssz_verif", enable="none needed: the checks observe the public API of the crate built from /repo's working tree; no hook commits exist",
               baseline_off_cmd="cd /repo && cargo test --workspace --no-fail-fast --offline", source_commits=[], add_only=True),
    engines=[dict(name="coq-model+correspondence", path="/verif/check", serves_properties=sorted(CLAIMS),
                  kind_free_text="Coq 8.16 proofs (coq/theories, property theorems in coq/theories/Properties) over a hand-written Gallina model; the model is extracted to OCaml (ocaml/driver) and run against a Rust harness (harness/) rebuilt from /repo on every check; rs2v/ re-derives the codec core, the bitfield files, the leaf / collection impls (from source text), the tuple and BTreeMap impls (from rustc's expansion of the crate) and the derive output for sample definitions (from rustc's expansion of derive_samples/) into Generated.v / GeneratedDerive.v on every check, and GenEquiv*.v / GenProps*.v prove them equal to the model for every input; srcmap.py pins every source item to the model definition that transcribes it")],
    checks=checks,
    notes="Six genuine defects were found by these checks and repaired by fix: commits in /repo (known_findings.json). VERIF_SEED seeds the single PRNG stream; VERIF_TIER or --tier selects quick/thorough.",
    not_applicable=[dict(property_id=k, reason=v) for k, v in NA.items() if k not in CLAIMS],
)
json.dump(m, open(os.path.join(ROOT, "MANIFEST.json"), "w"), indent=1)
print("claimed:", len(checks), "not claimed:", [x["property_id"] for x in m["not_applicable"]])
