#!/bin/bash
# No-false-alarm rehearsal:  vp run --with-repo --timeout 3h -- tools/harmless_bg.sh <abs patch.diff> [props...]
# Applies a behaviour-preserving refactoring to the /repo snapshot and runs every quick check
# against it: any VIOLATION line is a false alarm to be investigated.
cd "$(dirname "$0")/.."
export VERIF_REPO=${VP_RUN_REPO:?needs vp run --with-repo}
[ -f $VERIF_REPO/Cargo.lock ] || cp /repo/Cargo.lock $VERIF_REPO/Cargo.lock   # untracked in /repo, so not in the snapshot
PATCH=$1; shift
PROPS=${@:-C01 C02 C03 C04 C05 C06 C07 C08 C09 C10 C11 C12 C13 C14 C15 C16 C17 C18 C19 C20}
(cd $VERIF_REPO && patch -p1 -s < $PATCH) || { echo "PATCH-DOES-NOT-APPLY"; exit 2; }
./check --setup | tail -2
alarms=0
for p in $PROPS; do
  out=$(timeout 3000 ./check $p --tier quick 2>&1 | grep -v conda | tail -6 | cut -c1-700)
  if echo "$out" | grep -q "^VIOLATION\|CHECK-ERROR"; then echo "ALARM $p"; echo "$out"; alarms=$((alarms+1)); else echo "quiet $p: $(echo "$out" | tail -1 | cut -c1-160)"; fi
done
echo "alarms=$alarms"
