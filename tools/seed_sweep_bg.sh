#!/bin/bash
# Seed sweep on the unchanged tree:  vp run --with-repo --timeout 6h -- tools/seed_sweep_bg.sh <seed> [<seed> ...]
# Every quick check under each seed must be quiet: a VIOLATION here is a seed-dependent false alarm (or a real
# defect the default seed does not draw) and has to be investigated.
cd "$(dirname "$0")/.."
export VERIF_REPO=${VP_RUN_REPO:?needs vp run --with-repo}
[ -f $VERIF_REPO/Cargo.lock ] || cp /repo/Cargo.lock $VERIF_REPO/Cargo.lock
./check --setup | tail -1
alarms=0
for seed in "$@"; do
  for p in C01 C02 C03 C04 C05 C06 C07 C08 C09 C10 C11 C12 C13 C14 C15 C16 C17 C18 C19 C20; do
    out=$(VERIF_SEED=$seed timeout 3000 ./check $p --tier quick 2>&1 | grep -v conda | tail -6 | cut -c1-500)
    if echo "$out" | grep -q "^VIOLATION\|CHECK-ERROR"; then echo "ALARM seed=$seed $p"; echo "$out"; alarms=$((alarms+1)); else echo "quiet seed=$seed $p: $(echo "$out" | tail -1 | cut -c1-120)"; fi
  done
done
echo "alarms=$alarms"
