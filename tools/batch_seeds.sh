#!/bin/bash
# usage: batch_seeds.sh <prefix> <id>...   e.g. batch_seeds.sh /tmp/r5_ C01 C03   -- confirm then run the property's own check
PFX=$1; shift
for id in "$@"; do
  echo "##### $id"
  /verif/tools/confirm_seed.sh ${PFX}${id} ${PFX}${id}_out 2>&1 | tail -3
  p=${id:0:3}
  /verif/tools/try_seed.sh ${PFX}${id}_out/patch.diff $p 2>&1 | grep -v conda
done
