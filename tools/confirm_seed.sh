#!/bin/bash
# usage: confirm_seed.sh <worktree> <outdir>   -- confirms: suite passes with the patch, demo fails with it, passes without
set -u
WT=$1; OUT=$2
LOC=$(python3 -c "import json;print(json.load(open('$OUT/meta.json'))['demo_location'])")
FEAT=$(python3 -c "import json;f=json.load(open('$OUT/meta.json')).get('features','');print(('--features '+f) if f else '')")
PKG=$(echo $LOC | cut -d/ -f1); [ "$PKG" = "ssz" ] && CR=ethereum_ssz || CR=ethereum_ssz_derive
cd $WT || exit 2
git checkout -q -- . ; rm -f $WT/$LOC; git apply $OUT/patch.diff || { echo "PATCH-DOES-NOT-APPLY"; exit 2; }
export CARGO_NET_OFFLINE=true
SUITE=$(cargo test --workspace --offline 2>&1 | grep "test result" | grep -vc "ok\. .* 0 failed")
echo "suite_with_patch_failing_groups=$SUITE"
cp $OUT/demo.rs $WT/$LOC
cargo test -p $CR --test demo --offline $FEAT >/tmp/confirm_$$.log 2>&1; W=$?
git apply -R $OUT/patch.diff
cargo test -p $CR --test demo --offline $FEAT >/tmp/confirm2_$$.log 2>&1; WO=$?
git apply $OUT/patch.diff
rm -f $WT/$LOC
echo "demo_with_patch_rc=$W demo_without_patch_rc=$WO"
[ "$SUITE" = "0" ] && [ "$W" != "0" ] && [ "$WO" = "0" ] && echo CONFIRMED || { echo NOT-CONFIRMED; tail -5 /tmp/confirm_$$.log /tmp/confirm2_$$.log; }
rm -f /tmp/confirm_$$.log /tmp/confirm2_$$.log
