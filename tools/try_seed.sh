#!/bin/bash
# usage: try_seed.sh <patch.diff> <prop> [<prop>...]  -- applies the patch to /repo, runs the quick checks, restores /repo
PATCH=$1; shift
cd /verif
rm -rf /verif/.run/evidence_backup && cp -r /verif/evidence /verif/.run/evidence_backup
git -C /repo apply $PATCH || { echo "PATCH-DOES-NOT-APPLY"; exit 2; }
for p in "$@"; do
  echo "=== $p"; timeout 1800 ./check $p --tier quick 2>&1 | tail -4
done
git -C /repo checkout -- .
rm -rf /verif/evidence && mv /verif/.run/evidence_backup /verif/evidence
git -C /repo status --short | head -3
# the generated files were re-derived from the patched tree: re-derive them from the restored one
./check --setup > /dev/null 2>&1
