#!/bin/bash
# Candidate seeded changes, in the background:  vp run --with-repo --timeout 4h -- tools/cand_bg.sh <round-dir> <id>[:prop[,prop]] ...
# For each candidate <round-dir>/<id> (the agent's scratch worktree) with <round-dir>/<id>_out/{patch.diff,demo.rs,meta.json}:
#   1. confirms it there (suite green with the patch, demo fails with it and passes without it),
#   2. applies the patch to the snapshot of /repo in $VP_RUN_REPO (never /repo itself), runs the quick checks of the
#      property named in meta.json (or the ones given after the colon), reverts it.
cd "$(dirname "$0")/.."
export VERIF_REPO=${VP_RUN_REPO:?needs vp run --with-repo}
[ -f $VERIF_REPO/Cargo.lock ] || cp /repo/Cargo.lock $VERIF_REPO/Cargo.lock
D=$1; shift
./check --setup | tail -1
for spec in "$@"; do
  id=${spec%%:*}
  out=$D/${id}_out
  props=$(python3 -c "import json;print(json.load(open('$out/meta.json'))['property'])")
  case "$spec" in *:*) props=$(echo ${spec#*:} | tr ',' ' ');; esac
  conf=$(tools/confirm_seed.sh $D/$id $out 2>&1 | grep -E "^(CONFIRMED|NOT-CONFIRMED|PATCH-DOES-NOT-APPLY)" | head -1)
  echo "##### $id $conf"
  (cd $VERIF_REPO && patch -p1 -s < $out/patch.diff) || { echo "$id PATCH-DOES-NOT-APPLY"; continue; }
  for p in $props; do
    log=$(timeout 2400 ./check $p --tier quick 2>&1)
    v=$(echo "$log" | grep "^VIOLATION" | head -1)
    f=$(echo "$log" | grep "^failing input" | head -1 | cut -c1-300)
    t=$(echo "$log" | grep -c "^TIE-DEGRADED")
    if [ -n "$v" ]; then echo "$id $p CAUGHT tie_degraded=$t :: $f"; else echo "$id $p MISSED tie_degraded=$t :: $(echo "$log" | tail -1 | cut -c1-200)"; fi
  done
  (cd $VERIF_REPO && patch -p1 -R -s < $out/patch.diff)
done
echo DONE
