"""Per-property configuration of ./check: which harness observations are generated, which
correspondence obligations the property's theorems rely on, and which direct oracle decides it.

Correspondence obligations are scoped to the model functions the theorems of Properties/<id>.v
mention, at the granularity they need (DESIGN.md section 2.2)."""


def T(tier, quick, thorough):
    return thorough if tier == "thorough" else quick


def catalogue(tier, ops, values=(10, 60), nbytes=(60, 600), exhaustive=(1, 1), tag=None, extra=()):
    args = ["--ops", ops, "--values", str(T(tier, *values)), "--bytes", str(T(tier, *nbytes)),
            "--exhaustive", str(T(tier, *exhaustive))]
    if tag:
        args += ["--tag", tag]
    args += list(extra)
    return dict(args=args)


def special(tier, ops, count=(4000, 60000), extra=()):
    return dict(args=["--ops", ops, "--count", str(T(tier, *count) // 16)] + list(extra))


# bitfield values reached through the mutation API, observed through the codec (`bfenc` lines)
def reached(tier, count=(1600, 40000)):
    return special(tier, "bfhist", count=count)


CORR_ENC = ["corr.enc", "corr.has_ty", "corr.const"]
CORR_DEC = ["corr.dec.class", "corr.dec.value", "corr.const"]

PROPS = {
    "C01": dict(
        runs=lambda t: [catalogue(t, "enc,dec", values=(60, 400), nbytes=(0, 0), exhaustive=(0, 0)), reached(t),
                        # values that exist only through the byte-level constructor of the dynamic bitvector
                        dict(args=["--ops", "bfwithlen", "--count", str(T(t, 2000, 40000))], shards=1)],
        corr=CORR_ENC + CORR_DEC + ["corr.bf", "corr.bf.withlen"], oracle=["oracle.C01", "abort"]),
    "C02": dict(
        runs=lambda t: [catalogue(t, "dec", values=(16, 60), nbytes=(1200, 6000), exhaustive=(1, 1)),
                        catalogue(t, "dec", values=(0, 2), nbytes=(0, 0), exhaustive=(0, 2), tag="fixed")],
        corr=CORR_DEC + ["corr.enc"], oracle=["oracle.C02"]),
    "C03": dict(
        runs=lambda t: [catalogue(t, "enc", values=(80, 600), nbytes=(0, 0), exhaustive=(0, 0)), reached(t)],
        corr=CORR_ENC + ["corr.bf"], oracle=["oracle.C03", "abort"]),
    "C04": dict(
        runs=lambda t: [catalogue(t, "enc,dec", values=(16, 60), nbytes=(1200, 6000), exhaustive=(1, 1)),
                        catalogue(t, "dec", values=(0, 2), nbytes=(0, 0), exhaustive=(0, 2), tag="fixed")],
        corr=CORR_DEC + ["corr.enc", "corr.has_ty"], oracle=["oracle.C04"]),
    "C05": dict(
        runs=lambda t: [catalogue(t, "enc,dec", values=(12, 40), nbytes=(1200, 6000), exhaustive=(1, 1)),
                        special(t, "helpers,builder,listvar", count=(40000, 400000)), reached(t, (800, 20000)),
                        # bitfield capacities near 2^32, 2^63 and 2^64: metadata and short inputs only
                        dict(args=["--ops", "bfbytes", "--tag", "hugecap", "--count", str(T(t, 64, 1024))], shards=1)],
        corr=["corr.dec.class", "corr.builder", "corr.listvar", "corr.read_offset", "corr.split_union", "corr.const", "corr.bf",
              "corr.bf.bytes", "corr.meta"],
        oracle=["oracle.C05", "abort", "deep-abort"],
        deep=[(200, True), (20000, False)]),
    "C06": dict(
        runs=lambda t: [catalogue(t, "decalloc", values=(12, 40), nbytes=(200, 1500), exhaustive=(0, 0)),
                        special(t, "listvar", count=(24000, 300000))],
        corr=["corr.alloc", "corr.dec.class", "corr.listvar", "corr.const"], oracle=["oracle.C06", "abort"],
        rule="decode calls under a counting global allocator (peak live bytes, largest single request); inputs: valid encodings, "
             "mutations, offset-table grammar and strings whose offset words announce counts in {len/4+1, 2^16..2^30, 2^32-4}; "
             "non-trivial = inputs of at least 4 bytes",
        assumptions=["heap bytes <= 8 x (largest nested element size) x (units + 1) + 4096: Vec growth policy, BTree node "
                     "overhead and error-string allocations are std behaviour, measured not proved"]),
    "C07": dict(
        runs=lambda t: [catalogue(t, "meta,enc,dec", values=(40, 200), nbytes=(100, 800), exhaustive=(1, 1)), reached(t)],
        corr=["corr.meta", "corr.bytes_len", "corr.enc", "corr.has_ty", "corr.dec.class", "corr.const", "corr.bf"],
        oracle=["oracle.C07", "abort"]),
    "C08": dict(
        runs=lambda t: [catalogue(t, "meta,enc,dec,app", values=(12, 80), nbytes=(100, 1000), exhaustive=(1, 1), tag="derive"),
                        dict(args=["--ops", "derive"], shards=1)],
        corr=CORR_ENC + CORR_DEC + ["corr.meta", "corr.bytes_len", "corr.append", "corr.as_bytes", "corr.derive", "corr.derive.reject"],
        oracle=["oracle.C08", "oracle.C01", "oracle.C02", "oracle.C03", "oracle.C04", "oracle.C07", "oracle.C10", "oracle.C15"],
        cfsuite=True,
        rule="machine-written #[derive(Encode, Decode)] programs (containers with 0-8 fields, skipped fields in every position, "
             "#[ssz(with)] fields, transparent structs, unions of 1..128 variants, tag and transparent enums, generic structs) compiled "
             "with the real macro; every observation of the generic harness on them; plus one tiny crate per rejected-definition class"),
    "C09": dict(
        runs=lambda t: [special(t, "word,helpers,builder,listvar", count=(60000, 600000))],
        corr=["corr.encode_length", "corr.read_offset", "corr.builder", "corr.listvar", "corr.const"],
        oracle=["oracle.C09"]),
    "C10": dict(
        runs=lambda t: [catalogue(t, "app", values=(24, 120), nbytes=(0, 0), exhaustive=(0, 0)),
                        special(t, "encoder", count=(40000, 400000)), reached(t)],
        corr=["corr.append", "corr.as_bytes", "corr.encoder", "corr.has_ty", "corr.const", "corr.bf", "corr.enc"],
        oracle=["oracle.C10", "abort"]),
    "C15": dict(
        runs=lambda t: [catalogue(t, "enc,dec", values=(48, 200), nbytes=(80, 600), exhaustive=(1, 1), tag="union",
                                  extra=["--selectors"]),
                        special(t, "helpers", count=(2000, 50000))],
        corr=["corr.enc", "corr.has_ty", "corr.dec.class", "corr.dec.value", "corr.split_union", "corr.const"],
        oracle=["oracle.C15"]),
    "C16": dict(
        runs=lambda t: [special(t, "listvar", count=(30000, 300000))],
        corr=["corr.listvar", "corr.listvar.calls", "corr.const"], oracle=["oracle.C16"]),
    "C11": dict(
        runs=lambda t: [special(t, "bfhist", count=(16000, 200000))],
        corr=["corr.bf", "corr.enc", "corr.bytes_len", "corr.const"], oracle=["oracle.C11", "abort"],
        rule="operation histories (up to 40 operations over four registers; indices, shifts and lengths drawn "
             "around the capacity and byte boundaries) for BitList / BitVector of the 15 catalogue capacities and the "
             "dynamic flavour; every observation after every step is compared; non-trivial = every history line"),
    "C12": dict(
        runs=lambda t: [special(t, "bfpairs,bfhist", count=(8000, 120000))],
        corr=["corr.bf", "corr.const"], oracle=["oracle.C12"]),
    "C13": dict(
        runs=lambda t: [special(t, "bfhist,bfpairs,bfbytes,bfresize,bfwithlen", count=(6000, 80000))],
        corr=["corr.bf", "corr.bf.bytes", "corr.bf.resize", "corr.bf.withlen", "corr.const"], oracle=["oracle.C13"]),
    "C14": dict(
        runs=lambda t: [special(t, "bfbytes,bfwithlen", count=(3000, 60000), extra=["--exhaustive", "1"]),
                        dict(args=["--ops", "bfbytes", "--count", "16", "--exhaustive", "2"]) if t == "thorough" else
                        dict(args=["--ops", "bfwithlen", "--count", "64"], shards=1), reached(t)],
        corr=["corr.bf.bytes", "corr.bf.withlen", "corr.const", "corr.bf", "corr.enc", "corr.meta"], oracle=["oracle.C14", "abort"]),
    "C17": dict(
        runs=lambda t: [catalogue(t, "meta,enc,dec,app", values=(16, 120), nbytes=(150, 1500), exhaustive=(1, 1), tag="legacy")],
        corr=CORR_ENC + CORR_DEC + ["corr.meta", "corr.bytes_len", "corr.append", "corr.as_bytes"],
        oracle=["oracle.C01", "oracle.C02", "oracle.C03", "oracle.C04", "oracle.C07", "oracle.C10"]),
    "C18": dict(
        runs=lambda t: [special(t, "serde", count=(16000, 300000))],
        corr=["corr.serde", "corr.const"], oracle=["oracle.C18"]),
    "C20": dict(
        runs=lambda t: [special(t, "arb", count=(16000, 300000))],
        corr=["corr.arb", "corr.const"], oracle=["oracle.C20"],
        aggregate="arb_reachable"),
    "C19": dict(
        # every catalogue type that contains a map or a set anywhere (tag coll): the collection must
        # encode as its entry list, and round-trip, in every context (nested, after other fields,
        # appended to a non-empty buffer), so the generic wire-format / round-trip / append oracles
        # count for this property on these types
        runs=lambda t: [catalogue(t, "enc,dec,app", values=(16, 120), nbytes=(150, 1500), exhaustive=(1, 1), tag="coll")],
        corr=CORR_ENC + CORR_DEC + ["corr.append", "corr.as_bytes"],
        oracle=["oracle.C19", "oracle.C03", "oracle.C01", "oracle.C10"]),
}
