"""Compile-time acceptance of derive inputs (C08): one tiny crate per definition class; rustc
must reject exactly the definitions the property names (and the macro's other documented shape
requirements) and accept the neighbouring ones.  Each case carries the derive-input AST in the
syntax of Derive.v so that the OCaml driver can ask the Coq model the same question."""
import os
import shutil
import subprocess

REPO = os.environ.get("VERIF_REPO", "/repo").rstrip("/")

HEAD = """#![allow(dead_code)]
use ssz_derive::{Decode, Encode};
"""


def variants(n, payload=""):
    return "\n".join("    V%d%s," % (i, payload) for i in range(n))


def enum_defn(beh, vs):
    return "(enum 0 %s%s)" % (beh, "".join(" (v%s)" % ("".join(" " + t for t in v)) for v in vs))


U8 = "(uint 1)"
CASES = [
    # name, accepted?, quick?, source, defn
    ("union_0", False, True, '#[derive(Encode, Decode)]\n#[ssz(enum_behaviour = "union")]\nenum E {}\n', enum_defn("union", [])),
    ("union_1", True, False, '#[derive(Encode, Decode)]\n#[ssz(enum_behaviour = "union")]\nenum E {\n%s\n}\n' % variants(1, "(u8)"), enum_defn("union", [[U8]])),
    ("union_128", True, True, '#[derive(Encode, Decode)]\n#[ssz(enum_behaviour = "union")]\nenum E {\n%s\n}\n' % variants(128, "(u8)"), enum_defn("union", [[U8]] * 128)),
    ("union_129", False, True, '#[derive(Encode, Decode)]\n#[ssz(enum_behaviour = "union")]\nenum E {\n%s\n}\n' % variants(129, "(u8)"), enum_defn("union", [[U8]] * 129)),
    ("union_257", False, False, '#[derive(Encode, Decode)]\n#[ssz(enum_behaviour = "union")]\nenum E {\n%s\n}\n' % variants(257, "(u8)"), enum_defn("union", [[U8]] * 257)),
    ("union_variant_0_fields", False, False, '#[derive(Encode, Decode)]\n#[ssz(enum_behaviour = "union")]\nenum E { A(u8), B }\n', enum_defn("union", [[U8], []])),
    ("union_variant_2_fields", False, False, '#[derive(Encode, Decode)]\n#[ssz(enum_behaviour = "union")]\nenum E { A(u8), B(u8, u8) }\n', enum_defn("union", [[U8], [U8, U8]])),
    ("tag_0", False, True, '#[derive(Encode, Decode)]\n#[ssz(enum_behaviour = "tag")]\nenum E {}\n', enum_defn("tag", [])),
    ("tag_128", True, True, '#[derive(Encode, Decode)]\n#[ssz(enum_behaviour = "tag")]\nenum E {\n%s\n}\n' % variants(128), enum_defn("tag", [[]] * 128)),
    ("tag_129", False, True, '#[derive(Encode, Decode)]\n#[ssz(enum_behaviour = "tag")]\nenum E {\n%s\n}\n' % variants(129), enum_defn("tag", [[]] * 129)),
    ("tag_with_discriminants", True, True, '#[derive(Encode, Decode)]\n#[ssz(enum_behaviour = "tag")]\nenum E { A = 200, B = 3, C }\n', enum_defn("tag", [[]] * 3)),
    ("tag_variant_with_field", False, False, '#[derive(Encode, Decode)]\n#[ssz(enum_behaviour = "tag")]\nenum E { A, B(u8) }\n', enum_defn("tag", [[], [U8]])),
    ("enum_no_behaviour", False, True, '#[derive(Encode, Decode)]\nenum E { A(u8) }\n', "(enum 0 absent (v (uint 1)))"),
    ("enum_unknown_behaviour", False, False, '#[derive(Encode, Decode)]\n#[ssz(enum_behaviour = "onion")]\nenum E { A(u8) }\n', "(enum 0 other (v (uint 1)))"),
    ("enum_with_struct_behaviour", False, False, '#[derive(Encode, Decode)]\n#[ssz(struct_behaviour = "container", enum_behaviour = "union")]\nenum E { A(u8) }\n', "(enum 1 union (v (uint 1)))"),
    ("trans_enum_2", True, False, '#[derive(Encode, Decode)]\n#[ssz(enum_behaviour = "transparent")]\nenum E { A(Vec<u8>), B(Vec<u16>) }\n', enum_defn("transparent", [["(list (uint 1))"], ["(list (uint 2))"]])),
    ("struct_with_enum_behaviour", False, False, '#[derive(Encode, Decode)]\n#[ssz(enum_behaviour = "union")]\nstruct S { a: u8 }\n', "(struct 1 container 1 (f (uint 1) 0 0 0 0))"),
    ("struct_unknown_behaviour", False, False, '#[derive(Encode, Decode)]\n#[ssz(struct_behaviour = "bag")]\nstruct S { a: u8 }\n', "(struct 0 other 1 (f (uint 1) 0 0 0 0))"),
    ("container_tuple_struct", False, True, '#[derive(Encode, Decode)]\nstruct S(u8, u16);\n', "(struct 0 container 0 (f (uint 1) 0 0 0 0) (f (uint 2) 0 0 0 0))"),
    ("container_named", True, True, '#[derive(Encode, Decode)]\nstruct S { a: u8, #[ssz(skip_serializing, skip_deserializing)] b: Vec<u8>, c: Vec<u16> }\n',
     "(struct 0 container 1 (f (uint 1) 0 0 0 0) (f (list (uint 1)) 1 1 0 1) (f (list (uint 2)) 0 0 0 0))"),
    ("container_empty", True, False, '#[derive(Encode, Decode)]\nstruct S {}\n', "(struct 0 container 1)"),
    ("field_two_ssz_attrs", False, False, '#[derive(Encode, Decode)]\nstruct S { #[ssz(skip_serializing)] #[ssz(skip_deserializing)] a: u8, b: u8 }\n',
     "(struct 0 container 1 (f (uint 1) 1 1 0 2) (f (uint 1) 0 0 0 0))"),
    ("transparent_0_live", False, True, '#[derive(Encode, Decode)]\n#[ssz(struct_behaviour = "transparent")]\nstruct S { #[ssz(skip_serializing, skip_deserializing)] a: u8 }\n',
     "(struct 0 transparent 1 (f (uint 1) 1 1 0 1))"),
    ("transparent_1_live", True, True, '#[derive(Encode, Decode)]\n#[ssz(struct_behaviour = "transparent")]\nstruct S { #[ssz(skip_serializing, skip_deserializing)] a: u8, b: Vec<u8> }\n',
     "(struct 0 transparent 1 (f (uint 1) 1 1 0 1) (f (list (uint 1)) 0 0 0 0))"),
    ("transparent_2_live", False, True, '#[derive(Encode, Decode)]\n#[ssz(struct_behaviour = "transparent")]\nstruct S { a: u8, b: Vec<u8> }\n',
     "(struct 0 transparent 1 (f (uint 1) 0 0 0 0) (f (list (uint 1)) 0 0 0 0))"),
    # attributes that are not the macro's own, before / between / after `#[ssz(..)]`: they carry no SSZ meaning
    ("container_documented_skip", True, True, '#[derive(Encode, Decode)]\nstruct S { a: u8,\n    /// not on the wire\n    #[ssz(skip_serializing, skip_deserializing)]\n    b: std::marker::PhantomData<String>, c: Vec<u16> }\n',
     "(struct 0 container 1 (f (uint 1) 0 0 0 0) (f (list (uint 1)) 1 1 0 1) (f (list (uint 2)) 0 0 0 0))"),
    ("transparent_documented_skip", True, True, '#[derive(Encode, Decode)]\n#[ssz(struct_behaviour = "transparent")]\nstruct S {\n    /// a tag kept in memory only\n    #[allow(dead_code)]\n    #[ssz(skip_serializing, skip_deserializing)]\n    a: u8,\n    b: Vec<u8> }\n',
     "(struct 0 transparent 1 (f (uint 1) 1 1 0 1) (f (list (uint 1)) 0 0 0 0))"),
    ("field_two_ssz_attrs_separated", False, True, '#[derive(Encode, Decode)]\nstruct S { #[ssz(skip_serializing)] #[allow(dead_code)] #[ssz(skip_deserializing)] a: u8, b: u8 }\n',
     "(struct 0 container 1 (f (uint 1) 1 1 0 2) (f (uint 1) 0 0 0 0))"),
    ("transparent_tuple_1_live", True, False, '#[derive(Encode, Decode)]\n#[ssz(struct_behaviour = "transparent")]\nstruct S(Vec<u8>, #[ssz(skip_serializing, skip_deserializing)] u8);\n',
     "(struct 0 transparent 0 (f (list (uint 1)) 0 0 0 0) (f (uint 1) 1 1 0 1))"),
]

CARGO = """[package]
name = "cf_%s"
version = "0.1.0"
edition = "2021"

[workspace]

[dependencies]
ethereum_ssz = { path = "REPOPLACEHOLDER/ssz" }
ethereum_ssz_derive = { path = "REPOPLACEHOLDER/ssz_derive" }
"""


def run(root, env, tier, out_path):
    """Builds every case; writes `derivecf` lines for the driver; returns the number of cases."""
    base = os.path.join(root, ".cache", "cf")
    target = os.path.join(root, ".cache", "target-cf")
    lines = []
    for name, accepted, quick, src, defn in CASES:
        if tier != "thorough" and not quick:
            continue
        d = os.path.join(base, name)
        os.makedirs(os.path.join(d, "src"), exist_ok=True)
        open(os.path.join(d, "Cargo.toml"), "w").write((CARGO % name).replace("REPOPLACEHOLDER", REPO))
        shutil.copyfile(REPO + "/Cargo.lock", os.path.join(d, "Cargo.lock"))
        open(os.path.join(d, "src", "lib.rs"), "w").write(HEAD + src)
        p = subprocess.run(["cargo", "check", "--offline", "--quiet"], cwd=d, env=dict(env, CARGO_TARGET_DIR=target),
                           stdout=subprocess.PIPE, stderr=subprocess.STDOUT, text=True, errors="replace", timeout=1800)
        ok = p.returncode == 0
        why = "-"
        if not ok:
            why = "macro-panic" if "proc-macro derive panicked" in p.stdout else "other-error"
        lines.append("derivecf\t%s\t%d\t%d\t%s\t%s" % (defn, 1 if ok else 0, 1 if accepted else 0, name, why))
    open(out_path, "w").write("\n".join(lines) + "\n")
    return len(lines)
