#!/usr/bin/env python3
"""Source inventory of /repo: the second, syntactic half of the tie between model and code.

The model is hand-written; the *checked* tie is the behavioural correspondence run by ./check.
This module adds what that cannot give: an account of *which* source items the model
transcribes, checked on every run against /repo's working tree.

  * every `fn` item of ssz/src/**.rs and ssz_derive/src/**.rs outside `#[cfg(test)]` modules is
    found with a small Rust lexer (comments, strings, raw strings, chars / lifetimes, nested
    braces), keyed `file::<enclosing impl/trait/macro header>::name`, and its token stream (comments
    and white space removed) is hashed;
  * the rest of each file (everything that is not inside a function body: constants, type
    definitions, macro invocations such as `impl_encodable_for_uint!(u64, 64)`, attributes,
    imports) is hashed as the file's *skeleton*;
  * `source_map.json` (committed) pins, for every item, the hash at the commit the model was
    transcribed from, the model definition(s) that transcribe it, and the properties whose
    theorems mention those definitions -- or the reason the item is not modelled.

./check compares the working tree with the pin.  An item whose hash moved is *not* a violation
(a comment-free, behaviour-preserving rewrite moves it too); it is the signal that the model may no
longer be a transcription of that item, and the check then spends the thorough-tier budget on the
correspondence of every property that depends on it, and says so in the evidence file.  An item that
is new and matches no rule is reported as unmodelled.

CLI:  srcmap.py --pin      rewrite source_map.json from /repo (run after a fix: commit)
      srcmap.py --diff     list items that moved
      srcmap.py --table    print the function -> model table (DESIGN.md appendix)
"""
import hashlib
import json
import os
import re
import sys

ROOT = os.path.dirname(os.path.abspath(__file__))
REPO = os.environ.get("VERIF_REPO", "/repo").rstrip("/")
MAP = os.path.join(ROOT, "source_map.json")
DIRS = ["ssz/src", "ssz_derive/src"]

ALL = ["C%02d" % i for i in range(1, 21)]
CODEC = ["C01", "C02", "C03", "C04", "C05", "C06", "C07", "C08", "C10"]
BITS = ["C11", "C12", "C13", "C14", "C18", "C20"]
BITCODEC = ["C01", "C02", "C03", "C04", "C05", "C07", "C10", "C14"]

# (regex on the item key, model definitions, properties, note).  First match wins.
RULES = [
    # ---- ssz/src/lib.rs
    (r"^ssz/src/lib\.rs::::ssz_encode$", "Codec.ssz_encode", ["C10"], ""),
    (r"^ssz/src/lib\.rs::<skeleton>$", "Offsets.BYTES_PER_LENGTH_OFFSET MAX_LENGTH_VALUE BYTES_PER_UNION_SELECTOR MAX_UNION_SELECTOR (compared by running the crate: corr.const)", ALL, "constants and re-exports"),
    # ---- ssz/src/union_selector.rs
    (r"^ssz/src/union_selector\.rs::.*::new$", "Offsets.union_selector_new", ["C15", "C05", "C01", "C02", "C04"], ""),
    (r"^ssz/src/union_selector\.rs::", "Offsets.union_selector_new (a selector is its byte)", ["C15"], "From<UnionSelector> for u8 / PartialEq<u8>: identity on the byte"),
    # ---- ssz/src/encode.rs
    (r"^ssz/src/encode\.rs::.*::as_ssz_bytes$", "Codec.as_bytes", ["C10", "C03", "C07"], "default method: with_capacity(ssz_bytes_len) then ssz_append"),
    (r"^ssz/src/encode\.rs::.*trait Encode.*::ssz_fixed_len$", "Types.e_fixed_len (default 4)", ["C07"], ""),
    (r"^ssz/src/encode\.rs::.*SszEncoder.*::container$", "Encoder.enc_container", ["C10", "C03", "C08"], ""),
    (r"^ssz/src/encode\.rs::.*SszEncoder.*::append(_parameterized)?$", "Encoder.enc_append", ["C10", "C03", "C08", "C01"], ""),
    (r"^ssz/src/encode\.rs::.*SszEncoder.*::finalize$", "Encoder.enc_finalize", ["C10", "C03", "C08", "C01"], ""),
    (r"^ssz/src/encode\.rs::::encode_length$", "Offsets.encode_length", ["C09", "C03", "C01", "C10"], "truncation modulo 2^32 explicit; the debug_assert is outside every statement (encodings < 2^32)"),
    (r"^ssz/src/(encode|decode)\.rs::trait (Encode|Decode).*::(is_ssz_fixed_len|ssz_append|ssz_bytes_len|from_ssz_bytes)$", "Types.e_is_fixed d_is_fixed; Codec.append bytes_len dec (the trait's required methods: declarations only)", ["C07"], "no body"),
    (r"^ssz/src/encode\.rs::<skeleton>$", "Encoder.enc_state; trait Encode", ["C10", "C03", "C07"], ""),
    # ---- ssz/src/decode.rs
    (r"^ssz/src/decode\.rs::::sanitize_offset$", "Offsets.sanitize_offset", ["C09", "C05", "C02", "C04", "C16", "C06"], ""),
    (r"^ssz/src/decode\.rs::.*trait Decode.*::ssz_fixed_len$", "Types.d_fixed_len (default 4)", ["C07"], ""),
    (r"^ssz/src/decode\.rs::.*SszDecoderBuilder.*::new$", "Builder.builder_new", ["C09", "C05"], ""),
    (r"^ssz/src/decode\.rs::.*SszDecoderBuilder.*::register_anonymous_variable_length_item$", "Builder.register (false, 4)", ["C09", "C05"], ""),
    (r"^ssz/src/decode\.rs::.*SszDecoderBuilder.*::register_type(_parameterized)?$", "Builder.register", ["C09", "C05", "C02", "C04", "C01", "C08"], ""),
    (r"^ssz/src/decode\.rs::.*SszDecoderBuilder.*::finalize$", "Builder.finalize fill_pairs set_nth", ["C09", "C05", "C02", "C04", "C01", "C08"], ""),
    (r"^ssz/src/decode\.rs::.*SszDecoderBuilder.*::build$", "Builder.builder_build", ["C09", "C05", "C02", "C04", "C01", "C08"], ""),
    (r"^ssz/src/decode\.rs::.*SszDecoder<.*::decode_next(_with)?$", "Builder.decode_next decode_all", ["C09", "C05", "C01", "C08"], "remove(0) on an empty SmallVec is an explicit Panic branch"),
    (r"^ssz/src/decode\.rs::::split_union_bytes$", "Offsets.split_union_bytes", ["C15", "C05", "C02", "C04"], ""),
    (r"^ssz/src/decode\.rs::::read_offset$", "Offsets.read_offset", ["C09", "C05", "C02", "C04", "C16", "C06"], ""),
    (r"^ssz/src/decode\.rs::::decode_offset$", "Offsets.decode_offset", ["C09", "C05", "C02", "C04", "C16", "C06"], ""),
    (r"^ssz/src/decode\.rs::.*Anonymous", "Builder.register (false, 4)", ["C09"], "local helper type of register_anonymous_variable_length_item"),
    (r"^ssz/src/decode\.rs::<skeleton>$", "Base.outcome (error variants erased); Builder.bstate boffset", ["C09", "C05"], "DecodeError variants are not distinguished by any property"),
    # ---- ssz/src/decode/try_from_iter.rs
    (r"^ssz/src/decode/try_from_iter\.rs::.*BTree.*::try_from_iter$", "Types.collect_entries", ["C19", "C16", "C04", "C01"], "std BTreeMap/BTreeSet::from_iter assumed: ascending, later duplicate wins"),
    (r"^ssz/src/decode/try_from_iter\.rs::.*::try_from_iter$", "Codec.collect_kind CVec", ["C16", "C06", "C01", "C02", "C04"], "Vec / SmallVec: with_capacity(size_hint) + extend"),
    (r"^ssz/src/decode/try_from_iter\.rs::.*::try_collect$", "Codec.collect_kind", ["C16"], ""),
    (r"^ssz/src/decode/try_from_iter\.rs::<skeleton>$", "Codec.ckind", ["C16"], ""),
    # ---- ssz/src/encode/impls.rs
    (r"^ssz/src/encode/impls\.rs::.*impl_encodable_for_uint.*::", "Codec.append/bytes_len (TUint k); Types.e_is_fixed e_fixed_len", CODEC, ""),
    (r"^ssz/src/encode/impls\.rs::.*impl_encode_for_tuples.*::", "Codec.append/bytes_len (TContainer false fs) via Encoder.enc_run", CODEC, ""),
    (r"^ssz/src/encode/impls\.rs::.*for Option<T>.*::", "Codec.append/bytes_len (TOption t)", CODEC + ["C15"], ""),
    (r"^ssz/src/encode/impls\.rs::.*for (Arc<T>|&T).*::", "Codec.append/bytes_len (TWrap t)", CODEC, ""),
    (r"^ssz/src/encode/impls\.rs::::sequence_ssz_bytes_len$", "Codec.seq_bytes_len", ["C07", "C19"], ""),
    (r"^ssz/src/encode/impls\.rs::::sequence_ssz_append$", "Codec.seq_append", ["C03", "C10", "C01", "C19"], ""),
    (r"^ssz/src/encode/impls\.rs::.*for (Vec<T>|SmallVec<.*).*::", "Codec.append/bytes_len (TList t)", CODEC, ""),
    (r"^ssz/src/encode/impls\.rs::.*for BTree(Map|Set)<.*::", "Codec.append/bytes_len (TMap k v / TSet t)", ["C19", "C01", "C03", "C07", "C10"], ""),
    (r"^ssz/src/encode/impls\.rs::.*for bool.*::", "Codec.append/bytes_len TBool", CODEC, ""),
    (r"^ssz/src/encode/impls\.rs::.*for NonZeroUsize.*::", "Codec.append/bytes_len TNonZero", CODEC, ""),
    (r"^ssz/src/encode/impls\.rs::.*for (Address|FixedBytes<N>|Bloom|\[u8; N\]).*::", "Codec.append/bytes_len/as_bytes (TBytesN n)", CODEC, ""),
    (r"^ssz/src/encode/impls\.rs::.*for Bytes.*::", "Codec.append/bytes_len/as_bytes TByteList", CODEC, ""),
    (r"^ssz/src/encode/impls\.rs::.*for (U256|U128).*::", "Codec.append/bytes_len (TUint 32 / TUint 16)", CODEC, ""),
    (r"^ssz/src/encode/impls\.rs::<skeleton>$", "macro invocations: the uint widths and the tuple arities 1..12", CODEC, ""),
    # ---- ssz/src/decode/impls.rs
    (r"^ssz/src/decode/impls\.rs::.*impl_decodable_for_uint.*::", "Codec.dec (TUint k); Types.d_is_fixed d_fixed_len", CODEC, ""),
    (r"^ssz/src/decode/impls\.rs::.*impl_decode_for_tuples.*::", "Codec.dec (TContainer false fs) via Builder", CODEC + ["C09"], ""),
    (r"^ssz/src/decode/impls\.rs::.*for bool.*::", "Codec.dec_bool", CODEC, ""),
    (r"^ssz/src/decode/impls\.rs::.*for NonZeroUsize.*::", "Codec.dec TNonZero", CODEC, ""),
    (r"^ssz/src/decode/impls\.rs::.*for Option<T>.*::", "Codec.dec (TOption t)", CODEC + ["C15"], ""),
    (r"^ssz/src/decode/impls\.rs::.*for Arc<T>.*::", "Codec.dec (TWrap t)", CODEC, ""),
    (r"^ssz/src/decode/impls\.rs::.*for (Address|FixedBytes<N>|Bloom|\[u8; N\]).*::", "Codec.dec (TBytesN n)", CODEC, ""),
    (r"^ssz/src/decode/impls\.rs::.*for (U256|U128).*::", "Codec.dec (TUint 32 / TUint 16)", CODEC, ""),
    (r"^ssz/src/decode/impls\.rs::.*for Bytes.*::", "Codec.dec TByteList", CODEC, ""),
    (r"^ssz/src/decode/impls\.rs::.*for (Vec<T>|SmallVec<.*).*::", "Codec.dec (TList t) via dec_seq", CODEC + ["C16"], ""),
    (r"^ssz/src/decode/impls\.rs::.*for BTree(Map|Set)<.*::", "Codec.dec (TMap k v / TSet t) via dec_seq + collect_entries", ["C19", "C01", "C04", "C05", "C06", "C07"], ""),
    (r"^ssz/src/decode/impls\.rs::::decode_list_of_variable_length_items$", "Codec.decode_list_var_full lv_items", ["C16", "C09", "C05", "C06", "C01", "C02", "C04", "C19"], ""),
    (r"^ssz/src/decode/impls\.rs::<skeleton>$", "macro invocations: the uint widths and the tuple arities 1..12", CODEC, ""),
    # ---- ssz/src/legacy.rs
    (r"^ssz/src/legacy\.rs::.*four_byte_option_impl.*::", "Codec.append/bytes_len/dec (TLegacyOpt t); Types.e_is_fixed d_is_fixed", ["C17", "C01", "C02", "C03", "C04", "C05", "C07", "C10", "C08"], ""),
    (r"^ssz/src/legacy\.rs::::encode_four_byte_union_selector$", "Offsets.encode_length", ["C17"], ""),
    (r"^ssz/src/legacy\.rs::::read_four_byte_union_selector$", "Offsets.read_offset", ["C17", "C05"], ""),
    (r"^ssz/src/legacy\.rs::<skeleton>$", "-", ["C17"], ""),
    # ---- ssz/src/bitfield.rs
    (r"^ssz/src/bitfield\.rs::.*Display.*::fmt$", None, [], "not modelled: Display is not mentioned by any property"),
    (r"^ssz/src/bitfield\.rs::.*Default.*::default$", "Bitfield.bf_new (FVec n)", ["C13"], "Default = new()"),
    (r"^ssz/src/bitfield\.rs::.*arbitrary.*::arbitrary$", "BitfieldOps.arb_vec arb_list", ["C20"], "Unstructured::fill_buffer / usize::arbitrary assumed"),
    (r"^ssz/src/bitfield\.rs::.*Serialize.*::serialize$", "Hex.bf_serialize", ["C18"], ""),
    (r"^ssz/src/bitfield\.rs::.*Deserialize.*::deserialize$", "Hex.bf_deserialize", ["C18", "C13"], ""),
    (r"^ssz/src/bitfield\.rs::.*(Encode|Decode) for Bitfield.*::", "Codec.append/bytes_len/dec (TBitList n / TBitVector n) via Bitfield.bl_* bv_*", BITCODEC + ["C13"], ""),
    (r"^ssz/src/bitfield\.rs::::bytes_for_bit_len$", "Bitfield.bytes_for_bit_len", BITS + BITCODEC, ""),
    (r"^ssz/src/bitfield\.rs::.*BitIter.*::next$", "Bitfield.bf_bits (iteration = get at 0..len)", ["C11"], ""),
    (r"^ssz/src/bitfield\.rs::.*(PartialEq|Hash).*::(eq|hash)$", "BitfieldOps observation (equality, hash feed)", ["C11"], ""),
    (r"^ssz/src/bitfield\.rs::.*Bitfield<Variable<N>>::(intersection|union|is_subset)$", "Bitfield.bl_inter bl_union bf_subset", ["C12", "C13"], ""),
    (r"^ssz/src/bitfield\.rs::.*Bitfield<Fixed<N>>::(intersection|union|is_subset)$", "Bitfield.bv_inter bv_union bf_subset", ["C12", "C13"], ""),
    (r"^ssz/src/bitfield\.rs::.*::(difference|difference_inplace)$", "Bitfield.bf_diff bf_diff_inplace", ["C12", "C11", "C13"], ""),
    (r"^ssz/src/bitfield\.rs::.*::(with_capacity|new|max_len|capacity|resize)$", "Bitfield.bl_with_capacity bv_new bl_resize", ["C13", "C11", "C14"], ""),
    (r"^ssz/src/bitfield\.rs::.*::(into_bytes|from_bytes|into_raw_bytes|as_slice|from_raw_bytes)$", "Bitfield.bl_into_bytes bl_from_bytes bv_from_bytes from_raw_bytes", ["C14", "C13", "C11", "C05"] + BITCODEC + ["C18", "C20"], ""),
    (r"^ssz/src/bitfield\.rs::.*::(set|get|len|is_empty|highest_set_bit|iter|is_zero|num_set_bits|shift_up)$", "Bitfield.bf_set bf_get bf_highest bf_is_zero bf_count bf_shift_up", ["C11", "C12", "C13"], ""),
    (r"^ssz/src/bitfield\.rs::<skeleton>$", "Bitfield.bitfield record; SMALLVEC_LEN", BITS + BITCODEC, ""),
    # ---- ssz/src/bitfield/bitvector_dynamic.rs
    (r"^ssz/src/bitfield/bitvector_dynamic\.rs::.*Serialize.*::serialize$", "Hex.bf_serialize", ["C18"], ""),
    (r"^ssz/src/bitfield/bitvector_dynamic\.rs::.*Deserialize.*::deserialize$", "Hex.bf_deserialize", ["C18", "C13"], ""),
    (r"^ssz/src/bitfield/bitvector_dynamic\.rs::.*(Encode|Decode) for Bitfield.*::", "Codec.append/bytes_len/dec TBitDyn", BITCODEC + ["C13"], ""),
    (r"^ssz/src/bitfield/bitvector_dynamic\.rs::.*::(intersection|union)$", "Bitfield.bd_inter bd_union", ["C12", "C13"], ""),
    (r"^ssz/src/bitfield/bitvector_dynamic\.rs::.*::(new|into_bytes|from_bytes_with_len)$", "Bitfield.bd_new bd_from_bytes_with_len", ["C13", "C14", "C11"], ""),
    (r"^ssz/src/bitfield/bitvector_dynamic\.rs::<skeleton>$", "-", ["C11", "C12", "C13", "C14"], ""),
    # ---- ssz_derive/src/lib.rs
    (r"^ssz_derive/src/lib\.rs::", "Derive.derive (AST -> schema) and the schema's Codec.append/dec", ["C08", "C01", "C02", "C03", "C04", "C05", "C07", "C10", "C15", "C17"], "generated code is observed by compiling machine-written derive programs with the real macro"),
]


def lex(src):
    """Yields (kind, text) for kind in ident, punct, lit; comments and white space dropped."""
    i, n = 0, len(src)
    out = []
    while i < n:
        c = src[i]
        if c.isspace():
            i += 1
        elif src.startswith("//", i):
            j = src.find("\n", i)
            i = n if j < 0 else j
        elif src.startswith("/*", i):
            depth, i = 1, i + 2
            while i < n and depth:
                if src.startswith("/*", i):
                    depth += 1; i += 2
                elif src.startswith("*/", i):
                    depth -= 1; i += 2
                else:
                    i += 1
        elif c == '"' or (c == "b" and src.startswith('b"', i)):
            j = i + (2 if c == "b" else 1)
            while j < n and src[j] != '"':
                j += 2 if src[j] == "\\" else 1
            out.append(("lit", src[i:j + 1])); i = j + 1
        elif c == "r" and re.match(r'r#*"', src[i:i + 12]):
            m = re.match(r'r(#*)"', src[i:i + 12])
            end = '"' + m.group(1)
            j = src.find(end, i + len(m.group(0)))
            out.append(("lit", src[i:j + len(end)])); i = j + len(end)
        elif c == "'":
            m = re.match(r"'(\\.[^']*|[^'\\])'", src[i:i + 12])
            if m:
                out.append(("lit", m.group(0))); i += len(m.group(0))
            else:  # lifetime
                m = re.match(r"'[A-Za-z_][A-Za-z0-9_]*", src[i:])
                out.append(("ident", m.group(0))); i += len(m.group(0))
        elif c.isalpha() or c == "_":
            m = re.match(r"[A-Za-z_][A-Za-z0-9_]*", src[i:])
            out.append(("ident", m.group(0))); i += len(m.group(0))
        elif c.isdigit():
            m = re.match(r"[0-9][A-Za-z0-9_]*(\.[0-9][A-Za-z0-9_]*)?", src[i:])
            out.append(("lit", m.group(0))); i += len(m.group(0))
        else:
            out.append(("punct", c)); i += 1
    return out


def items_of(path, rel):
    toks = lex(open(path).read())
    n = len(toks)
    items = {}
    skeleton = []

    def match_brace(i):
        depth = 0
        while i < n:
            t = toks[i][1]
            if t == "{":
                depth += 1
            elif t == "}":
                depth -= 1
                if depth == 0:
                    return i
            i += 1
        return n - 1

    def header_text(a, b):
        s = " ".join(t for _, t in toks[a:b])
        s = re.sub(r"\s*([<>,:&\[\];()!])\s*", r"\1", s)
        return s.replace(",", ", ").replace("for", " for ").replace("  ", " ").strip()

    def walk(i, end, ctx, in_test):
        pending_test = False
        while i < end:
            k, t = toks[i]
            if t == "#" and i + 1 < end and toks[i + 1][1] == "[":
                j = i + 1
                depth = 0
                while j < end:
                    if toks[j][1] == "[":
                        depth += 1
                    elif toks[j][1] == "]":
                        depth -= 1
                        if depth == 0:
                            break
                    j += 1
                attr = "".join(x for _, x in toks[i:j + 1])
                if attr in ("#[cfg(test)]", "#[test]"):
                    pending_test = True
                elif not in_test:
                    skeleton.extend(x for _, x in toks[i:j + 1])
                i = j + 1
                continue
            if k == "ident" and t in ("impl", "trait", "mod") or (t == "macro_rules" and toks[i + 1][1] == "!"):
                j = i
                while j < end and toks[j][1] not in ("{", ";"):
                    j += 1
                if j < end and toks[j][1] == "{":
                    close = match_brace(j)
                    head = header_text(i, j)
                    if t == "mod":
                        sub_ctx = ctx
                    else:
                        sub_ctx = head
                    test = in_test or pending_test
                    if not test:
                        skeleton.extend(x for _, x in toks[i:j + 1])
                    walk(j + 1, close, sub_ctx, test)
                    if not test:
                        skeleton.append("}")
                    i = close + 1
                else:
                    if not (in_test or pending_test):
                        skeleton.extend(x for _, x in toks[i:j + 1])
                    i = j + 1
                pending_test = False
                continue
            if k == "ident" and t == "fn" and i + 1 < end and toks[i + 1][0] == "ident":
                name = toks[i + 1][1]
                j = i
                while j < end and toks[j][1] not in ("{", ";"):
                    j += 1
                # include leading qualifiers (pub, const, unsafe ...) already emitted to the skeleton: harmless
                if j < end and toks[j][1] == "{":
                    close = match_brace(j)
                else:
                    close = j
                if not (in_test or pending_test):
                    body = " ".join(x for _, x in toks[i:close + 1])
                    key = "%s::%s::%s" % (rel, ctx, name)
                    while key in items:
                        key += "'"
                    items[key] = hashlib.sha256(body.encode()).hexdigest()[:16]
                    skeleton.append("fn " + name)
                i = close + 1
                pending_test = False
                continue
            if t == "{":
                close = match_brace(i)
                if not (in_test or pending_test):
                    skeleton.extend(x for _, x in toks[i:close + 1])
                i = close + 1
                pending_test = False
                continue
            if not (in_test or pending_test):
                skeleton.append(t)
            if t == ";":
                pending_test = False
            i += 1

    walk(0, n, "", False)
    items["%s::<skeleton>" % rel] = hashlib.sha256(" ".join(skeleton).encode()).hexdigest()[:16]
    return items


def inventory(repo=REPO):
    inv = {}
    for d in DIRS:
        for dirpath, _, files in os.walk(os.path.join(repo, d)):
            for f in sorted(files):
                if f.endswith(".rs"):
                    p = os.path.join(dirpath, f)
                    inv.update(items_of(p, os.path.relpath(p, repo)))
    return inv


def classify(key):
    for rx, model, props, note in RULES:
        if re.search(rx, key):
            return model, props, note
    return None, ALL, "UNMAPPED: no rule names a model definition for this item"


def pin():
    inv = inventory()
    out = {}
    for k in sorted(inv):
        model, props, note = classify(k)
        out[k] = dict(hash=inv[k], model=model, properties=props, note=note)
    json.dump(dict(items=out), open(MAP, "w"), indent=1)
    return out


def diff():
    """Returns (changed, removed, added_unmapped, added_mapped, total) against the pin."""
    pinned = json.load(open(MAP))["items"] if os.path.exists(MAP) else {}
    inv = inventory()
    changed = {k: pinned[k] for k in pinned if k in inv and inv[k] != pinned[k]["hash"]}
    removed = {k: pinned[k] for k in pinned if k not in inv}
    added = {}
    for k in inv:
        if k not in pinned:
            model, props, note = classify(k)
            added[k] = dict(hash=inv[k], model=model, properties=props, note=note)
    return changed, removed, added, len(inv)


def moved_for(pid):
    """Items relevant to property `pid` whose source moved since the pin (changed, removed, new)."""
    changed, removed, added, total = diff()
    rel = []
    for kind, d in (("changed", changed), ("removed", removed), ("new", added)):
        for k, v in sorted(d.items()):
            if pid in v["properties"]:
                rel.append(dict(item=k, kind=kind, model=v["model"], note=v["note"]))
    return rel, total


def main():
    a = sys.argv[1:]
    if a == ["--pin"]:
        out = pin()
        un = [k for k, v in out.items() if v["note"].startswith("UNMAPPED")]
        print("pinned %d items, %d unmapped" % (len(out), len(un)))
        for k in un:
            print("  UNMAPPED", k)
    elif a == ["--diff"]:
        changed, removed, added, total = diff()
        print("items: %d  changed: %d  removed: %d  new: %d" % (total, len(changed), len(removed), len(added)))
        for k in changed:
            print("  changed", k, "->", changed[k]["model"])
        for k in removed:
            print("  removed", k)
        for k in added:
            print("  new    ", k, "->", added[k]["model"], added[k]["note"])
    elif a == ["--table"]:
        for k, v in json.load(open(MAP))["items"].items():
            print("| `%s` | %s | %s | %s |" % (k, v["model"] or "—", " ".join(v["properties"]) if len(v["properties"]) < 20 else "all", v["note"]))
    else:
        print(__doc__)


if __name__ == "__main__":
    main()
