//! rs2v: a small Rust -> Gallina translator for the arithmetic / decision core of ethereum_ssz.
//!
//! It parses the crate's source with `syn`, finds the target functions listed in `TARGETS`, and
//! prints a Coq file in which every target is a Gallina definition obtained *syntactically* from
//! the Rust text (a shallow embedding in the `outcome` monad of Base.v: `Ok` / `Err` / `Panic`).
//! `GenEquiv.v` then proves each generated definition equal to the hand-written model definition,
//! so the theorems about the model are, for these functions, theorems about what the source says
//! now.  The translator is part of the trusted base (DESIGN.md); its rules are deliberately few:
//!
//!   usize / u8 / u32 values        -> N            `a + b`, `a - b`, `a * b` on them are checked
//!                                                   (`usize_add` ..: `Panic` on overflow/underflow)
//!   `/` `%` by a non-zero literal  -> N.div / N.modulo
//!   comparisons, `&&`, `||`, `!`   -> N.ltb .., andb, orb, negb
//!   &[u8], Vec<u8>, SmallVec<..>   -> list
//!   Option<T> / Result<T, E>       -> option T / outcome T (error payloads are erased)
//!   `e?`                           -> monadic bind
//!   x[a..b], x[a..], x[i]          -> index_range / index_from / index_at (`Panic` when out of range)
//!   x.get(a..b) ..                 -> get_range .. (option)
//!   if / else, match on Ordering   -> if / match on N.compare
//!   `&mut self` methods            -> state-passing: self -> outcome Self
//!   `for x in e.windows(2) { .. }` -> monadic fold over `windows2`
//!   closures                       -> fun
//!
//! Second and third rule sets (bitfield impls, `Decode` impls):
//!   locals of a translated record type  -> their fields / methods resolve like `self`'s; a mutated local is
//!                                          re-bound (`let result := set_Bitfield_bytes result .. in`)
//!   `for` loops                         -> the fold carries exactly the variables the body mutates
//!   `for (i, x) in v.f.iter_mut().enumerate() { *x = e }`  -> an index loop updating `v.f[i]`
//!   `for x in it` over a translated iterator (its `next` is a target) -> `for_iter`, with a per-type
//!                                          termination measure; running out of fuel is a `Panic`
//!   `N::to_usize()`, `const N: usize`   -> an explicit parameter `tN : N` (type-level numbers)
//!   `impl<T: Decode> ..`                -> dictionary passing: `T::from_ssz_bytes`, `T::is_ssz_fixed_len()`,
//!                                          `T::ssz_fixed_len()` are parameters of the definition
//!   `macro_rules!` with one rule and no repetitions, invoked at item level -> expanded by substitution
//!   `match n { 0 if g => .., 1 => .., other => .. }` on integers -> an if-chain
//!   `.expect()/.unwrap()/unwrap_or_else(|_| unreachable!())` on a Result -> `unwrap_res` (Err becomes Panic)
//!   `o?` on an Option in a function returning Option -> `match o with None => return None`
//!   `.iter().enumerate().rev().find(p).map(f)`, `.all(p)`, `.map(f).sum()` -> list functions
//!   `let x = if c { .. y = e; .. } else { .. };`  -> the rest of the block is continued in each branch
//!   `process_results(xs.map(|i| { .. }), |iter| iter.try_collect())`  -> `map_state` (the closure's captured,
//!                                          assigned locals are threaded) then the container's `try_from_iter`
//!   std / alloy / ruint constructors    -> named primitives of RustSem.v with their panic conditions
//! Anything else is reported as untranslatable for that function (the definition is omitted and
//! GenEquiv.v no longer compiles: the translation tie is then reported as broken, never silently
//! dropped).
use std::collections::HashMap;
use std::fmt::Write as _;
use quote::ToTokens as _;
use syn::{BinOp, Block, Expr, FnArg, ImplItem, Item, Lit, Member, Pat, ReturnType, Stmt, Type, UnOp};

type R<T> = Result<T, String>;

struct Target {
    file: &'static str,
    /// the impl's self type (spaces and lifetimes removed, e.g. "Bitfield<Variable<N>>"; a bare
    /// identifier matches the last path segment), or "" for a free function
    imp: &'static str,
    /// the trait of a trait impl ("Encode", "Decode", ..), or "" for an inherent impl / free function
    tr: &'static str,
    name: &'static str,
    coq: &'static str,
}

const TARGETS: &[Target] = &[
    Target { file: "ssz/src/decode.rs", imp: "", tr: "", name: "sanitize_offset", coq: "sanitize_offset" },
    Target { file: "ssz/src/decode.rs", imp: "", tr: "", name: "decode_offset", coq: "decode_offset" },
    Target { file: "ssz/src/decode.rs", imp: "", tr: "", name: "read_offset", coq: "read_offset" },
    Target { file: "ssz/src/union_selector.rs", imp: "UnionSelector", tr: "", name: "new", coq: "union_selector_new" },
    Target { file: "ssz/src/union_selector.rs", imp: "u8", tr: "From", name: "from", coq: "union_selector_into_u8" },
    Target { file: "ssz/src/union_selector.rs", imp: "UnionSelector", tr: "PartialEq", name: "eq", coq: "union_selector_eq_u8" },
    Target { file: "ssz/src/decode.rs", imp: "", tr: "", name: "split_union_bytes", coq: "split_union_bytes" },
    Target { file: "ssz/src/encode.rs", imp: "", tr: "", name: "encode_length", coq: "encode_length" },
    Target { file: "ssz/src/bitfield.rs", imp: "", tr: "", name: "bytes_for_bit_len", coq: "bytes_for_bit_len" },
    Target { file: "ssz/src/decode.rs", imp: "SszDecoderBuilder", tr: "", name: "register_type_parameterized", coq: "builder_register" },
    Target { file: "ssz/src/decode.rs", imp: "SszDecoderBuilder", tr: "", name: "finalize", coq: "builder_finalize" },
    Target { file: "ssz/src/encode.rs", imp: "SszEncoder", tr: "", name: "append_parameterized", coq: "encoder_append" },
    Target { file: "ssz/src/encode.rs", imp: "SszEncoder", tr: "", name: "finalize", coq: "encoder_finalize" },
    Target { file: "ssz/src/bitfield.rs", imp: "Bitfield<T>", tr: "", name: "len", coq: "bitfield_len" },
    Target { file: "ssz/src/bitfield.rs", imp: "Bitfield<T>", tr: "", name: "is_empty", coq: "bitfield_is_empty" },
    Target { file: "ssz/src/bitfield.rs", imp: "Bitfield<T>", tr: "", name: "get", coq: "bitfield_get" },
    Target { file: "ssz/src/bitfield.rs", imp: "Bitfield<T>", tr: "", name: "set", coq: "bitfield_set" },
    Target { file: "ssz/src/bitfield.rs", imp: "Bitfield<T>", tr: "", name: "from_raw_bytes", coq: "bitfield_from_raw_bytes" },
    Target { file: "ssz/src/bitfield.rs", imp: "Bitfield<T>", tr: "", name: "difference_inplace", coq: "bitfield_difference_inplace" },
    Target { file: "ssz/src/bitfield.rs", imp: "Bitfield<T>", tr: "", name: "shift_up", coq: "bitfield_shift_up" },
    // the rest of the generic bitfield impl
    Target { file: "ssz/src/bitfield.rs", imp: "Bitfield<T>", tr: "", name: "into_raw_bytes", coq: "bitfield_into_raw_bytes" },
    Target { file: "ssz/src/bitfield.rs", imp: "Bitfield<T>", tr: "", name: "as_slice", coq: "bitfield_as_slice" },
    Target { file: "ssz/src/bitfield.rs", imp: "Bitfield<T>", tr: "", name: "highest_set_bit", coq: "bitfield_highest_set_bit" },
    Target { file: "ssz/src/bitfield.rs", imp: "Bitfield<T>", tr: "", name: "is_zero", coq: "bitfield_is_zero" },
    Target { file: "ssz/src/bitfield.rs", imp: "Bitfield<T>", tr: "", name: "num_set_bits", coq: "bitfield_num_set_bits" },
    Target { file: "ssz/src/bitfield.rs", imp: "Bitfield<T>", tr: "", name: "difference", coq: "bitfield_difference" },
    Target { file: "ssz/src/bitfield.rs", imp: "Bitfield<T>", tr: "PartialEq", name: "eq", coq: "bitfield_eq" },
    Target { file: "ssz/src/bitfield.rs", imp: "Bitfield<T>", tr: "", name: "iter", coq: "bitfield_iter" },
    Target { file: "ssz/src/bitfield.rs", imp: "BitIter<T>", tr: "Iterator", name: "next", coq: "bititer_next" },
    // BitList
    Target { file: "ssz/src/bitfield.rs", imp: "Bitfield<Variable<N>>", tr: "", name: "with_capacity", coq: "bitlist_with_capacity" },
    Target { file: "ssz/src/bitfield.rs", imp: "Bitfield<Variable<N>>", tr: "", name: "max_len", coq: "bitlist_max_len" },
    Target { file: "ssz/src/bitfield.rs", imp: "Bitfield<Variable<N>>", tr: "", name: "into_bytes", coq: "bitlist_into_bytes" },
    Target { file: "ssz/src/bitfield.rs", imp: "Bitfield<Variable<N>>", tr: "", name: "from_bytes", coq: "bitlist_from_bytes" },
    Target { file: "ssz/src/bitfield.rs", imp: "Bitfield<Variable<N>>", tr: "", name: "intersection", coq: "bitlist_intersection" },
    Target { file: "ssz/src/bitfield.rs", imp: "Bitfield<Variable<N>>", tr: "", name: "union", coq: "bitlist_union" },
    Target { file: "ssz/src/bitfield.rs", imp: "Bitfield<Variable<N>>", tr: "", name: "is_subset", coq: "bitlist_is_subset" },
    Target { file: "ssz/src/bitfield.rs", imp: "Bitfield<Variable<N>>", tr: "", name: "resize", coq: "bitlist_resize" },
    // BitVector
    Target { file: "ssz/src/bitfield.rs", imp: "Bitfield<Fixed<N>>", tr: "", name: "new", coq: "bitvector_new" },
    Target { file: "ssz/src/bitfield.rs", imp: "Bitfield<Fixed<N>>", tr: "", name: "capacity", coq: "bitvector_capacity" },
    Target { file: "ssz/src/bitfield.rs", imp: "Bitfield<Fixed<N>>", tr: "", name: "into_bytes", coq: "bitvector_into_bytes" },
    Target { file: "ssz/src/bitfield.rs", imp: "Bitfield<Fixed<N>>", tr: "", name: "from_bytes", coq: "bitvector_from_bytes" },
    Target { file: "ssz/src/bitfield.rs", imp: "Bitfield<Fixed<N>>", tr: "", name: "intersection", coq: "bitvector_intersection" },
    Target { file: "ssz/src/bitfield.rs", imp: "Bitfield<Fixed<N>>", tr: "", name: "union", coq: "bitvector_union" },
    Target { file: "ssz/src/bitfield.rs", imp: "Bitfield<Fixed<N>>", tr: "", name: "is_subset", coq: "bitvector_is_subset" },
    // BitVectorDynamic
    Target { file: "ssz/src/bitfield/bitvector_dynamic.rs", imp: "Bitfield<Dynamic>", tr: "", name: "new", coq: "bitdyn_new" },
    Target { file: "ssz/src/bitfield/bitvector_dynamic.rs", imp: "Bitfield<Dynamic>", tr: "", name: "into_bytes", coq: "bitdyn_into_bytes" },
    Target { file: "ssz/src/bitfield/bitvector_dynamic.rs", imp: "Bitfield<Dynamic>", tr: "", name: "from_bytes_with_len", coq: "bitdyn_from_bytes_with_len" },
    Target { file: "ssz/src/bitfield/bitvector_dynamic.rs", imp: "Bitfield<Dynamic>", tr: "", name: "intersection", coq: "bitdyn_intersection" },
    Target { file: "ssz/src/bitfield/bitvector_dynamic.rs", imp: "Bitfield<Dynamic>", tr: "", name: "union", coq: "bitdyn_union" },
    // the SSZ codec of the three flavours
    Target { file: "ssz/src/bitfield.rs", imp: "Bitfield<Variable<N>>", tr: "Encode", name: "is_ssz_fixed_len", coq: "bitlist_enc_is_ssz_fixed_len" },
    Target { file: "ssz/src/bitfield.rs", imp: "Bitfield<Variable<N>>", tr: "Encode", name: "ssz_bytes_len", coq: "bitlist_ssz_bytes_len" },
    Target { file: "ssz/src/bitfield.rs", imp: "Bitfield<Variable<N>>", tr: "Encode", name: "ssz_append", coq: "bitlist_ssz_append" },
    Target { file: "ssz/src/bitfield.rs", imp: "Bitfield<Variable<N>>", tr: "Decode", name: "is_ssz_fixed_len", coq: "bitlist_dec_is_ssz_fixed_len" },
    Target { file: "ssz/src/bitfield.rs", imp: "Bitfield<Variable<N>>", tr: "Decode", name: "from_ssz_bytes", coq: "bitlist_from_ssz_bytes" },
    Target { file: "ssz/src/bitfield.rs", imp: "Bitfield<Fixed<N>>", tr: "Encode", name: "is_ssz_fixed_len", coq: "bitvector_enc_is_ssz_fixed_len" },
    Target { file: "ssz/src/bitfield.rs", imp: "Bitfield<Fixed<N>>", tr: "Encode", name: "ssz_bytes_len", coq: "bitvector_ssz_bytes_len" },
    Target { file: "ssz/src/bitfield.rs", imp: "Bitfield<Fixed<N>>", tr: "Encode", name: "ssz_fixed_len", coq: "bitvector_enc_ssz_fixed_len" },
    Target { file: "ssz/src/bitfield.rs", imp: "Bitfield<Fixed<N>>", tr: "Encode", name: "ssz_append", coq: "bitvector_ssz_append" },
    Target { file: "ssz/src/bitfield.rs", imp: "Bitfield<Fixed<N>>", tr: "Decode", name: "is_ssz_fixed_len", coq: "bitvector_dec_is_ssz_fixed_len" },
    Target { file: "ssz/src/bitfield.rs", imp: "Bitfield<Fixed<N>>", tr: "Decode", name: "ssz_fixed_len", coq: "bitvector_dec_ssz_fixed_len" },
    Target { file: "ssz/src/bitfield.rs", imp: "Bitfield<Fixed<N>>", tr: "Decode", name: "from_ssz_bytes", coq: "bitvector_from_ssz_bytes" },
    Target { file: "ssz/src/bitfield/bitvector_dynamic.rs", imp: "Bitfield<Dynamic>", tr: "Encode", name: "is_ssz_fixed_len", coq: "bitdyn_enc_is_ssz_fixed_len" },
    Target { file: "ssz/src/bitfield/bitvector_dynamic.rs", imp: "Bitfield<Dynamic>", tr: "Encode", name: "ssz_bytes_len", coq: "bitdyn_ssz_bytes_len" },
    Target { file: "ssz/src/bitfield/bitvector_dynamic.rs", imp: "Bitfield<Dynamic>", tr: "Encode", name: "ssz_append", coq: "bitdyn_ssz_append" },
    Target { file: "ssz/src/bitfield/bitvector_dynamic.rs", imp: "Bitfield<Dynamic>", tr: "Decode", name: "is_ssz_fixed_len", coq: "bitdyn_dec_is_ssz_fixed_len" },
    Target { file: "ssz/src/bitfield/bitvector_dynamic.rs", imp: "Bitfield<Dynamic>", tr: "Decode", name: "from_ssz_bytes", coq: "bitdyn_from_ssz_bytes" },
    Target { file: "ssz/src/bitfield.rs", imp: "Bitfield<T>", tr: "Hash", name: "hash", coq: "bitfield_hash" },
    Target { file: "ssz/src/bitfield.rs", imp: "Bitfield<Fixed<N>>", tr: "Default", name: "default", coq: "bitvector_default" },
    Target { file: "ssz/src/bitfield.rs", imp: "Bitfield<Fixed<N>>", tr: "Arbitrary", name: "arbitrary", coq: "bitvector_arbitrary" },
    Target { file: "ssz/src/bitfield.rs", imp: "Bitfield<Variable<N>>", tr: "Arbitrary", name: "arbitrary", coq: "bitlist_arbitrary" },
    Target { file: "ssz/src/bitfield.rs", imp: "Bitfield<Variable<N>>", tr: "Serialize", name: "serialize", coq: "bitlist_serialize" },
    Target { file: "ssz/src/bitfield.rs", imp: "Bitfield<Variable<N>>", tr: "Deserialize", name: "deserialize", coq: "bitlist_deserialize" },
    Target { file: "ssz/src/bitfield.rs", imp: "Bitfield<Fixed<N>>", tr: "Serialize", name: "serialize", coq: "bitvector_serialize" },
    Target { file: "ssz/src/bitfield.rs", imp: "Bitfield<Fixed<N>>", tr: "Deserialize", name: "deserialize", coq: "bitvector_deserialize" },
    Target { file: "ssz/src/bitfield/bitvector_dynamic.rs", imp: "Bitfield<Dynamic>", tr: "Serialize", name: "serialize", coq: "bitdyn_serialize" },
    Target { file: "ssz/src/bitfield/bitvector_dynamic.rs", imp: "Bitfield<Dynamic>", tr: "Deserialize", name: "deserialize", coq: "bitdyn_deserialize" },
    Target { file: "ssz/src/decode.rs", imp: "trait Decode", tr: "", name: "ssz_fixed_len", coq: "decode_default_ssz_fixed_len" },
    Target { file: "ssz/src/encode.rs", imp: "trait Encode", tr: "", name: "ssz_fixed_len", coq: "encode_default_ssz_fixed_len" },
    Target { file: "ssz/src/encode.rs", imp: "trait Encode", tr: "", name: "as_ssz_bytes", coq: "encode_default_as_ssz_bytes" },
    Target { file: "ssz/src/lib.rs", imp: "", tr: "", name: "ssz_encode", coq: "ssz_encode" },
    Target { file: "ssz_derive/src/lib.rs", imp: "", tr: "", name: "compute_union_selectors", coq: "compute_union_selectors" },
    Target { file: "ssz/src/decode.rs", imp: "SszDecoderBuilder", tr: "", name: "new", coq: "builder_new" },
    Target { file: "ssz/src/decode.rs", imp: "SszDecoderBuilder", tr: "", name: "register_type", coq: "builder_register_type" },
    Target { file: "ssz/src/decode.rs", imp: "SszDecoderBuilder", tr: "", name: "register_anonymous_variable_length_item", coq: "builder_register_anonymous" },
    Target { file: "ssz/src/decode.rs", imp: "SszDecoderBuilder", tr: "", name: "build", coq: "builder_build" },
    Target { file: "ssz/src/decode.rs", imp: "SszDecoder", tr: "", name: "decode_next_with", coq: "decoder_decode_next_with" },
    Target { file: "ssz/src/decode.rs", imp: "SszDecoder", tr: "", name: "decode_next", coq: "decoder_decode_next" },
    Target { file: "ssz/src/decode/try_from_iter.rs", imp: "Vec<T>", tr: "TryFromIter", name: "try_from_iter", coq: "tfi_vec_try_from_iter" },
    Target { file: "ssz/src/decode/try_from_iter.rs", imp: "SmallVec<[T;N]>", tr: "TryFromIter", name: "try_from_iter", coq: "tfi_smallvec_try_from_iter" },
    Target { file: "ssz/src/decode/try_from_iter.rs", imp: "BTreeMap<K,V>", tr: "TryFromIter", name: "try_from_iter", coq: "tfi_btreemap_try_from_iter" },
    Target { file: "ssz/src/decode/try_from_iter.rs", imp: "BTreeSet<T>", tr: "TryFromIter", name: "try_from_iter", coq: "tfi_btreeset_try_from_iter" },
    Target { file: "ssz/src/decode/try_from_iter.rs", imp: "I", tr: "TryCollect", name: "try_collect", coq: "try_collect" },
    Target { file: "ssz/src/decode/impls.rs", imp: "", tr: "", name: "decode_list_of_variable_length_items", coq: "decode_list_of_variable_length_items" },
    // Decode impls of the leaf types and the generic wrappers (ssz/src/decode/impls.rs)
    Target { file: "ssz/src/decode/impls.rs", imp: "u8", tr: "Decode", name: "is_ssz_fixed_len", coq: "u8_dec_is_ssz_fixed_len" },
    Target { file: "ssz/src/decode/impls.rs", imp: "u8", tr: "Decode", name: "ssz_fixed_len", coq: "u8_dec_ssz_fixed_len" },
    Target { file: "ssz/src/decode/impls.rs", imp: "u8", tr: "Decode", name: "from_ssz_bytes", coq: "u8_from_ssz_bytes" },
    Target { file: "ssz/src/decode/impls.rs", imp: "u16", tr: "Decode", name: "is_ssz_fixed_len", coq: "u16_dec_is_ssz_fixed_len" },
    Target { file: "ssz/src/decode/impls.rs", imp: "u16", tr: "Decode", name: "ssz_fixed_len", coq: "u16_dec_ssz_fixed_len" },
    Target { file: "ssz/src/decode/impls.rs", imp: "u16", tr: "Decode", name: "from_ssz_bytes", coq: "u16_from_ssz_bytes" },
    Target { file: "ssz/src/decode/impls.rs", imp: "u32", tr: "Decode", name: "is_ssz_fixed_len", coq: "u32_dec_is_ssz_fixed_len" },
    Target { file: "ssz/src/decode/impls.rs", imp: "u32", tr: "Decode", name: "ssz_fixed_len", coq: "u32_dec_ssz_fixed_len" },
    Target { file: "ssz/src/decode/impls.rs", imp: "u32", tr: "Decode", name: "from_ssz_bytes", coq: "u32_from_ssz_bytes" },
    Target { file: "ssz/src/decode/impls.rs", imp: "u64", tr: "Decode", name: "is_ssz_fixed_len", coq: "u64_dec_is_ssz_fixed_len" },
    Target { file: "ssz/src/decode/impls.rs", imp: "u64", tr: "Decode", name: "ssz_fixed_len", coq: "u64_dec_ssz_fixed_len" },
    Target { file: "ssz/src/decode/impls.rs", imp: "u64", tr: "Decode", name: "from_ssz_bytes", coq: "u64_from_ssz_bytes" },
    Target { file: "ssz/src/decode/impls.rs", imp: "u128", tr: "Decode", name: "is_ssz_fixed_len", coq: "u128_dec_is_ssz_fixed_len" },
    Target { file: "ssz/src/decode/impls.rs", imp: "u128", tr: "Decode", name: "ssz_fixed_len", coq: "u128_dec_ssz_fixed_len" },
    Target { file: "ssz/src/decode/impls.rs", imp: "u128", tr: "Decode", name: "from_ssz_bytes", coq: "u128_from_ssz_bytes" },
    Target { file: "ssz/src/decode/impls.rs", imp: "usize", tr: "Decode", name: "is_ssz_fixed_len", coq: "usize_dec_is_ssz_fixed_len" },
    Target { file: "ssz/src/decode/impls.rs", imp: "usize", tr: "Decode", name: "ssz_fixed_len", coq: "usize_dec_ssz_fixed_len" },
    Target { file: "ssz/src/decode/impls.rs", imp: "usize", tr: "Decode", name: "from_ssz_bytes", coq: "usize_from_ssz_bytes" },
    Target { file: "ssz/src/decode/impls.rs", imp: "bool", tr: "Decode", name: "is_ssz_fixed_len", coq: "bool_dec_is_ssz_fixed_len" },
    Target { file: "ssz/src/decode/impls.rs", imp: "bool", tr: "Decode", name: "ssz_fixed_len", coq: "bool_dec_ssz_fixed_len" },
    Target { file: "ssz/src/decode/impls.rs", imp: "bool", tr: "Decode", name: "from_ssz_bytes", coq: "bool_from_ssz_bytes" },
    Target { file: "ssz/src/decode/impls.rs", imp: "NonZeroUsize", tr: "Decode", name: "is_ssz_fixed_len", coq: "nonzero_dec_is_ssz_fixed_len" },
    Target { file: "ssz/src/decode/impls.rs", imp: "NonZeroUsize", tr: "Decode", name: "ssz_fixed_len", coq: "nonzero_dec_ssz_fixed_len" },
    Target { file: "ssz/src/decode/impls.rs", imp: "NonZeroUsize", tr: "Decode", name: "from_ssz_bytes", coq: "nonzero_from_ssz_bytes" },
    Target { file: "ssz/src/decode/impls.rs", imp: "Option<T>", tr: "Decode", name: "is_ssz_fixed_len", coq: "option_dec_is_ssz_fixed_len" },
    Target { file: "ssz/src/decode/impls.rs", imp: "Option<T>", tr: "Decode", name: "from_ssz_bytes", coq: "option_from_ssz_bytes" },
    Target { file: "ssz/src/decode/impls.rs", imp: "Arc<T>", tr: "Decode", name: "is_ssz_fixed_len", coq: "arc_dec_is_ssz_fixed_len" },
    Target { file: "ssz/src/decode/impls.rs", imp: "Arc<T>", tr: "Decode", name: "ssz_fixed_len", coq: "arc_dec_ssz_fixed_len" },
    Target { file: "ssz/src/decode/impls.rs", imp: "Arc<T>", tr: "Decode", name: "from_ssz_bytes", coq: "arc_from_ssz_bytes" },
    Target { file: "ssz/src/decode/impls.rs", imp: "[u8;N]", tr: "Decode", name: "is_ssz_fixed_len", coq: "array_dec_is_ssz_fixed_len" },
    Target { file: "ssz/src/decode/impls.rs", imp: "[u8;N]", tr: "Decode", name: "ssz_fixed_len", coq: "array_dec_ssz_fixed_len" },
    Target { file: "ssz/src/decode/impls.rs", imp: "[u8;N]", tr: "Decode", name: "from_ssz_bytes", coq: "array_from_ssz_bytes" },
    Target { file: "ssz/src/decode/impls.rs", imp: "Vec<T>", tr: "Decode", name: "is_ssz_fixed_len", coq: "vec_dec_is_ssz_fixed_len" },
    Target { file: "ssz/src/decode/impls.rs", imp: "Vec<T>", tr: "Decode", name: "from_ssz_bytes", coq: "vec_from_ssz_bytes" },
    Target { file: "ssz/src/decode/impls.rs", imp: "SmallVec<[T;N]>", tr: "Decode", name: "is_ssz_fixed_len", coq: "smallvec_dec_is_ssz_fixed_len" },
    Target { file: "ssz/src/decode/impls.rs", imp: "SmallVec<[T;N]>", tr: "Decode", name: "from_ssz_bytes", coq: "smallvec_from_ssz_bytes" },
    Target { file: "ssz/src/decode/impls.rs", imp: "BTreeSet<T>", tr: "Decode", name: "is_ssz_fixed_len", coq: "btreeset_dec_is_ssz_fixed_len" },
    Target { file: "ssz/src/decode/impls.rs", imp: "BTreeSet<T>", tr: "Decode", name: "from_ssz_bytes", coq: "btreeset_from_ssz_bytes" },
    Target { file: "ssz/src/decode/impls.rs", imp: "Address", tr: "Decode", name: "is_ssz_fixed_len", coq: "address_dec_is_ssz_fixed_len" },
    Target { file: "ssz/src/decode/impls.rs", imp: "Address", tr: "Decode", name: "ssz_fixed_len", coq: "address_dec_ssz_fixed_len" },
    Target { file: "ssz/src/decode/impls.rs", imp: "Address", tr: "Decode", name: "from_ssz_bytes", coq: "address_from_ssz_bytes" },
    Target { file: "ssz/src/decode/impls.rs", imp: "FixedBytes<N>", tr: "Decode", name: "is_ssz_fixed_len", coq: "fixedbytes_dec_is_ssz_fixed_len" },
    Target { file: "ssz/src/decode/impls.rs", imp: "FixedBytes<N>", tr: "Decode", name: "ssz_fixed_len", coq: "fixedbytes_dec_ssz_fixed_len" },
    Target { file: "ssz/src/decode/impls.rs", imp: "FixedBytes<N>", tr: "Decode", name: "from_ssz_bytes", coq: "fixedbytes_from_ssz_bytes" },
    Target { file: "ssz/src/decode/impls.rs", imp: "Bloom", tr: "Decode", name: "is_ssz_fixed_len", coq: "bloom_dec_is_ssz_fixed_len" },
    Target { file: "ssz/src/decode/impls.rs", imp: "Bloom", tr: "Decode", name: "ssz_fixed_len", coq: "bloom_dec_ssz_fixed_len" },
    Target { file: "ssz/src/decode/impls.rs", imp: "Bloom", tr: "Decode", name: "from_ssz_bytes", coq: "bloom_from_ssz_bytes" },
    Target { file: "ssz/src/decode/impls.rs", imp: "U256", tr: "Decode", name: "is_ssz_fixed_len", coq: "u256_dec_is_ssz_fixed_len" },
    Target { file: "ssz/src/decode/impls.rs", imp: "U256", tr: "Decode", name: "ssz_fixed_len", coq: "u256_dec_ssz_fixed_len" },
    Target { file: "ssz/src/decode/impls.rs", imp: "U256", tr: "Decode", name: "from_ssz_bytes", coq: "u256_from_ssz_bytes" },
    Target { file: "ssz/src/decode/impls.rs", imp: "U128", tr: "Decode", name: "is_ssz_fixed_len", coq: "alloy_u128_dec_is_ssz_fixed_len" },
    Target { file: "ssz/src/decode/impls.rs", imp: "U128", tr: "Decode", name: "ssz_fixed_len", coq: "alloy_u128_dec_ssz_fixed_len" },
    Target { file: "ssz/src/decode/impls.rs", imp: "U128", tr: "Decode", name: "from_ssz_bytes", coq: "alloy_u128_from_ssz_bytes" },
    Target { file: "ssz/src/decode/impls.rs", imp: "Bytes", tr: "Decode", name: "is_ssz_fixed_len", coq: "alloy_bytes_dec_is_ssz_fixed_len" },
    Target { file: "ssz/src/decode/impls.rs", imp: "Bytes", tr: "Decode", name: "from_ssz_bytes", coq: "alloy_bytes_from_ssz_bytes" },
    // Encode impls (ssz/src/encode/impls.rs) and the rest of SszEncoder
    Target { file: "ssz/src/encode.rs", imp: "SszEncoder", tr: "", name: "container", coq: "encoder_container" },
    Target { file: "ssz/src/encode.rs", imp: "SszEncoder", tr: "", name: "append", coq: "encoder_append_item" },
    Target { file: "ssz/src/encode/impls.rs", imp: "u8", tr: "Encode", name: "is_ssz_fixed_len", coq: "u8_enc_is_ssz_fixed_len" },
    Target { file: "ssz/src/encode/impls.rs", imp: "u8", tr: "Encode", name: "ssz_fixed_len", coq: "u8_enc_ssz_fixed_len" },
    Target { file: "ssz/src/encode/impls.rs", imp: "u8", tr: "Encode", name: "ssz_bytes_len", coq: "u8_ssz_bytes_len" },
    Target { file: "ssz/src/encode/impls.rs", imp: "u8", tr: "Encode", name: "ssz_append", coq: "u8_ssz_append" },
    Target { file: "ssz/src/encode/impls.rs", imp: "u16", tr: "Encode", name: "is_ssz_fixed_len", coq: "u16_enc_is_ssz_fixed_len" },
    Target { file: "ssz/src/encode/impls.rs", imp: "u16", tr: "Encode", name: "ssz_fixed_len", coq: "u16_enc_ssz_fixed_len" },
    Target { file: "ssz/src/encode/impls.rs", imp: "u16", tr: "Encode", name: "ssz_bytes_len", coq: "u16_ssz_bytes_len" },
    Target { file: "ssz/src/encode/impls.rs", imp: "u16", tr: "Encode", name: "ssz_append", coq: "u16_ssz_append" },
    Target { file: "ssz/src/encode/impls.rs", imp: "u32", tr: "Encode", name: "is_ssz_fixed_len", coq: "u32_enc_is_ssz_fixed_len" },
    Target { file: "ssz/src/encode/impls.rs", imp: "u32", tr: "Encode", name: "ssz_fixed_len", coq: "u32_enc_ssz_fixed_len" },
    Target { file: "ssz/src/encode/impls.rs", imp: "u32", tr: "Encode", name: "ssz_bytes_len", coq: "u32_ssz_bytes_len" },
    Target { file: "ssz/src/encode/impls.rs", imp: "u32", tr: "Encode", name: "ssz_append", coq: "u32_ssz_append" },
    Target { file: "ssz/src/encode/impls.rs", imp: "u64", tr: "Encode", name: "is_ssz_fixed_len", coq: "u64_enc_is_ssz_fixed_len" },
    Target { file: "ssz/src/encode/impls.rs", imp: "u64", tr: "Encode", name: "ssz_fixed_len", coq: "u64_enc_ssz_fixed_len" },
    Target { file: "ssz/src/encode/impls.rs", imp: "u64", tr: "Encode", name: "ssz_bytes_len", coq: "u64_ssz_bytes_len" },
    Target { file: "ssz/src/encode/impls.rs", imp: "u64", tr: "Encode", name: "ssz_append", coq: "u64_ssz_append" },
    Target { file: "ssz/src/encode/impls.rs", imp: "u128", tr: "Encode", name: "is_ssz_fixed_len", coq: "u128_enc_is_ssz_fixed_len" },
    Target { file: "ssz/src/encode/impls.rs", imp: "u128", tr: "Encode", name: "ssz_fixed_len", coq: "u128_enc_ssz_fixed_len" },
    Target { file: "ssz/src/encode/impls.rs", imp: "u128", tr: "Encode", name: "ssz_bytes_len", coq: "u128_ssz_bytes_len" },
    Target { file: "ssz/src/encode/impls.rs", imp: "u128", tr: "Encode", name: "ssz_append", coq: "u128_ssz_append" },
    Target { file: "ssz/src/encode/impls.rs", imp: "usize", tr: "Encode", name: "is_ssz_fixed_len", coq: "usize_enc_is_ssz_fixed_len" },
    Target { file: "ssz/src/encode/impls.rs", imp: "usize", tr: "Encode", name: "ssz_fixed_len", coq: "usize_enc_ssz_fixed_len" },
    Target { file: "ssz/src/encode/impls.rs", imp: "usize", tr: "Encode", name: "ssz_bytes_len", coq: "usize_ssz_bytes_len" },
    Target { file: "ssz/src/encode/impls.rs", imp: "usize", tr: "Encode", name: "ssz_append", coq: "usize_ssz_append" },
    Target { file: "ssz/src/encode/impls.rs", imp: "", tr: "", name: "sequence_ssz_bytes_len", coq: "sequence_ssz_bytes_len" },
    Target { file: "ssz/src/encode/impls.rs", imp: "", tr: "", name: "sequence_ssz_append", coq: "sequence_ssz_append" },
    Target { file: "ssz/src/encode/impls.rs", imp: "bool", tr: "Encode", name: "is_ssz_fixed_len", coq: "bool_enc_is_ssz_fixed_len" },
    Target { file: "ssz/src/encode/impls.rs", imp: "bool", tr: "Encode", name: "ssz_fixed_len", coq: "bool_enc_ssz_fixed_len" },
    Target { file: "ssz/src/encode/impls.rs", imp: "bool", tr: "Encode", name: "ssz_bytes_len", coq: "bool_ssz_bytes_len" },
    Target { file: "ssz/src/encode/impls.rs", imp: "bool", tr: "Encode", name: "ssz_append", coq: "bool_ssz_append" },
    Target { file: "ssz/src/encode/impls.rs", imp: "NonZeroUsize", tr: "Encode", name: "is_ssz_fixed_len", coq: "nonzero_enc_is_ssz_fixed_len" },
    Target { file: "ssz/src/encode/impls.rs", imp: "NonZeroUsize", tr: "Encode", name: "ssz_fixed_len", coq: "nonzero_enc_ssz_fixed_len" },
    Target { file: "ssz/src/encode/impls.rs", imp: "NonZeroUsize", tr: "Encode", name: "ssz_bytes_len", coq: "nonzero_ssz_bytes_len" },
    Target { file: "ssz/src/encode/impls.rs", imp: "NonZeroUsize", tr: "Encode", name: "ssz_append", coq: "nonzero_ssz_append" },
    Target { file: "ssz/src/encode/impls.rs", imp: "Option<T>", tr: "Encode", name: "is_ssz_fixed_len", coq: "option_enc_is_ssz_fixed_len" },
    Target { file: "ssz/src/encode/impls.rs", imp: "Option<T>", tr: "Encode", name: "ssz_bytes_len", coq: "option_ssz_bytes_len" },
    Target { file: "ssz/src/encode/impls.rs", imp: "Option<T>", tr: "Encode", name: "ssz_append", coq: "option_ssz_append" },
    Target { file: "ssz/src/encode/impls.rs", imp: "Arc<T>", tr: "Encode", name: "is_ssz_fixed_len", coq: "arc_enc_is_ssz_fixed_len" },
    Target { file: "ssz/src/encode/impls.rs", imp: "Arc<T>", tr: "Encode", name: "ssz_fixed_len", coq: "arc_enc_ssz_fixed_len" },
    Target { file: "ssz/src/encode/impls.rs", imp: "Arc<T>", tr: "Encode", name: "ssz_bytes_len", coq: "arc_ssz_bytes_len" },
    Target { file: "ssz/src/encode/impls.rs", imp: "Arc<T>", tr: "Encode", name: "ssz_append", coq: "arc_ssz_append" },
    Target { file: "ssz/src/encode/impls.rs", imp: "&T", tr: "Encode", name: "is_ssz_fixed_len", coq: "ref_enc_is_ssz_fixed_len" },
    Target { file: "ssz/src/encode/impls.rs", imp: "&T", tr: "Encode", name: "ssz_fixed_len", coq: "ref_enc_ssz_fixed_len" },
    Target { file: "ssz/src/encode/impls.rs", imp: "&T", tr: "Encode", name: "ssz_bytes_len", coq: "ref_ssz_bytes_len" },
    Target { file: "ssz/src/encode/impls.rs", imp: "&T", tr: "Encode", name: "ssz_append", coq: "ref_ssz_append" },
    Target { file: "ssz/src/encode/impls.rs", imp: "[u8;N]", tr: "Encode", name: "is_ssz_fixed_len", coq: "array_enc_is_ssz_fixed_len" },
    Target { file: "ssz/src/encode/impls.rs", imp: "[u8;N]", tr: "Encode", name: "ssz_fixed_len", coq: "array_enc_ssz_fixed_len" },
    Target { file: "ssz/src/encode/impls.rs", imp: "[u8;N]", tr: "Encode", name: "ssz_bytes_len", coq: "array_ssz_bytes_len" },
    Target { file: "ssz/src/encode/impls.rs", imp: "[u8;N]", tr: "Encode", name: "ssz_append", coq: "array_ssz_append" },
    Target { file: "ssz/src/encode/impls.rs", imp: "Vec<T>", tr: "Encode", name: "is_ssz_fixed_len", coq: "vec_enc_is_ssz_fixed_len" },
    Target { file: "ssz/src/encode/impls.rs", imp: "Vec<T>", tr: "Encode", name: "ssz_bytes_len", coq: "vec_ssz_bytes_len" },
    Target { file: "ssz/src/encode/impls.rs", imp: "Vec<T>", tr: "Encode", name: "ssz_append", coq: "vec_ssz_append" },
    Target { file: "ssz/src/encode/impls.rs", imp: "SmallVec<[T;N]>", tr: "Encode", name: "is_ssz_fixed_len", coq: "smallvec_enc_is_ssz_fixed_len" },
    Target { file: "ssz/src/encode/impls.rs", imp: "SmallVec<[T;N]>", tr: "Encode", name: "ssz_bytes_len", coq: "smallvec_ssz_bytes_len" },
    Target { file: "ssz/src/encode/impls.rs", imp: "SmallVec<[T;N]>", tr: "Encode", name: "ssz_append", coq: "smallvec_ssz_append" },
    Target { file: "ssz/src/encode/impls.rs", imp: "BTreeSet<T>", tr: "Encode", name: "is_ssz_fixed_len", coq: "btreeset_enc_is_ssz_fixed_len" },
    Target { file: "ssz/src/encode/impls.rs", imp: "BTreeSet<T>", tr: "Encode", name: "ssz_bytes_len", coq: "btreeset_ssz_bytes_len" },
    Target { file: "ssz/src/encode/impls.rs", imp: "BTreeSet<T>", tr: "Encode", name: "ssz_append", coq: "btreeset_ssz_append" },
    Target { file: "ssz/src/encode/impls.rs", imp: "Address", tr: "Encode", name: "is_ssz_fixed_len", coq: "address_enc_is_ssz_fixed_len" },
    Target { file: "ssz/src/encode/impls.rs", imp: "Address", tr: "Encode", name: "ssz_fixed_len", coq: "address_enc_ssz_fixed_len" },
    Target { file: "ssz/src/encode/impls.rs", imp: "Address", tr: "Encode", name: "ssz_bytes_len", coq: "address_ssz_bytes_len" },
    Target { file: "ssz/src/encode/impls.rs", imp: "Address", tr: "Encode", name: "ssz_append", coq: "address_ssz_append" },
    Target { file: "ssz/src/encode/impls.rs", imp: "FixedBytes<N>", tr: "Encode", name: "is_ssz_fixed_len", coq: "fixedbytes_enc_is_ssz_fixed_len" },
    Target { file: "ssz/src/encode/impls.rs", imp: "FixedBytes<N>", tr: "Encode", name: "ssz_fixed_len", coq: "fixedbytes_enc_ssz_fixed_len" },
    Target { file: "ssz/src/encode/impls.rs", imp: "FixedBytes<N>", tr: "Encode", name: "ssz_bytes_len", coq: "fixedbytes_ssz_bytes_len" },
    Target { file: "ssz/src/encode/impls.rs", imp: "FixedBytes<N>", tr: "Encode", name: "ssz_append", coq: "fixedbytes_ssz_append" },
    Target { file: "ssz/src/encode/impls.rs", imp: "FixedBytes<N>", tr: "Encode", name: "as_ssz_bytes", coq: "fixedbytes_as_ssz_bytes" },
    Target { file: "ssz/src/encode/impls.rs", imp: "Bloom", tr: "Encode", name: "as_ssz_bytes", coq: "bloom_as_ssz_bytes" },
    Target { file: "ssz/src/encode/impls.rs", imp: "Bytes", tr: "Encode", name: "as_ssz_bytes", coq: "alloy_bytes_as_ssz_bytes" },
    Target { file: "ssz/src/encode/impls.rs", imp: "Bloom", tr: "Encode", name: "is_ssz_fixed_len", coq: "bloom_enc_is_ssz_fixed_len" },
    Target { file: "ssz/src/encode/impls.rs", imp: "Bloom", tr: "Encode", name: "ssz_fixed_len", coq: "bloom_enc_ssz_fixed_len" },
    Target { file: "ssz/src/encode/impls.rs", imp: "Bloom", tr: "Encode", name: "ssz_bytes_len", coq: "bloom_ssz_bytes_len" },
    Target { file: "ssz/src/encode/impls.rs", imp: "Bloom", tr: "Encode", name: "ssz_append", coq: "bloom_ssz_append" },
    Target { file: "ssz/src/encode/impls.rs", imp: "U256", tr: "Encode", name: "is_ssz_fixed_len", coq: "u256_enc_is_ssz_fixed_len" },
    Target { file: "ssz/src/encode/impls.rs", imp: "U256", tr: "Encode", name: "ssz_fixed_len", coq: "u256_enc_ssz_fixed_len" },
    Target { file: "ssz/src/encode/impls.rs", imp: "U256", tr: "Encode", name: "ssz_bytes_len", coq: "u256_ssz_bytes_len" },
    Target { file: "ssz/src/encode/impls.rs", imp: "U256", tr: "Encode", name: "ssz_append", coq: "u256_ssz_append" },
    Target { file: "ssz/src/encode/impls.rs", imp: "U128", tr: "Encode", name: "is_ssz_fixed_len", coq: "alloy_u128_enc_is_ssz_fixed_len" },
    Target { file: "ssz/src/encode/impls.rs", imp: "U128", tr: "Encode", name: "ssz_fixed_len", coq: "alloy_u128_enc_ssz_fixed_len" },
    Target { file: "ssz/src/encode/impls.rs", imp: "U128", tr: "Encode", name: "ssz_bytes_len", coq: "alloy_u128_ssz_bytes_len" },
    Target { file: "ssz/src/encode/impls.rs", imp: "U128", tr: "Encode", name: "ssz_append", coq: "alloy_u128_ssz_append" },
    Target { file: "ssz/src/encode/impls.rs", imp: "Bytes", tr: "Encode", name: "is_ssz_fixed_len", coq: "alloy_bytes_enc_is_ssz_fixed_len" },
    Target { file: "ssz/src/encode/impls.rs", imp: "Bytes", tr: "Encode", name: "ssz_bytes_len", coq: "alloy_bytes_ssz_bytes_len" },
    Target { file: "ssz/src/encode/impls.rs", imp: "Bytes", tr: "Encode", name: "ssz_append", coq: "alloy_bytes_ssz_append" },
    Target { file: "ssz/src/legacy.rs", imp: "", tr: "", name: "encode_four_byte_union_selector", coq: "encode_four_byte_union_selector" },
    Target { file: "ssz/src/legacy.rs", imp: "", tr: "", name: "read_four_byte_union_selector", coq: "read_four_byte_union_selector" },
];

/// structs translated to records: (file, name)
const RECORDS: &[(&str, &str)] = &[
    ("ssz/src/decode.rs", "Offset"),
    ("ssz/src/decode.rs", "SszDecoderBuilder"),
    ("ssz/src/decode.rs", "SszDecoder"),
    ("ssz/src/encode.rs", "SszEncoder"),
    ("ssz/src/bitfield.rs", "Bitfield"),
    ("ssz/src/bitfield.rs", "BitIter"),
];

/// termination measures for loops over translated iterators: the number of `next()` calls after which the
/// iterator must have returned `None` (`IT` is the iterator value).  Running out of fuel is a `Panic` in
/// the generated definition, so a measure that is too small makes the equivalence proof fail, never hold.
const ITER_FUEL: &[(&str, &str)] = &[("BitIter", "S (N.to_nat (Bitfield_len (BitIter_bitfield IT)))")];

/// integer constants translated to definitions: (file, name)
const CONSTS: &[(&str, &str)] = &[
    ("ssz/src/lib.rs", "BYTES_PER_LENGTH_OFFSET"),
    ("ssz/src/lib.rs", "BYTES_PER_UNION_SELECTOR"),
    ("ssz/src/lib.rs", "MAX_UNION_SELECTOR"),
];

#[derive(Clone, Copy, PartialEq, Debug)]
enum Kind {
    /// a pure Gallina term
    Pure,
    /// a term of type `outcome T`
    Comp,
}

struct Cx {
    fresh: usize,
    /// pending monadic bindings of the statement being translated, innermost last
    binds: Vec<(String, String)>,
    /// name of the record `self` is an instance of
    self_rec: Option<String>,
    /// record name -> field names
    records: HashMap<String, Vec<String>>,
    /// names (functions) known to return `Result` (translated as outcome)
    res_fns: HashMap<String, String>,
    /// closure-typed parameters: calling them on a buffer returns the new buffer
    fn_params: Vec<String>,
    /// `let x = v.f.get_mut(i)..?`: x aliases v.f[i]  (variable -> (v, field, index term))
    aliases: HashMap<String, (String, String, String)>,
    /// translating an operand of a u8 bit operation: `!` is bitwise
    u8ctx: bool,
    /// "Imp::name" of translated `&mut self` methods (they return the new state)
    mut_methods: Vec<String>,
    notes: Vec<String>,
    /// impl key of the function being translated ("Bitfield<Variable<N>>"), "" for a free function
    cur_imp: String,
    cur_tr: String,
    /// serde: the `serializer: S` / `deserializer: D` parameter of the function being translated
    serde_ser_var: Option<String>,
    serde_de_var: Option<String>,
    /// types declared inside the function body, with the trait functions their local impls define (as terms)
    local_impls: HashMap<String, HashMap<String, String>>,
    /// numeric type parameters in scope (`N: Unsigned`): `N::to_usize()` is the variable `tN`
    tparams: Vec<String>,
    /// local variables and parameters that hold a value of a translated record type
    var_rec: HashMap<String, String>,
    /// every translated function: "imp::name" / "imp::Trait::name" / "name"
    fns: HashMap<String, FnInfo>,
    /// the function returns an `Option` (so `e?` on an option returns `None`)
    ret_option: bool,
    /// "Record.field" -> Coq type of the field
    field_types: HashMap<String, String>,
    /// what `None?` returns (depends on whether the function passes a state)
    ret_none: String,
    /// type parameters bounded by `Decode` / `Encode`: their trait functions are parameters of the definition
    dict_params: Vec<String>,
    /// the dictionary members the body uses: (type parameter, member)
    dict_used: Vec<(String, String)>,
    /// variables standing for a fully evaluated iterator (a list)
    list_vars: Vec<String>,
    /// the `&mut Vec<u8>` parameter of the function being translated
    mut_param: Option<String>,
    /// a record variable built from the `&mut` parameter (`SszEncoder::container(buf, ..)`): (field, parameter).
    /// The record owns the buffer; after each update of the record the parameter is re-read from that field.
    borrows: HashMap<String, (String, String)>,
    /// dictionary parameter -> the text of its bounds
    dict_bounds: HashMap<String, String>,
    /// derive mode: Rust types of local variables (match bindings, lets)
    var_ty: HashMap<String, String>,
    /// derive mode: the Rust type the expression being translated is expected to have (`<_>::f(..)`, `decode_next()`)
    expected_ty: Option<String>,
    /// the dictionary signature of already translated generic functions: coq name -> member names in order
    dict_sigs: HashMap<String, Vec<String>>,
}

#[derive(Clone, Debug)]
struct FnInfo {
    coq: String,
    /// numeric type parameters the Coq definition takes first (impl-level, then fn-level)
    tparams: Vec<String>,
    /// how many of them belong to the impl
    n_impl: usize,
    mut_self: bool,
    /// the record the function returns (`Self`, `Result<Self, _>`, ..)
    ret_rec: Option<String>,
    imp: String,
    /// index (among the non-self parameters) of a `&mut Vec<u8>` parameter: the definition returns its final value
    mut_param: Option<usize>,
    /// a `&mut self` method that also returns a value: the definition returns (value, new state)
    valued: bool,
}

/// "Bitfield<Variable<N>>" -> "Bitfield<Variable<_>>": impl keys compared up to the parameter name
fn shape(s: &str) -> String {
    let mut out = String::new();
    let cs: Vec<char> = s.chars().collect();
    let mut i = 0;
    while i < cs.len() {
        if cs[i] == '<' && i + 2 < cs.len() && cs[i + 1].is_ascii_uppercase() && cs[i + 2] == '>' {
            out.push_str("<_>");
            i += 3;
        } else {
            out.push(cs[i]);
            i += 1;
        }
    }
    out
}

/// Types defined in the file of derive expansions (derive mode): structs with their fields, enums with
/// their variants, and which trait functions each impl defines itself (the others are trait defaults).
#[derive(Default, Debug, Clone)]
struct UserTypes {
    structs: HashMap<String, Vec<(String, String)>>,
    enums: HashMap<String, Vec<(String, Option<String>)>>,
    /// type parameters of a generic sample struct
    generics: HashMap<String, Vec<String>>,
    defined: std::collections::HashSet<String>, // "Type::Trait::fn"
}
static USER: std::sync::OnceLock<UserTypes> = std::sync::OnceLock::new();
fn user() -> &'static UserTypes {
    USER.get_or_init(Default::default)
}

/// Coq type of a Rust type written in a derive program
fn rty_coq(t: &str) -> Option<String> {
    let t = t.replace(' ', "");
    let t = t.trim_start_matches('&').to_string();
    Some(match t.as_str() {
        "u8" | "u16" | "u32" | "u64" | "u128" | "usize" => "N".to_string(),
        "bool" => "bool".to_string(),
        _ => {
            if let Some(x) = t.strip_prefix("Vec<").and_then(|x| x.strip_suffix('>')) {
                let inner = rty_coq(x)?;
                return Some(if inner == "N" && x == "u8" { "bytes".to_string() } else { format!("(list {})", inner) });
            }
            if let Some(x) = t.strip_prefix("Option<").and_then(|x| x.strip_suffix('>')) {
                return Some(format!("(option {})", rty_coq(x)?));
            }
            if t.starts_with("[u8;") {
                return Some("bytes".to_string());
            }
            if bit_type(&t).is_some() {
                return Some("Bitfield".to_string());
            }
            if user().structs.contains_key(&t) || user().enums.contains_key(&t) {
                return Some(t);
            }
            if t.len() == 1 && t.chars().all(|c| c.is_ascii_uppercase()) {
                // a type parameter of a generic sample definition
                return Some(format!("A_{}", t));
            }
            return None;
        }
    })
}

/// the Coq type of `self` in an impl for a non-record type
fn self_ty_coq(imp: &str) -> Option<String> {
    if let Some(gs) = user().generics.get(imp) {
        return Some(format!("({} {})", imp, gs.iter().map(|g| format!("A_{}", g)).collect::<Vec<_>>().join(" ")));
    }
    if user().structs.contains_key(imp) || user().enums.contains_key(imp) {
        return Some(imp.to_string());
    }
    // a tuple of type parameters `(A,B,C)`: the (left-nested) product of their value types
    if let Some(cs) = tuple_components(imp) {
        return Some(format!("({})", cs.iter().map(|c| format!("A_{}", c)).collect::<Vec<_>>().join(" * ")));
    }
    Some(match imp {
        "u8" | "u16" | "u32" | "u64" | "u128" | "usize" | "NonZeroUsize" | "U256" | "U128" | "UnionSelector" => "N".to_string(),
        "bool" => "bool".to_string(),
        "Address" | "Bloom" | "FixedBytes<N>" | "[u8;N]" | "Bytes" => "bytes".to_string(),
        "Option<T>" => "(option A_T)".to_string(),
        // a `BTreeSet<T>` is its elements in ascending order (how `iter()` yields them)
        "Vec<T>" | "SmallVec<[T;N]>" | "BTreeSet<T>" => "(list A_T)".to_string(),
        // a `BTreeMap<K, V>` is its entries in ascending key order
        "BTreeMap<K,V>" => "(list (A_K * A_V))".to_string(),
        "Arc<T>" | "&T" => "A_T".to_string(),
        _ => return None,
    })
}

/// `BitVector<typenum::U9>` / `BitList<typenum::U16>`: the translated impl's prefix and the capacity
fn bit_type(t: &str) -> Option<(&'static str, String)> {
    let t = t.replace(' ', "");
    for (pre, name) in [("BitVector<typenum::U", "bitvector"), ("BitList<typenum::U", "bitlist")] {
        if let Some(n) = t.strip_prefix(pre).and_then(|x| x.strip_suffix('>')) {
            if !n.is_empty() && n.chars().all(|c| c.is_ascii_digit()) {
                return Some((name, n.to_string()));
            }
        }
    }
    None
}

/// `(A,B,C)` with single upper-case type parameters as components
fn tuple_components(imp: &str) -> Option<Vec<String>> {
    let inner = imp.strip_prefix('(')?.strip_suffix(')')?;
    let cs: Vec<String> = inner.split(',').filter(|c| !c.is_empty()).map(|c| c.to_string()).collect();
    if cs.len() >= 2 && cs.iter().all(|c| c.len() == 1 && c.chars().all(|x| x.is_ascii_uppercase())) { Some(cs) } else { None }
}

/// byte width of an unsigned integer type
fn uint_width(t: &str) -> Option<u32> {
    Some(match t { "u8" => 1, "u16" => 2, "u32" => 4, "u64" | "usize" => 8, "u128" | "U128" => 16, "U256" => 32, _ => return None })
}

fn base_of(imp: &str) -> String {
    imp.split('<').next().unwrap_or("").to_string()
}

fn tokens<T: quote::ToTokens>(t: &T) -> String {
    let s = t.to_token_stream().to_string();
    if s.len() > 90 { format!("{} ..", &s[..90]) } else { s }
}

fn path_last(p: &syn::Path) -> String {
    p.segments.last().map(|s| s.ident.to_string()).unwrap_or_default()
}

fn path_str(p: &syn::Path) -> String {
    p.segments.iter().map(|s| s.ident.to_string()).collect::<Vec<_>>().join("::")
}

/// `Bitfield::<Variable<M>>::with_capacity` -> ("with_capacity", Some("Bitfield<Variable<M>>"), ["M"]);
/// `Self::max_len` -> ("max_len", Some("Self"), []);  `read_offset` -> ("read_offset", None, [])
fn split_fn_path(p: &syn::Path) -> (String, Option<String>, Vec<String>) {
    let n = p.segments.len();
    let name = p.segments[n - 1].ident.to_string();
    if n == 1 {
        return (name, None, vec![]);
    }
    let seg = &p.segments[n - 2];
    let mut ty = seg.ident.to_string();
    let mut nums = vec![];
    if let syn::PathArguments::AngleBracketed(a) = &seg.arguments {
        let inner = a.args.to_token_stream().to_string().replace(' ', "");
        ty = format!("{}<{}>", ty, inner);
        // single upper-case identifiers inside the arguments are the type-level numbers
        let cs: Vec<char> = inner.chars().collect();
        for (i, c) in cs.iter().enumerate() {
            let prev = if i > 0 { cs[i - 1] } else { '<' };
            let next = if i + 1 < cs.len() { cs[i + 1] } else { '>' };
            if c.is_ascii_uppercase() && !prev.is_alphanumeric() && !next.is_alphanumeric() {
                nums.push(c.to_string());
            }
        }
    }
    (name, Some(ty), nums)
}

/// an iterator chain over a slice / vector (as opposed to an `Option`)
fn is_list_chain(e: &Expr) -> bool {
    match e {
        Expr::Paren(p) => is_list_chain(&p.expr),
        Expr::MethodCall(m) => {
            let n = m.method.to_string();
            matches!(n.as_str(), "iter" | "enumerate" | "rev" | "chunks" | "windows" | "into_iter" | "iter_mut")
                || (matches!(n.as_str(), "map" | "filter") && is_list_chain(&m.receiver))
        }
        Expr::Range(_) => true,
        _ => false,
    }
}

/// does the expression contain a `return`?
fn contains_return(e: &Expr) -> bool {
    struct V(bool);
    impl<'ast> syn::visit::Visit<'ast> for V {
        fn visit_expr_return(&mut self, _r: &'ast syn::ExprReturn) {
            self.0 = true;
        }
    }
    let mut v = V(false);
    syn::visit::Visit::visit_expr(&mut v, e);
    v.0
}

/// "U2_A", "U2" -> "A"
fn path_last_str(ctor: &str, en: &str) -> String {
    ctor.strip_prefix(&format!("{}_", en)).unwrap_or(ctor).to_string()
}

fn strip_refs(e: &Expr) -> &Expr {
    match e {
        Expr::Paren(p) => strip_refs(&p.expr),
        Expr::Reference(r) => strip_refs(&r.expr),
        Expr::Unary(u) if matches!(u.op, UnOp::Deref(_)) => strip_refs(&u.expr),
        Expr::Group(g) => strip_refs(&g.expr),
        other => other,
    }
}

fn strip_is_self(e: &Expr) -> bool {
    matches!(strip_refs(e), Expr::Path(p) if path_str(&p.path) == "self")
}

fn int_lit(e: &Expr) -> Option<u128> {
    match e {
        Expr::Lit(l) => match &l.lit {
            Lit::Int(i) => i.base10_parse::<u128>().ok(),
            _ => None,
        },
        Expr::Paren(p) => int_lit(&p.expr),
        _ => None,
    }
}

impl Cx {
    fn new(records: HashMap<String, Vec<String>>, res_fns: HashMap<String, String>) -> Self {
        Cx { fresh: 0, binds: vec![], self_rec: None, records, res_fns, fn_params: vec![], aliases: HashMap::new(), u8ctx: false, mut_methods: vec![], notes: vec![],
             cur_imp: String::new(), cur_tr: String::new(), serde_ser_var: None, serde_de_var: None, local_impls: HashMap::new(), tparams: vec![], var_rec: HashMap::new(), fns: HashMap::new(), ret_option: false, field_types: HashMap::new(), ret_none: "Ok None".to_string(), dict_params: vec![], dict_used: vec![], list_vars: vec![], mut_param: None, borrows: HashMap::new(), dict_bounds: HashMap::new(), var_ty: HashMap::new(), expected_ty: None, dict_sigs: HashMap::new() }
    }

    fn var(&mut self, hint: &str) -> String {
        self.fresh += 1;
        format!("{}_{}", hint, self.fresh)
    }

    /// Binds a computation and returns the variable standing for its value.
    fn bind(&mut self, comp: String, hint: &str) -> String {
        let v = self.var(hint);
        self.binds.push((v.clone(), comp));
        v
    }

    /// Wraps `body` (a term of type outcome _) in the pending binds from position `from` on.
    fn wrap(&mut self, from: usize, body: String) -> String {
        let mut out = body;
        while self.binds.len() > from {
            let (v, c) = self.binds.pop().unwrap();
            if let Some(pat) = v.strip_prefix("LET:") {
                out = format!("let {} := {} in\n{}", pat, c, out);
            } else if let Some(x) = v.strip_prefix("OPT:") {
                // `e?` on an Option in a function that returns an Option
                out = format!("match {} with\n| Some {} =>\n{}\n| None =>\n{}\nend", c, x, out, self.ret_none);
            } else {
                out = format!("do {} <- {};\n{}", v, c, out);
            }
        }
        out
    }

    fn field_proj(&self, rec: &str, f: &str) -> String {
        format!("{}_{}", rec, f)
    }

    // ---------------------------------------------------------------------------------------
    // name resolution: which translated function does `name` mean here?

    /// `ty`: the explicit self type of a path call (`Bitfield::<Variable<M>>::f`), if any.
    fn resolve(&self, name: &str, ty: Option<&str>) -> Option<FnInfo> {
        if let Some(ty) = ty {
            if ty != "Self" {
                // an explicit type: the impl of that shape, else the generic impl of its base
                let want = shape(ty);
                let mut hits: Vec<&FnInfo> = self.fns.iter().filter(|(k, i)| k.ends_with(&format!("::{}", name)) && shape(&i.imp) == want && k.matches("::").count() == 1).map(|(_, i)| i).collect();
                if hits.is_empty() {
                    let b = base_of(ty);
                    hits = self.fns.iter().filter(|(k, i)| k.ends_with(&format!("::{}", name)) && base_of(&i.imp) == b && k.matches("::").count() == 1).map(|(_, i)| i).collect();
                    // prefer the generic impl `Base<T>`
                    if hits.len() > 1 {
                        hits.retain(|i| i.imp == format!("{}<T>", b));
                    }
                }
                return if hits.len() == 1 { Some(hits[0].clone()) } else { None };
            }
        }
        if !self.cur_imp.is_empty() {
            if let Some(i) = self.fns.get(&format!("{}::{}", self.cur_imp, name)) {
                return Some(i.clone());
            }
            if let Some(i) = self.fns.get(&format!("{}<T>::{}", base_of(&self.cur_imp), name)) {
                return Some(i.clone());
            }
        }
        if ty.is_none() {
            if let Some(i) = self.fns.get(name) {
                return Some(i.clone());
            }
        }
        None
    }

    /// method `name` on a value of record type `rec`
    fn resolve_method(&self, rec: &str, name: &str) -> Option<FnInfo> {
        if base_of(&self.cur_imp) == rec {
            if let Some(i) = self.resolve(name, Some("Self")) {
                return Some(i);
            }
        }
        self.fns.get(&format!("{}<T>::{}", rec, name)).or_else(|| self.fns.get(&format!("{}::{}", rec, name))).cloned()
    }

    /// the Coq arguments for the callee's numeric type parameters
    fn targs(&self, callee: &FnInfo, explicit: &[String]) -> R<Vec<String>> {
        let mut out = vec![];
        if !explicit.is_empty() {
            if explicit.len() != callee.tparams.len() {
                return Err(format!("{} takes {} type-level numbers, {} given", callee.coq, callee.tparams.len(), explicit.len()));
            }
            for e in explicit {
                out.push(format!("t{}", e));
            }
            return Ok(out);
        }
        // same impl (or the generic impl, which has none): the impl's own parameters
        for (k, _) in callee.tparams.iter().enumerate() {
            if k < callee.n_impl {
                let mine = self.tparams.get(k).ok_or_else(|| format!("call of {} needs a type-level number that is not in scope", callee.coq))?;
                out.push(format!("t{}", mine));
            } else {
                return Err(format!("call of {} needs an explicit type-level number", callee.coq));
            }
        }
        Ok(out)
    }

    /// the translated record type of an expression's value, when it is syntactically evident
    fn rec_of_expr(&self, e: &Expr) -> Option<String> {
        match e {
            Expr::Paren(p) => self.rec_of_expr(&p.expr),
            Expr::Group(p) => self.rec_of_expr(&p.expr),
            Expr::Reference(r) => self.rec_of_expr(&r.expr),
            Expr::Unary(u) if matches!(u.op, UnOp::Deref(_)) => self.rec_of_expr(&u.expr),
            Expr::Try(t) => self.rec_of_expr(&t.expr),
            Expr::Path(p) => {
                let s = path_str(&p.path);
                if s == "self" { self.self_rec.clone() } else { self.var_rec.get(&s).cloned() }
            }
            Expr::Field(f) => {
                // a field that itself holds a record (`self.bitfield` of BitIter)
                if let Member::Named(id) = &f.member {
                    let owner = self.rec_of_expr(&f.base)?;
                    return self.var_rec.get(&format!("{}.{}", owner, id)).cloned();
                }
                None
            }
            Expr::MethodCall(m) => {
                let name = m.method.to_string();
                let recv = self.rec_of_expr(&m.receiver)?;
                if matches!(name.as_str(), "clone" | "expect" | "unwrap" | "unwrap_or_else" | "map_err") {
                    return Some(recv);
                }
                self.resolve_method(&recv, &name).and_then(|i| i.ret_rec)
            }
            Expr::Call(c) => {
                if let Expr::Path(p) = &*c.func {
                    let (name, ty, _) = split_fn_path(&p.path);
                    return self.resolve(&name, ty.as_deref()).and_then(|i| i.ret_rec);
                }
                None
            }
            Expr::Block(b) => match b.block.stmts.last() {
                Some(Stmt::Expr(e, None)) => self.rec_of_expr(e),
                _ => None,
            },
            Expr::Struct(s) => {
                let name = path_last(&s.path);
                if name == "Self" { self.self_rec.clone() } else if self.records.contains_key(&name) { Some(name) } else { None }
            }
            _ => None,
        }
    }

    // ---------------------------------------------------------------------------------------
    // expressions: returns a pure term (computations are bound on the way)

    fn val(&mut self, e: &Expr) -> R<String> {
        let (t, k) = self.expr(e)?;
        Ok(match k {
            Kind::Pure => t,
            Kind::Comp => self.bind(t, "t"),
        })
    }

    fn closure1(&mut self, e: &Expr, want: Kind) -> R<String> {
        match e {
            Expr::Closure(c) => {
                let mut names = vec![];
                for p in &c.inputs {
                    names.push(self.pat_name(p)?);
                }
                let from = self.binds.len();
                let (body, k) = self.expr(&c.body)?;
                let body = match (k, want) {
                    (Kind::Pure, Kind::Pure) => {
                        if self.binds.len() != from {
                            return Err(format!("closure body needs the monad but a pure function is expected: {}", tokens(e)));
                        }
                        body
                    }
                    (Kind::Pure, Kind::Comp) => self.wrap(from, format!("Ok {}", paren(&body))),
                    (Kind::Comp, Kind::Comp) => self.wrap(from, body),
                    (Kind::Comp, Kind::Pure) => return Err(format!("closure body is a computation but a pure function is expected: {}", tokens(e))),
                };
                Ok(format!("(fun {} => {})", names.join(" "), body))
            }
            Expr::Path(p) if p.qself.is_some() && path_last(&p.path) == "from_ssz_bytes" && want == Kind::Comp
                && tuple_components(&norm_type(&p.qself.as_ref().unwrap().ty)).is_some() => {
                // `<(K, V)>::from_ssz_bytes`: the tuple impl at the caller's type parameters
                let ty = norm_type(&p.qself.as_ref().unwrap().ty);
                self.td_fn(&ty, "from_ssz_bytes")
            }
            Expr::Path(p) => {
                let name = path_str(&p.path);
                if p.path.segments.len() == 2 && self.dict_params.contains(&p.path.segments[0].ident.to_string()) {
                    let ty = p.path.segments[0].ident.to_string();
                    let member = path_last(&p.path);
                    if member == "from_ssz_bytes" && want == Kind::Comp {
                        if !self.dict_used.contains(&(ty.clone(), member.clone())) {
                            self.dict_used.push((ty.clone(), member.clone()));
                        }
                        return Ok(format!("{}_{}", ty, member));
                    }
                    return Err(format!("dictionary member {} where a {} function is expected", name, if want == Kind::Comp { "fallible" } else { "pure" }));
                }
                if p.path.segments.len() == 2 && user().enums.contains_key(&p.path.segments[0].ident.to_string()) {
                    let c = format!("{}_{}", p.path.segments[0].ident, path_last(&p.path));
                    return if want == Kind::Pure { Ok(c) } else { Ok(format!("(fun x => Ok ({} x))", c)) };
                }
                if matches!(name.as_str(), "Option::Some" | "Some") {
                    return if want == Kind::Pure { Ok("Some".into()) } else { Ok("(fun x => Ok (Some x))".into()) };
                }
                if matches!(name.as_str(), "Arc::new" | "Box::new") {
                    return if want == Kind::Pure { Ok("(fun x => x)".into()) } else { Ok("(fun x => Ok x)".into()) };
                }
                if let Some(c) = self.res_fns.get(&name) {
                    if want == Kind::Comp { Ok(c.clone()) } else { Err(format!("{} returns a Result where a pure function is expected", name)) }
                } else if path_last(&p.path) == "Self" || name.ends_with("Self") {
                    Ok("(fun x => x)".into())
                } else {
                    Err(format!("unknown function value {}", name))
                }
            }
            _ => Err(format!("unsupported function argument: {}", tokens(e))),
        }
    }

    // ---------------------------------------------------------------------------------------
    // derive mode: concrete types.  The expanded impls name the types of their fields
    // (`<u16 as Encode>::ssz_fixed_len()`, `register_type::<Vec<u8>>()`), call trait methods on fields
    // (`self.a.ssz_bytes_len()`, `encoder.append(&self.a)`) and let inference pick the decoder
    // (`let a = decoder.decode_next()?; .. Self { a, b }`).  Every such use is resolved to the translated
    // impl of that type, instantiating generic impls (`Vec<T>`, `Option<T>`) at their argument.

    /// Rust type of an expression, when the derive program makes it evident
    fn ty_of(&self, e: &Expr) -> Option<String> {
        match strip_refs(e) {
            Expr::Path(p) => {
                let v = path_str(&p.path);
                if v == "self" { Some(self.cur_imp.clone()) } else { self.var_ty.get(&coq_ident(&v)).cloned() }
            }
            Expr::Field(f) => {
                let owner = self.ty_of(&f.base)?;
                if let (Some(cs), Member::Unnamed(i)) = (tuple_components(&owner), &f.member) {
                    return cs.get(i.index as usize).cloned();
                }
                let fs = user().structs.get(&owner)?;
                let name = match &f.member { Member::Named(id) => id.to_string(), Member::Unnamed(i) => format!("f{}", i.index) };
                fs.iter().find(|(n, _)| *n == name).map(|(_, t)| t.clone())
            }
            _ => None,
        }
    }

    fn prim_prefix(t: &str) -> Option<&'static str> {
        Some(match t { "u8" => "u8", "u16" => "u16", "u32" => "u32", "u64" => "u64", "u128" => "u128", "usize" => "usize", "bool" => "bool", _ => return None })
    }

    /// `<ty as tr>::m()` for m a metadata function: a computation
    fn td_meta(&mut self, ty: &str, tr: &str, m: &str) -> R<String> {
        let ty = ty.replace(' ', "");
        let short = if tr == "Encode" { "enc" } else { "dec" };
        let default_fixed_len = if tr == "Encode" { "encode_default_ssz_fixed_len" } else { "decode_default_ssz_fixed_len" };
        if let Some(ms) = self.local_impls.get(&ty) {
            return Ok(match ms.get(m) { Some(t) => t.clone(), None if m == "ssz_fixed_len" => default_fixed_len.to_string(), None => return Err(format!("the local type {} does not define {}", ty, m)) });
        }
        if let Some(p) = Self::prim_prefix(&ty) {
            return Ok(format!("{}_{}_{}", p, short, m));
        }
        if user().structs.contains_key(&ty) || user().enums.contains_key(&ty) {
            return Ok(if user().defined.contains(&format!("{}::{}::{}", ty, tr, m)) { format!("{}_{}_{}", ty, short, m) } else if m == "ssz_fixed_len" { default_fixed_len.to_string() } else { return Err(format!("{} does not define {}::{}", ty, tr, m)) });
        }
        if let Some(k) = ty.strip_prefix("[u8;").and_then(|x| x.strip_suffix(']')) {
            return Ok(format!("array_{}_{} {}", short, m, k));
        }
        if let Some((pre, n)) = bit_type(&ty) {
            let name = format!("{}_{}_{}", pre, short, m);
            return Ok(if self.res_fns.values().any(|v| *v == name) { format!("{} {}", name, n) } else if m == "ssz_fixed_len" { default_fixed_len.to_string() } else { return Err(format!("{} is not translated", name)) });
        }
        if let Some(cs) = tuple_components(&ty) {
            let callee = format!("tuple{}_{}_{}", cs.len(), short, m);
            let args = self.tuple_dict_args(&callee, &cs)?;
            return Ok(format!("{} {}", callee, args.join(" ")));
        }
        for (pre, name) in [("Vec<", "vec"), ("Option<", "option")] {
            if ty.starts_with(pre) && ty.ends_with('>') {
                return Ok(if m == "is_ssz_fixed_len" { format!("{}_{}_is_ssz_fixed_len", name, short) } else { default_fixed_len.to_string() });
            }
        }
        Err(format!("no translated impl of {} for the type {}", tr, ty))
    }

    /// the arguments a generic translated function takes for its type parameter instantiated at `ty`
    /// (metadata members are evaluated here and bound; function members are terms)
    fn td_inst(&mut self, coq: &str, ty: &str) -> R<Vec<String>> {
        let sig = self.dict_sigs.get(coq).cloned().unwrap_or_default();
        let tr = if sig.iter().any(|m| m.ends_with("_ssz_append") || m.ends_with("_ssz_bytes_len")) || coq.starts_with("encoder_") { "Encode" } else { "Decode" };
        let mut args = vec![];
        for member in sig {
            let mem = member.split_once('_').map(|(_, b)| b.to_string()).unwrap_or_default();
            match mem.as_str() {
                "is_ssz_fixed_len" | "ssz_fixed_len" => {
                    let c = self.td_meta(ty, tr, &mem)?;
                    args.push(self.bind(c, "m"));
                }
                "ssz_append" | "ssz_bytes_len" | "from_ssz_bytes" => args.push(self.td_fn(ty, &mem)?),
                other => return Err(format!("cannot instantiate the member {} of {} at {}", other, coq, ty)),
            }
        }
        Ok(args)
    }

    /// `<ty as _>::m` as a function term, for m in ssz_append / ssz_bytes_len / from_ssz_bytes
    fn td_fn(&mut self, ty: &str, m: &str) -> R<String> {
        let ty = ty.replace(' ', "");
        if let Some(ms) = self.local_impls.get(&ty) {
            return ms.get(m).cloned().ok_or_else(|| format!("the local type {} does not define {}", ty, m));
        }
        if let Some(p) = Self::prim_prefix(&ty) {
            return Ok(format!("{}_{}", p, m));
        }
        if user().structs.contains_key(&ty) || user().enums.contains_key(&ty) {
            return Ok(format!("{}_{}", ty, m));
        }
        if let Some(k) = ty.strip_prefix("[u8;").and_then(|x| x.strip_suffix(']')) {
            return Ok(format!("(array_{} {})", m, k));
        }
        if let Some((pre, n)) = bit_type(&ty) {
            return Ok(format!("({}_{} {})", pre, m, n));
        }
        if let Some(cs) = tuple_components(&ty) {
            let callee = format!("tuple{}_{}", cs.len(), m);
            let args = self.tuple_dict_args(&callee, &cs)?;
            return Ok(format!("({} {})", callee, args.join(" ")));
        }
        for (pre, name) in [("Vec<", "vec"), ("Option<", "option")] {
            if let Some(inner) = ty.strip_prefix(pre).and_then(|x| x.strip_suffix('>')) {
                let callee = format!("{}_{}", name, m);
                // a closed function term: the inner metadata is evaluated inside it
                let saved = std::mem::take(&mut self.binds);
                let args = self.td_inst(&callee, inner);
                let (params, call) = match m {
                    "ssz_append" => ("x b", "x b"),
                    "ssz_bytes_len" => ("x", "x"),
                    _ => ("b", "b"),
                };
                let args = match args { Ok(a) => a, Err(e) => { self.binds = saved; return Err(e) } };
                let body = format!("{} {} {}", callee, args.join(" "), call);
                let n = self.binds.len();
                let _ = n;
                let body = self.wrap(0, body);
                self.binds = saved;
                return Ok(format!("(fun {} => {})", params, body.replace('\n', " ")));
            }
        }
        Err(format!("no translated {} for the type {}", m, ty))
    }

    /// A generic callee's dictionary members.  A type parameter not given by turbofish is the caller's
    /// parameter of the same name; a `TryFromIter` container is the impl's `Self` type.
    fn dict_args(&mut self, coq: &str) -> R<Vec<String>> {
        let mut all = vec![];
        for member in self.dict_sigs.get(coq).cloned().unwrap_or_default() {
            let (tp, mem) = member.split_once('_').map(|(a, b)| (a.to_string(), b.to_string())).unwrap_or_default();
            if self.cur_imp == "BTreeMap<K,V>" && tp == "T" {
                // the items of a map are its entries `(K, V)`: the tuple impl at the map's type parameters
                match mem.as_str() {
                    "is_ssz_fixed_len" | "ssz_fixed_len" => {
                        let tr = self.cur_tr.clone();
                        let c = self.td_meta("(K,V)", &tr, &mem)?;
                        all.push(self.bind(c, "m"));
                    }
                    "ssz_append" | "ssz_bytes_len" | "from_ssz_bytes" => all.push(self.td_fn("(K,V)", &mem)?),
                    other => return Err(format!("cannot instantiate the member {} of {} at (K,V)", other, coq)),
                }
                continue;
            }
            if self.cur_imp == "BTreeMap<K,V>" && mem == "try_from_iter" {
                if !self.dict_used.contains(&("K".to_string(), "cmp".to_string())) {
                    self.dict_used.push(("K".to_string(), "cmp".to_string()));
                }
                // the source's own impl when it is translated (`tfi_..`), std's `from_iter` as a primitive otherwise
                all.push(if self.dict_sigs.contains_key("tfi_btreemap_try_from_iter") { "(tfi_btreemap_try_from_iter K_cmp)" } else { "(btreemap_try_from_iter K_cmp)" }.to_string());
                continue;
            }
            if self.dict_params.contains(&tp) {
                if !self.dict_used.contains(&(tp.clone(), mem.clone())) {
                    self.dict_used.push((tp.clone(), mem.clone()));
                }
                all.push(member.clone());
            } else if mem == "try_from_iter" {
                if self.cur_imp == "BTreeSet<T>" {
                    if !self.dict_used.contains(&("T".to_string(), "cmp".to_string())) {
                        self.dict_used.push(("T".to_string(), "cmp".to_string()));
                    }
                    all.push(if self.dict_sigs.contains_key("tfi_btreeset_try_from_iter") { "(tfi_btreeset_try_from_iter T_cmp)" } else { "(btreeset_try_from_iter T_cmp)" }.to_string());
                } else {
                    let b = base_of(&self.cur_imp).to_lowercase();
                    if self.dict_sigs.contains_key(&format!("tfi_{}_try_from_iter", b)) {
                        all.push(if b == "smallvec" { "(tfi_smallvec_try_from_iter tN)".to_string() } else { format!("tfi_{}_try_from_iter", b) });
                    } else {
                        all.push(format!("{}_try_from_iter", b));
                    }
                }
            } else {
                return Err(format!("cannot supply {} to the generic function {}", member, coq));
            }
        }
        Ok(all)
    }

    /// A translated tuple impl (`tuple2_..`, type parameters A, B, ..) instantiated at a tuple of the caller's type
    /// parameters: the member `B_ssz_fixed_len` is the caller's `V_ssz_fixed_len` when the tuple is `(K, V)`.
    fn tuple_dict_args(&mut self, callee: &str, cs: &[String]) -> R<Vec<String>> {
        let sig = self.dict_sigs.get(callee).cloned().ok_or_else(|| format!("the tuple function {} is not translated", callee))?;
        let mut all = vec![];
        for member in sig {
            let (tp, mem) = member.split_once('_').map(|(a, b)| (a.to_string(), b.to_string())).unwrap_or_default();
            let idx = (tp.as_bytes().first().copied().unwrap_or(b'A') - b'A') as usize;
            let ct = cs.get(idx).cloned().ok_or_else(|| format!("{} has no component for {}", callee, member))?;
            if !self.dict_params.contains(&ct) {
                return Err(format!("component {} of a tuple is not a type parameter of the caller", ct));
            }
            if !self.dict_used.contains(&(ct.clone(), mem.clone())) {
                self.dict_used.push((ct.clone(), mem.clone()));
            }
            all.push(format!("{}_{}", ct, mem));
        }
        Ok(all)
    }

    /// The dictionary members of a generic callee whose type parameter is instantiated (by turbofish, or by the
    /// type of the argument) at the caller's type parameter `ct`: the caller's members of `ct`.
    fn dict_args_for(&mut self, coq: &str, ct: &str) -> R<Vec<String>> {
        let mut all = vec![];
        for member in self.dict_sigs.get(coq).cloned().unwrap_or_default() {
            let mem = member.split_once('_').map(|(_, b)| b.to_string()).unwrap_or_default();
            if mem == "try_from_iter" {
                return Err(format!("cannot supply {} to the generic function {} at {}", member, coq, ct));
            }
            if !self.dict_used.contains(&(ct.to_string(), mem.clone())) {
                self.dict_used.push((ct.to_string(), mem.clone()));
            }
            all.push(format!("{}_{}", ct, mem));
        }
        Ok(all)
    }

    /// An iterator of `Result`s consumed up to its first error: `xs.map(f)` is `mapm f xs`; when the closure
    /// assigns captured locals it is `map_state`, and those locals are re-bound to their final values.
    /// Returns a variable standing for the list of items.
    fn lazy_results(&mut self, e: &Expr) -> R<String> {
        let m = match e {
            Expr::Paren(p) => return self.lazy_results(&p.expr),
            Expr::MethodCall(m) if m.method == "map" && is_list_chain(&m.receiver) => m,
            other => return Err(format!("unsupported iterator of results: {}", tokens(other))),
        };
        let coll = self.val(&m.receiver)?;
        let cl = match &m.args[0] { Expr::Closure(c) => c, other => return Err(format!("unsupported mapper: {}", tokens(other))) };
        let body_block: Block = match &*cl.body {
            Expr::Block(b) => b.block.clone(),
            other => Block { brace_token: Default::default(), stmts: vec![Stmt::Expr(other.clone(), None)] },
        };
        let mut state = self.loop_state(&body_block);
        // locals declared inside the closure are not captured state
        for st in &body_block.stmts {
            if let Stmt::Local(l) = st {
                if let Ok(n) = self.pat_name(&l.pat) {
                    state.retain(|s| *s != n);
                }
            }
        }
        let mut names = vec![];
        for p in &cl.inputs {
            names.push(self.pat_name(p)?);
        }
        if state.is_empty() {
            let f = self.closure1(&m.args[0], Kind::Comp)?;
            return Ok(self.bind(format!("mapM {} {}", f, coll), "items"));
        }
        let st_pat = if state.len() == 1 { state[0].clone() } else { format!("'({})", state.join(", ")) };
        let st_val = if state.len() == 1 { state[0].clone() } else { format!("({})", state.join(", ")) };
        let from = self.binds.len();
        let sv = st_val.clone();
        let body = self.block(&body_block.stmts, &mut |_cx, v| Ok(format!("Ok ({}, {})", v, sv)))?;
        let body = self.wrap(from, body);
        let r = self.bind(format!("map_state (fun {} {} =>\n{}) {} {}", st_pat, names.join(" "), body, coll, st_val), "ms");
        // the pair (items, final state)
        let items = self.var("items");
        self.binds.push((format!("LET:'({}, {})", items, st_pat.trim_start_matches('\'')), r));
        Ok(items)
    }

    fn pat_name(&mut self, p: &Pat) -> R<String> {
        match p {
            Pat::Ident(i) => Ok(coq_ident(&i.ident.to_string())),
            Pat::Wild(_) => Ok("_".into()),
            Pat::Type(t) => self.pat_name(&t.pat),
            Pat::Reference(r) => self.pat_name(&r.pat),
            Pat::Tuple(t) => {
                let mut names = vec![];
                for e in &t.elems {
                    names.push(self.pat_name(e)?);
                }
                Ok(format!("'({})", names.join(", ")))
            }
            _ => Err(format!("unsupported pattern: {}", tokens(p))),
        }
    }

    fn expr(&mut self, e: &Expr) -> R<(String, Kind)> {
        use Kind::*;
        match e {
            Expr::Paren(p) => self.expr(&p.expr),
            Expr::Group(p) => self.expr(&p.expr),
            Expr::Reference(r) => self.expr(&r.expr),
            Expr::Unary(u) => match u.op {
                UnOp::Deref(_) => self.expr(&u.expr),
                UnOp::Not(_) => {
                    let v = self.val(&u.expr)?;
                    if self.u8ctx {
                        Ok((format!("(not8 {})", v), Pure))
                    } else {
                        Ok((format!("(negb {})", v), Pure))
                    }
                }
                _ => Err(format!("unsupported unary operator: {}", tokens(e))),
            },
            Expr::Lit(l) => match &l.lit {
                Lit::Int(i) => Ok((i.base10_digits().to_string(), Pure)),
                Lit::Bool(b) => Ok((if b.value { "true" } else { "false" }.to_string(), Pure)),
                _ => Err(format!("unsupported literal: {}", tokens(e))),
            },
            Expr::Path(p) => {
                let s = path_str(&p.path);
                if p.path.segments.len() == 1 && self.tparams.contains(&s) {
                    return Ok((format!("t{}", s), Pure));
                }
                if p.path.segments.len() == 2 && user().enums.contains_key(&p.path.segments[0].ident.to_string()) {
                    return Ok((format!("{}_{}", p.path.segments[0].ident, path_last(&p.path)), Pure));
                }
                if s.starts_with("core::panicking::") {
                    return Ok(("tt".into(), Pure));
                }
                Ok((match s.as_str() {
                    "None" => "None".to_string(),
                    "usize::MAX" => "usize_max".to_string(),
                    "u8::MAX" => "255".to_string(),
                    "self" => "self".to_string(),
                    _ => coq_ident(&path_last(&p.path)),
                }, Pure))
            }
            Expr::Field(f) => {
                let base = self.val(&f.base)?;
                match &f.member {
                    Member::Named(id) => {
                        let fname = id.to_string();
                        // which record?  `self.f`, or a variable of a known record type
                        let rec = self.record_of_field(&fname).ok_or_else(|| format!("field {} of an unknown record", fname))?;
                        Ok((format!("({} {})", self.field_proj(&rec, &fname), base), Pure))
                    }
                    Member::Unnamed(i) => {
                        if let Some(owner) = self.ty_of(&f.base) {
                            if user().structs.contains_key(&owner) {
                                return Ok((format!("({}_f{} {})", owner, i.index, base), Pure));
                            }
                        }
                        if let Some(cs) = self.ty_of(&f.base).and_then(|t| tuple_components(&t)) {
                            // component i of a left-nested product of arity n
                            let n = cs.len();
                            let k = i.index as usize;
                            let mut t = base.clone();
                            for _ in 0..(if k == 0 { n - 1 } else { n - 1 - k }) {
                                t = format!("(fst {})", t);
                            }
                            if k > 0 {
                                t = format!("(snd {})", t);
                            }
                            return Ok((t, Pure));
                        }
                        if i.index == 0 && self.ty_of(&f.base).as_deref() == Some("UnionSelector") {
                            // the newtype `UnionSelector(u8)` is its byte
                            return Ok((base, Pure));
                        }
                        if i.index == 0 && base == "self" && self_ty_coq(&self.cur_imp).as_deref() == Some("bytes") {
                            // a newtype over a byte array (`FixedBytes(pub [u8; N])`, `Bloom(FixedBytes<256>)`, `Bytes`)
                            return Ok(("self".to_string(), Pure));
                        }
                        Ok((format!("({} {})", if i.index == 0 { "fst" } else { "snd" }, base), Pure))
                    }
                }
            }
            Expr::Cast(c) => {
                let v = self.val(&c.expr)?;
                let ty = tokens(&c.ty);
                if strip_is_self(&c.expr) && self.cur_imp == "bool" {
                    return Ok((format!("(N.b2n {})", v), Pure));
                }
                Ok((match ty.as_str() {
                    "usize" | "u64" | "u128" => v,
                    "u32" => format!("({} mod 4294967296)", v),
                    "u8" => format!("({} mod 256)", v),
                    _ => return Err(format!("unsupported cast to {}", ty)),
                }, Pure))
            }
            Expr::Binary(b) => {
                match b.op {
                    BinOp::And(_) | BinOp::Or(_) => {
                        let l = self.val(&b.left)?;
                        let from = self.binds.len();
                        let r = self.val(&b.right)?;
                        let is_and = matches!(b.op, BinOp::And(_));
                        if self.binds.len() != from {
                            // the right operand can panic: it is evaluated only when needed
                            let rhs = self.wrap(from, format!("Ok {}", paren(&r)));
                            return Ok((if is_and {
                                format!("(if {} then\n{}\nelse Ok false)", l, rhs)
                            } else {
                                format!("(if {} then Ok true else\n{})", l, rhs)
                            }, Comp));
                        }
                        let op = if is_and { "&&" } else { "||" };
                        return Ok((format!("({} {} {})", l, op, r), Pure));
                    }
                    _ => {}
                }
                if matches!(b.op, BinOp::BitAnd(_) | BinOp::BitOr(_) | BinOp::Shl(_)) {
                    let saved = self.u8ctx;
                    self.u8ctx = true;
                    let l = self.val(&b.left);
                    let r = self.val(&b.right);
                    self.u8ctx = saved;
                    let (l, r) = (l?, r?);
                    return Ok(match b.op {
                        BinOp::BitAnd(_) => (format!("(N.land {} {})", l, r), Pure),
                        BinOp::BitOr(_) => (format!("(N.lor {} {})", l, r), Pure),
                        _ => {
                            // u8 shift: the amount must visibly be below 8
                            if !tokens(&b.right).replace(' ', "").ends_with("%8)") && !tokens(&b.right).replace(' ', "").ends_with("%8") {
                                return Err(format!("shift by an amount that is not `_ % 8`: {}", tokens(e)));
                            }
                            (format!("(shl8 {} {})", l, r), Pure)
                        }
                    });
                }
                let l = self.val(&b.left)?;
                let r = self.val(&b.right)?;
                let lit_nonzero = int_lit(&b.right).map(|n| n != 0).unwrap_or(false);
                Ok(match b.op {
                    BinOp::Lt(_) => (format!("({} <? {})", l, r), Pure),
                    BinOp::Gt(_) => (format!("({} <? {})", r, l), Pure),
                    BinOp::Le(_) => (format!("({} <=? {})", l, r), Pure),
                    BinOp::Ge(_) => (format!("({} <=? {})", r, l), Pure),
                    BinOp::Eq(_) if self.is_bytes_expr(&b.left) || self.is_bytes_expr(&b.right) => (format!("(bytes_eqb {} {})", l, r), Pure),
                    BinOp::Ne(_) if self.is_bytes_expr(&b.left) || self.is_bytes_expr(&b.right) => (format!("(negb (bytes_eqb {} {}))", l, r), Pure),
                    BinOp::Eq(_) => (format!("({} =? {})", l, r), Pure),
                    BinOp::Ne(_) => (format!("(negb ({} =? {}))", l, r), Pure),
                    BinOp::Add(_) => (format!("usize_add {} {}", l, r), Comp),
                    BinOp::Sub(_) => (format!("usize_sub {} {}", l, r), Comp),
                    BinOp::Mul(_) => (format!("usize_mul {} {}", l, r), Comp),
                    BinOp::Div(_) if lit_nonzero => (format!("({} / {})", l, r), Pure),
                    BinOp::Rem(_) if lit_nonzero => (format!("({} mod {})", l, r), Pure),
                    BinOp::Div(_) => (format!("usize_div {} {}", l, r), Comp),
                    BinOp::Rem(_) => (format!("usize_rem {} {}", l, r), Comp),
                    _ => return Err(format!("unsupported binary operator: {}", tokens(e))),
                })
            }
            Expr::Tuple(t) => {
                if t.elems.is_empty() {
                    return Ok(("tt".into(), Pure));
                }
                let mut vs = vec![];
                for x in &t.elems {
                    vs.push(self.val(x)?);
                }
                Ok((format!("({})", vs.join(", ")), Pure))
            }
            Expr::Try(t) => {
                // `o?` where o is an Option and the function returns an Option: None returns None
                if self.ret_option && matches!(&*t.expr, Expr::MethodCall(m) if m.method == "ok") {
                    let ov = self.val(&t.expr)?;
                    let x = self.var("x");
                    self.binds.push((format!("OPT:{}", x), ov));
                    return Ok((x, Pure));
                }
                if let Expr::Call(pc) = &*t.expr {
                    if matches!(&*pc.func, Expr::Path(pp) if path_last(&pp.path) == "process_results") {
                        // Result<Result<C, E1>, E2>?  with erased errors: the inner computation itself
                        return self.expr(&t.expr);
                    }
                }
                let (c, k) = self.expr(&t.expr)?;
                if k != Comp {
                    // a valued `&mut self` call returning a Result: its errors are already propagated by the bind
                    if let Expr::MethodCall(mm) = &*t.expr {
                        if let Some(rec) = self.rec_of_expr(&mm.receiver) {
                            if self.resolve_method(&rec, &mm.method.to_string()).map(|i| i.valued).unwrap_or(false) {
                                return Ok((c, k));
                            }
                        }
                    }
                    return Err(format!("`?` applied to something that is not a Result: {}", tokens(&t.expr)));
                }
                let v = self.bind(c, "q");
                Ok((v, Pure))
            }
            Expr::Index(ix) => {
                let base = self.val(&ix.expr)?;
                match &*ix.index {
                    Expr::Range(r) if r.start.is_none() && r.end.is_none() => Ok((base, Pure)),
                    Expr::Range(r) => {
                        let a = match &r.start { Some(s) => self.val(s)?, None => "0".into() };
                        match &r.end {
                            Some(end) => {
                                let b = self.val(end)?;
                                Ok((format!("index_range {} {} {}", base, a, b), Comp))
                            }
                            None => Ok((format!("index_from {} {}", base, a), Comp)),
                        }
                    }
                    i => {
                        let i = self.val(i)?;
                        Ok((format!("index_at {} {}", base, i), Comp))
                    }
                }
            }
            Expr::Struct(s) => {
                let name = path_last(&s.path);
                let rec = if name == "Self" { self.self_rec.clone().ok_or("Self outside an impl")? } else { name };
                let fields = self.records.get(&rec).cloned().ok_or_else(|| format!("struct literal of unknown record {}", rec))?;
                let mut given: HashMap<String, String> = HashMap::new();
                for f in &s.fields {
                    let fname = match &f.member { Member::Named(id) => id.to_string(), Member::Unnamed(i) => format!("f{}", i.index) };
                    if !fields.contains(&fname) {
                        continue; // PhantomData
                    }
                    let saved = self.expected_ty.take();
                    self.expected_ty = user().structs.get(&rec).and_then(|fs| fs.iter().find(|(n, _)| *n == fname).map(|(_, t)| t.clone()));
                    let v = self.val(&f.expr);
                    self.expected_ty = saved;
                    given.insert(fname, v?);
                }
                let mut parts = vec![];
                for f in &fields {
                    let v = given.get(f).ok_or_else(|| format!("field {} missing in struct literal", f))?;
                    parts.push(format!("{} := {}", self.field_proj(&rec, f), v));
                }
                Ok((format!("{{| {} |}}", parts.join("; ")), Pure))
            }
            Expr::Array(a) if a.elems.is_empty() => Ok(("[]".into(), Pure)),
            Expr::Range(r) => {
                let a = match &r.start { Some(s) => self.val(s)?, None => "0".into() };
                let b = match &r.end { Some(e) => self.val(e)?, None => return Err("open-ended range as a value".into()) };
                if !matches!(r.limits, syn::RangeLimits::HalfOpen(_)) {
                    return Ok((format!("(range_incl {} {})", a, b), Pure));
                }
                Ok((format!("(range_up {} {})", a, b), Pure))
            }
            Expr::Call(c) => {
                let f = match &*c.func {
                    Expr::Path(p) => path_str(&p.path),
                    other => return Err(format!("unsupported callee: {}", tokens(other))),
                };
                // `<T as Decode>::f(..)`, `T::f(..)` for a dictionary parameter T;  `<Self as Decode>::f()`,
                // `<usize as Decode>::f()`, `usize::f(..)` for a translated trait impl
                if let Expr::Path(p) = &*c.func {
                    let (ty, tr, name) = match &p.qself {
                        Some(q) => (norm_type(&q.ty), if p.path.segments.len() == 2 { Some(p.path.segments[0].ident.to_string()) } else { None }, path_last(&p.path)),
                        None if p.path.segments.len() == 2 => (p.path.segments[0].ident.to_string(), None, path_last(&p.path)),
                        None => (String::new(), None, String::new()),
                    };
                    if self.dict_params.contains(&ty) {
                        if !self.dict_used.contains(&(ty.clone(), name.clone())) {
                            self.dict_used.push((ty.clone(), name.clone()));
                        }
                        let member = format!("{}_{}", ty, name);
                        let mut args = vec![];
                        for a in &c.args {
                            args.push(self.val(a)?);
                        }
                        return Ok(match name.as_str() {
                            "is_ssz_fixed_len" | "ssz_fixed_len" => (member, Pure),
                            "ssz_bytes_len" | "ssz_append" => (format!("{} {}", member, args.join(" ")), Comp),
                            "from_ssz_bytes" | "try_from_iter" => (format!("{} {}", member, args.join(" ")), Comp),
                            _ => return Err(format!("unsupported dictionary member {}::{}", ty, name)),
                        });
                    }
                    // derive mode: `<u16 as Encode>::ssz_fixed_len()`, `<Vec<u8> as Decode>::from_ssz_bytes(slice)`,
                    // `<_>::from_ssz_bytes(bytes)` (the type is the expected one)
                    if p.qself.is_some() && ty != "Self" && !user().structs.is_empty() | !user().enums.is_empty() {
                        let cty = if ty == "_" { self.expected_ty.clone().ok_or("`<_>::f()` without an expected type")? } else { ty.clone() };
                        let trn = tr.clone().unwrap_or_else(|| if matches!(name.as_str(), "from_ssz_bytes") { "Decode".to_string() } else if !self.cur_tr.is_empty() { self.cur_tr.clone() } else { "Encode".to_string() });
                        if name == "default" && c.args.is_empty() {
                            // `<_>::default()` of a skipped field: the `Default` value of the field's type
                            let coq = rty_coq(&cty).ok_or(format!("default() of the type {}", cty))?;
                            let v = match coq.as_str() {
                                "N" => "0".to_string(),
                                "bool" => "false".to_string(),
                                "bytes" if !cty.starts_with('[') => "[]".to_string(),
                                x if x.starts_with("(list ") => "[]".to_string(),
                                x if x.starts_with("(option ") => "None".to_string(),
                                _ => return Err(format!("default() of the type {}", cty)),
                            };
                            return Ok((v, Pure));
                        }
                        if !(cty == self.cur_imp) {
                            match name.as_str() {
                                "is_ssz_fixed_len" | "ssz_fixed_len" => return Ok((self.td_meta(&cty, &trn, &name)?, Comp)),
                                "from_ssz_bytes" | "ssz_bytes_len" | "ssz_append" => {
                                    let f = self.td_fn(&cty, &name)?;
                                    let mut args = vec![];
                                    for a in &c.args {
                                        args.push(self.val(a)?);
                                    }
                                    return Ok((format!("{} {}", f, args.join(" ")), Comp));
                                }
                                _ => {}
                            }
                        }
                    }
                    if !ty.is_empty() {
                        let want_ty = if ty == "Self" { self.cur_imp.clone() } else { ty.clone() };
                        let hits: Vec<FnInfo> = self.fns.iter().filter(|(k, i)| i.imp == want_ty && k.ends_with(&format!("::{}", name)) && k.matches("::").count() == 2
                            && tr.as_ref().map(|t| k.contains(&format!("::{}::", t))).unwrap_or(true)).map(|(_, i)| i.clone()).collect();
                        if hits.len() == 1 {
                            let mut args = self.targs(&hits[0], &[]).unwrap_or_default();
                            // a generic sibling (`<Self as Encode>::is_ssz_fixed_len()` in an impl for a tuple of
                            // type parameters): its dictionary members are the caller's
                            if ty == "Self" {
                                args.extend(self.dict_args(&hits[0].coq)?);
                            }
                            for a in &c.args {
                                args.push(self.val(a)?);
                            }
                            return Ok((format!("{} {}", hits[0].coq, args.join(" ")).trim_end().to_string(), Comp));
                        }
                    }
                }
                // `N::to_usize()` for a type-level number N in scope
                if let Some(n) = f.strip_suffix("::to_usize") {
                    if self.tparams.iter().any(|t| t == n) {
                        return Ok((format!("t{}", n), Pure));
                    }
                    return Err(format!("{}::to_usize() of a type parameter that is not a type-level number in scope", n));
                }
                if f == "usize::arbitrary" && c.args.len() == 1 {
                    // reads eight bytes of entropy (zero-filled when fewer are left): the value; `u` is what remains
                    if let Expr::Path(up) = strip_refs(&c.args[0]) {
                        let u = coq_ident(&path_str(&up.path));
                        let p = self.var("p");
                        self.binds.push((format!("LET:{}", p), format!("arbitrary_usize {}", u)));
                        self.binds.push((format!("LET:{}", u), format!("(snd {})", p)));
                        return Ok((format!("Ok (fst {})", p), Comp));
                    }
                }
                if (f == "std::cmp::min" || f == "cmp::min") && c.args.len() == 2 {
                    let a = self.val(&c.args[0])?;
                    let b = self.val(&c.args[1])?;
                    return Ok((format!("(N.min {} {})", a, b), Pure));
                }
                if f == "hex_encode" && c.args.len() == 1 {
                    // `serde_utils::hex::encode`: "0x" and lowercase hex digits
                    let v = self.val(&c.args[0])?;
                    return Ok((format!("(hex_encode {})", v), Pure));
                }
                if (f == "SmallVec::new" && c.args.is_empty()) || (f == "Self::from_iter" && c.args.len() == 1 && tokens(&c.args[0]).replace(' ', "") == "iter::empty()" && self.cur_imp.starts_with("BTree")) {
                    // the empty collection
                    return Ok(("[]".into(), Pure));
                }
                if (f == "alloc::vec::Vec::new" || f == "Vec::new") && c.args.is_empty() {
                    // what `vec![]` expands to
                    return Ok(("[]".into(), Pure));
                }
                if f.starts_with("core::panicking::") {
                    // what `assert!` / `debug_assert!` expand to
                    return Ok(("Panic".into(), Comp));
                }
                if let Expr::Path(pp) = &*c.func {
                    if pp.path.segments.len() == 2 && c.args.len() == 1 {
                        let en = pp.path.segments[0].ident.to_string();
                        if user().enums.contains_key(&en) {
                            let a = self.val(&c.args[0])?;
                            return Ok((format!("({}_{} {})", en, path_last(&pp.path), a), Pure));
                        }
                    }
                }
                match f.as_str() {
                    "Ok" => {
                        let v = self.val(&c.args[0])?;
                        Ok((format!("Ok {}", paren(&v)), Comp))
                    }
                    "Err" => Ok(("Err".into(), Comp)),
                    "Some" => {
                        let v = self.val(&c.args[0])?;
                        Ok((format!("(Some {})", v), Pure))
                    }
                    "std::cmp::max" | "cmp::max" | "max" => {
                        let a = self.val(&c.args[0])?;
                        let b = self.val(&c.args[1])?;
                        Ok((format!("(N.max {} {})", a, b), Pure))
                    }
                    "std::cmp::min" | "cmp::min" | "min" => {
                        let a = self.val(&c.args[0])?;
                        let b = self.val(&c.args[1])?;
                        Ok((format!("(N.min {} {})", a, b), Pure))
                    }
                    "u32::from_le_bytes" | "Self::from_le_bytes" => {
                        let a = self.val(&c.args[0])?;
                        Ok((format!("(le_val {})", a), Pure))
                    }
                    "NonZeroUsize::new" => {
                        let a = self.val(&c.args[0])?;
                        Ok((format!("(nonzero_new {})", a), Pure))
                    }
                    // alloy `Address::from_slice` / `Bloom::from_slice`: panics unless the slice has the type's length
                    "Self::from_slice" => {
                        let n = match self.cur_imp.as_str() { "Address" => "20", "Bloom" => "256", other => return Err(format!("from_slice of {}: length unknown", other)) };
                        let a = self.val(&c.args[0])?;
                        Ok((format!("from_slice_exact {} {}", n, a), Comp))
                    }
                    // ruint `Uint::from_le_slice`: panics when the value does not fit the type
                    "U256::from_le_slice" | "U128::from_le_slice" => {
                        let n = if f.starts_with("U256") { "32" } else { "16" };
                        let a = self.val(&c.args[0])?;
                        Ok((format!("uint_from_le_slice {} {}", n, a), Comp))
                    }
                    // a tuple-struct constructor over a byte array (`FixedBytes(array)`)
                    "Self" if c.args.len() == 1 => {
                        let a = self.val(&c.args[0])?;
                        Ok((a, Pure))
                    }
                    // `Self::from_iter(iter)` in the `TryFromIter` impls: std's `FromIterator` of the collection
                    "Self::from_iter" if c.args.len() == 1 => {
                        let a = self.val(&c.args[0])?;
                        match base_of(&self.cur_imp).as_str() {
                            "SmallVec" => Ok((format!("(smallvec_from_iter {})", a), Pure)),
                            "BTreeSet" => {
                                if !self.dict_used.contains(&("T".to_string(), "cmp".to_string())) {
                                    self.dict_used.push(("T".to_string(), "cmp".to_string()));
                                }
                                Ok((format!("(btreeset_from_iter T_cmp {})", a), Pure))
                            }
                            "BTreeMap" => {
                                if !self.dict_used.contains(&("K".to_string(), "cmp".to_string())) {
                                    self.dict_used.push(("K".to_string(), "cmp".to_string()));
                                }
                                Ok((format!("(btreemap_from_iter K_cmp {})", a), Pure))
                            }
                            other => Err(format!("from_iter of {}", other)),
                        }
                    }
                    // `Vec::with_capacity(n)`: the empty vector (the reservation is Alloc.v's subject, not a value)
                    "Vec::with_capacity" if c.args.len() == 1 => {
                        let _ = self.val(&c.args[0])?;
                        Ok(("[]".into(), Pure))
                    }
                    "std::default::Default::default" | "Default::default" => Ok(("DEFAULT".into(), Pure)),
                    "iter::empty" | "std::iter::empty" => Ok(("[]".into(), Pure)),
                    "std::mem::size_of" | "mem::size_of" | "size_of" => {
                        if let Expr::Path(pp) = &*c.func {
                            if let Some(seg) = pp.path.segments.last() {
                                let a = seg.arguments.to_token_stream().to_string().replace(' ', "");
                                if let Some(w) = uint_width(a.trim_start_matches("::<").trim_end_matches('>')) {
                                    return Ok((w.to_string(), Pure));
                                }
                            }
                        }
                        Err(format!("size_of of an unknown type: {}", tokens(e)))
                    }
                    // itertools::process_results(results, |iter| f(iter)): the items up to the first error,
                    // handed to f (error payloads are erased, so the two Result layers are one outcome)
                    "process_results" => {
                        let items = self.lazy_results(&c.args[0])?;
                        let (param, body) = match &c.args[1] {
                            Expr::Closure(cl) if cl.inputs.len() == 1 => (self.pat_name(&cl.inputs[0])?, &*cl.body),
                            other => return Err(format!("unsupported consumer in process_results: {}", tokens(other))),
                        };
                        self.list_vars.push(param.clone());
                        let from = self.binds.len();
                        let r = self.expr(body);
                        self.list_vars.pop();
                        let (b, kind) = r?;
                        let b = if kind == Comp { b } else { format!("Ok {}", paren(&b)) };
                        let b = self.wrap(from, b);
                        Ok((format!("(let {} := {} in\n{})", param, items, b), Comp))
                    }
                    _ => {
                        if self.fn_params.contains(&f) {
                            // a `Fn(&mut Vec<u8>)` parameter applied to a buffer: handled at statement level
                            return Err(format!("call of closure parameter {} outside statement position", f));
                        }
                        let mut args = vec![];
                        for a in &c.args {
                            args.push(self.val(a)?);
                        }
                        // `legacy::read_four_byte_union_selector(..)`: a path through modules (lower-case segments) names
                        // the free function of the crate with that name
                        let fkey = {
                            let segs: Vec<&str> = f.split("::").collect();
                            if segs.len() > 1 && segs[..segs.len() - 1].iter().all(|x| !x.is_empty() && x.chars().all(|c| c.is_ascii_lowercase() || c == '_' || c.is_ascii_digit())) {
                                segs[segs.len() - 1].to_string()
                            } else {
                                f.clone()
                            }
                        };
                        if let Some(cn) = self.res_fns.get(&fkey).cloned() {
                            let mut all = self.dict_args(&cn)?;
                            all.extend(args);
                            Ok((format!("{} {}", cn, all.join(" ")), Comp))
                        } else if let Expr::Path(p) = &*c.func {
                            let (name, ty, nums) = split_fn_path(&p.path);
                            match self.resolve(&name, ty.as_deref()) {
                                Some(info) => {
                                    let explicit: Vec<String> = if ty.as_deref() == Some("Self") { vec![] } else { nums };
                                    let mut all = self.targs(&info, &explicit)?;
                                    // a generic callee: its dictionary members.  A type parameter not given by turbofish
                                    // is the caller's parameter of the same name; a `TryFromIter` container is `Self`.
                                    all.extend(self.dict_args(&info.coq)?);
                                    all.extend(args);
                                    Ok((format!("{} {}", info.coq, all.join(" ")).trim_end().to_string(), Comp))
                                }
                                None => Err(format!("call of unknown function {}", f)),
                            }
                        } else {
                            Err(format!("call of unknown function {}", f))
                        }
                    }
                }
            }
            Expr::MethodCall(m) => self.method(m),
            Expr::If(_) | Expr::Match(_) | Expr::Block(_) => {
                // value-position conditional: translate as a computation
                let from = self.binds.len();
                let t = self.tail(e, &mut |_cx, v| Ok(format!("Ok {}", paren(&v))))?;
                let _ = from;
                Ok((format!("({})", t), Comp))
            }
            Expr::Macro(m) => {
                let name = path_last(&m.mac.path);
                match name.as_str() {
                    "smallvec" | "vec" if m.mac.tokens.is_empty() => Ok(("[]".into(), Pure)),
                    "smallvec" | "vec" => {
                        // smallvec![x; n]
                        let rp: syn::ExprRepeat = syn::parse2(quote::quote!([ #(m.mac.tokens.clone()) ])).or_else(|_| {
                            let t = m.mac.tokens.clone();
                            syn::parse2::<syn::ExprRepeat>(quote::quote!([ #t ]))
                        }).map_err(|_| format!("unsupported {}! form: {}", name, m.mac.tokens))?;
                        let x = self.val(&rp.expr)?;
                        let n = self.val(&rp.len)?;
                        Ok((format!("(repeat_n {} {})", x, n), Pure))
                    }
                    "unreachable" | "panic" => Ok(("Panic".into(), Comp)),
                    _ => Err(format!("unsupported macro in expression position: {}!", name)),
                }
            }
            _ => Err(format!("unsupported expression: {}", tokens(e))),
        }
    }

    /// a field access whose field is a byte vector (`self.bytes`)
    fn is_bytes_expr(&self, e: &Expr) -> bool {
        match e {
            Expr::Paren(p) => self.is_bytes_expr(&p.expr),
            Expr::Reference(r) => self.is_bytes_expr(&r.expr),
            Expr::Field(f) => match &f.member {
                Member::Named(id) => {
                    let fname = id.to_string();
                    match self.record_of_field(&fname) {
                        Some(rec) => self.field_types.get(&format!("{}.{}", rec, fname)).map(|t| t == "bytes").unwrap_or(false),
                        None => false,
                    }
                }
                _ => false,
            },
            _ => false,
        }
    }

    fn record_of_field(&self, fname: &str) -> Option<String> {
        // prefer the record of `self`; otherwise the unique record that has such a field
        if let Some(r) = &self.self_rec {
            if self.records.get(r).map(|fs| fs.iter().any(|f| f == fname)).unwrap_or(false) {
                return Some(r.clone());
            }
        }
        let mut hits: Vec<&String> = self.records.iter().filter(|(_, fs)| fs.iter().any(|f| f == fname)).map(|(r, _)| r).collect();
        hits.sort();
        // `offset` exists both in Offset and SszEncoder: outside SszEncoder's impl it is Offset's
        hits.retain(|r| Some((*r).clone()) != self.self_rec);
        hits.first().map(|r| (*r).clone())
    }

    fn method(&mut self, m: &syn::ExprMethodCall) -> R<(String, Kind)> {
        use Kind::*;
        let name = m.method.to_string();
        // receivers that are Results (ok_or .. and_then) must be kept as computations
        if name == "and_then" {
            let (r, k) = self.expr(&m.receiver)?;
            if k != Comp {
                return Err(format!("and_then on a non-Result: {}", tokens(&m.receiver)));
            }
            let f = self.closure1(&m.args[0], Comp)?;
            return Ok((format!("bind ({}) {}", r, f), Comp));
        }
        if name == "ssz_append" || name == "ssz_bytes_len" {
            if let Some(rt) = self.ty_of(&m.receiver).filter(|t| !self.dict_params.contains(t)) {
                // derive mode: a field or a matched payload of a known type
                let f = self.td_fn(&rt, &name)?;
                let mut args = vec![self.val(&m.receiver)?];
                for a in &m.args {
                    args.push(self.val(a)?);
                }
                return Ok((format!("{} {}", f, args.join(" ")), Comp));
            }
        }
        if let Expr::Path(rp) = strip_refs(&m.receiver) {
            let rv = coq_ident(&path_str(&rp.path));
            if name == "serialize_str" && self.serde_ser_var.as_deref() == Some(rv.as_str()) && m.args.len() == 1 {
                let v = self.val(&m.args[0])?;
                return Ok((format!("Ok {}", paren(&v)), Comp));
            }
            if name == "deserialize_str" && self.serde_de_var.as_deref() == Some(rv.as_str()) && m.args.len() == 1 && tokens(&m.args[0]) == "PrefixedHexVisitor" {
                return Ok((format!("ok_or (prefixed_hex_decode {})", rv), Comp));
            }
        }
        // the default `as_ssz_bytes` on a value of the impl's own type: through the type's translated `ssz_append`
        if name == "as_ssz_bytes" && m.args.is_empty() && matches!(strip_refs(&m.receiver), Expr::Path(pp) if path_str(&pp.path) == "self") {
            if let Some(info) = self.fns.get(&format!("{}::Encode::ssz_append", self.cur_imp)).cloned() {
                let targs = self.targs(&info, &[])?;
                return Ok((format!("encode_default_as_ssz_bytes ({} {}) self", info.coq, targs.join(" ")).replace(" )", ")"), Comp));
            }
        }
        if (name == "ssz_append" || name == "ssz_bytes_len" || name == "as_ssz_bytes") && self.rec_of_expr(&m.receiver).is_none() {
            if let Some(pt) = self.prim_type(&m.receiver) {
                if let Some(info) = self.fns.get(&format!("{}::Encode::{}", pt, name)).cloned() {
                    let mut args = vec![self.val(&m.receiver)?];
                    for a in &m.args {
                        args.push(self.val(a)?);
                    }
                    return Ok((format!("{} {}", info.coq, args.join(" ")), Comp));
                }
            } else if let Some(d) = self.ty_of(&m.receiver).filter(|t| self.dict_params.contains(t)).or_else(|| self.encode_dict()) {
                if !self.dict_used.contains(&(d.clone(), name.clone())) {
                    self.dict_used.push((d.clone(), name.clone()));
                }
                let mut args = vec![self.val(&m.receiver)?];
                for a in &m.args {
                    args.push(self.val(a)?);
                }
                return Ok((format!("{}_{} {}", d, name, args.join(" ")), Comp));
            }
        }
        // a method of a translated record type (`self.len()`, `result.is_zero()`, `x.clone().into_bytes()`)
        if let Some(rec) = self.rec_of_expr(&m.receiver) {
            if !matches!(name.as_str(), "clone" | "expect" | "unwrap" | "unwrap_or_else" | "map_err" | "ok_or") {
                match self.resolve_method(&rec, &name) {
                    Some(info) => {
                        if info.mut_self && info.valued {
                            // a `&mut self` method that returns a value: the pair (value, new state); the owner is re-bound
                            if let Expr::Path(pp) = strip_refs(&m.receiver) {
                                let var = path_str(&pp.path);
                                let mut args = self.targs(&info, &[])?;
                                let conc: Option<String> = m.turbofish.as_ref().map(|tf| tf.args.to_token_stream().to_string().replace(' ', "")).or_else(|| self.expected_ty.clone());
                                match (&conc, self.dict_sigs.get(&info.coq).map(|v| !v.is_empty()).unwrap_or(false)) {
                                    (Some(ct), true) if !self.dict_params.iter().any(|d| d == ct) => args.extend(self.td_inst(&info.coq, ct)?),
                                    (Some(ct), true) => args.extend(self.dict_args_for(&info.coq, &ct.clone())?),
                                    _ => args.extend(self.dict_args(&info.coq)?),
                                }
                                args.push(var.clone());
                                for a in &m.args {
                                    if matches!(a, Expr::Closure(_)) {
                                        args.push(self.closure1(a, Kind::Comp)?);
                                    } else {
                                        args.push(self.val(a)?);
                                    }
                                }
                                let p = self.bind(format!("{} {}", info.coq, args.join(" ")), "vs");
                                self.binds.push((format!("LET:{}", var), format!("(snd {})", p)));
                                return Ok((format!("(fst {})", p), Pure));
                            }
                        }
                        if info.mut_self {
                            return Err(format!("call of the mutating method .{}() outside statement position", name));
                        }
                        if info.n_impl > 0 && info.imp != self.cur_imp {
                            return Err(format!("method .{}() of another impl ({})", name, info.imp));
                        }
                        let mut args = self.targs(&info, &[])?;
                        args.push(self.val(&m.receiver)?);
                        for a in &m.args {
                            args.push(self.val(a)?);
                        }
                        return Ok((format!("{} {}", info.coq, args.join(" ")), Comp));
                    }
                    None => return Err(format!("method .{}() of the record type {} is not a translated function", name, rec)),
                }
            }
        }
        // `v.f.remove(i)`: the element; the field is updated (Vec::remove panics when out of range)
        if name == "remove" && m.args.len() == 1 {
            if let Some((var, f)) = self.place_field(&m.receiver) {
                let i = self.val(&m.args[0])?;
                let rec = self.rec_of_var(&var)?;
                let cur = format!("({} {})", self.field_proj(&rec, &f), var);
                let p = self.bind(format!("vec_remove {} {}", cur, i), "rm");
                // re-bind the owner with the shortened vector: a LET bind placed after the removal
                let upd = self.set_place(&var, &f, &format!("(snd {})", p))?;
                self.binds.push((format!("LET:{}", var), upd));
                return Ok((format!("(fst {})", p), Pure));
            }
        }
        // `r.map(f)` on a Result
        if name == "map" && !is_list_chain(&m.receiver) && !matches!(strip_refs(&m.receiver), Expr::Path(pp) if self.list_vars.contains(&coq_ident(&path_str(&pp.path)))) {
            let mark = self.binds.len();
            let saved_fresh = self.fresh;
            let (r, k) = self.expr(&m.receiver)?;
            if k == Comp {
                let f = self.closure1(&m.args[0], Pure)?;
                return Ok((format!("omap {} ({})", f, r), Comp));
            }
            // not a Result: fall through to the Option / iterator cases (re-translating the receiver)
            self.binds.truncate(mark);
            self.fresh = saved_fresh;
        }
        // `iter.try_collect()` on a fully evaluated iterator: the container's `try_from_iter`
        if name == "try_collect" {
            if let Expr::Path(pp) = &*m.receiver {
                let v = coq_ident(&path_str(&pp.path));
                if self.list_vars.contains(&v) {
                    let cont = self.dict_params.iter().find(|d| self.dict_bounds.get(*d).map(|b| b.contains("TryFromIter")).unwrap_or(false)).cloned()
                        .ok_or("try_collect without a TryFromIter type parameter in scope")?;
                    if !self.dict_used.contains(&(cont.clone(), "try_from_iter".to_string())) {
                        self.dict_used.push((cont.clone(), "try_from_iter".to_string()));
                    }
                    if self.dict_sigs.contains_key("try_collect") {
                        return Ok((format!("try_collect {}_try_from_iter {}", cont, v), Comp));
                    }
                    return Ok((format!("{}_try_from_iter {}", cont, v), Comp));
                }
            }
            return Err(format!("try_collect on something that is not an evaluated iterator: {}", tokens(m)));
        }
        // `xs.chunks(n).map(f).collect()` into a `Result<Vec<_>, _>`: stops at the first error
        if name == "collect" {
            let elem_u8 = m.turbofish.as_ref().map(|tf| tf.args.to_token_stream().to_string().replace(' ', "") == "Vec<u8>").unwrap_or(false);
            let saved_exp = self.expected_ty.clone();
            if elem_u8 {
                self.expected_ty = Some("u8".to_string());
            }
            let rk = self.expr(&m.receiver);
            self.expected_ty = saved_exp;
            let (r, k) = rk?;
            if self.cur_imp == "BTreeMap<K,V>" && k == Comp {
                if !self.dict_used.contains(&("K".to_string(), "cmp".to_string())) {
                    self.dict_used.push(("K".to_string(), "cmp".to_string()));
                }
                return Ok((format!("omap (btreemap_from_iter K_cmp) ({})", r), Comp));
            }
            if self.cur_imp == "BTreeSet<T>" && k == Comp {
                // into a `Result<BTreeSet<T>, _>`: the items up to the first error, then `from_iter` under `T: Ord`
                if !self.dict_used.contains(&("T".to_string(), "cmp".to_string())) {
                    self.dict_used.push(("T".to_string(), "cmp".to_string()));
                }
                return Ok((format!("omap (btreeset_from_iter T_cmp) ({})", r), Comp));
            }
            return Ok((r, k));
        }
        // Result / Option adaptors whose receiver must stay a computation
        if matches!(name.as_str(), "expect" | "unwrap" | "unwrap_or_else" | "map_err" | "ok") {
            let (r, k) = self.expr(&m.receiver)?;
            if name == "unwrap_or_else" {
                // only `unwrap_or_else(|_| unreachable!(..))` / `panic!`
                let is_panic = |p: &syn::Path| matches!(path_last(p).as_str(), "unreachable" | "panic");
                let ok = match m.args.first() {
                    Some(Expr::Closure(c)) => match &*c.body {
                        Expr::Macro(mm) => is_panic(&mm.mac.path),
                        Expr::Block(b) => match b.block.stmts.first() {
                            Some(Stmt::Macro(mm)) => is_panic(&mm.mac.path),
                            Some(Stmt::Expr(Expr::Macro(mm), _)) => is_panic(&mm.mac.path),
                            _ => false,
                        },
                        _ => false,
                    },
                    _ => false,
                };
                if !ok {
                    return Err(format!("unwrap_or_else with a closure that is not `|_| unreachable!()`: {}", tokens(m)));
                }
            }
            return Ok(match (name.as_str(), k) {
                ("map_err", Comp) => (r, Comp),
                ("ok", Comp) => (format!("outcome_ok ({})", r), Comp),
                ("expect" | "unwrap" | "unwrap_or_else", Comp) => (format!("unwrap_res ({})", r), Comp),
                ("expect" | "unwrap", Pure) => (format!("unwrap_or_panic {}", r), Comp),
                _ => return Err(format!("unsupported adaptor .{}() here: {}", name, tokens(m))),
            });
        }
        let r = self.val(&m.receiver)?;
        let arg = |cx: &mut Cx, i: usize| -> R<String> { cx.val(&m.args[i]) };
        Ok(match name.as_str() {
            "len" => (format!("(llen {})", r), Pure),
            "is_empty" => (format!("(llen {} =? 0)", r), Pure),
            "first" => (format!("(hd_error {})", r), Pure),
            "last" => (format!("(last_error {})", r), Pure),
            "copied" | "cloned" | "clone" | "iter" | "to_vec" | "as_slice" => (r, Pure),
            "is_none" => (format!("(is_none {})", r), Pure),
            "is_some" => (format!("(negb (is_none {}))", r), Pure),
            "is_some_and" => {
                let f = self.closure1(&m.args[0], Pure)?;
                (format!("(is_some_and {} {})", r, f), Pure)
            }
            "map" => {
                let list = is_list_chain(&m.receiver) || matches!(strip_refs(&m.receiver), Expr::Path(pp) if self.list_vars.contains(&coq_ident(&path_str(&pp.path))));
                let mark = self.binds.len();
                match self.closure1(&m.args[0], Pure) {
                    Ok(f) => (if list { format!("(map {} {})", f, r) } else { format!("(option_map {} {})", f, r) }, Pure),
                    Err(_) => {
                        // the closure body can panic / fail: map in the outcome monad
                        self.binds.truncate(mark);
                        let f = self.closure1(&m.args[0], Comp)?;
                        (if list { format!("mapM {} {}", f, r) } else { format!("opt_mapm {} {}", f, r) }, Comp)
                    }
                }
            }
            // `i.try_into()` where the target is `u8` (the element type of the `Vec<u8>` being collected)
            "try_into" if self.expected_ty.as_deref() == Some("u8") => (format!("(u8_try_from {})", r), Pure),
            "filter" => {
                let f = self.closure1(&m.args[0], Pure)?;
                (format!("(opt_filter {} {})", f, r), Pure)
            }
            "ok_or" => (format!("ok_or {}", r), Comp),
            "checked_add" => {
                let a = arg(self, 0)?;
                (format!("(checked_add {} {})", r, a), Pure)
            }
            "div_ceil" => {
                let a = arg(self, 0)?;
                (format!("(div_ceil {} {})", r, a), Pure)
            }
            "to_le_bytes" => {
                // the width is that of the receiver's type: `self` of a uint impl, or a cast
                let w = match strip_refs(&m.receiver) {
                    Expr::Path(pp) if path_str(&pp.path) == "self" => uint_width(&self.cur_imp).unwrap_or(8),
                    Expr::Cast(c) => uint_width(&tokens(&c.ty)).unwrap_or(8),
                    _ => 8,
                };
                (format!("(le_bytes {} {})", w, r), Pure)
            }
            "as_le_slice" => {
                let w = uint_width(&self.cur_imp).ok_or("as_le_slice of an unknown integer type")?;
                (format!("(le_bytes {} {})", w, r), Pure)
            }
            "as_ref" | "get" if strip_is_self(&m.receiver) && !self.self_rec.is_some() => (r, Pure),
            "cmp" => {
                let a = arg(self, 0)?;
                (format!("(N.compare {} {})", r, a), Pure)
            }
            "rev" => (format!("(rev {})", r), Pure),
            "enumerate" => (format!("(enumerate_n {})", r), Pure),
            "to_smallvec" | "into_iter" | "into" => (r, Pure),
            "split_at" => {
                let a = arg(self, 0)?;
                (format!("split_at_n {} {}", r, a), Comp)
            }
            "chunks" => {
                let a = arg(self, 0)?;
                (format!("(chunks_n {} {})", r, a), Pure)
            }
            // of an iterator over a list (exact size): (remaining, Some(remaining))
            "size_hint" => (format!("(llen {}, Some (llen {}))", r, r), Pure),
            "unwrap_or" => {
                let a = arg(self, 0)?;
                (format!("(opt_unwrap_or {} {})", r, a), Pure)
            }
            "find" => {
                let f = self.closure1(&m.args[0], Pure)?;
                (format!("(find {} {})", f, r), Pure)
            }
            "all" => {
                let f = self.closure1(&m.args[0], Pure)?;
                (format!("(forallb {} {})", f, r), Pure)
            }
            "sum" => (format!("usize_sum {}", r), Comp),
            "leading_zeros" => (format!("(leading_zeros8 {})", r), Pure),
            "count_ones" => (format!("(count_ones8 {})", r), Pure),
            "windows" => {
                if int_lit(&m.args[0]) != Some(2) {
                    return Err("windows(n) only for n = 2".into());
                }
                (format!("(windows2 {})", r), Pure)
            }
            "get" => match &m.args[0] {
                Expr::Range(rg) => {
                    let a = match &rg.start { Some(s) => self.val(s)?, None => "0".into() };
                    match &rg.end {
                        Some(end) => {
                            let b = self.val(end)?;
                            (format!("(get_range {} {} {})", r, a, b), Pure)
                        }
                        None => (format!("(get_from {} {})", r, a), Pure),
                    }
                }
                i => {
                    let i = self.val(i)?;
                    (format!("(get_at {} {})", r, i), Pure)
                }
            },
            "overflowing_shr" => {
                let a = arg(self, 0)?;
                (format!("(overflowing_shr8 {} {}, tt)", r, a), Pure)
            }
            _ => return Err(format!("unsupported method .{}(): {}", name, tokens(m))),
        })
    }

    // ---------------------------------------------------------------------------------------
    // statements and tail positions.  `k` finishes the translation with the block's value.

    fn tail(&mut self, e: &Expr, k: &mut dyn FnMut(&mut Cx, String) -> R<String>) -> R<String> {
        // a call that writes through the `&mut Vec<u8>` parameter, as the body of a match arm or a branch:
        // a statement (the buffer is re-bound to what the call returns), not a value
        if (matches!(e, Expr::MethodCall(_) | Expr::Call(_)) && self.is_buf_call(e)) || local_mutator(e).is_some() {
            return self.block(&[Stmt::Expr(e.clone(), Some(Default::default()))], k);
        }
        match e {
            Expr::Paren(p) => self.tail(&p.expr, k),
            Expr::Block(b) => self.block(&b.block.stmts, k),
            Expr::If(i) => self.if_tail(i, k),
            Expr::Match(m) => self.match_tail(m, k),
            Expr::Return(r) => {
                let inner = r.expr.as_ref().ok_or("return without a value")?;
                self.ret(inner)
            }
            // `Ok(x)` in tail position: the function's value is x
            Expr::Call(c) if matches!(&*c.func, Expr::Path(p) if path_str(&p.path) == "Ok") && c.args.len() == 1 => {
                let from = self.binds.len();
                let v = self.val(&c.args[0])?;
                let body = k(self, v)?;
                Ok(self.wrap(from, body))
            }
            _ => {
                let from = self.binds.len();
                let (t, kind) = self.expr(e)?;
                let body = match kind {
                    Kind::Pure => k(self, t)?,
                    Kind::Comp => {
                        // a computation in tail position: its value is the block's value
                        if t == "Err" || t == "Panic" {
                            t
                        } else {
                            let mark = self.binds.len();
                            let v = self.bind(t.clone(), "r");
                            let body = k(self, v.clone())?;
                            if body == format!("Ok {}", v) && self.binds.len() == mark + 1 {
                                // do v <- t; Ok v   =   t
                                self.binds.pop();
                                t
                            } else {
                                body
                            }
                        }
                    }
                };
                Ok(self.wrap(from, body))
            }
        }
    }

    /// `return e` / a function's final expression where the function returns a Result.
    fn ret(&mut self, e: &Expr) -> R<String> {
        let from = self.binds.len();
        let (t, kind) = self.expr(e)?;
        let body = match kind {
            Kind::Comp => t,
            Kind::Pure => format!("Ok {}", paren(&t)),
        };
        Ok(self.wrap(from, body))
    }

    fn if_tail(&mut self, i: &syn::ExprIf, k: &mut dyn FnMut(&mut Cx, String) -> R<String>) -> R<String> {
        let from = self.binds.len();
        let out = match &*i.cond {
            Expr::Let(l) => {
                // if let Some(x) = e { A } else { B }
                let scrut = self.val(&l.expr)?;
                let var = match &*l.pat {
                    Pat::TupleStruct(ts) if path_last(&ts.path) == "Some" && ts.elems.len() == 1 => self.pat_name(&ts.elems[0])?,
                    p => return Err(format!("unsupported if-let pattern: {}", tokens(p))),
                };
                if let Some(inner) = self.ty_of(&l.expr).and_then(|t| t.strip_prefix("Option<").and_then(|x| x.strip_suffix('>')).map(|x| x.to_string())).filter(|t| !self.dict_params.contains(t)) {
                    self.var_ty.insert(var.clone(), inner);
                }
                let a = self.block(&i.then_branch.stmts, k)?;
                let b = match &i.else_branch {
                    Some((_, e)) => self.tail(e, k)?,
                    None => k(self, "tt".into())?,
                };
                format!("match {} with\n| Some {} =>\n{}\n| None =>\n{}\nend", scrut, var, a, b)
            }
            c => {
                let c = self.val(c)?;
                let a = self.block(&i.then_branch.stmts, k)?;
                let b = match &i.else_branch {
                    Some((_, e)) => self.tail(e, k)?,
                    None => k(self, "tt".into())?,
                };
                format!("if {} then\n{}\nelse\n{}", c, a, b)
            }
        };
        Ok(self.wrap(from, out))
    }

    fn match_tail(&mut self, m: &syn::ExprMatch, k: &mut dyn FnMut(&mut Cx, String) -> R<String>) -> R<String> {
        let from = self.binds.len();
        let scrut = self.val(&m.expr)?;
        // a match on integer literals (with optional guards, a binding or `_` last): an if-chain
        if m.arms.iter().any(|a| matches!(&a.pat, Pat::Lit(_))) {
            let mut conds: Vec<(Option<String>, String)> = vec![];
            for arm in &m.arms {
                let (cond, bind): (Option<String>, Option<String>) = match &arm.pat {
                    Pat::Lit(l) => match &l.lit {
                        Lit::Int(i) => (Some(format!("({} =? {})", scrut, i.base10_digits())), None),
                        _ => return Err(format!("unsupported literal pattern: {}", tokens(&arm.pat))),
                    },
                    Pat::Wild(_) => (None, None),
                    Pat::Ident(id) => (None, Some(coq_ident(&id.ident.to_string()))),
                    p => return Err(format!("unsupported pattern in an integer match: {}", tokens(p))),
                };
                let mark = self.binds.len();
                let guard = match &arm.guard {
                    Some((_, g)) => Some(self.val(g)?),
                    None => None,
                };
                if self.binds.len() != mark {
                    return Err("a match guard that can fail".into());
                }
                let cond = match (cond, guard) {
                    (Some(c), Some(g)) => Some(format!("({} && {})", c, g)),
                    (Some(c), None) => Some(c),
                    (None, Some(g)) => Some(g),
                    (None, None) => None,
                };
                let body = self.tail(&arm.body, k)?;
                let body = match bind { Some(b) => format!("let {} := {} in\n{}", b, scrut, body), None => body };
                conds.push((cond, body));
            }
            let mut out = String::new();
            let mut closed = false;
            for (c, b) in &conds {
                match c {
                    Some(c) => out.push_str(&format!("if {} then\n{}\nelse\n", c, b)),
                    None => {
                        out.push_str(b);
                        closed = true;
                        break;
                    }
                }
            }
            if !closed {
                return Err("integer match without a catch-all arm".into());
            }
            return Ok(self.wrap(from, out));
        }
        // a single arm binding a tuple (what `assert_eq!` expands to): a let
        if m.arms.len() == 1 {
            if let Pat::Tuple(_) = &m.arms[0].pat {
                let pat = self.pat_name(&m.arms[0].pat)?;
                let body = self.tail(&m.arms[0].body, k)?;
                let out = format!("let {} := {} in\n{}", pat, scrut, body);
                return Ok(self.wrap(from, out));
            }
        }
        // derive mode: a match on a value of a user enum
        let scrut_ty = self.ty_of(&m.expr);
        if let Some(en) = scrut_ty.filter(|t| user().enums.contains_key(t)) {
            let mut arms = vec![];
            for arm in &m.arms {
                let (ctor, bind) = match &arm.pat {
                    Pat::TupleStruct(ts) if ts.path.segments.len() == 2 && ts.elems.len() == 1 => (format!("{}_{}", en, path_last(&ts.path)), Some(self.pat_name(&ts.elems[0])?)),
                    Pat::Path(pp) if pp.path.segments.len() == 2 => (format!("{}_{}", en, path_last(&pp.path)), None),
                    Pat::Ident(id) => (format!("{}_{}", en, id.ident), None),
                    p => return Err(format!("unsupported pattern on the enum {}: {}", en, tokens(p))),
                };
                if let Some(b) = &bind {
                    let vname = path_last_str(&ctor, &en);
                    if let Some(pt) = user().enums.get(&en).and_then(|vs| vs.iter().find(|(v, _)| *v == vname).and_then(|(_, t)| t.clone())) {
                        self.var_ty.insert(b.clone(), pt);
                    }
                }
                let body = self.tail(&arm.body, k)?;
                arms.push(match bind { Some(b) => format!("| {} {} =>\n{}", ctor, b, body), None => format!("| {} =>\n{}", ctor, body) });
            }
            let out = format!("match {} with\n{}\nend", scrut, arms.join("\n"));
            return Ok(self.wrap(from, out));
        }
        let mut arms = vec![];
        for arm in &m.arms {
            let pat = match &arm.pat {
                Pat::Path(p) => match path_last(&p.path).as_str() {
                    "Less" => "Lt".to_string(),
                    "Greater" => "Gt".to_string(),
                    "Equal" => "Eq".to_string(),
                    "None" => "None".to_string(),
                    other => return Err(format!("unsupported match pattern {}", other)),
                },
                Pat::Ident(id) if id.ident == "None" => "None".to_string(),
                Pat::TupleStruct(ts) if path_last(&ts.path) == "Some" => {
                    let b = self.pat_name(&ts.elems[0])?;
                    if let Some(inner) = self.ty_of(&m.expr).and_then(|t| t.strip_prefix("Option<").and_then(|x| x.strip_suffix('>')).map(|x| x.to_string())).filter(|t| !self.dict_params.contains(t)) {
                        self.var_ty.insert(b.clone(), inner);
                    }
                    format!("Some {}", b)
                }
                p => return Err(format!("unsupported match pattern: {}", tokens(p))),
            };
            let body = self.tail(&arm.body, k)?;
            arms.push(format!("| {} =>\n{}", pat, body));
        }
        let out = format!("match {} with\n{}\nend", scrut, arms.join("\n"));
        Ok(self.wrap(from, out))
    }

    fn block(&mut self, stmts: &[Stmt], k: &mut dyn FnMut(&mut Cx, String) -> R<String>) -> R<String> {
        if stmts.is_empty() {
            return k(self, "tt".into());
        }
        let (first, rest) = stmts.split_first().unwrap();
        let from = self.binds.len();
        let out = match first {
            Stmt::Local(l) => {
                let init = l.init.as_ref().ok_or("let without initializer")?;
                // `let mut array: [u8; N] = Default::default(); array.clone_from_slice(x);` idiom
                if tokens(&init.expr).contains("default") {
                    if let Some(Stmt::Expr(Expr::MethodCall(mc), _)) = rest.first() {
                        if mc.method == "clone_from_slice" || mc.method == "copy_from_slice" {
                            let name = self.pat_name(&l.pat)?;
                            let n = array_len_of_pat(&l.pat).ok_or("array idiom without a length")?;
                            let src = self.val(&mc.args[0])?;
                            let body = self.block(&rest[1..], k)?;
                            let out = format!("if llen {} =? {} then\nlet {} := {} in\n{}\nelse Panic", src, n, name, src, body);
                            return Ok(self.wrap(from, out));
                        }
                    }
                }
                // `let mut bytes = [0; N]; bytes.copy_from_slice(&x[..]);`
                if let Expr::Repeat(rp) = &*init.expr {
                    if let Some(Stmt::Expr(Expr::MethodCall(mc), _)) = rest.first() {
                        if mc.method == "copy_from_slice" || mc.method == "clone_from_slice" {
                            let name = self.pat_name(&l.pat)?;
                            let n = self.val(&rp.len)?;
                            let src = self.val(&mc.args[0])?;
                            let body = self.block(&rest[1..], k)?;
                            let out = format!("if llen {} =? {} then\nlet {} := {} in\n{}\nelse Panic", src, n, name, src, body);
                            return Ok(self.wrap(from, out));
                        }
                    }
                }
                let name = self.pat_name(&l.pat)?;
                if let Some((field, idx)) = get_mut_target(&init.expr) {
                    // let x = self.f.get_mut(i).ok_or(E)?;   x aliases self.f[i]
                    let rec = self.self_rec.clone().ok_or("get_mut outside an impl")?;
                    let i = self.val(&idx)?;
                    let cur = format!("({} self)", self.field_proj(&rec, &field));
                    let v = self.bind(format!("ok_or (get_at {} {})", cur, i), "q");
                    self.aliases.insert(name.clone(), ("self".to_string(), field, i));
                    let body = self.block(rest, k)?;
                    return Ok(self.wrap(from, format!("let {} := {} in\n{}", name, v, body)));
                }
                if let Expr::If(ife) = &*init.expr {
                    let mut mutated = self.loop_state(&ife.then_branch);
                    if let Some((_, eb)) = &ife.else_branch {
                        if let Expr::Block(b) = &**eb {
                            mutated.extend(self.loop_state(&b.block));
                        }
                    }
                    if !mutated.is_empty() {
                        let nm = name.clone();
                        let mut k2 = |cx: &mut Cx, v: String| -> R<String> {
                            let body = cx.block(rest, k)?;
                            Ok(format!("let {} := {} in\n{}", nm, v, body))
                        };
                        let out = self.if_tail(ife, &mut k2)?;
                        return Ok(self.wrap(from, out));
                    }
                }
                // a local of a translated record type: remembered, so that its fields and methods resolve
                let mut rec = self.rec_of_expr(&init.expr);
                if rec.is_none() {
                    if let Pat::Type(pt) = &l.pat {
                        let t = tokens(&*pt.ty).replace(' ', "");
                        let b = base_of(&t);
                        if self.records.contains_key(&b) {
                            rec = Some(b);
                        }
                    }
                }
                let saved_exp = self.expected_ty.take();
                if let Some(fs) = user().structs.get(&self.cur_imp) {
                    self.expected_ty = fs.iter().find(|(n, _)| *n == name).map(|(_, t)| t.clone());
                }
                let v = self.val(&init.expr);
                self.expected_ty = saved_exp;
                let v = v?;
                match rec {
                    Some(r) => {
                        // `let mut enc = Rec::new(buf, ..)`: the record owns the `&mut` parameter from here on
                        if let (Some(mp), Expr::Call(ic)) = (self.mut_param.clone(), &*init.expr) {
                            let passes = ic.args.iter().any(|a| matches!(strip_refs(a), Expr::Path(p) if path_str(&p.path) == mp));
                            if passes && self.records.get(&r).map(|fs| fs.contains(&mp)).unwrap_or(false) {
                                self.borrows.insert(name.clone(), (mp.clone(), mp.clone()));
                            }
                        }
                        self.var_rec.insert(name.clone(), r);
                    }
                    None => { self.var_rec.remove(&name); }
                }
                let body = self.block(rest, k)?;
                format!("let {} := {} in\n{}", name, v, body)
            }
            // `if let Ok(x) = e { .. return .. }` with no else: a success is handled (and returns), an error falls
            // through to the rest of the block, a panic is a panic
            Stmt::Expr(Expr::If(i), _) if i.else_branch.is_none() && matches!(&*i.cond, Expr::Let(l) if matches!(&*l.pat, Pat::TupleStruct(ts) if path_last(&ts.path) == "Ok" && ts.elems.len() == 1))
                && i.then_branch.stmts.last().map(|st| matches!(st, Stmt::Expr(Expr::Return(_), _))).unwrap_or(false) => {
                let l = match &*i.cond { Expr::Let(l) => l, _ => unreachable!() };
                let x = match &*l.pat { Pat::TupleStruct(ts) => self.pat_name(&ts.elems[0])?, _ => unreachable!() };
                let mark = self.binds.len();
                let (c, kind) = self.expr(&l.expr)?;
                if kind != Kind::Comp {
                    return Err(format!("`if let Ok(..)` on something that is not a Result: {}", tokens(&l.expr)));
                }
                let c = self.wrap(mark, c);
                let then_t = self.block(&i.then_branch.stmts, k)?;
                let rest_t = self.block(rest, k)?;
                format!("match ({}) with\n| Ok {} =>\n{}\n| Err =>\n{}\n| Panic => Panic\nend", c, x, then_t, rest_t)
            }
            Stmt::Expr(e, semi) => {
                let is_mutation = matches!(e, Expr::Assign(_) | Expr::ForLoop(_))
                    || matches!(e, Expr::Binary(b) if matches!(b.op, BinOp::AddAssign(_) | BinOp::BitOrAssign(_) | BinOp::BitAndAssign(_)));
                let is_mutation = is_mutation || self.mut_self_call(e).is_some() || local_mutator(e).is_some() || self.is_buf_call(e)
                    || matches!(e, Expr::MethodCall(m) if m.method == "reserve");
                if rest.is_empty() && semi.is_none() && !is_mutation {
                    return self.tail(e, k);
                }
                self.stmt_expr(e, rest, k)?
            }
            Stmt::Macro(m) => {
                let name = path_last(&m.mac.path);
                if name == "assert" {
                    // `assert!(c, "..", ..)`: a panic when c is false (the message arguments are not evaluated otherwise)
                    let args = m.mac.parse_body_with(syn::punctuated::Punctuated::<Expr, syn::Token![,]>::parse_terminated).map_err(|e| format!("assert! arguments: {}", e))?;
                    let c = self.val(args.first().ok_or("assert! without a condition")?)?;
                    let rest_t = self.block(rest, k)?;
                    format!("if (negb {}) then\nPanic\nelse\n{}", paren(&c), rest_t)
                } else if name == "debug_assert" || name == "debug_assert_eq" {
                    self.notes.push(format!("{}!({}) ignored (release semantics)", name, m.mac.tokens));
                    self.block(rest, k)?
                } else {
                    return Err(format!("unsupported macro statement {}!", name));
                }
            }
            // a type declared inside the body with its trait impl (`struct Anonymous; impl Decode for Anonymous {..}`):
            // recorded, so that `f::<Anonymous>()` can be instantiated at it
            Stmt::Item(Item::Struct(st)) if st.fields.is_empty() => {
                self.local_impls.entry(st.ident.to_string()).or_default();
                self.block(rest, k)?
            }
            Stmt::Item(Item::Impl(imp)) if matches!(&*imp.self_ty, Type::Path(tp) if self.local_impls.contains_key(&path_last(&tp.path))) => {
                let ty = match &*imp.self_ty { Type::Path(tp) => path_last(&tp.path), _ => String::new() };
                for ii in &imp.items {
                    if let ImplItem::Fn(m) = ii {
                        let name = m.sig.ident.to_string();
                        let term = match m.block.stmts.as_slice() {
                            [Stmt::Expr(Expr::Lit(l), None)] => match &l.lit {
                                syn::Lit::Bool(b) => format!("Ok {}", b.value),
                                syn::Lit::Int(i) => format!("Ok {}", i.base10_digits()),
                                _ => return Err(format!("unsupported body of the local impl function {}::{}", ty, name)),
                            },
                            [Stmt::Macro(mm)] if matches!(path_last(&mm.mac.path).as_str(), "unreachable" | "panic" | "unimplemented") => "(fun _ => Panic)".to_string(),
                            [Stmt::Expr(Expr::Macro(mm), _)] if matches!(path_last(&mm.mac.path).as_str(), "unreachable" | "panic" | "unimplemented") => "(fun _ => Panic)".to_string(),
                            _ => return Err(format!("unsupported body of the local impl function {}::{}", ty, name)),
                        };
                        self.local_impls.entry(ty.clone()).or_default().insert(name, term);
                    }
                }
                self.block(rest, k)?
            }
            Stmt::Item(_) => return Err("nested item".into()),
        };
        Ok(self.wrap(from, out))
    }

    /// `<var>.<field>` as the target of a mutation, for `self` or a local of record type: (var, field)
    fn place_field(&self, e: &Expr) -> Option<(String, String)> {
        match e {
            Expr::Field(f) => match (&*f.base, &f.member) {
                (Expr::Path(p), Member::Named(id)) => {
                    let v = path_str(&p.path);
                    if v == "self" || self.var_rec.contains_key(&v) { Some((v, id.to_string())) } else { None }
                }
                _ => None,
            },
            Expr::Reference(r) => self.place_field(&r.expr),
            Expr::Paren(p) => self.place_field(&p.expr),
            _ => None,
        }
    }

    fn self_field(&self, e: &Expr) -> Option<String> {
        match self.place_field(e) {
            Some((v, f)) if v == "self" => Some(f),
            _ => None,
        }
    }

    fn rec_of_var(&self, v: &str) -> R<String> {
        if v == "self" { self.self_rec.clone().ok_or_else(|| "self outside an impl".to_string()) } else { self.var_rec.get(v).cloned().ok_or_else(|| format!("{} is not of a record type", v)) }
    }

    /// `v.m(args)?`, `v.m(args).unwrap()` / `.expect(..)`, or plain `v.m(args)` with m a translated
    /// `&mut self` method and v `self` or a local of record type: (var, callee, args, unwrapped?)
    fn mut_call(&self, e: &Expr) -> Option<(String, FnInfo, Vec<Expr>, bool)> {
        let (inner, unwrap) = match e {
            Expr::Try(t) => (&*t.expr, false),
            Expr::MethodCall(m) if (m.method == "unwrap" || m.method == "expect") && matches!(&*m.receiver, Expr::MethodCall(_)) => (&*m.receiver, true),
            other => (other, false),
        };
        let m = match inner { Expr::MethodCall(m) => m, _ => return None };
        let var = match &*m.receiver {
            Expr::Path(p) => path_str(&p.path),
            _ => return None,
        };
        let rec = self.rec_of_var(&var).ok()?;
        let info = self.resolve_method(&rec, &m.method.to_string())?;
        if !info.mut_self || info.valued {
            return None;
        }
        Some((var, info, m.args.iter().cloned().collect(), unwrap))
    }

    fn mut_self_call(&self, e: &Expr) -> Option<(String, Vec<Expr>, bool)> {
        self.mut_call(e).map(|(_, i, a, u)| (i.coq, a, u))
    }

    /// the single `Encode` dictionary parameter in scope, if there is exactly one
    fn encode_dict(&self) -> Option<String> {
        let ds: Vec<&String> = self.dict_params.iter().filter(|d| self.dict_bounds.get(*d).map(|b| b.contains("Encode")).unwrap_or(false)).collect();
        if ds.len() == 1 { Some(ds[0].clone()) } else { None }
    }

    /// the primitive type of an expression, when evident (`self` of a primitive impl, `self.get()`, a cast)
    fn prim_type(&self, e: &Expr) -> Option<String> {
        match strip_refs(e) {
            Expr::Path(p) if path_str(&p.path) == "self" && uint_width(&self.cur_imp).is_some() => Some(self.cur_imp.clone()),
            Expr::MethodCall(m) if m.method == "get" && strip_is_self(&m.receiver) && self.cur_imp == "NonZeroUsize" => Some("usize".to_string()),
            Expr::Cast(c) => Some(tokens(&c.ty)),
            _ => None,
        }
    }

    /// A call that writes into a buffer passed as a `&mut Vec<u8>` argument:
    ///   `x.ssz_append(buf)`  (x of a dictionary type or of a translated primitive impl)
    ///   `T::ssz_append(x, buf)`
    ///   `f(.., buf)` for a translated function with a `&mut` parameter
    /// Returns (buffer variable, term of the new buffer, is the term a computation?).
    fn buf_call(&mut self, e: &Expr) -> R<Option<(String, String, bool)>> {
        match e {
            Expr::MethodCall(m) if m.method == "ssz_append" && m.args.len() == 1 => {
                let bufv = match strip_refs(&m.args[0]) { Expr::Path(p) if p.path.segments.len() == 1 => coq_ident(&path_str(&p.path)), _ => return Ok(None) };
                if let Some(rt) = self.ty_of(&m.receiver).filter(|t| !self.dict_params.contains(t)) {
                    let f = self.td_fn(&rt, "ssz_append")?;
                    let r = self.val(&m.receiver)?;
                    return Ok(Some((bufv.clone(), format!("{} {} {}", f, r, bufv), true)));
                }
                if self.rec_of_expr(&m.receiver).is_some() {
                    return Ok(None);
                }
                if let Some(pt) = self.prim_type(&m.receiver) {
                    let key = format!("{}::Encode::ssz_append", pt);
                    if let Some(info) = self.fns.get(&key).cloned() {
                        let r = self.val(&m.receiver)?;
                        return Ok(Some((bufv.clone(), format!("{} {} {}", info.coq, r, bufv), true)));
                    }
                    return Err(format!("ssz_append of the primitive type {} is not a translated function", pt));
                }
                if let Some(d) = self.encode_dict() {
                    if !self.dict_used.contains(&(d.clone(), "ssz_append".to_string())) {
                        self.dict_used.push((d.clone(), "ssz_append".to_string()));
                    }
                    let r = self.val(&m.receiver)?;
                    return Ok(Some((bufv.clone(), format!("{}_ssz_append {} {}", d, r, bufv), true)));
                }
                Ok(None)
            }
            Expr::Call(c) => {
                let pth = match &*c.func { Expr::Path(p) => p, _ => return Ok(None) };
                // T::ssz_append(x, buf)
                if pth.path.segments.len() == 2 && path_last(&pth.path) == "ssz_append" && self.dict_params.contains(&pth.path.segments[0].ident.to_string()) && c.args.len() == 2 {
                    let d = pth.path.segments[0].ident.to_string();
                    let bufv = match strip_refs(&c.args[1]) { Expr::Path(p) if p.path.segments.len() == 1 => coq_ident(&path_str(&p.path)), _ => return Ok(None) };
                    if !self.dict_used.contains(&(d.clone(), "ssz_append".to_string())) {
                        self.dict_used.push((d.clone(), "ssz_append".to_string()));
                    }
                    let x = self.val(&c.args[0])?;
                    return Ok(Some((bufv.clone(), format!("{}_ssz_append {} {}", d, x, bufv), true)));
                }
                // f(.., buf) for a translated function with a `&mut` parameter
                let (name, ty, nums) = split_fn_path(&pth.path);
                let info = match self.fns.get(&path_str(&pth.path)).cloned().or_else(|| self.resolve(&name, ty.as_deref())) { Some(i) => i, None => return Ok(None) };
                let mp = match info.mut_param { Some(i) => i, None => return Ok(None) };
                if mp >= c.args.len() {
                    return Ok(None);
                }
                let bufv = match strip_refs(&c.args[mp]) { Expr::Path(p) if p.path.segments.len() == 1 => coq_ident(&path_str(&p.path)), _ => return Ok(None) };
                let explicit: Vec<String> = if ty.as_deref() == Some("Self") || ty.is_none() { vec![] } else { nums };
                let mut all = self.targs(&info, &explicit)?;
                all.extend(self.dict_args(&info.coq)?);
                for a in &c.args {
                    all.push(self.val(a)?);
                }
                Ok(Some((bufv, format!("{} {}", info.coq, all.join(" ")), true)))
            }
            _ => Ok(None),
        }
    }

    fn is_buf_call(&self, e: &Expr) -> bool {
        match e {
            Expr::MethodCall(m) if m.method == "ssz_append" && m.args.len() == 1 && (self.rec_of_expr(&m.receiver).is_none() || self.ty_of(&m.receiver).is_some()) =>
                matches!(strip_refs(&m.args[0]), Expr::Path(p) if p.path.segments.len() == 1),
            Expr::Call(c) => match &*c.func {
                Expr::Path(p) => {
                    if p.path.segments.len() == 2 && path_last(&p.path) == "ssz_append" && self.dict_params.contains(&p.path.segments[0].ident.to_string()) {
                        return true;
                    }
                    let (name, ty, _) = split_fn_path(&p.path);
                    self.fns.get(&path_str(&p.path)).cloned().or_else(|| self.resolve(&name, ty.as_deref())).map(|i| i.mut_param.is_some()).unwrap_or(false)
                }
                _ => false,
            },
            _ => false,
        }
    }

    fn set_place(&self, var: &str, field: &str, v: &str) -> R<String> {
        let rec = self.rec_of_var(var)?;
        Ok(format!("set_{}_{} {} {}", rec, field, var, paren(v)))
    }

    fn set_self(&self, field: &str, v: &str) -> R<String> {
        self.set_place("self", field, v)
    }

    /// the variables a loop body mutates (they are the state the fold carries), in a fixed order
    fn loop_state(&self, body: &Block) -> Vec<String> {
        struct V<'a> { cx: &'a Cx, out: Vec<String> }
        fn root(e: &Expr) -> Option<String> {
            match e {
                Expr::Path(p) => Some(path_str(&p.path)),
                Expr::Field(f) => root(&f.base),
                Expr::Index(i) => root(&i.expr),
                Expr::Paren(p) => root(&p.expr),
                Expr::Reference(r) => root(&r.expr),
                Expr::Unary(u) => root(&u.expr),
                _ => None,
            }
        }
        impl<'a> V<'a> {
            fn add(&mut self, v: Option<String>) {
                if let Some(v) = v {
                    let v = match self.cx.aliases.get(&v) { Some((var, _, _)) => var.clone(), None => v };
                    if !self.out.contains(&v) {
                        self.out.push(v);
                    }
                }
            }
        }
        impl<'a, 'ast> syn::visit::Visit<'ast> for V<'a> {
            fn visit_expr_assign(&mut self, a: &'ast syn::ExprAssign) {
                self.add(root(&a.left));
                syn::visit::visit_expr_assign(self, a);
            }
            fn visit_expr_binary(&mut self, b: &'ast syn::ExprBinary) {
                if matches!(b.op, BinOp::AddAssign(_) | BinOp::SubAssign(_) | BinOp::BitOrAssign(_) | BinOp::BitAndAssign(_)) {
                    self.add(root(&b.left));
                }
                syn::visit::visit_expr_binary(self, b);
            }
            fn visit_expr_method_call(&mut self, m: &'ast syn::ExprMethodCall) {
                let name = m.method.to_string();
                let is_mut = matches!(name.as_str(), "push" | "extend_from_slice" | "resize" | "truncate" | "append")
                    || match root(&m.receiver) {
                        Some(v) => match self.cx.rec_of_var(&v) {
                            Ok(rec) => matches!(&*m.receiver, Expr::Path(_)) && self.cx.resolve_method(&rec, &name).map(|i| i.mut_self).unwrap_or(false),
                            Err(_) => false,
                        },
                        None => false,
                    };
                if is_mut {
                    self.add(root(&m.receiver));
                }
                if name == "ssz_append" && m.args.len() == 1 && self.cx.rec_of_expr(&m.receiver).is_none() {
                    self.add(root(&m.args[0]));
                }
                syn::visit::visit_expr_method_call(self, m);
            }
        }
        let mut v = V { cx: self, out: vec![] };
        syn::visit::Visit::visit_block(&mut v, body);
        v.out
    }

    fn stmt_expr(&mut self, e: &Expr, rest: &[Stmt], k: &mut dyn FnMut(&mut Cx, String) -> R<String>) -> R<String> {
        match e {
            // v.f = e;     v.f[i] = e;     *x = e  (x an alias of v.f[i])
            Expr::Assign(a) => {
                if let Some((var, f)) = self.place_field(&a.left) {
                    let v = self.val(&a.right)?;
                    let upd = self.set_place(&var, &f, &v)?;
                    let body = self.block(rest, k)?;
                    return Ok(format!("let {} := {} in\n{}", var, upd, body));
                }
                if let Expr::Index(ix) = &*a.left {
                    if let Some((var, f)) = self.place_field(&ix.expr) {
                        let i = self.val(&ix.index)?;
                        let saved = self.u8ctx;
                        let v = self.val(&a.right);
                        self.u8ctx = saved;
                        let v = v?;
                        let rec = self.rec_of_var(&var)?;
                        let cur = format!("({} {})", self.field_proj(&rec, &f), var);
                        let nv = self.bind(format!("set_at {} {} {}", cur, i, paren(&v)), "upd");
                        let upd = self.set_place(&var, &f, &nv)?;
                        let body = self.block(rest, k)?;
                        return Ok(format!("let {} := {} in\n{}", var, upd, body));
                    }
                }
                if let Expr::Path(lp) = &*a.left {
                    if lp.path.segments.len() == 1 {
                        let var = coq_ident(&path_str(&lp.path));
                        let v = self.val(&a.right)?;
                        let body = self.block(rest, k)?;
                        return Ok(format!("let {} := {} in\n{}", var, v, body));
                    }
                }
                if let Expr::Unary(u) = &*a.left {
                    if let (UnOp::Deref(_), Expr::Path(p)) = (&u.op, &*u.expr) {
                        let target = path_last(&p.path);
                        if let Some((var, field, idx)) = self.aliases.get(&target).cloned() {
                            let v = self.val(&a.right)?;
                            let rec = self.rec_of_var(&var)?;
                            let cur = format!("({} {})", self.field_proj(&rec, &field), var);
                            let upd = self.set_place(&var, &field, &format!("upd_at {} {} {}", cur, idx, paren(&v)))?;
                            let body = self.block(rest, k)?;
                            return Ok(format!("let {} := {} in\n{}", var, upd, body));
                        }
                    }
                }
                Err(format!("unsupported assignment: {}", tokens(e)))
            }
            // v.f[i] &= e;   v.f[i] |= e;
            Expr::Binary(b) if matches!(b.op, BinOp::BitOrAssign(_) | BinOp::BitAndAssign(_)) && matches!(&*b.left, Expr::Index(_)) => {
                let ix = match &*b.left { Expr::Index(ix) => ix, _ => unreachable!() };
                let (var, f) = self.place_field(&ix.expr).ok_or_else(|| format!("unsupported compound assignment target: {}", tokens(e)))?;
                let rec = self.rec_of_var(&var)?;
                let cur = format!("({} {})", self.field_proj(&rec, &f), var);
                let i = self.val(&ix.index)?;
                let old = self.bind(format!("index_at {} {}", cur, i), "t");
                let saved = self.u8ctx;
                self.u8ctx = true;
                let r = self.val(&b.right);
                self.u8ctx = saved;
                let r = r?;
                let op = if matches!(b.op, BinOp::BitOrAssign(_)) { "N.lor" } else { "N.land" };
                let nv = self.bind(format!("set_at {} {} ({} {} {})", cur, i, op, old, r), "upd");
                let upd = self.set_place(&var, &f, &nv)?;
                let body = self.block(rest, k)?;
                Ok(format!("let {} := {} in\n{}", var, upd, body))
            }
            // v.m(args)?;   v.m(args).unwrap();   v.m(args);   for a translated `&mut self` method m
            Expr::Try(_) | Expr::MethodCall(_) if self.mut_call(e).is_some() => {
                let (var, info, args, unwrap) = self.mut_call(e).unwrap();
                if info.n_impl > 0 && info.imp != self.cur_imp {
                    return Err(format!("mutating method of another impl ({})", info.imp));
                }
                let mut avs = self.targs(&info, &[])?;
                // derive mode: `builder.register_type::<u16>()`, `encoder.append(&self.a)`
                let call_m: Option<&syn::ExprMethodCall> = match e {
                    Expr::Try(t) => match &*t.expr { Expr::MethodCall(mm) => Some(mm), _ => None },
                    Expr::MethodCall(mm) if mm.method == "unwrap" || mm.method == "expect" => match &*mm.receiver { Expr::MethodCall(m2) => Some(m2), _ => None },
                    Expr::MethodCall(mm) => Some(mm),
                    _ => None,
                };
                let conc: Option<String> = call_m.and_then(|mm| {
                    if let Some(tf) = &mm.turbofish {
                        return Some(tf.args.to_token_stream().to_string().replace(' ', ""));
                    }
                    mm.args.first().and_then(|a| self.ty_of(a))
                });
                match (&conc, self.dict_sigs.get(&info.coq).map(|v| !v.is_empty()).unwrap_or(false)) {
                    (Some(ct), true) if !self.dict_params.iter().any(|d| d == ct) => avs.extend(self.td_inst(&info.coq, ct)?),
                    (Some(ct), true) => avs.extend(self.dict_args_for(&info.coq, &ct.clone())?),
                    _ => avs.extend(self.dict_args(&info.coq)?),
                }
                avs.push(var.clone());
                for a in &args {
                    if matches!(a, Expr::Closure(_)) {
                        avs.push(self.closure1(a, Kind::Comp)?);
                    } else {
                        avs.push(self.val(a)?);
                    }
                }
                let call = format!("{} {}", info.coq, avs.join(" "));
                let st = self.bind(if unwrap { format!("unwrap_res ({})", call) } else { call }, "st");
                let body = self.block(rest, k)?;
                if let Some((field, local)) = self.borrows.get(&var).cloned() {
                    let rec = self.rec_of_var(&var)?;
                    return Ok(format!("let {} := {} in\nlet {} := ({} {}) in\n{}", var, st, local, self.field_proj(&rec, &field), var, body));
                }
                Ok(format!("let {} := {} in\n{}", var, st, body))
            }
            // calls that write into a `&mut Vec<u8>` argument
            Expr::MethodCall(_) | Expr::Call(_) if self.is_buf_call(e) => {
                let (bufv, term, comp) = self.buf_call(e)?.ok_or_else(|| format!("unsupported buffer call: {}", tokens(e)))?;
                let nv = if comp { self.bind(term, "b") } else { term };
                let body = self.block(rest, k)?;
                Ok(format!("let {} := {} in\n{}", bufv, nv, body))
            }
            // `core::hash::Hash::hash(&self.f, state)`: what the field's `Hash` impl writes to the hasher, which is the
            // list of words written so far (a byte vector: its length, then its bytes; a `usize`: itself)
            Expr::Call(c) if matches!(&*c.func, Expr::Path(p) if path_str(&p.path).ends_with("Hash::hash")) && c.args.len() == 2 => {
                let st = match strip_refs(&c.args[1]) { Expr::Path(pp) => coq_ident(&path_str(&pp.path)), other => return Err(format!("hash into {}", tokens(other))) };
                if Some(&st) != self.mut_param.as_ref() {
                    return Err(format!("hash into something that is not the hasher parameter: {}", st));
                }
                let (var, fname) = self.place_field(&c.args[0]).ok_or_else(|| format!("hash of something that is not a field: {}", tokens(&c.args[0])))?;
                let rec = self.rec_of_var(&var)?;
                let fty = self.field_types.get(&format!("{}.{}", rec, fname)).cloned().unwrap_or_default();
                let v = self.val(&c.args[0])?;
                let prim = match fty.as_str() { "bytes" => "hash_bytes", "N" => "hash_usize", other => return Err(format!("hash of a field of type {}", other)) };
                let body = self.block(rest, k)?;
                Ok(format!("let {} := {} {} {} in\n{}", st, prim, st, v, body))
            }
            // `u.fill_buffer(&mut vec)?`: the buffer is filled from the entropy (zeros when it runs out), which shrinks
            Expr::Try(t) if matches!(&*t.expr, Expr::MethodCall(m) if m.method == "fill_buffer" && m.args.len() == 1) => {
                let m = match &*t.expr { Expr::MethodCall(m) => m, _ => unreachable!() };
                let u = match strip_refs(&m.receiver) { Expr::Path(pp) => coq_ident(&path_str(&pp.path)), other => return Err(format!("fill_buffer on {}", tokens(other))) };
                let v = match strip_refs(&m.args[0]) { Expr::Path(pp) => coq_ident(&path_str(&pp.path)), other => return Err(format!("fill_buffer into {}", tokens(other))) };
                let p = self.var("p");
                let body = self.block(rest, k)?;
                Ok(format!("let {} := fill_buffer {} (llen {}) in\nlet {} := (fst {}) in\nlet {} := (snd {}) in\n{}", p, u, v, v, p, u, p, body))
            }
            // v.reserve(n): no observable effect, but the argument is evaluated (it can overflow)
            Expr::MethodCall(m) if m.method == "reserve" && m.args.len() == 1 => {
                let _ = self.val(&m.args[0])?;
                self.block(rest, k)
            }
            // v.resize(n, x);  v.truncate(n);  v.extend_from_slice(x);  v.push(x);   on a plain local
            Expr::MethodCall(m) if local_mutator(e).is_some() && self.place_field(&m.receiver).is_none() => {
                let (var, name) = local_mutator(e).unwrap();
                let var = coq_ident(&var);
                let a0 = self.val(&m.args[0])?;
                let nv = match name.as_str() {
                    "resize" => {
                        let a1 = self.val(&m.args[1])?;
                        format!("resize_n {} {} {}", var, a0, a1)
                    }
                    "truncate" => format!("truncate_n {} {}", var, a0),
                    "extend_from_slice" | "extend" => format!("{} ++ {}", var, a0),
                    _ => format!("{} ++ [{}]", var, a0),
                };
                let body = self.block(rest, k)?;
                Ok(format!("let {} := {} in\n{}", var, nv, body))
            }
            // *x |= e;  *x &= e;   where x aliases v.f[i]
            Expr::Binary(b) if matches!(b.op, BinOp::BitOrAssign(_) | BinOp::BitAndAssign(_)) => {
                let target = match &*b.left {
                    Expr::Unary(u) if matches!(u.op, UnOp::Deref(_)) => match &*u.expr {
                        Expr::Path(p) => path_last(&p.path),
                        _ => return Err(format!("unsupported compound assignment target: {}", tokens(e))),
                    },
                    _ => return Err(format!("unsupported compound assignment target: {}", tokens(e))),
                };
                let (var, field, idx) = self.aliases.get(&target).cloned().ok_or_else(|| format!("{} is not a known alias of an element of self", target))?;
                let saved = self.u8ctx;
                self.u8ctx = true;
                let r = self.val(&b.right);
                self.u8ctx = saved;
                let r = r?;
                let op = if matches!(b.op, BinOp::BitOrAssign(_)) { "N.lor" } else { "N.land" };
                let rec = self.rec_of_var(&var)?;
                let cur = format!("({} {})", self.field_proj(&rec, &field), var);
                let upd = self.set_place(&var, &field, &format!("upd_at {} {} ({} {} {})", cur, idx, op, coq_ident(&target), r))?;
                let body = self.block(rest, k)?;
                Ok(format!("let {} := {} in\n{}", var, upd, body))
            }
            // x += e;   on a plain local
            Expr::Binary(b) if matches!(b.op, BinOp::AddAssign(_)) && matches!(&*b.left, Expr::Path(p) if p.path.segments.len() == 1 && path_str(&p.path) != "self") => {
                let var = match &*b.left { Expr::Path(p) => coq_ident(&path_str(&p.path)), _ => unreachable!() };
                let r = self.val(&b.right)?;
                let nv = self.bind(format!("usize_add {} {}", var, r), "s");
                let body = self.block(rest, k)?;
                Ok(format!("let {} := {} in\n{}", var, nv, body))
            }
            // self.f += e;
            Expr::Binary(b) if matches!(b.op, BinOp::AddAssign(_)) => {
                let f = self.self_field(&b.left).ok_or_else(|| format!("unsupported += target: {}", tokens(e)))?;
                let rec = self.self_rec.clone().unwrap();
                let cur = format!("({} self)", self.field_proj(&rec, &f));
                let r = self.val(&b.right)?;
                let nv = self.bind(format!("usize_add {} {}", cur, r), "s");
                let upd = self.set_self(&f, &nv)?;
                let body = self.block(rest, k)?;
                Ok(format!("let self := {} in\n{}", upd, body))
            }
            Expr::MethodCall(m) => {
                let name = m.method.to_string();
                if let Some(f) = self.self_field(&m.receiver) {
                    let rec = self.self_rec.clone().unwrap();
                    let cur = format!("({} self)", self.field_proj(&rec, &f));
                    match name.as_str() {
                        "push" => {
                            let v = self.val(&m.args[0])?;
                            let upd = self.set_self(&f, &format!("{} ++ [{}]", cur, v))?;
                            let body = self.block(rest, k)?;
                            return Ok(format!("let self := {} in\n{}", upd, body));
                        }
                        "extend_from_slice" => {
                            let v = self.val(&m.args[0])?;
                            let upd = self.set_self(&f, &format!("{} ++ {}", cur, v))?;
                            let body = self.block(rest, k)?;
                            return Ok(format!("let self := {} in\n{}", upd, body));
                        }
                        "append" => {
                            // a.append(&mut b): a := a ++ b; b := []
                            let g = self.self_field(&m.args[0]).ok_or("append of something that is not a field of self")?;
                            let other = format!("({} self)", self.field_proj(&rec, &g));
                            let upd1 = self.set_self(&f, &format!("{} ++ {}", cur, other))?;
                            let upd2 = self.set_self(&g, "[]")?;
                            let body = self.block(rest, k)?;
                            return Ok(format!("let self := {} in\nlet self := {} in\n{}", upd1, upd2, body));
                        }
                        _ => {}
                    }
                }
                Err(format!("unsupported statement: {}", tokens(e)))
            }
            // ssz_append(self.buf);   ssz_append(&mut self.variable_bytes);
            Expr::Call(c) => {
                if let Expr::Path(p) = &*c.func {
                    let fname = path_str(&p.path);
                    if fname.starts_with("core::panicking::") {
                        // a diverging call (what a failed assertion expands to): nothing after it runs
                        return Ok("Panic".to_string());
                    }
                    if self.fn_params.contains(&fname) && c.args.len() == 1 {
                        if let Some(f) = self.self_field(&c.args[0]) {
                            let rec = self.self_rec.clone().unwrap();
                            let cur = format!("({} self)", self.field_proj(&rec, &f));
                            let nb = self.bind(format!("{} {}", coq_ident(&fname), cur), "b");
                            let upd = self.set_self(&f, &nb)?;
                            let body = self.block(rest, k)?;
                            return Ok(format!("let self := {} in\n{}", upd, body));
                        }
                    }
                }
                Err(format!("unsupported call statement: {}", tokens(e)))
            }
            // if c { return Err(..) }   (no else) followed by the rest;  or a conditional mutation
            Expr::If(i) => {
                // an `if` / `else` that only assigns plain locals and never returns: its value is the tuple of
                // those locals, re-bound for the rest of the block (the rest is not duplicated into the branches)
                if !rest.is_empty() && i.else_branch.is_some() && !contains_return(&Expr::If(i.clone())) {
                    let mut mutated = self.loop_state(&i.then_branch);
                    if let Some((_, eb)) = &i.else_branch {
                        if let Expr::Block(b) = &**eb {
                            for v in self.loop_state(&b.block) {
                                if !mutated.contains(&v) {
                                    mutated.push(v);
                                }
                            }
                        }
                    }
                    let plain = !mutated.is_empty() && mutated.iter().all(|v| v != "self" && !self.var_rec.contains_key(v) && Some(v) != self.mut_param.as_ref() && !self.aliases.contains_key(v));
                    if plain {
                        let mutated: Vec<String> = mutated.iter().map(|v| coq_ident(v)).collect();
                        let st_pat = if mutated.len() == 1 { mutated[0].clone() } else { format!("'({})", mutated.join(", ")) };
                        let st_val = if mutated.len() == 1 { mutated[0].clone() } else { format!("({})", mutated.join(", ")) };
                        let ret = format!("Ok {}", st_val);
                        let from = self.binds.len();
                        let c = self.if_tail(i, &mut |_cx, _v| Ok(ret.clone()))?;
                        let c = self.wrap(from, c);
                        let st = self.bind(format!("({})", c), "st");
                        let body = self.block(rest, k)?;
                        return Ok(format!("let {} := {} in\n{}", st_pat, st, body));
                    }
                }
                // an `if` followed by further statements has type (): every branch that does not
                // return falls through to `rest` with the (possibly updated) state
                let mut k2 = |cx: &mut Cx, _v: String| cx.block(rest, k);
                self.if_tail(i, &mut k2)
            }
            Expr::Match(m) => {
                let mut k2 = |cx: &mut Cx, _v: String| cx.block(rest, k);
                self.match_tail(m, &mut k2)
            }
            Expr::ForLoop(fl) => {
                // for x in e { body }  over a list: monadic fold carrying the variables the body mutates
                // `for (i, x) in v.f.iter_mut().enumerate()`: i ranges over the indices, x aliases v.f[i]
                let mut alias: Option<(String, String)> = None; // (alias name, index variable)
                let mut coll: Option<String> = None;
                if let Expr::MethodCall(en) = &*fl.expr {
                    if en.method == "enumerate" {
                        if let Expr::MethodCall(im) = &*en.receiver {
                            if im.method == "iter_mut" {
                                let (var, f) = self.place_field(&im.receiver).ok_or_else(|| format!("iter_mut() of something that is not a field of a record variable: {}", tokens(&*fl.expr)))?;
                                let (i, x) = match &*fl.pat {
                                    Pat::Tuple(t) if t.elems.len() == 2 => (self.pat_name(&t.elems[0])?, self.pat_name(&t.elems[1])?),
                                    p => return Err(format!("unsupported loop pattern over iter_mut().enumerate(): {}", tokens(p))),
                                };
                                let rec = self.rec_of_var(&var)?;
                                coll = Some(format!("(range_up 0 (llen ({} {})))", self.field_proj(&rec, &f), var));
                                self.aliases.insert(x.clone(), (var, f, i.clone()));
                                alias = Some((x, i));
                            }
                        }
                    }
                }
                // `for x in it` / `for (i, x) in it.enumerate()` where `it` is a translated iterator record
                // (its `next` is a translated `&mut self` method): the loop interleaves next() and the body
                {
                    let (inner, enumerated) = match &*fl.expr {
                        Expr::MethodCall(en) if en.method == "enumerate" => (&*en.receiver, true),
                        other => (other, false),
                    };
                    if let Some(rec) = self.rec_of_expr(inner) {
                        if let Some(next) = self.fns.get(&format!("{}<T>::Iterator::next", rec)).cloned() {
                            let fuel = ITER_FUEL.iter().find(|(r, _)| *r == rec).map(|(_, f)| f.to_string()).ok_or_else(|| format!("no termination measure known for the iterator {}", rec))?;
                            let it = self.val(inner)?;
                            let pat = self.pat_name(&fl.pat)?;
                            let mut state = self.loop_state(&fl.body);
                            if state.is_empty() {
                                state.push("self".to_string());
                            }
                            let st_pat = if state.len() == 1 { state[0].clone() } else { format!("'({})", state.join(", ")) };
                            let st_val = if state.len() == 1 { state[0].clone() } else { format!("({})", state.join(", ")) };
                            let from = self.binds.len();
                            let ret = format!("Ok {}", st_val);
                            let body = self.block(&fl.body.stmts, &mut |_cx, _v| Ok(ret.clone()))?;
                            let body = self.wrap(from, body);
                            let f = if enumerated { "for_iter_enum" } else { "for_iter" };
                            let fuel = fuel.replace("IT", &it);
                            let st = self.bind(format!("{} {} (fun {} {} =>\n{}) {} {} {}", f, next.coq, st_pat, pat, body, paren(&fuel), it, st_val), "st");
                            let after = self.block(rest, k)?;
                            return Ok(format!("let {} := {} in\n{}", st_pat, st, after));
                        }
                    }
                }
                let x = match &alias { Some((_, i)) => i.clone(), None => self.pat_name(&fl.pat)? };
                let coll = match coll { Some(c) => c, None => self.val(&fl.expr)? };
                let mut state = self.loop_state(&fl.body);
                if state.is_empty() {
                    state.push("self".to_string());
                }
                let st_pat = if state.len() == 1 { state[0].clone() } else { format!("'({})", state.join(", ")) };
                let st_val = if state.len() == 1 { state[0].clone() } else { format!("({})", state.join(", ")) };
                let from = self.binds.len();
                let ret = format!("Ok {}", st_val);
                let body = self.block(&fl.body.stmts, &mut |_cx, _v| Ok(ret.clone()))?;
                let body = self.wrap(from, body);
                if let Some((a, _)) = &alias {
                    self.aliases.remove(a);
                }
                let st = self.bind(format!("fold_m (fun {} {} =>\n{}) {} {}", st_pat, x, body, coll, st_val), "st");
                let after = self.block(rest, k)?;
                Ok(format!("let {} := {} in\n{}", st_pat, st, after))
            }
            Expr::Return(r) => {
                let inner = r.expr.as_ref().ok_or("return without a value")?;
                self.ret(inner)
            }
            // `e?;` with the value discarded: only the possible early return matters
            Expr::Try(_) => {
                let _ = self.val(e)?;
                self.block(rest, k)
            }
            _ => Err(format!("unsupported statement: {}", tokens(e))),
        }
    }
}

/// `v.resize(n, x)`, `v.truncate(n)`, `v.extend_from_slice(x)`, `v.push(x)` on a plain local / `&mut` parameter
fn local_mutator(e: &Expr) -> Option<(String, String)> {
    if let Expr::MethodCall(m) = e {
        let name = m.method.to_string();
        if matches!(name.as_str(), "resize" | "truncate" | "extend_from_slice" | "push" | "extend") {
            if let Expr::Path(p) = &*m.receiver {
                if p.path.segments.len() == 1 {
                    return Some((path_str(&p.path), name));
                }
            }
        }
    }
    None
}

/// `self.f.get_mut(i).ok_or(E)?`  ->  (f, i)
fn get_mut_target(e: &Expr) -> Option<(String, Expr)> {
    let e = match e { Expr::Try(t) => &*t.expr, _ => return None };
    let m = match e { Expr::MethodCall(m) if m.method == "ok_or" => m, _ => return None };
    let g = match &*m.receiver { Expr::MethodCall(g) if g.method == "get_mut" => g, _ => return None };
    match &*g.receiver {
        Expr::Field(f) => match (&*f.base, &f.member) {
            (Expr::Path(p), Member::Named(id)) if path_str(&p.path) == "self" => Some((id.to_string(), g.args[0].clone())),
            _ => None,
        },
        _ => None,
    }
}

fn array_len_of_pat(p: &Pat) -> Option<String> {
    if let Pat::Type(t) = p {
        if let Type::Array(a) = &*t.ty {
            return Some(coq_ident(&tokens(&a.len)));
        }
    }
    None
}

fn paren(s: &str) -> String {
    fn wrapped(s: &str, open: char, close: char) -> bool {
        if !(s.starts_with(open) && s.ends_with(close)) {
            return false;
        }
        let mut depth = 0i32;
        for (i, c) in s.char_indices() {
            if c == open {
                depth += 1;
            } else if c == close {
                depth -= 1;
                if depth == 0 && i != s.len() - 1 {
                    return false;
                }
            }
        }
        true
    }
    if s.contains(' ') && !wrapped(s, '(', ')') && !(s.starts_with("{|") && s.ends_with("|}")) && !wrapped(s, '[', ']') {
        format!("({})", s)
    } else {
        s.to_string()
    }
}

fn coq_ident(s: &str) -> String {
    match s {
        "len" => "len_".into(),
        "end" => "end_".into(),
        "in" => "in_".into(),
        "fix" => "fix_".into(),
        "at" => "at_".into(),
        "as" => "as_".into(),
        other => other.replace(' ', ""),
    }
}

fn coq_type(t: &Type, records: &HashMap<String, Vec<String>>) -> R<String> {
    if let Type::Reference(r) = t {
        return coq_type(&r.elem, records);
    }
    if let Type::Paren(p) = t {
        return coq_type(&p.elem, records);
    }
    let s = tokens(t).replace(' ', "");
    let s = s.replace("&'a", "").replace('&', "");
    Ok(match s.as_str() {
        "usize" | "u8" | "u32" | "u64" => "N".into(),
        "bool" => "bool".into(),
        "[u8]" | "Vec<u8>" | "SmallVec<[u8;SMALLVEC_LEN]>" => "bytes".into(),
        // `arbitrary::Unstructured`: the entropy that is left
        "mutarbitrary::Unstructured<'_>" | "arbitrary::Unstructured<'_>" => "bytes".into(),
        "SmallVec8<[u8]>" => "(list bytes)".into(),
        "Option<usize>" => "(option N)".into(),
        "UnionSelector" => "N".into(),
        "Self" => "SELF".into(),
        _ => {
            if let Some(inner) = s.strip_prefix("SmallVec8<").and_then(|x| x.strip_suffix('>')) {
                if records.contains_key(inner) {
                    return Ok(format!("(list {})", inner));
                }
            }
            if records.contains_key(&s) {
                s
            } else if records.contains_key(&base_of(&s)) && s.contains('<') {
                base_of(&s)
            } else if s.starts_with("[u8;") {
                "bytes".into()
            } else if let Some(t) = rty_coq(&s) {
                t
            } else {
                return Err(format!("unsupported type {}", s));
            }
        }
    })
}

fn main() {
    let argv: Vec<String> = std::env::args().collect();
    let repo = argv.get(1).cloned().unwrap_or_else(|| "/repo".into());
    // derive mode: `rs2v <repo> --derive <expanded.rs> <out.v>`: also translate the `Encode` / `Decode` impls
    // that the derive macros of <repo> expanded to for a file of sample definitions
    let derive_args: Option<(String, String)> = argv.iter().position(|a| a == "--derive").and_then(|i| Some((argv.get(i + 1)?.clone(), argv.get(i + 2)?.clone())));
    let mut files: HashMap<String, syn::File> = HashMap::new();
    let mut dyn_targets: Vec<Target> = vec![];
    let mut dyn_records: Vec<(&'static str, &'static str)> = vec![];
    let mut derive_order: Vec<String> = vec![];
    if let Some((exp, _)) = &derive_args {
        let src = std::fs::read_to_string(exp).unwrap_or_default();
        // inside the crate the paths are unqualified: drop the `ssz::` / `std::result::` qualifiers
        let src = src.replace("ssz::", "").replace("std::result::Result", "Result");
        let src = hoist_with_modules(&src);
        match syn::parse_file(&src) {
            Ok(f) => {
                let mut u = UserTypes::default();
                for it in &f.items {
                    match it {
                        Item::Struct(st) => {
                            let mut fs = vec![];
                            for (i, fld) in st.fields.iter().enumerate() {
                                let n = fld.ident.as_ref().map(|x| x.to_string()).unwrap_or_else(|| format!("f{}", i));
                                fs.push((n, tokens_full(&fld.ty).replace(' ', "")));
                            }
                            let gs: Vec<String> = st.generics.type_params().map(|tp| tp.ident.to_string()).collect();
                            if !gs.is_empty() {
                                u.generics.insert(st.ident.to_string(), gs);
                            }
                            u.structs.insert(st.ident.to_string(), fs);
                            derive_order.push(st.ident.to_string());
                        }
                        Item::Enum(en) => {
                            let vs = en.variants.iter().map(|v| (v.ident.to_string(), v.fields.iter().next().map(|f| tokens_full(&f.ty).replace(' ', "")))).collect();
                            u.enums.insert(en.ident.to_string(), vs);
                            derive_order.push(en.ident.to_string());
                        }
                        Item::Fn(func) if func.sig.ident.to_string().contains("__encode__") || func.sig.ident.to_string().contains("__decode__") => {
                            // a function of a `four_byte_option_impl!` module (hoisted by `hoist_with_modules`)
                            let name = func.sig.ident.to_string();
                            dyn_targets.push(Target { file: "<derive expansion>", imp: "", tr: "", name: leak(name.clone()), coq: leak(name) });
                        }
                        Item::Impl(imp) => {
                            if let (Some((_, tp, _)), Type::Path(sp)) = (&imp.trait_, &*imp.self_ty) {
                                let tr = path_last(tp);
                                let ty = path_last(&sp.path);
                                if tr == "Encode" || tr == "Decode" {
                                    for ii in &imp.items {
                                        if let ImplItem::Fn(m) = ii {
                                            u.defined.insert(format!("{}::{}::{}", ty, tr, m.sig.ident));
                                            let short = if tr == "Encode" { "enc" } else { "dec" };
                                            let name = m.sig.ident.to_string();
                                            let coq = if name == "is_ssz_fixed_len" || name == "ssz_fixed_len" { format!("{}_{}_{}", ty, short, name) } else { format!("{}_{}", ty, name) };
                                            dyn_targets.push(Target { file: "<derive expansion>", imp: leak(ty.clone()), tr: leak(tr.clone()), name: leak(name), coq: leak(coq) });
                                        }
                                    }
                                }
                            }
                        }
                        _ => {}
                    }
                }
                for n in u.structs.keys() {
                    dyn_records.push(("<derive expansion>", leak(n.clone())));
                }
                let _ = USER.set(u);
                files.insert("<derive expansion>".to_string(), f);
            }
            Err(e) => println!("(* rs2v: cannot parse the derive expansion: {} *)", e),
        }
    }
    // crate-expansion mode: `--crate-expanded <file>`: what rustc expands the crate itself to (the impls written by
    // macros with repetitions: tuples); every impl of the expansion, whatever module it sits in, is made a
    // top-level item of a pseudo-file
    let crate_exp: Option<String> = argv.iter().position(|a| a == "--crate-expanded").and_then(|i| argv.get(i + 1).cloned());
    let mut late_targets: Vec<Target> = vec![];
    if let Some(path) = &crate_exp {
        let src = std::fs::read_to_string(path).unwrap_or_default();
        match syn::parse_file(&src) {
            Ok(f) => {
                fn collect(items: &[Item], out: &mut Vec<Item>) {
                    for it in items {
                        match it {
                            Item::Impl(_) => out.push(it.clone()),
                            Item::Mod(m) => {
                                if let Some((_, inner)) = &m.content {
                                    if m.ident != "test" && m.ident != "tests" {
                                        collect(inner, out);
                                    }
                                }
                            }
                            _ => {}
                        }
                    }
                }
                let mut flat = vec![];
                collect(&f.items, &mut flat);
                let file = syn::File { shebang: None, attrs: vec![], items: flat };
                files.insert("<crate expansion>".to_string(), file);
                for (tr, short, fns) in [("Encode", "enc", vec!["is_ssz_fixed_len", "ssz_bytes_len", "ssz_append"]), ("Decode", "dec", vec!["is_ssz_fixed_len", "from_ssz_bytes"])] {
                    for name in fns {
                        let coq = if name == "is_ssz_fixed_len" { format!("btreemap_{}_{}", short, name) } else { format!("btreemap_{}", name) };
                        late_targets.push(Target { file: "<crate expansion>", imp: "BTreeMap<K,V>", tr, name, coq: leak(coq) });
                    }
                }
                for (arity, imp) in [(2, "(A,B)"), (3, "(A,B,C)"), (4, "(A,B,C,D)"), (5, "(A,B,C,D,E)"), (6, "(A,B,C,D,E,F)"), (7, "(A,B,C,D,E,F,G)"),
                                     (8, "(A,B,C,D,E,F,G,H)"), (9, "(A,B,C,D,E,F,G,H,I)"), (10, "(A,B,C,D,E,F,G,H,I,J)"), (11, "(A,B,C,D,E,F,G,H,I,J,K)"),
                                     (12, "(A,B,C,D,E,F,G,H,I,J,K,L)")] {
                    for (tr, short, fns) in [("Encode", "enc", vec!["is_ssz_fixed_len", "ssz_fixed_len", "ssz_bytes_len", "ssz_append"]), ("Decode", "dec", vec!["is_ssz_fixed_len", "ssz_fixed_len", "from_ssz_bytes"])] {
                        for name in fns {
                            let coq = if name == "is_ssz_fixed_len" || name == "ssz_fixed_len" { format!("tuple{}_{}_{}", arity, short, name) } else { format!("tuple{}_{}", arity, name) };
                            dyn_targets.push(Target { file: "<crate expansion>", imp, tr, name, coq: leak(coq) });
                        }
                    }
                }
            }
            Err(e) => println!("(* rs2v: cannot parse the crate expansion: {} *)", e),
        }
    }
    // the map impls use the tuple impls: after them
    dyn_targets.extend(late_targets);
    let all_targets: Vec<&Target> = TARGETS.iter().chain(dyn_targets.iter()).collect();
    let _ = &dyn_records;
    let mut wanted: Vec<&str> = TARGETS.iter().map(|t| t.file).collect();
    let _ = &all_targets;
    wanted.extend(RECORDS.iter().map(|r| r.0));
    wanted.extend(CONSTS.iter().map(|r| r.0));
    for f in wanted {
        if !files.contains_key(f) {
            let src = std::fs::read_to_string(format!("{}/{}", repo, f)).unwrap_or_default();
            match syn::parse_file(&src) {
                Ok(mut p) => {
                    expand_simple_macros(&mut p);
                    files.insert(f.to_string(), p);
                }
                Err(e) => {
                    println!("(* rs2v: cannot parse {}: {} *)", f, e);
                }
            }
        }
    }
    let mut out = String::new();
    out.push_str("(* @generated by /verif/rs2v from the Rust sources of /repo -- do not edit.\n   Every definition below is a syntactic translation of the named source item (rules: rs2v/src/main.rs). *)\nFrom SSZ Require Import Base RustSem.\nOpen Scope N_scope.\n\nModule Gen.\n\n");

    // constants
    for (file, name) in CONSTS {
        let mut done = false;
        if let Some(f) = files.get(*file) {
            for it in &f.items {
                if let Item::Const(c) = it {
                    if c.ident == name {
                        if let Some(n) = int_lit(&c.expr) {
                            let _ = writeln!(out, "(* {} :: const {} *)\nDefinition {} : N := {}.\n", file, name, name, n);
                            done = true;
                        }
                    }
                }
            }
        }
        if !done {
            let _ = writeln!(out, "(* rs2v: UNTRANSLATABLE const {} in {} *)\n", name, file);
        }
    }

    // records
    let mut records: HashMap<String, Vec<String>> = HashMap::new();
    let mut rec_types: Vec<(String, Vec<(String, String)>)> = vec![];
    for (file, name) in RECORDS {
        if let Some(f) = files.get(*file) {
            for it in &f.items {
                if let Item::Struct(s) = it {
                    if s.ident == name {
                        let fields: Vec<String> = s.fields.iter().filter(|f| !tokens(&f.ty).contains("PhantomData")).filter_map(|f| f.ident.as_ref().map(|i| i.to_string())).collect();
                        records.insert(name.to_string(), fields);
                    }
                }
            }
        }
    }
    for (file, name) in RECORDS {
        if let Some(f) = files.get(*file) {
            for it in &f.items {
                if let Item::Struct(s) = it {
                    if s.ident == name {
                        let mut fs = vec![];
                        let mut ok = true;
                        for fld in s.fields.iter().filter(|f| !tokens(&f.ty).contains("PhantomData")) {
                            let fname = fld.ident.as_ref().unwrap().to_string();
                            match coq_type(&fld.ty, &records) {
                                Ok(t) => fs.push((fname, t)),
                                Err(e) => {
                                    let _ = writeln!(out, "(* rs2v: UNTRANSLATABLE struct {}: {} *)\n", name, e);
                                    ok = false;
                                }
                            }
                        }
                        if ok {
                            rec_types.push((name.to_string(), fs));
                        }
                    }
                }
            }
        }
    }
    for (name, fs) in &rec_types {
        let _ = writeln!(out, "Record {} := {{ {} }}.", name, fs.iter().map(|(f, t)| format!("{}_{} : {}", name, f, t)).collect::<Vec<_>>().join("; "));
        for (f, t) in fs {
            let parts: Vec<String> = fs.iter().map(|(g, _)| if g == f { format!("{}_{} := v", name, g) } else { format!("{}_{} := {}_{} r", name, g, name, g) }).collect();
            let _ = writeln!(out, "Definition set_{}_{} (r : {}) (v : {}) : {} := {{| {} |}}.", name, f, name, t, name, parts.join("; "));
        }
        out.push('\n');
    }

    // derive mode: the sample definitions themselves (records for structs, inductive types for enums), in
    // the order of the file, into the derive output
    let mut out_d = String::new();
    for name in &derive_order {
        if let Some(fs) = user().structs.get(name) {
            let mut cfs = vec![];
            let mut ok = true;
            for (f, t) in fs {
                match rty_coq(t) {
                    Some(ct) => cfs.push((f.clone(), ct)),
                    None => {
                        let _ = writeln!(out_d, "(* rs2v: UNTRANSLATABLE struct {}: field type {} *)\n", name, t);
                        ok = false;
                    }
                }
            }
            if ok {
                records.insert(name.clone(), cfs.iter().map(|(f, _)| f.clone()).collect());
                let gs = user().generics.get(name).cloned().unwrap_or_default();
                let gdecl = gs.iter().map(|g| format!(" (A_{} : Type)", g)).collect::<String>();
                let gimpl = gs.iter().map(|g| format!(" {{A_{}}}", g)).collect::<String>();
                let gimpl_decl = gs.iter().map(|g| format!(" {{A_{} : Type}}", g)).collect::<String>();
                let applied = if gs.is_empty() { name.clone() } else { format!("({}{})", name, gs.iter().map(|g| format!(" A_{}", g)).collect::<String>()) };
                let _ = writeln!(out_d, "Record {}{} := {{ {} }}.", name, gdecl, cfs.iter().map(|(f, t)| format!("{}_{} : {}", name, f, t)).collect::<Vec<_>>().join("; "));
                if !gs.is_empty() {
                    for (f, _) in &cfs {
                        let _ = writeln!(out_d, "Arguments {}_{}{}.", name, f, gimpl);
                    }
                    let _ = writeln!(out_d, "Arguments Build_{}{}.", name, gimpl);
                }
                for (f, t) in &cfs {
                    let parts: Vec<String> = cfs.iter().map(|(g, _)| if g == f { format!("{}_{} := v", name, g) } else { format!("{}_{} := {}_{} r", name, g, name, g) }).collect();
                    let _ = writeln!(out_d, "Definition set_{}_{}{} (r : {}) (v : {}) : {} := {{| {} |}}.", name, f, gimpl_decl, applied, t, applied, parts.join("; "));
                }
                out_d.push('\n');
                rec_types.push((name.clone(), cfs));
            }
        } else if let Some(vs) = user().enums.get(name) {
            let mut arms = vec![];
            let mut ok = true;
            for (v, pt) in vs {
                match pt {
                    None => arms.push(format!("{}_{}", name, v)),
                    Some(t) => match rty_coq(t) {
                        Some(ct) => arms.push(format!("{}_{} (x : {})", name, v, ct)),
                        None => ok = false,
                    },
                }
            }
            if ok {
                let _ = writeln!(out_d, "Inductive {} := {}.\n", name, arms.join(" | "));
            } else {
                let _ = writeln!(out_d, "(* rs2v: UNTRANSLATABLE enum {}: a variant payload type *)\n", name);
            }
        }
    }

    let rec_field_recs: Vec<(String, Vec<(String, String)>)> = rec_types.iter().map(|(n, fs)| (n.clone(), fs.iter().filter(|(_, t)| records.contains_key(t)).cloned().collect())).collect();

    // the targets: signatures first (so that calls between them resolve), then bodies
    let mut res_fns: HashMap<String, String> = HashMap::new();
    let mut fns: HashMap<String, FnInfo> = HashMap::new();
    struct Found<'a> { t: &'a Target, sig: syn::Signature, block: Block, imp_key: String, tparams: Vec<String>, n_impl: usize, dict_params: Vec<String> }
    let mut found: Vec<Found> = vec![];
    let mut impl_bounds: HashMap<String, Vec<(String, String)>> = HashMap::new();
    let mut mut_methods: Vec<String> = vec![];
    let numeric = |g: &syn::Generics| -> Vec<String> {
        let mut v: Vec<String> = g.type_params().filter(|tp| tp.bounds.to_token_stream().to_string().contains("Unsigned")).map(|tp| tp.ident.to_string()).collect();
        // `const N: usize`
        v.extend(g.const_params().map(|cp| cp.ident.to_string()));
        v
    };
    // type parameters bounded by Decode / Encode (in the parameter list or the where clause)
    fn is_dict_bound(b: &str) -> bool {
        b.split(|c: char| !c.is_alphanumeric() && c != '_').any(|w| matches!(w, "Decode" | "Encode" | "TryFromIter" | "Ord"))
            && !b.contains("Fn(") && !b.contains("FnOnce(") && !b.contains("FnMut(")
    }
    let dicts = |g: &syn::Generics| -> Vec<String> {
        let mut v: Vec<String> = g.type_params().filter(|tp| is_dict_bound(&tp.bounds.to_token_stream().to_string())).map(|tp| tp.ident.to_string()).collect();
        if let Some(w) = &g.where_clause {
            for pr in &w.predicates {
                if let syn::WherePredicate::Type(pt) = pr {
                    let b = pt.bounds.to_token_stream().to_string();
                    let t = norm_type(&pt.bounded_ty);
                    if is_dict_bound(&b) && !v.contains(&t) {
                        v.push(t);
                    }
                }
            }
        }
        v
    };
    for t in all_targets.iter().cloned() {
        let mut hit = None;
        if let Some(f) = files.get(t.file) {
            for it in &f.items {
                match it {
                    Item::Fn(func) if t.imp.is_empty() && func.sig.ident == t.name => hit = Some((func.sig.clone(), (*func.block).clone(), String::new(), vec![], vec![])),
                    Item::Trait(trt) if t.imp == format!("trait {}", trt.ident) => {
                        for ti in &trt.items {
                            if let syn::TraitItem::Fn(m) = ti {
                                if m.sig.ident == t.name {
                                    if let Some(b) = &m.default {
                                        let has_recv = m.sig.inputs.iter().any(|a| matches!(a, FnArg::Receiver(_)));
                                        if has_recv {
                                            // the implementing type is a dictionary parameter `T: Trait`
                                            impl_bounds.insert("T".to_string(), vec![("T".to_string(), trt.ident.to_string())]);
                                            hit = Some((m.sig.clone(), b.clone(), "T".to_string(), vec![], vec!["T".to_string()]));
                                        } else {
                                            hit = Some((m.sig.clone(), b.clone(), String::new(), vec![], vec![]));
                                        }
                                    }
                                }
                            }
                        }
                    }
                    Item::Impl(imp) if !t.imp.is_empty() => {
                        let tr = imp.trait_.as_ref().map(|(_, p, _)| path_last(p)).unwrap_or_default();
                        if tr != t.tr {
                            continue;
                        }
                        let full = norm_type(&imp.self_ty);
                        let last = match &*imp.self_ty {
                            Type::Path(p) => path_last(&p.path),
                            _ => String::new(),
                        };
                        let matches_imp = if t.imp.contains('<') || t.imp.contains('[') || t.imp.starts_with('&') || t.imp.starts_with('(') { full == t.imp } else { last == t.imp };
                        if matches_imp {
                            for ii in &imp.items {
                                if let ImplItem::Fn(m) = ii {
                                    if m.sig.ident == t.name {
                                        let mut ib: Vec<(String, String)> = imp.generics.type_params().map(|tp| (tp.ident.to_string(), tp.bounds.to_token_stream().to_string().replace(' ', ""))).collect();
                                        if let Some(w) = &imp.generics.where_clause {
                                            for pr in &w.predicates {
                                                if let syn::WherePredicate::Type(wt) = pr {
                                                    ib.push((norm_type(&wt.bounded_ty), wt.bounds.to_token_stream().to_string().replace(' ', "")));
                                                }
                                            }
                                        }
                                        impl_bounds.insert(t.imp.to_string(), ib);
                                        hit = Some((m.sig.clone(), m.block.clone(), t.imp.to_string(), numeric(&imp.generics), dicts(&imp.generics)));
                                    }
                                }
                            }
                        }
                    }
                    _ => {}
                }
            }
        }
        match hit {
            Some((sig, block, imp_key, impl_nums, impl_dicts)) => {
                let ret = match &sig.output { ReturnType::Type(_, t) => tokens(&**t).replace(' ', ""), ReturnType::Default => "()".into() };
                let key = if t.imp.is_empty() { t.name.to_string() } else if t.tr.is_empty() { format!("{}::{}", t.imp, t.name) } else { format!("{}::{}::{}", t.imp, t.tr, t.name) };
                let is_mut = sig.inputs.iter().any(|a| matches!(a, FnArg::Receiver(r) if r.mutability.is_some() && r.reference.is_some()));
                if is_mut {
                    mut_methods.push(key.clone());
                }
                res_fns.insert(key.clone(), t.coq.to_string());
                if !res_fns.contains_key(t.name) && t.imp.is_empty() {
                    res_fns.insert(t.name.to_string(), t.coq.to_string());
                }
                // legacy spelling used by `bind (..) UnionSelector::new`-style paths
                if !t.imp.is_empty() && !t.imp.contains('<') && t.tr.is_empty() {
                    res_fns.insert(format!("{}::{}", t.imp, t.name), t.coq.to_string());
                }
                let mut tparams = impl_nums.clone();
                let n_impl = tparams.len();
                tparams.extend(numeric(&sig.generics));
                let base = base_of(&imp_key);
                let ret_rec = if ret.contains("Self") && records.contains_key(&base) {
                    Some(base.clone())
                } else {
                    records.keys().find(|r| ret == **r || ret.starts_with(&format!("{}<", r)) || ret.contains(&format!("<{}<", r)) || ret.contains(&format!("<{},", r))).cloned()
                };
                let mut_param = if matches!(sig.output, ReturnType::Default) { sig.inputs.iter().filter(|a| matches!(a, FnArg::Typed(_))).position(|a| matches!(a, FnArg::Typed(pt) if matches!(&*pt.ty, Type::Reference(r) if r.mutability.is_some()))) } else { None };
                fns.insert(key.clone(), FnInfo { coq: t.coq.to_string(), tparams: tparams.clone(), n_impl, mut_self: is_mut, ret_rec, imp: imp_key.clone(), mut_param, valued: { let r = ret.clone(); is_mut && r != "()" && !r.starts_with("Result<(),") && !r.starts_with('&') } });
                let mut dict_params = impl_dicts.clone();
                dict_params.extend(dicts(&sig.generics));
                found.push(Found { t, sig, block, imp_key, tparams, n_impl, dict_params });
            }
            None => {
                let _ = writeln!(out, "(* rs2v: UNTRANSLATABLE {} {}::{}: item not found *)\n", t.file, t.imp, t.name);
            }
        }
    }

    let mut defs: Vec<(String, String, String, bool)> = vec![];
    let mut dict_sigs: HashMap<String, Vec<String>> = HashMap::new();
    for Found { t, sig, block, imp_key, tparams, n_impl, dict_params } in &found {
        let _ = n_impl;
        let mut cx = Cx::new(records.clone(), res_fns.clone());
        cx.mut_methods = mut_methods.clone();
        cx.fns = fns.clone();
        cx.cur_imp = imp_key.clone();
        cx.cur_tr = t.tr.to_string();
        cx.tparams = tparams.clone();
        cx.dict_params = dict_params.clone();
        cx.dict_sigs = dict_sigs.clone();
        for tp in sig.generics.type_params() {
            cx.dict_bounds.insert(tp.ident.to_string(), tp.bounds.to_token_stream().to_string().replace(' ', ""));
        }
        if let Some(w) = &sig.generics.where_clause {
            for pr in &w.predicates {
                if let syn::WherePredicate::Type(wt) = pr {
                    let e = cx.dict_bounds.entry(norm_type(&wt.bounded_ty)).or_default();
                    e.push_str(&wt.bounds.to_token_stream().to_string().replace(' ', ""));
                }
            }
        }
        for (n, b) in impl_bounds.get(imp_key.as_str()).cloned().unwrap_or_default() {
            cx.dict_bounds.entry(n).or_default().push_str(&b);
        }
        for (rn, fs) in &rec_types {
            for (f, t) in fs {
                cx.field_types.insert(format!("{}.{}", rn, f), t.clone());
            }
        }
        // fields that hold a record themselves (`BitIter.bitfield`)
        for (owner, fs) in &rec_field_recs {
            for (f, r) in fs {
                cx.var_rec.insert(format!("{}.{}", owner, f), r.clone());
            }
        }
        let mut params: Vec<String> = tparams.iter().map(|n| format!("(t{} : N)", n)).collect();
        let mut has_self = false;
        let mut mut_self = false;
        let mut mut_param: Option<String> = None;
        let mut err: Option<String> = None;
        let mut force_type_param = false;
        let mut force_types: Vec<String> = vec![];
        let base = base_of(imp_key);
        if !t.imp.is_empty() && records.contains_key(&base) {
            cx.self_rec = Some(base.clone());
        }
        for a in &sig.inputs {
            match a {
                FnArg::Receiver(r) => {
                    has_self = true;
                    mut_self = r.mutability.is_some() && r.reference.is_some();
                    if records.contains_key(&base) {
                        let t = if user().generics.contains_key(&base) { force_type_param = true; self_ty_coq(&base).unwrap_or(base.clone()) } else { base.clone() };
                        params.push(format!("(self : {})", t));
                    } else {
                        match self_ty_coq(imp_key).or_else(|| if imp_key == "T" && dict_params.iter().any(|d| d == "T") { Some("A_T".to_string()) } else if imp_key == "I" && t.tr == "TryCollect" { Some("(list A_T)".to_string()) } else { None }) {
                            Some(t) => {
                                if t.contains("A_T") {
                                    force_type_param = true;
                                }
                                params.push(format!("(self : {})", t))
                            }
                            None => err = Some(format!("the type of self in impl {} is not known to the translator", imp_key)),
                        }
                    }
                }
                FnArg::Typed(pt) => {
                    let name = match &*pt.pat { Pat::Ident(i) => coq_ident(&i.ident.to_string()), p => tokens(p) };
                    let tys = tokens(&*pt.ty);
                    // `iter: I` with `I: Iterator<Item = T>`: a list of items;  `item: &T`: an item
                    {
                        let tyn = norm_type(&pt.ty).replace('&', "");
                        let bound = cx.dict_bounds.get(&tyn).cloned().unwrap_or_default();
                        if bound.contains("Iterator<Item=") {
                            let item = bound.split("Iterator<Item=").nth(1).and_then(|x| x.split('>').next()).unwrap_or("T").to_string();
                            cx.list_vars.push(name.clone());
                            if item.starts_with('(') {
                                // an iterator of tuples `(K, V)`: a list of pairs
                                let comps: Vec<String> = item.trim_start_matches('(').trim_end_matches(')').split(',').map(|x| x.trim().to_string()).collect();
                                for c in &comps {
                                    force_types.push(c.clone());
                                }
                                params.push(format!("({} : list ({}))", name, comps.iter().map(|c| format!("A_{}", c)).collect::<Vec<_>>().join(" * ")));
                                continue;
                            }
                            force_type_param = true;
                            params.push(format!("({} : list A_{})", name, item));
                            continue;
                        }
                        if dict_params.contains(&tyn) {
                            force_type_param = true;
                            params.push(format!("({} : A_{})", name, tyn));
                            continue;
                        }
                    }
                    let bare = norm_type(&pt.ty).replace('&', "").replace("mut", "");
                    if cx.dict_bounds.get(&bare).map(|b| b.contains("Hasher")).unwrap_or(false) {
                        // `state: &mut H`: the hasher is the list of words written to it so far
                        mut_param = Some(name.clone());
                        cx.mut_param = Some(name.clone());
                        params.push(format!("({} : list N)", name));
                    } else if tys.len() == 1 && cx.dict_bounds.get(&tys).map(|b| b.contains("Deserializer")).unwrap_or(false) {
                        // serde: the input of `deserialize` is, for these impls, the string handed to `deserialize_str`
                        cx.serde_de_var = Some(name.clone());
                        params.push(format!("({} : list N)", name));
                    } else if tys.len() == 1 && cx.dict_bounds.get(&tys).map(|b| b.contains("Serializer")).unwrap_or(false) {
                        // serde: the serializer is a sink; `serialize_str(s)` makes `s` the function's value
                        cx.serde_ser_var = Some(name.clone());
                    } else if tys.len() == 1 && tys.chars().all(|c| c.is_uppercase()) && cx.dict_bounds.get(&tys).map(|b| b.contains("->Result<")).unwrap_or(false) {
                        // `F: FnOnce(&[u8]) -> Result<T, E>`: a fallible function of a slice
                        let b = cx.dict_bounds.get(&tys).cloned().unwrap_or_default();
                        let ret = b.split("->Result<").nth(1).and_then(|x| x.split(',').next()).unwrap_or("T").to_string();
                        cx.res_fns.insert(name.clone(), name.clone());
                        force_types.push(ret.clone());
                        params.push(format!("({} : bytes -> outcome A_{})", name, ret));
                    } else if tys.len() == 1 && tys.chars().all(|c| c.is_uppercase()) {
                        // a generic `F: Fn(&mut Vec<u8>)` parameter
                        cx.fn_params.push(name.clone());
                        params.push(format!("({} : bytes -> outcome bytes)", name));
                    } else {
                        if matches!(&*pt.ty, Type::Reference(r) if r.mutability.is_some()) && matches!(sig.output, ReturnType::Default) {
                            mut_param = Some(name.clone());
                            cx.mut_param = Some(name.clone());
                        }
                        // derive mode: the parameter's Rust type, for the resolution of method calls on it
                        if !user().structs.is_empty() || !user().enums.is_empty() || tokens_full(&*pt.ty).replace(' ', "").trim_start_matches('&') == "UnionSelector" {
                            cx.var_ty.insert(name.clone(), tokens_full(&*pt.ty).replace(' ', "").trim_start_matches('&').to_string());
                        }
                        match coq_type(&pt.ty, &records) {
                            Ok(ct) => {
                                let ct = if ct == "SELF" { base.clone() } else { ct };
                                if records.contains_key(&ct) {
                                    cx.var_rec.insert(name.clone(), ct.clone());
                                }
                                params.push(format!("({} : {})", name, ct))
                            }
                            Err(e) => err = Some(e),
                        }
                    }
                }
            }
        }
        let ret = match &sig.output { ReturnType::Type(_, t) => tokens(&**t), ReturnType::Default => "()".into() };
        cx.ret_option = ret.starts_with("Option");
        let ret_n = ret.replace(' ', "");
        let valued = mut_self && ret_n != "()" && !ret_n.starts_with("Result<(),") && !ret_n.starts_with('&');
        if valued {
            cx.ret_none = "Ok (None, self)".to_string();
        }
        let body = if let Some(e) = err { Err(e) } else if valued {
            // a `&mut self` method that also returns a value: the pair (value, final state)
            cx.block(&block.stmts, &mut |_cx, v| Ok(format!("Ok ({}, self)", v)))
        } else if mut_self {
            // state-passing: the value of the block is discarded, the final state is returned
            cx.block(&block.stmts, &mut |_cx, _v| Ok("Ok self".to_string())).map(|b| fix_mut_self_tail(&b))
        } else if let Some(mp) = &mut_param {
            // a `&mut` parameter: the function returns its final value
            let r = format!("Ok {}", mp);
            cx.block(&block.stmts, &mut |_cx, _v| Ok(r.clone()))
        } else {
            cx.block(&block.stmts, &mut |_cx, v| Ok(format!("Ok {}", paren(&v))))
        };
        let _ = has_self;
        let src_name = if t.imp.is_empty() { t.name.to_string() } else if t.tr.is_empty() { format!("{}::{}", display_imp(t.imp), t.name) } else { format!("<{} as {}>::{}", t.imp, t.tr, t.name) };
        let mut text = String::new();
        match body {
            Ok(b) => {
                let _ = writeln!(text, "(* {} :: {} *)", t.file, src_name);
                for n in &cx.notes {
                    let _ = writeln!(text, "(* note: {} *)", n.replace('"', "'").replace("*)", "* )").replace("(*", "( *"));
                }
                // dictionary members the body uses, in a fixed order, right after the type-level numbers
                let mut dparams: Vec<String> = vec![];
                let mut sig_members: Vec<String> = vec![];
                let mut declared_types: Vec<String> = vec![];
                for d in dict_params {
                    let used: Vec<&String> = cx.dict_used.iter().filter(|(t, _)| t == d).map(|(_, m)| m).collect();
                    if used.is_empty() && !(force_type_param && d == "T") {
                        continue;
                    }
                    if used.iter().any(|u| matches!(u.as_str(), "from_ssz_bytes" | "try_from_iter" | "ssz_append" | "ssz_bytes_len" | "as_ssz_bytes")) || (force_type_param && d == "T") {
                        dparams.push(format!("{{A_{} : Type}}", d));
                        declared_types.push(d.clone());
                    }
                    for m in ["is_ssz_fixed_len", "ssz_fixed_len", "ssz_bytes_len", "ssz_append", "as_ssz_bytes", "from_ssz_bytes", "try_from_iter", "cmp"] {
                        if used.iter().any(|u| *u == m) {
                            sig_members.push(format!("{}_{}", d, m));
                            dparams.push(match m {
                                "cmp" => format!("({}_{} : A_{} -> A_{} -> comparison)", d, m, d, d),
                                "as_ssz_bytes" => format!("({}_{} : A_{} -> outcome bytes)", d, m, d),
                                "is_ssz_fixed_len" => format!("({}_{} : bool)", d, m),
                                "ssz_fixed_len" => format!("({}_{} : N)", d, m),
                                "ssz_bytes_len" => format!("({}_{} : A_{} -> outcome N)", d, m, d),
                                "ssz_append" => format!("({}_{} : A_{} -> bytes -> outcome bytes)", d, m, d),
                                "try_from_iter" => {
                                    // `Container: TryFromIter<T>`: the item type is the bound's argument
                                    let b = cx.dict_bounds.get(d).cloned().unwrap_or_default();
                                    let item = b.split("TryFromIter<").nth(1).and_then(|x| x.split('>').next()).unwrap_or("T").to_string();
                                    let item = if item == "Self::Item" { "T".to_string() } else { item };
                                    format!("({}_{} : list A_{} -> outcome A_{})", d, m, item, d)
                                }
                                _ => format!("({}_{} : bytes -> outcome A_{})", d, m, d),
                            });
                        }
                    }
                }
                if force_type_param && !declared_types.contains(&"T".to_string()) {
                    dparams.insert(0, "{A_T : Type}".to_string());
                    declared_types.push("T".to_string());
                }
                for ft in &force_types {
                    if !declared_types.contains(ft) {
                        dparams.insert(0, format!("{{A_{} : Type}}", ft));
                        declared_types.push(ft.clone());
                    }
                }
                dict_sigs.insert(t.coq.to_string(), sig_members.clone());
                let n_t = tparams.len();
                let mut all_params: Vec<String> = params[..n_t].to_vec();
                all_params.extend(dparams);
                all_params.extend(params[n_t..].iter().cloned());
                let _ = writeln!(text, "Definition {} {} :=\n{}.\n", t.coq, all_params.join(" "), indent(&b));
                defs.push((t.coq.to_string(), text, b, t.file.starts_with('<')));
            }
            Err(e) => {
                let _ = writeln!(text, "(* rs2v: UNTRANSLATABLE {} :: {}: {} *)\n", t.file, src_name, e.replace('"', "'").replace("*)", "* )").replace("(*", "( *"));
                defs.push((t.coq.to_string(), text, String::new(), t.file.starts_with('<')));
            }
        }
    }
    // emit in dependency order (Coq needs definitions before uses); otherwise in the order of TARGETS
    let names: Vec<String> = defs.iter().map(|d| d.0.clone()).collect();
    let uses = |body: &str, name: &str| -> bool {
        let mut from = 0;
        while let Some(i) = body[from..].find(name) {
            let a = from + i;
            let b = a + name.len();
            let pre = body[..a].chars().last().map(|c| c.is_alphanumeric() || c == '_').unwrap_or(false);
            let post = body[b..].chars().next().map(|c| c.is_alphanumeric() || c == '_').unwrap_or(false);
            if !pre && !post {
                return true;
            }
            from = b;
        }
        false
    };
    let mut done: Vec<bool> = vec![false; defs.len()];
    fn emit(i: usize, defs: &Vec<(String, String, String, bool)>, names: &Vec<String>, done: &mut Vec<bool>, out: &mut String, out_d: &mut String, uses: &dyn Fn(&str, &str) -> bool, depth: usize) {
        if done[i] || depth > 64 {
            return;
        }
        done[i] = true;
        for (j, n) in names.iter().enumerate() {
            if j != i && !done[j] && uses(&defs[i].2, n) {
                emit(j, defs, names, done, out, out_d, uses, depth + 1);
            }
        }
        if defs[i].3 { out_d.push_str(&defs[i].1) } else { out.push_str(&defs[i].1) }
    }
    for i in 0..defs.len() {
        emit(i, &defs, &names, &mut done, &mut out, &mut out_d, &uses, 0);
    }
    out.push_str("End Gen.\n");
    print!("{}", out);
    if let Some((_, outp)) = &derive_args {
        let text = format!("(* @generated by /verif/rs2v from what the derive macros of /repo expand to for the sample definitions of\n   /verif/derive_samples -- do not edit.  Every definition is a syntactic translation of one function of an\n   expanded `impl Encode` / `impl Decode` (rules: rs2v/src/main.rs). *)\nFrom SSZ Require Import Base RustSem Generated.\nImport Gen.\nOpen Scope N_scope.\n\nModule GenD.\n\n{}End GenD.\n", out_d);
        let _ = std::fs::write(outp, text);
    }
}


/// Modules written by `four_byte_option_impl!(m, T)` (and anything of the same shape: a module with `encode` /
/// `decode` submodules of free functions, the interface `#[ssz(with = "m")]` expects): every function
/// `m::encode::f` becomes a top-level function `m__encode__f`, every path `m::encode::f` in the file is
/// rewritten to that name, and a call of a sibling by its bare name inside such a function is qualified.
fn hoist_with_modules(src: &str) -> String {
    use syn::visit_mut::VisitMut;
    let mut file = match syn::parse_file(src) { Ok(f) => f, Err(_) => return src.to_string() };
    struct Sib<'a> { prefix: &'a str, names: &'a [String] }
    impl<'a> VisitMut for Sib<'a> {
        fn visit_expr_call_mut(&mut self, c: &mut syn::ExprCall) {
            if let Expr::Path(p) = &mut *c.func {
                if p.path.segments.len() == 1 && p.qself.is_none() {
                    let n = p.path.segments[0].ident.to_string();
                    if self.names.contains(&n) {
                        p.path.segments[0].ident = syn::Ident::new(&format!("{}{}", self.prefix, n), p.path.segments[0].ident.span());
                    }
                }
            }
            syn::visit_mut::visit_expr_call_mut(self, c);
        }
    }
    let mut hoisted: Vec<Item> = vec![];
    let mut prefixes: Vec<(String, String)> = vec![];
    let mut keep: Vec<Item> = vec![];
    for it in std::mem::take(&mut file.items) {
        let mut taken = false;
        if let Item::Mod(m) = &it {
            if let Some((_, items)) = &m.content {
                let subs: Vec<&syn::ItemMod> = items.iter().filter_map(|i| if let Item::Mod(sm) = i { Some(sm) } else { None }).filter(|sm| sm.ident == "encode" || sm.ident == "decode").collect();
                if !subs.is_empty() {
                    taken = true;
                    for sm in subs {
                        let prefix = format!("{}__{}__", m.ident, sm.ident);
                        prefixes.push((format!("{} :: {} :: ", m.ident, sm.ident), prefix.clone()));
                        if let Some((_, fitems)) = &sm.content {
                            let names: Vec<String> = fitems.iter().filter_map(|i| if let Item::Fn(f) = i { Some(f.sig.ident.to_string()) } else { None }).collect();
                            for fi in fitems {
                                if let Item::Fn(f) = fi {
                                    let mut f2 = f.clone();
                                    f2.sig.ident = syn::Ident::new(&format!("{}{}", prefix, f.sig.ident), f.sig.ident.span());
                                    Sib { prefix: &prefix, names: &names }.visit_item_fn_mut(&mut f2);
                                    hoisted.push(Item::Fn(f2));
                                }
                            }
                        }
                    }
                }
            }
        }
        if !taken {
            keep.push(it);
        }
    }
    if hoisted.is_empty() {
        return src.to_string();
    }
    file.items = keep;
    file.items.extend(hoisted);
    let mut text = file.to_token_stream().to_string();
    for (from, to) in prefixes {
        text = text.replace(&from, &to);
    }
    text
}

/// `macro_rules! m { ($a: kind, $b: kind) => { items } }` with a single rule and no repetitions, invoked at
/// item level as `m!(x, y);`: the invocation is replaced by the items with `$a`, `$b` substituted (what
/// rustc's expander does for such a macro).  Other macros are left alone (their invocations are not items
/// the translator can see).
fn expand_simple_macros(file: &mut syn::File) {
    use proc_macro2::{Delimiter, Group, TokenStream, TokenTree};
    struct Def { params: Vec<String>, body: TokenStream }
    let mut defs: HashMap<String, Def> = HashMap::new();
    for it in &file.items {
        if let Item::Macro(m) = it {
            if path_last(&m.mac.path) == "macro_rules" {
                if let Some(name) = &m.ident {
                    let toks: Vec<TokenTree> = m.mac.tokens.clone().into_iter().collect();
                    // ( matcher ) => { transcriber } [;]
                    if toks.len() >= 4 {
                        if let (TokenTree::Group(g1), TokenTree::Group(g2)) = (&toks[0], &toks[3]) {
                            let rest_ok = toks.len() == 4 || (toks.len() == 5 && matches!(&toks[4], TokenTree::Punct(p) if p.as_char() == ';'));
                            let ms = g1.stream().to_string();
                            if rest_ok && !ms.contains("$ (") && !ms.contains("$(") {
                                let mut params = vec![];
                                let mt: Vec<TokenTree> = g1.stream().into_iter().collect();
                                let mut i = 0;
                                while i + 1 < mt.len() {
                                    if let (TokenTree::Punct(p), TokenTree::Ident(id)) = (&mt[i], &mt[i + 1]) {
                                        if p.as_char() == '$' {
                                            params.push(id.to_string());
                                        }
                                    }
                                    i += 1;
                                }
                                defs.insert(name.to_string(), Def { params, body: g2.stream() });
                            }
                        }
                    }
                }
            }
        }
    }
    fn subst(ts: TokenStream, map: &HashMap<String, TokenStream>) -> TokenStream {
        let toks: Vec<TokenTree> = ts.into_iter().collect();
        let mut out: Vec<TokenTree> = vec![];
        let mut i = 0;
        while i < toks.len() {
            match &toks[i] {
                TokenTree::Punct(p) if p.as_char() == '$' && i + 1 < toks.len() => {
                    if let TokenTree::Ident(id) = &toks[i + 1] {
                        if let Some(rep) = map.get(&id.to_string()) {
                            // an `expr` argument is substituted as a parenthesis-free group, like rustc does
                            out.push(TokenTree::Group(Group::new(Delimiter::None, rep.clone())));
                            i += 2;
                            continue;
                        }
                    }
                    out.push(toks[i].clone());
                    i += 1;
                }
                TokenTree::Group(g) => {
                    let mut ng = Group::new(g.delimiter(), subst(g.stream(), map));
                    ng.set_span(g.span());
                    out.push(TokenTree::Group(ng));
                    i += 1;
                }
                t => {
                    out.push(t.clone());
                    i += 1;
                }
            }
        }
        out.into_iter().collect()
    }
    let mut new_items: Vec<Item> = vec![];
    for it in &file.items {
        if let Item::Macro(m) = it {
            let name = path_last(&m.mac.path);
            if let Some(def) = defs.get(&name) {
                // split the arguments at top-level commas
                let mut args: Vec<TokenStream> = vec![];
                let mut cur: Vec<TokenTree> = vec![];
                for t in m.mac.tokens.clone() {
                    match &t {
                        TokenTree::Punct(p) if p.as_char() == ',' => {
                            args.push(cur.drain(..).collect());
                        }
                        _ => cur.push(t),
                    }
                }
                if !cur.is_empty() {
                    args.push(cur.into_iter().collect());
                }
                if args.len() == def.params.len() {
                    let map: HashMap<String, TokenStream> = def.params.iter().cloned().zip(args.into_iter()).collect();
                    let expanded = subst(def.body.clone(), &map);
                    // None-delimited groups print as their contents
                    if let Ok(f) = syn::parse_str::<syn::File>(&expanded.to_string()) {
                        new_items.extend(f.items);
                    }
                }
            }
        }
    }
    file.items.extend(new_items);
}

/// impl self type with spaces and lifetimes removed: "SszDecoderBuilder", "Bitfield<Variable<N>>"
fn norm_type(t: &Type) -> String {
    let s = tokens_full(t).replace(' ', "");
    let s = s.replace("<'a>", "").replace("<'_>", "").replace("'a,", "").replace("'_,", "");
    s
}

fn leak(s: String) -> &'static str {
    Box::leak(s.into_boxed_str())
}

fn tokens_full<T: quote::ToTokens>(t: &T) -> String {
    t.to_token_stream().to_string()
}

/// the generic impl was listed as plain "Bitfield" before the impls were told apart: keep that spelling in comments
fn display_imp(imp: &str) -> String {
    if imp == "Bitfield<T>" { "Bitfield".to_string() } else { imp.to_string() }
}

/// In a `&mut self` method returning `Result<(), E>`, a tail `Ok(())` means "return the state".
fn fix_mut_self_tail(b: &str) -> String {
    b.replace("Ok tt", "Ok self")
}

fn indent(s: &str) -> String {
    let mut depth: i32 = 1;
    let mut out = String::new();
    for line in s.lines() {
        let l = line.trim();
        if l.starts_with("else") || l.starts_with("| ") || l == "end" {
            depth = std::cmp::max(1, depth - 1);
        }
        for _ in 0..depth {
            out.push_str("  ");
        }
        out.push_str(l);
        out.push('\n');
        if l.ends_with("then") || l.ends_with("else") || l.ends_with("=>") || l.ends_with("with") {
            depth += 1;
        }
    }
    out.trim_end().to_string()
}
