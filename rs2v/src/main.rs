//! rs2v: a small Rust -> Gallina translator for the arithmetic / decision core of ethereum_ssz.
//!
//! It parses the crate's source with `syn`, finds the target functions listed in `TARGETS`, and
//! prints a Coq file in which every target is a Gallina definition obtained *syntactically* from
//! the Rust text (a shallow embedding in the `outcome` monad of Base.v: `Ok` / `Err` / `Panic`).
//! `GenEquiv.v` then proves each generated definition equal to the hand-written model definition,
//! so the theorems about the model are, for these functions, theorems about what the source says
//! now.  The translator is part of the trusted base (DESIGN.md); its rules are deliberately few:
//!
//!   usize / u8 / u32 values        -> N            `a + b`, `a - b`, `a * b` on them are checked
//!                                                   (`usize_add` ..: `Panic` on overflow/underflow)
//!   `/` `%` by a non-zero literal  -> N.div / N.modulo
//!   comparisons, `&&`, `||`, `!`   -> N.ltb .., andb, orb, negb
//!   &[u8], Vec<u8>, SmallVec<..>   -> list
//!   Option<T> / Result<T, E>       -> option T / outcome T (error payloads are erased)
//!   `e?`                           -> monadic bind
//!   x[a..b], x[a..], x[i]          -> index_range / index_from / index_at (`Panic` when out of range)
//!   x.get(a..b) ..                 -> get_range .. (option)
//!   if / else, match on Ordering   -> if / match on N.compare
//!   `&mut self` methods            -> state-passing: self -> outcome Self
//!   `for x in e.windows(2) { .. }` -> monadic fold over `windows2`
//!   closures                       -> fun
//! Anything else is reported as untranslatable for that function (the definition is omitted and
//! GenEquiv.v no longer compiles: the translation tie is then reported as broken, never silently
//! dropped).
use std::collections::HashMap;
use std::fmt::Write as _;
use syn::{BinOp, Block, Expr, FnArg, ImplItem, Item, Lit, Member, Pat, ReturnType, Stmt, Type, UnOp};

type R<T> = Result<T, String>;

struct Target {
    file: &'static str,
    /// last path segment of the impl's self type, or "" for a free function
    imp: &'static str,
    name: &'static str,
    coq: &'static str,
}

const TARGETS: &[Target] = &[
    Target { file: "ssz/src/decode.rs", imp: "", name: "sanitize_offset", coq: "sanitize_offset" },
    Target { file: "ssz/src/decode.rs", imp: "", name: "decode_offset", coq: "decode_offset" },
    Target { file: "ssz/src/decode.rs", imp: "", name: "read_offset", coq: "read_offset" },
    Target { file: "ssz/src/union_selector.rs", imp: "UnionSelector", name: "new", coq: "union_selector_new" },
    Target { file: "ssz/src/decode.rs", imp: "", name: "split_union_bytes", coq: "split_union_bytes" },
    Target { file: "ssz/src/encode.rs", imp: "", name: "encode_length", coq: "encode_length" },
    Target { file: "ssz/src/bitfield.rs", imp: "", name: "bytes_for_bit_len", coq: "bytes_for_bit_len" },
    Target { file: "ssz/src/decode.rs", imp: "SszDecoderBuilder", name: "register_type_parameterized", coq: "builder_register" },
    Target { file: "ssz/src/decode.rs", imp: "SszDecoderBuilder", name: "finalize", coq: "builder_finalize" },
    Target { file: "ssz/src/encode.rs", imp: "SszEncoder", name: "append_parameterized", coq: "encoder_append" },
    Target { file: "ssz/src/encode.rs", imp: "SszEncoder", name: "finalize", coq: "encoder_finalize" },
    Target { file: "ssz/src/bitfield.rs", imp: "Bitfield", name: "len", coq: "bitfield_len" },
    Target { file: "ssz/src/bitfield.rs", imp: "Bitfield", name: "is_empty", coq: "bitfield_is_empty" },
    Target { file: "ssz/src/bitfield.rs", imp: "Bitfield", name: "get", coq: "bitfield_get" },
    Target { file: "ssz/src/bitfield.rs", imp: "Bitfield", name: "set", coq: "bitfield_set" },
    Target { file: "ssz/src/bitfield.rs", imp: "Bitfield", name: "from_raw_bytes", coq: "bitfield_from_raw_bytes" },
    Target { file: "ssz/src/bitfield.rs", imp: "Bitfield", name: "difference_inplace", coq: "bitfield_difference_inplace" },
    Target { file: "ssz/src/bitfield.rs", imp: "Bitfield", name: "shift_up", coq: "bitfield_shift_up" },
    Target { file: "ssz/src/legacy.rs", imp: "", name: "encode_four_byte_union_selector", coq: "encode_four_byte_union_selector" },
    Target { file: "ssz/src/legacy.rs", imp: "", name: "read_four_byte_union_selector", coq: "read_four_byte_union_selector" },
];

/// structs translated to records: (file, name)
const RECORDS: &[(&str, &str)] = &[
    ("ssz/src/decode.rs", "Offset"),
    ("ssz/src/decode.rs", "SszDecoderBuilder"),
    ("ssz/src/encode.rs", "SszEncoder"),
    ("ssz/src/bitfield.rs", "Bitfield"),
];

/// integer constants translated to definitions: (file, name)
const CONSTS: &[(&str, &str)] = &[
    ("ssz/src/lib.rs", "BYTES_PER_LENGTH_OFFSET"),
    ("ssz/src/lib.rs", "BYTES_PER_UNION_SELECTOR"),
    ("ssz/src/lib.rs", "MAX_UNION_SELECTOR"),
];

#[derive(Clone, Copy, PartialEq, Debug)]
enum Kind {
    /// a pure Gallina term
    Pure,
    /// a term of type `outcome T`
    Comp,
}

struct Cx {
    fresh: usize,
    /// pending monadic bindings of the statement being translated, innermost last
    binds: Vec<(String, String)>,
    /// name of the record `self` is an instance of
    self_rec: Option<String>,
    /// record name -> field names
    records: HashMap<String, Vec<String>>,
    /// names (functions) known to return `Result` (translated as outcome)
    res_fns: HashMap<String, String>,
    /// closure-typed parameters: calling them on a buffer returns the new buffer
    fn_params: Vec<String>,
    /// `let x = self.f.get_mut(i)..?`: x aliases self.f[i]  (variable -> (field, index term))
    aliases: HashMap<String, (String, String)>,
    /// translating an operand of a u8 bit operation: `!` is bitwise
    u8ctx: bool,
    /// "Imp::name" of translated `&mut self` methods (they return the new state)
    mut_methods: Vec<String>,
    notes: Vec<String>,
}

fn tokens<T: quote::ToTokens>(t: &T) -> String {
    let s = t.to_token_stream().to_string();
    if s.len() > 90 { format!("{} ..", &s[..90]) } else { s }
}

fn path_last(p: &syn::Path) -> String {
    p.segments.last().map(|s| s.ident.to_string()).unwrap_or_default()
}

fn path_str(p: &syn::Path) -> String {
    p.segments.iter().map(|s| s.ident.to_string()).collect::<Vec<_>>().join("::")
}

fn int_lit(e: &Expr) -> Option<u128> {
    match e {
        Expr::Lit(l) => match &l.lit {
            Lit::Int(i) => i.base10_parse::<u128>().ok(),
            _ => None,
        },
        Expr::Paren(p) => int_lit(&p.expr),
        _ => None,
    }
}

impl Cx {
    fn new(records: HashMap<String, Vec<String>>, res_fns: HashMap<String, String>) -> Self {
        Cx { fresh: 0, binds: vec![], self_rec: None, records, res_fns, fn_params: vec![], aliases: HashMap::new(), u8ctx: false, mut_methods: vec![], notes: vec![] }
    }

    fn var(&mut self, hint: &str) -> String {
        self.fresh += 1;
        format!("{}_{}", hint, self.fresh)
    }

    /// Binds a computation and returns the variable standing for its value.
    fn bind(&mut self, comp: String, hint: &str) -> String {
        let v = self.var(hint);
        self.binds.push((v.clone(), comp));
        v
    }

    /// Wraps `body` (a term of type outcome _) in the pending binds from position `from` on.
    fn wrap(&mut self, from: usize, body: String) -> String {
        let mut out = body;
        while self.binds.len() > from {
            let (v, c) = self.binds.pop().unwrap();
            out = format!("do {} <- {};\n{}", v, c, out);
        }
        out
    }

    fn field_proj(&self, rec: &str, f: &str) -> String {
        format!("{}_{}", rec, f)
    }

    // ---------------------------------------------------------------------------------------
    // expressions: returns a pure term (computations are bound on the way)

    fn val(&mut self, e: &Expr) -> R<String> {
        let (t, k) = self.expr(e)?;
        Ok(match k {
            Kind::Pure => t,
            Kind::Comp => self.bind(t, "t"),
        })
    }

    fn closure1(&mut self, e: &Expr, want: Kind) -> R<String> {
        match e {
            Expr::Closure(c) => {
                let mut names = vec![];
                for p in &c.inputs {
                    names.push(self.pat_name(p)?);
                }
                let from = self.binds.len();
                let (body, k) = self.expr(&c.body)?;
                let body = match (k, want) {
                    (Kind::Pure, Kind::Pure) => {
                        if self.binds.len() != from {
                            return Err(format!("closure body needs the monad but a pure function is expected: {}", tokens(e)));
                        }
                        body
                    }
                    (Kind::Pure, Kind::Comp) => self.wrap(from, format!("Ok {}", paren(&body))),
                    (Kind::Comp, Kind::Comp) => self.wrap(from, body),
                    (Kind::Comp, Kind::Pure) => return Err(format!("closure body is a computation but a pure function is expected: {}", tokens(e))),
                };
                Ok(format!("(fun {} => {})", names.join(" "), body))
            }
            Expr::Path(p) => {
                let name = path_str(&p.path);
                if let Some(c) = self.res_fns.get(&name) {
                    if want == Kind::Comp { Ok(c.clone()) } else { Err(format!("{} returns a Result where a pure function is expected", name)) }
                } else if path_last(&p.path) == "Self" || name.ends_with("Self") {
                    Ok("(fun x => x)".into())
                } else {
                    Err(format!("unknown function value {}", name))
                }
            }
            _ => Err(format!("unsupported function argument: {}", tokens(e))),
        }
    }

    fn pat_name(&mut self, p: &Pat) -> R<String> {
        match p {
            Pat::Ident(i) => Ok(coq_ident(&i.ident.to_string())),
            Pat::Wild(_) => Ok("_".into()),
            Pat::Type(t) => self.pat_name(&t.pat),
            Pat::Reference(r) => self.pat_name(&r.pat),
            Pat::Tuple(t) => {
                let mut names = vec![];
                for e in &t.elems {
                    names.push(self.pat_name(e)?);
                }
                Ok(format!("'({})", names.join(", ")))
            }
            _ => Err(format!("unsupported pattern: {}", tokens(p))),
        }
    }

    fn expr(&mut self, e: &Expr) -> R<(String, Kind)> {
        use Kind::*;
        match e {
            Expr::Paren(p) => self.expr(&p.expr),
            Expr::Group(p) => self.expr(&p.expr),
            Expr::Reference(r) => self.expr(&r.expr),
            Expr::Unary(u) => match u.op {
                UnOp::Deref(_) => self.expr(&u.expr),
                UnOp::Not(_) => {
                    let v = self.val(&u.expr)?;
                    if self.u8ctx {
                        Ok((format!("(not8 {})", v), Pure))
                    } else {
                        Ok((format!("(negb {})", v), Pure))
                    }
                }
                _ => Err(format!("unsupported unary operator: {}", tokens(e))),
            },
            Expr::Lit(l) => match &l.lit {
                Lit::Int(i) => Ok((i.base10_digits().to_string(), Pure)),
                Lit::Bool(b) => Ok((if b.value { "true" } else { "false" }.to_string(), Pure)),
                _ => Err(format!("unsupported literal: {}", tokens(e))),
            },
            Expr::Path(p) => {
                let s = path_str(&p.path);
                Ok((match s.as_str() {
                    "None" => "None".to_string(),
                    "usize::MAX" => "usize_max".to_string(),
                    "u8::MAX" => "255".to_string(),
                    "self" => "self".to_string(),
                    _ => coq_ident(&path_last(&p.path)),
                }, Pure))
            }
            Expr::Field(f) => {
                let base = self.val(&f.base)?;
                match &f.member {
                    Member::Named(id) => {
                        let fname = id.to_string();
                        // which record?  `self.f`, or a variable of a known record type
                        let rec = self.record_of_field(&fname).ok_or_else(|| format!("field {} of an unknown record", fname))?;
                        Ok((format!("({} {})", self.field_proj(&rec, &fname), base), Pure))
                    }
                    Member::Unnamed(i) => Ok((format!("({} {})", if i.index == 0 { "fst" } else { "snd" }, base), Pure)),
                }
            }
            Expr::Cast(c) => {
                let v = self.val(&c.expr)?;
                let ty = tokens(&c.ty);
                Ok((match ty.as_str() {
                    "usize" | "u64" | "u128" => v,
                    "u32" => format!("({} mod 4294967296)", v),
                    "u8" => format!("({} mod 256)", v),
                    _ => return Err(format!("unsupported cast to {}", ty)),
                }, Pure))
            }
            Expr::Binary(b) => {
                match b.op {
                    BinOp::And(_) | BinOp::Or(_) => {
                        let l = self.val(&b.left)?;
                        let from = self.binds.len();
                        let r = self.val(&b.right)?;
                        let is_and = matches!(b.op, BinOp::And(_));
                        if self.binds.len() != from {
                            // the right operand can panic: it is evaluated only when needed
                            let rhs = self.wrap(from, format!("Ok {}", paren(&r)));
                            return Ok((if is_and {
                                format!("(if {} then\n{}\nelse Ok false)", l, rhs)
                            } else {
                                format!("(if {} then Ok true else\n{})", l, rhs)
                            }, Comp));
                        }
                        let op = if is_and { "&&" } else { "||" };
                        return Ok((format!("({} {} {})", l, op, r), Pure));
                    }
                    _ => {}
                }
                if matches!(b.op, BinOp::BitAnd(_) | BinOp::BitOr(_) | BinOp::Shl(_)) {
                    let saved = self.u8ctx;
                    self.u8ctx = true;
                    let l = self.val(&b.left);
                    let r = self.val(&b.right);
                    self.u8ctx = saved;
                    let (l, r) = (l?, r?);
                    return Ok(match b.op {
                        BinOp::BitAnd(_) => (format!("(N.land {} {})", l, r), Pure),
                        BinOp::BitOr(_) => (format!("(N.lor {} {})", l, r), Pure),
                        _ => {
                            // u8 shift: the amount must visibly be below 8
                            if !tokens(&b.right).replace(' ', "").ends_with("%8)") && !tokens(&b.right).replace(' ', "").ends_with("%8") {
                                return Err(format!("shift by an amount that is not `_ % 8`: {}", tokens(e)));
                            }
                            (format!("(shl8 {} {})", l, r), Pure)
                        }
                    });
                }
                let l = self.val(&b.left)?;
                let r = self.val(&b.right)?;
                let lit_nonzero = int_lit(&b.right).map(|n| n != 0).unwrap_or(false);
                Ok(match b.op {
                    BinOp::Lt(_) => (format!("({} <? {})", l, r), Pure),
                    BinOp::Gt(_) => (format!("({} <? {})", r, l), Pure),
                    BinOp::Le(_) => (format!("({} <=? {})", l, r), Pure),
                    BinOp::Ge(_) => (format!("({} <=? {})", r, l), Pure),
                    BinOp::Eq(_) => (format!("({} =? {})", l, r), Pure),
                    BinOp::Ne(_) => (format!("(negb ({} =? {}))", l, r), Pure),
                    BinOp::Add(_) => (format!("usize_add {} {}", l, r), Comp),
                    BinOp::Sub(_) => (format!("usize_sub {} {}", l, r), Comp),
                    BinOp::Mul(_) => (format!("usize_mul {} {}", l, r), Comp),
                    BinOp::Div(_) if lit_nonzero => (format!("({} / {})", l, r), Pure),
                    BinOp::Rem(_) if lit_nonzero => (format!("({} mod {})", l, r), Pure),
                    BinOp::Div(_) => (format!("usize_div {} {}", l, r), Comp),
                    BinOp::Rem(_) => (format!("usize_rem {} {}", l, r), Comp),
                    _ => return Err(format!("unsupported binary operator: {}", tokens(e))),
                })
            }
            Expr::Tuple(t) => {
                if t.elems.is_empty() {
                    return Ok(("tt".into(), Pure));
                }
                let mut vs = vec![];
                for x in &t.elems {
                    vs.push(self.val(x)?);
                }
                Ok((format!("({})", vs.join(", ")), Pure))
            }
            Expr::Try(t) => {
                let (c, k) = self.expr(&t.expr)?;
                if k != Comp {
                    return Err(format!("`?` applied to something that is not a Result: {}", tokens(&t.expr)));
                }
                let v = self.bind(c, "q");
                Ok((v, Pure))
            }
            Expr::Index(ix) => {
                let base = self.val(&ix.expr)?;
                match &*ix.index {
                    Expr::Range(r) => {
                        let a = match &r.start { Some(s) => self.val(s)?, None => "0".into() };
                        match &r.end {
                            Some(end) => {
                                let b = self.val(end)?;
                                Ok((format!("index_range {} {} {}", base, a, b), Comp))
                            }
                            None => Ok((format!("index_from {} {}", base, a), Comp)),
                        }
                    }
                    i => {
                        let i = self.val(i)?;
                        Ok((format!("index_at {} {}", base, i), Comp))
                    }
                }
            }
            Expr::Struct(s) => {
                let name = path_last(&s.path);
                let rec = if name == "Self" { self.self_rec.clone().ok_or("Self outside an impl")? } else { name };
                let fields = self.records.get(&rec).cloned().ok_or_else(|| format!("struct literal of unknown record {}", rec))?;
                let mut given: HashMap<String, String> = HashMap::new();
                for f in &s.fields {
                    if let Member::Named(id) = &f.member {
                        if !fields.contains(&id.to_string()) {
                            continue; // PhantomData
                        }
                        let v = self.val(&f.expr)?;
                        given.insert(id.to_string(), v);
                    }
                }
                let mut parts = vec![];
                for f in &fields {
                    let v = given.get(f).ok_or_else(|| format!("field {} missing in struct literal", f))?;
                    parts.push(format!("{} := {}", self.field_proj(&rec, f), v));
                }
                Ok((format!("{{| {} |}}", parts.join("; ")), Pure))
            }
            Expr::Array(a) if a.elems.is_empty() => Ok(("[]".into(), Pure)),
            Expr::Range(r) => {
                let a = match &r.start { Some(s) => self.val(s)?, None => "0".into() };
                let b = match &r.end { Some(e) => self.val(e)?, None => return Err("open-ended range as a value".into()) };
                if !matches!(r.limits, syn::RangeLimits::HalfOpen(_)) {
                    return Err("inclusive range as a value".into());
                }
                Ok((format!("(range_up {} {})", a, b), Pure))
            }
            Expr::Call(c) => {
                let f = match &*c.func {
                    Expr::Path(p) => path_str(&p.path),
                    other => return Err(format!("unsupported callee: {}", tokens(other))),
                };
                match f.as_str() {
                    "Ok" => {
                        let v = self.val(&c.args[0])?;
                        Ok((format!("Ok {}", paren(&v)), Comp))
                    }
                    "Err" => Ok(("Err".into(), Comp)),
                    "Some" => {
                        let v = self.val(&c.args[0])?;
                        Ok((format!("(Some {})", v), Pure))
                    }
                    "std::cmp::max" | "cmp::max" | "max" => {
                        let a = self.val(&c.args[0])?;
                        let b = self.val(&c.args[1])?;
                        Ok((format!("(N.max {} {})", a, b), Pure))
                    }
                    "std::cmp::min" | "cmp::min" | "min" => {
                        let a = self.val(&c.args[0])?;
                        let b = self.val(&c.args[1])?;
                        Ok((format!("(N.min {} {})", a, b), Pure))
                    }
                    "u32::from_le_bytes" => {
                        let a = self.val(&c.args[0])?;
                        Ok((format!("(le_val {})", a), Pure))
                    }
                    "std::default::Default::default" | "Default::default" => Ok(("DEFAULT".into(), Pure)),
                    _ => {
                        if self.fn_params.contains(&f) {
                            // a `Fn(&mut Vec<u8>)` parameter applied to a buffer: handled at statement level
                            return Err(format!("call of closure parameter {} outside statement position", f));
                        }
                        let mut args = vec![];
                        for a in &c.args {
                            args.push(self.val(a)?);
                        }
                        if let Some(cn) = self.res_fns.get(&f).cloned() {
                            Ok((format!("{} {}", cn, args.join(" ")), Comp))
                        } else {
                            Err(format!("call of unknown function {}", f))
                        }
                    }
                }
            }
            Expr::MethodCall(m) => self.method(m),
            Expr::If(_) | Expr::Match(_) | Expr::Block(_) => {
                // value-position conditional: translate as a computation
                let from = self.binds.len();
                let t = self.tail(e, &mut |_cx, v| Ok(format!("Ok {}", paren(&v))))?;
                let _ = from;
                Ok((t, Comp))
            }
            Expr::Macro(m) => {
                let name = path_last(&m.mac.path);
                match name.as_str() {
                    "smallvec" | "vec" if m.mac.tokens.is_empty() => Ok(("[]".into(), Pure)),
                    "unreachable" | "panic" => Ok(("Panic".into(), Comp)),
                    _ => Err(format!("unsupported macro in expression position: {}!", name)),
                }
            }
            _ => Err(format!("unsupported expression: {}", tokens(e))),
        }
    }

    fn record_of_field(&self, fname: &str) -> Option<String> {
        // prefer the record of `self`; otherwise the unique record that has such a field
        if let Some(r) = &self.self_rec {
            if self.records.get(r).map(|fs| fs.iter().any(|f| f == fname)).unwrap_or(false) {
                return Some(r.clone());
            }
        }
        let mut hits: Vec<&String> = self.records.iter().filter(|(_, fs)| fs.iter().any(|f| f == fname)).map(|(r, _)| r).collect();
        hits.sort();
        // `offset` exists both in Offset and SszEncoder: outside SszEncoder's impl it is Offset's
        hits.retain(|r| Some((*r).clone()) != self.self_rec);
        hits.first().map(|r| (*r).clone())
    }

    fn method(&mut self, m: &syn::ExprMethodCall) -> R<(String, Kind)> {
        use Kind::*;
        let name = m.method.to_string();
        // receivers that are Results (ok_or .. and_then) must be kept as computations
        if name == "and_then" {
            let (r, k) = self.expr(&m.receiver)?;
            if k != Comp {
                return Err(format!("and_then on a non-Result: {}", tokens(&m.receiver)));
            }
            let f = self.closure1(&m.args[0], Comp)?;
            return Ok((format!("bind ({}) {}", r, f), Comp));
        }
        // self.method(args) where the method is itself a translated target of the same impl
        if let (Expr::Path(p), Some(rec)) = (&*m.receiver, self.self_rec.clone()) {
            if path_str(&p.path) == "self" {
                let key = format!("{}::{}", rec, name);
                if let Some(cn) = self.res_fns.get(&key).cloned() {
                    if self.mut_methods.contains(&key) {
                        return Err(format!("call of the mutating method self.{}() outside statement position", name));
                    }
                    let mut args = vec!["self".to_string()];
                    for a in &m.args {
                        args.push(self.val(a)?);
                    }
                    return Ok((format!("{} {}", cn, args.join(" ")), Comp));
                }
            }
        }
        let r = self.val(&m.receiver)?;
        let arg = |cx: &mut Cx, i: usize| -> R<String> { cx.val(&m.args[i]) };
        Ok(match name.as_str() {
            "len" => (format!("(llen {})", r), Pure),
            "is_empty" => (format!("(llen {} =? 0)", r), Pure),
            "first" => (format!("(hd_error {})", r), Pure),
            "last" => (format!("(last_error {})", r), Pure),
            "copied" | "cloned" | "clone" | "iter" | "to_vec" | "as_slice" => (r, Pure),
            "is_none" => (format!("(is_none {})", r), Pure),
            "is_some" => (format!("(negb (is_none {}))", r), Pure),
            "is_some_and" => {
                let f = self.closure1(&m.args[0], Pure)?;
                (format!("(is_some_and {} {})", r, f), Pure)
            }
            "map" => {
                let f = self.closure1(&m.args[0], Pure)?;
                (format!("(option_map {} {})", f, r), Pure)
            }
            "filter" => {
                let f = self.closure1(&m.args[0], Pure)?;
                (format!("(opt_filter {} {})", f, r), Pure)
            }
            "ok_or" => (format!("ok_or {}", r), Comp),
            "checked_add" => {
                let a = arg(self, 0)?;
                (format!("(checked_add {} {})", r, a), Pure)
            }
            "div_ceil" => {
                let a = arg(self, 0)?;
                (format!("(div_ceil {} {})", r, a), Pure)
            }
            "to_le_bytes" => (format!("(le_bytes 8 {})", r), Pure),
            "cmp" => {
                let a = arg(self, 0)?;
                (format!("(N.compare {} {})", r, a), Pure)
            }
            "rev" => (format!("(rev {})", r), Pure),
            "windows" => {
                if int_lit(&m.args[0]) != Some(2) {
                    return Err("windows(n) only for n = 2".into());
                }
                (format!("(windows2 {})", r), Pure)
            }
            "get" => match &m.args[0] {
                Expr::Range(rg) => {
                    let a = match &rg.start { Some(s) => self.val(s)?, None => "0".into() };
                    match &rg.end {
                        Some(end) => {
                            let b = self.val(end)?;
                            (format!("(get_range {} {} {})", r, a, b), Pure)
                        }
                        None => (format!("(get_from {} {})", r, a), Pure),
                    }
                }
                i => {
                    let i = self.val(i)?;
                    (format!("(get_at {} {})", r, i), Pure)
                }
            },
            "expect" | "unwrap" => (format!("unwrap_or_panic {}", r), Comp),
            "overflowing_shr" => {
                let a = arg(self, 0)?;
                (format!("(overflowing_shr8 {} {}, tt)", r, a), Pure)
            }
            _ => return Err(format!("unsupported method .{}(): {}", name, tokens(m))),
        })
    }

    // ---------------------------------------------------------------------------------------
    // statements and tail positions.  `k` finishes the translation with the block's value.

    fn tail(&mut self, e: &Expr, k: &mut dyn FnMut(&mut Cx, String) -> R<String>) -> R<String> {
        match e {
            Expr::Paren(p) => self.tail(&p.expr, k),
            Expr::Block(b) => self.block(&b.block.stmts, k),
            Expr::If(i) => self.if_tail(i, k),
            Expr::Match(m) => self.match_tail(m, k),
            Expr::Return(r) => {
                let inner = r.expr.as_ref().ok_or("return without a value")?;
                self.ret(inner)
            }
            // `Ok(x)` in tail position: the function's value is x
            Expr::Call(c) if matches!(&*c.func, Expr::Path(p) if path_str(&p.path) == "Ok") && c.args.len() == 1 => {
                let from = self.binds.len();
                let v = self.val(&c.args[0])?;
                let body = k(self, v)?;
                Ok(self.wrap(from, body))
            }
            _ => {
                let from = self.binds.len();
                let (t, kind) = self.expr(e)?;
                let body = match kind {
                    Kind::Pure => k(self, t)?,
                    Kind::Comp => {
                        // a computation in tail position: its value is the block's value
                        if t == "Err" || t == "Panic" {
                            t
                        } else {
                            let mark = self.binds.len();
                            let v = self.bind(t.clone(), "r");
                            let body = k(self, v.clone())?;
                            if body == format!("Ok {}", v) && self.binds.len() == mark + 1 {
                                // do v <- t; Ok v   =   t
                                self.binds.pop();
                                t
                            } else {
                                body
                            }
                        }
                    }
                };
                Ok(self.wrap(from, body))
            }
        }
    }

    /// `return e` / a function's final expression where the function returns a Result.
    fn ret(&mut self, e: &Expr) -> R<String> {
        let from = self.binds.len();
        let (t, kind) = self.expr(e)?;
        let body = match kind {
            Kind::Comp => t,
            Kind::Pure => format!("Ok {}", paren(&t)),
        };
        Ok(self.wrap(from, body))
    }

    fn if_tail(&mut self, i: &syn::ExprIf, k: &mut dyn FnMut(&mut Cx, String) -> R<String>) -> R<String> {
        let from = self.binds.len();
        let out = match &*i.cond {
            Expr::Let(l) => {
                // if let Some(x) = e { A } else { B }
                let scrut = self.val(&l.expr)?;
                let var = match &*l.pat {
                    Pat::TupleStruct(ts) if path_last(&ts.path) == "Some" && ts.elems.len() == 1 => self.pat_name(&ts.elems[0])?,
                    p => return Err(format!("unsupported if-let pattern: {}", tokens(p))),
                };
                let a = self.block(&i.then_branch.stmts, k)?;
                let b = match &i.else_branch {
                    Some((_, e)) => self.tail(e, k)?,
                    None => k(self, "tt".into())?,
                };
                format!("match {} with\n| Some {} =>\n{}\n| None =>\n{}\nend", scrut, var, a, b)
            }
            c => {
                let c = self.val(c)?;
                let a = self.block(&i.then_branch.stmts, k)?;
                let b = match &i.else_branch {
                    Some((_, e)) => self.tail(e, k)?,
                    None => k(self, "tt".into())?,
                };
                format!("if {} then\n{}\nelse\n{}", c, a, b)
            }
        };
        Ok(self.wrap(from, out))
    }

    fn match_tail(&mut self, m: &syn::ExprMatch, k: &mut dyn FnMut(&mut Cx, String) -> R<String>) -> R<String> {
        let from = self.binds.len();
        let scrut = self.val(&m.expr)?;
        let mut arms = vec![];
        for arm in &m.arms {
            let pat = match &arm.pat {
                Pat::Path(p) => match path_last(&p.path).as_str() {
                    "Less" => "Lt".to_string(),
                    "Greater" => "Gt".to_string(),
                    "Equal" => "Eq".to_string(),
                    "None" => "None".to_string(),
                    other => return Err(format!("unsupported match pattern {}", other)),
                },
                Pat::Ident(id) if id.ident == "None" => "None".to_string(),
                Pat::TupleStruct(ts) if path_last(&ts.path) == "Some" => format!("Some {}", self.pat_name(&ts.elems[0])?),
                p => return Err(format!("unsupported match pattern: {}", tokens(p))),
            };
            let body = self.tail(&arm.body, k)?;
            arms.push(format!("| {} =>\n{}", pat, body));
        }
        let out = format!("match {} with\n{}\nend", scrut, arms.join("\n"));
        Ok(self.wrap(from, out))
    }

    fn block(&mut self, stmts: &[Stmt], k: &mut dyn FnMut(&mut Cx, String) -> R<String>) -> R<String> {
        if stmts.is_empty() {
            return k(self, "tt".into());
        }
        let (first, rest) = stmts.split_first().unwrap();
        let from = self.binds.len();
        let out = match first {
            Stmt::Local(l) => {
                let init = l.init.as_ref().ok_or("let without initializer")?;
                // `let mut array: [u8; N] = Default::default(); array.clone_from_slice(x);` idiom
                if tokens(&init.expr).contains("default") {
                    if let Some(Stmt::Expr(Expr::MethodCall(mc), _)) = rest.first() {
                        if mc.method == "clone_from_slice" || mc.method == "copy_from_slice" {
                            let name = self.pat_name(&l.pat)?;
                            let n = array_len_of_pat(&l.pat).ok_or("array idiom without a length")?;
                            let src = self.val(&mc.args[0])?;
                            let body = self.block(&rest[1..], k)?;
                            let out = format!("if llen {} =? {} then\nlet {} := {} in\n{}\nelse Panic", src, n, name, src, body);
                            return Ok(self.wrap(from, out));
                        }
                    }
                }
                // `let mut bytes = [0; N]; bytes.copy_from_slice(&x[..]);`
                if let Expr::Repeat(rp) = &*init.expr {
                    if let Some(Stmt::Expr(Expr::MethodCall(mc), _)) = rest.first() {
                        if mc.method == "copy_from_slice" || mc.method == "clone_from_slice" {
                            let name = self.pat_name(&l.pat)?;
                            let n = self.val(&rp.len)?;
                            let src = self.val(&mc.args[0])?;
                            let body = self.block(&rest[1..], k)?;
                            let out = format!("if llen {} =? {} then\nlet {} := {} in\n{}\nelse Panic", src, n, name, src, body);
                            return Ok(self.wrap(from, out));
                        }
                    }
                }
                let name = self.pat_name(&l.pat)?;
                if let Some((field, idx)) = get_mut_target(&init.expr) {
                    // let x = self.f.get_mut(i).ok_or(E)?;   x aliases self.f[i]
                    let rec = self.self_rec.clone().ok_or("get_mut outside an impl")?;
                    let i = self.val(&idx)?;
                    let cur = format!("({} self)", self.field_proj(&rec, &field));
                    let v = self.bind(format!("ok_or (get_at {} {})", cur, i), "q");
                    self.aliases.insert(name.clone(), (field, i));
                    let body = self.block(rest, k)?;
                    return Ok(self.wrap(from, format!("let {} := {} in\n{}", name, v, body)));
                }
                let v = self.val(&init.expr)?;
                let body = self.block(rest, k)?;
                format!("let {} := {} in\n{}", name, v, body)
            }
            Stmt::Expr(e, semi) => {
                let is_mutation = matches!(e, Expr::Assign(_) | Expr::ForLoop(_))
                    || matches!(e, Expr::Binary(b) if matches!(b.op, BinOp::AddAssign(_) | BinOp::BitOrAssign(_) | BinOp::BitAndAssign(_)));
                let is_mutation = is_mutation || self.mut_self_call(e).is_some();
                if rest.is_empty() && semi.is_none() && !is_mutation {
                    return self.tail(e, k);
                }
                self.stmt_expr(e, rest, k)?
            }
            Stmt::Macro(m) => {
                let name = path_last(&m.mac.path);
                if name == "debug_assert" || name == "debug_assert_eq" {
                    self.notes.push(format!("{}!({}) ignored (release semantics)", name, m.mac.tokens));
                    self.block(rest, k)?
                } else {
                    return Err(format!("unsupported macro statement {}!", name));
                }
            }
            Stmt::Item(_) => return Err("nested item".into()),
        };
        Ok(self.wrap(from, out))
    }

    /// `self.<field>` as the target of a mutation.
    fn self_field(&self, e: &Expr) -> Option<String> {
        match e {
            Expr::Field(f) => match (&*f.base, &f.member) {
                (Expr::Path(p), Member::Named(id)) if path_str(&p.path) == "self" => Some(id.to_string()),
                _ => None,
            },
            Expr::Reference(r) => self.self_field(&r.expr),
            Expr::Paren(p) => self.self_field(&p.expr),
            _ => None,
        }
    }

    /// `self.m(args)?` or `self.m(args).unwrap()` / `.expect(..)` with m a translated `&mut self`
    /// method: (coq name, args, unwrapped?)
    fn mut_self_call(&self, e: &Expr) -> Option<(String, Vec<Expr>, bool)> {
        let (inner, unwrap) = match e {
            Expr::Try(t) => (&*t.expr, false),
            Expr::MethodCall(m) if m.method == "unwrap" || m.method == "expect" => (&*m.receiver, true),
            _ => return None,
        };
        let m = match inner { Expr::MethodCall(m) => m, _ => return None };
        match &*m.receiver {
            Expr::Path(p) if path_str(&p.path) == "self" => {}
            _ => return None,
        }
        let key = format!("{}::{}", self.self_rec.clone()?, m.method);
        if !self.mut_methods.contains(&key) {
            return None;
        }
        Some((self.res_fns.get(&key)?.clone(), m.args.iter().cloned().collect(), unwrap))
    }

    fn set_self(&self, field: &str, v: &str) -> R<String> {
        let rec = self.self_rec.clone().ok_or("mutation of self outside an impl")?;
        Ok(format!("set_{}_{} self {}", rec, field, paren(v)))
    }

    fn stmt_expr(&mut self, e: &Expr, rest: &[Stmt], k: &mut dyn FnMut(&mut Cx, String) -> R<String>) -> R<String> {
        match e {
            // self.f = e;     self.f[i] = e;
            Expr::Assign(a) => {
                if let Some(f) = self.self_field(&a.left) {
                    let v = self.val(&a.right)?;
                    let upd = self.set_self(&f, &v)?;
                    let body = self.block(rest, k)?;
                    return Ok(format!("let self := {} in\n{}", upd, body));
                }
                if let Expr::Index(ix) = &*a.left {
                    if let Some(f) = self.self_field(&ix.expr) {
                        let i = self.val(&ix.index)?;
                        let v = self.val(&a.right)?;
                        let rec = self.self_rec.clone().unwrap();
                        let cur = format!("({} self)", self.field_proj(&rec, &f));
                        let nv = self.bind(format!("set_at {} {} {}", cur, i, paren(&v)), "upd");
                        let upd = self.set_self(&f, &nv)?;
                        let body = self.block(rest, k)?;
                        return Ok(format!("let self := {} in\n{}", upd, body));
                    }
                }
                Err(format!("unsupported assignment: {}", tokens(e)))
            }
            // self.f[i] &= e;   self.f[i] |= e;
            Expr::Binary(b) if matches!(b.op, BinOp::BitOrAssign(_) | BinOp::BitAndAssign(_)) && matches!(&*b.left, Expr::Index(_)) => {
                let ix = match &*b.left { Expr::Index(ix) => ix, _ => unreachable!() };
                let f = self.self_field(&ix.expr).ok_or_else(|| format!("unsupported compound assignment target: {}", tokens(e)))?;
                let rec = self.self_rec.clone().unwrap();
                let cur = format!("({} self)", self.field_proj(&rec, &f));
                let i = self.val(&ix.index)?;
                let old = self.bind(format!("index_at {} {}", cur, i), "t");
                let saved = self.u8ctx;
                self.u8ctx = true;
                let r = self.val(&b.right);
                self.u8ctx = saved;
                let r = r?;
                let op = if matches!(b.op, BinOp::BitOrAssign(_)) { "N.lor" } else { "N.land" };
                let nv = self.bind(format!("set_at {} {} ({} {} {})", cur, i, op, old, r), "upd");
                let upd = self.set_self(&f, &nv)?;
                let body = self.block(rest, k)?;
                Ok(format!("let self := {} in\n{}", upd, body))
            }
            // self.m(args)?;   self.m(args).unwrap();   for a translated `&mut self` method m
            Expr::Try(_) | Expr::MethodCall(_) if self.mut_self_call(e).is_some() => {
                let (cn, args, unwrap) = self.mut_self_call(e).unwrap();
                let mut avs = vec!["self".to_string()];
                for a in &args {
                    avs.push(self.val(a)?);
                }
                let call = format!("{} {}", cn, avs.join(" "));
                let st = self.bind(if unwrap { format!("unwrap_res ({})", call) } else { call }, "st");
                let body = self.block(rest, k)?;
                Ok(format!("let self := {} in\n{}", st, body))
            }
            // *x |= e;  *x &= e;   where x aliases self.f[i]
            Expr::Binary(b) if matches!(b.op, BinOp::BitOrAssign(_) | BinOp::BitAndAssign(_)) => {
                let target = match &*b.left {
                    Expr::Unary(u) if matches!(u.op, UnOp::Deref(_)) => match &*u.expr {
                        Expr::Path(p) => path_last(&p.path),
                        _ => return Err(format!("unsupported compound assignment target: {}", tokens(e))),
                    },
                    _ => return Err(format!("unsupported compound assignment target: {}", tokens(e))),
                };
                let (field, idx) = self.aliases.get(&target).cloned().ok_or_else(|| format!("{} is not a known alias of an element of self", target))?;
                let saved = self.u8ctx;
                self.u8ctx = true;
                let r = self.val(&b.right);
                self.u8ctx = saved;
                let r = r?;
                let op = if matches!(b.op, BinOp::BitOrAssign(_)) { "N.lor" } else { "N.land" };
                let rec = self.self_rec.clone().unwrap();
                let cur = format!("({} self)", self.field_proj(&rec, &field));
                let upd = self.set_self(&field, &format!("upd_at {} {} ({} {} {})", cur, idx, op, coq_ident(&target), r))?;
                let body = self.block(rest, k)?;
                Ok(format!("let self := {} in\n{}", upd, body))
            }
            // self.f += e;
            Expr::Binary(b) if matches!(b.op, BinOp::AddAssign(_)) => {
                let f = self.self_field(&b.left).ok_or_else(|| format!("unsupported += target: {}", tokens(e)))?;
                let rec = self.self_rec.clone().unwrap();
                let cur = format!("({} self)", self.field_proj(&rec, &f));
                let r = self.val(&b.right)?;
                let nv = self.bind(format!("usize_add {} {}", cur, r), "s");
                let upd = self.set_self(&f, &nv)?;
                let body = self.block(rest, k)?;
                Ok(format!("let self := {} in\n{}", upd, body))
            }
            Expr::MethodCall(m) => {
                let name = m.method.to_string();
                if let Some(f) = self.self_field(&m.receiver) {
                    let rec = self.self_rec.clone().unwrap();
                    let cur = format!("({} self)", self.field_proj(&rec, &f));
                    match name.as_str() {
                        "push" => {
                            let v = self.val(&m.args[0])?;
                            let upd = self.set_self(&f, &format!("{} ++ [{}]", cur, v))?;
                            let body = self.block(rest, k)?;
                            return Ok(format!("let self := {} in\n{}", upd, body));
                        }
                        "extend_from_slice" => {
                            let v = self.val(&m.args[0])?;
                            let upd = self.set_self(&f, &format!("{} ++ {}", cur, v))?;
                            let body = self.block(rest, k)?;
                            return Ok(format!("let self := {} in\n{}", upd, body));
                        }
                        "append" => {
                            // a.append(&mut b): a := a ++ b; b := []
                            let g = self.self_field(&m.args[0]).ok_or("append of something that is not a field of self")?;
                            let other = format!("({} self)", self.field_proj(&rec, &g));
                            let upd1 = self.set_self(&f, &format!("{} ++ {}", cur, other))?;
                            let upd2 = self.set_self(&g, "[]")?;
                            let body = self.block(rest, k)?;
                            return Ok(format!("let self := {} in\nlet self := {} in\n{}", upd1, upd2, body));
                        }
                        _ => {}
                    }
                }
                Err(format!("unsupported statement: {}", tokens(e)))
            }
            // ssz_append(self.buf);   ssz_append(&mut self.variable_bytes);
            Expr::Call(c) => {
                if let Expr::Path(p) = &*c.func {
                    let fname = path_str(&p.path);
                    if self.fn_params.contains(&fname) && c.args.len() == 1 {
                        if let Some(f) = self.self_field(&c.args[0]) {
                            let rec = self.self_rec.clone().unwrap();
                            let cur = format!("({} self)", self.field_proj(&rec, &f));
                            let upd = self.set_self(&f, &format!("{} {}", coq_ident(&fname), cur))?;
                            let body = self.block(rest, k)?;
                            return Ok(format!("let self := {} in\n{}", upd, body));
                        }
                    }
                }
                Err(format!("unsupported call statement: {}", tokens(e)))
            }
            // if c { return Err(..) }   (no else) followed by the rest;  or a conditional mutation
            Expr::If(i) => {
                // an `if` followed by further statements has type (): every branch that does not
                // return falls through to `rest` with the (possibly updated) state
                let mut k2 = |cx: &mut Cx, _v: String| cx.block(rest, k);
                self.if_tail(i, &mut k2)
            }
            Expr::Match(m) => {
                let mut k2 = |cx: &mut Cx, _v: String| cx.block(rest, k);
                self.match_tail(m, &mut k2)
            }
            Expr::ForLoop(fl) => {
                // for x in e { body }  over a list: monadic fold carrying `self`
                let x = self.pat_name(&fl.pat)?;
                let coll = self.val(&fl.expr)?;
                let from = self.binds.len();
                let body = self.block(&fl.body.stmts, &mut |_cx, _v| Ok("Ok self".to_string()))?;
                let body = self.wrap(from, body);
                let st = self.bind(format!("fold_m (fun self {} =>\n{}) {} self", x, body, coll), "st");
                let after = self.block(rest, k)?;
                Ok(format!("let self := {} in\n{}", st, after))
            }
            Expr::Return(r) => {
                let inner = r.expr.as_ref().ok_or("return without a value")?;
                self.ret(inner)
            }
            _ => Err(format!("unsupported statement: {}", tokens(e))),
        }
    }
}

/// `self.f.get_mut(i).ok_or(E)?`  ->  (f, i)
fn get_mut_target(e: &Expr) -> Option<(String, Expr)> {
    let e = match e { Expr::Try(t) => &*t.expr, _ => return None };
    let m = match e { Expr::MethodCall(m) if m.method == "ok_or" => m, _ => return None };
    let g = match &*m.receiver { Expr::MethodCall(g) if g.method == "get_mut" => g, _ => return None };
    match &*g.receiver {
        Expr::Field(f) => match (&*f.base, &f.member) {
            (Expr::Path(p), Member::Named(id)) if path_str(&p.path) == "self" => Some((id.to_string(), g.args[0].clone())),
            _ => None,
        },
        _ => None,
    }
}

fn array_len_of_pat(p: &Pat) -> Option<String> {
    if let Pat::Type(t) = p {
        if let Type::Array(a) = &*t.ty {
            return Some(coq_ident(&tokens(&a.len)));
        }
    }
    None
}

fn paren(s: &str) -> String {
    fn wrapped(s: &str, open: char, close: char) -> bool {
        if !(s.starts_with(open) && s.ends_with(close)) {
            return false;
        }
        let mut depth = 0i32;
        for (i, c) in s.char_indices() {
            if c == open {
                depth += 1;
            } else if c == close {
                depth -= 1;
                if depth == 0 && i != s.len() - 1 {
                    return false;
                }
            }
        }
        true
    }
    if s.contains(' ') && !wrapped(s, '(', ')') && !(s.starts_with("{|") && s.ends_with("|}")) && !wrapped(s, '[', ']') {
        format!("({})", s)
    } else {
        s.to_string()
    }
}

fn coq_ident(s: &str) -> String {
    match s {
        "len" => "len_".into(),
        "end" => "end_".into(),
        "in" => "in_".into(),
        "fix" => "fix_".into(),
        "at" => "at_".into(),
        "as" => "as_".into(),
        other => other.replace(' ', ""),
    }
}

fn coq_type(t: &Type, records: &HashMap<String, Vec<String>>) -> R<String> {
    if let Type::Reference(r) = t {
        return coq_type(&r.elem, records);
    }
    if let Type::Paren(p) = t {
        return coq_type(&p.elem, records);
    }
    let s = tokens(t).replace(' ', "");
    let s = s.replace("&'a", "").replace('&', "");
    Ok(match s.as_str() {
        "usize" | "u8" | "u32" | "u64" => "N".into(),
        "bool" => "bool".into(),
        "[u8]" | "Vec<u8>" | "SmallVec<[u8;SMALLVEC_LEN]>" => "bytes".into(),
        "SmallVec8<[u8]>" => "(list bytes)".into(),
        "Option<usize>" => "(option N)".into(),
        "UnionSelector" => "N".into(),
        "Self" => "SELF".into(),
        _ => {
            if let Some(inner) = s.strip_prefix("SmallVec8<").and_then(|x| x.strip_suffix('>')) {
                if records.contains_key(inner) {
                    return Ok(format!("(list {})", inner));
                }
            }
            if records.contains_key(&s) {
                s
            } else if s.starts_with("[u8;") {
                "bytes".into()
            } else {
                return Err(format!("unsupported type {}", s));
            }
        }
    })
}

fn main() {
    let repo = std::env::args().nth(1).unwrap_or_else(|| "/repo".into());
    let mut files: HashMap<String, syn::File> = HashMap::new();
    let mut wanted: Vec<&str> = TARGETS.iter().map(|t| t.file).collect();
    wanted.extend(RECORDS.iter().map(|r| r.0));
    wanted.extend(CONSTS.iter().map(|r| r.0));
    for f in wanted {
        if !files.contains_key(f) {
            let src = std::fs::read_to_string(format!("{}/{}", repo, f)).unwrap_or_default();
            match syn::parse_file(&src) {
                Ok(p) => {
                    files.insert(f.to_string(), p);
                }
                Err(e) => {
                    println!("(* rs2v: cannot parse {}: {} *)", f, e);
                }
            }
        }
    }
    let mut out = String::new();
    out.push_str("(* @generated by /verif/rs2v from the Rust sources of /repo -- do not edit.\n   Every definition below is a syntactic translation of the named source item (rules: rs2v/src/main.rs). *)\nFrom SSZ Require Import Base RustSem.\nOpen Scope N_scope.\n\nModule Gen.\n\n");

    // constants
    for (file, name) in CONSTS {
        let mut done = false;
        if let Some(f) = files.get(*file) {
            for it in &f.items {
                if let Item::Const(c) = it {
                    if c.ident == name {
                        if let Some(n) = int_lit(&c.expr) {
                            let _ = writeln!(out, "(* {} :: const {} *)\nDefinition {} : N := {}.\n", file, name, name, n);
                            done = true;
                        }
                    }
                }
            }
        }
        if !done {
            let _ = writeln!(out, "(* rs2v: UNTRANSLATABLE const {} in {} *)\n", name, file);
        }
    }

    // records
    let mut records: HashMap<String, Vec<String>> = HashMap::new();
    let mut rec_types: Vec<(String, Vec<(String, String)>)> = vec![];
    for (file, name) in RECORDS {
        if let Some(f) = files.get(*file) {
            for it in &f.items {
                if let Item::Struct(s) = it {
                    if s.ident == name {
                        let fields: Vec<String> = s.fields.iter().filter(|f| !tokens(&f.ty).contains("PhantomData")).filter_map(|f| f.ident.as_ref().map(|i| i.to_string())).collect();
                        records.insert(name.to_string(), fields);
                    }
                }
            }
        }
    }
    for (file, name) in RECORDS {
        if let Some(f) = files.get(*file) {
            for it in &f.items {
                if let Item::Struct(s) = it {
                    if s.ident == name {
                        let mut fs = vec![];
                        let mut ok = true;
                        for fld in s.fields.iter().filter(|f| !tokens(&f.ty).contains("PhantomData")) {
                            let fname = fld.ident.as_ref().unwrap().to_string();
                            match coq_type(&fld.ty, &records) {
                                Ok(t) => fs.push((fname, t)),
                                Err(e) => {
                                    let _ = writeln!(out, "(* rs2v: UNTRANSLATABLE struct {}: {} *)\n", name, e);
                                    ok = false;
                                }
                            }
                        }
                        if ok {
                            rec_types.push((name.to_string(), fs));
                        }
                    }
                }
            }
        }
    }
    for (name, fs) in &rec_types {
        let _ = writeln!(out, "Record {} := {{ {} }}.", name, fs.iter().map(|(f, t)| format!("{}_{} : {}", name, f, t)).collect::<Vec<_>>().join("; "));
        for (f, t) in fs {
            let parts: Vec<String> = fs.iter().map(|(g, _)| if g == f { format!("{}_{} := v", name, g) } else { format!("{}_{} := {}_{} r", name, g, name, g) }).collect();
            let _ = writeln!(out, "Definition set_{}_{} (r : {}) (v : {}) : {} := {{| {} |}}.", name, f, name, t, name, parts.join("; "));
        }
        out.push('\n');
    }

    // which targets return Result (so that calls to them are computations)
    let mut res_fns: HashMap<String, String> = HashMap::new();
    let mut found: Vec<(&Target, syn::Signature, Block)> = vec![];
    let mut mut_methods: Vec<String> = vec![];
    for t in TARGETS {
        let mut hit = None;
        if let Some(f) = files.get(t.file) {
            for it in &f.items {
                match it {
                    Item::Fn(func) if t.imp.is_empty() && func.sig.ident == t.name => hit = Some((func.sig.clone(), (*func.block).clone())),
                    Item::Impl(imp) if !t.imp.is_empty() && imp.trait_.is_none() => {
                        let self_ty = match &*imp.self_ty {
                            Type::Path(p) => path_last(&p.path),
                            _ => String::new(),
                        };
                        if self_ty == t.imp {
                            for ii in &imp.items {
                                if let ImplItem::Fn(m) = ii {
                                    if m.sig.ident == t.name {
                                        hit = Some((m.sig.clone(), m.block.clone()));
                                    }
                                }
                            }
                        }
                    }
                    _ => {}
                }
            }
        }
        match hit {
            Some((sig, block)) => {
                let ret = match &sig.output { ReturnType::Type(_, t) => tokens(&**t), ReturnType::Default => "()".into() };
                let key = if t.imp.is_empty() { t.name.to_string() } else { format!("{}::{}", t.imp, t.name) };
                let _ = ret;
                if sig.inputs.iter().any(|a| matches!(a, FnArg::Receiver(r) if r.mutability.is_some())) {
                    mut_methods.push(key.clone());
                }
                res_fns.insert(key.clone(), t.coq.to_string());
                if !res_fns.contains_key(t.name) {
                    res_fns.insert(t.name.to_string(), t.coq.to_string());
                }
                found.push((t, sig, block));
            }
            None => {
                let _ = writeln!(out, "(* rs2v: UNTRANSLATABLE {} {}::{}: item not found *)\n", t.file, t.imp, t.name);
            }
        }
    }

    for (t, sig, block) in &found {
        let mut cx = Cx::new(records.clone(), res_fns.clone());
        cx.mut_methods = mut_methods.clone();
        let mut params: Vec<String> = vec![];
        let mut has_self = false;
        let mut mut_self = false;
        let mut err: Option<String> = None;
        if !t.imp.is_empty() {
            cx.self_rec = Some(t.imp.to_string());
        }
        for a in &sig.inputs {
            match a {
                FnArg::Receiver(r) => {
                    has_self = true;
                    mut_self = r.mutability.is_some();
                    params.push(format!("(self : {})", t.imp));
                }
                FnArg::Typed(pt) => {
                    let name = match &*pt.pat { Pat::Ident(i) => coq_ident(&i.ident.to_string()), p => tokens(p) };
                    let tys = tokens(&*pt.ty);
                    if tys.len() == 1 && tys.chars().all(|c| c.is_uppercase()) {
                        // a generic `F: Fn(&mut Vec<u8>)` parameter
                        cx.fn_params.push(name.clone());
                        params.push(format!("({} : bytes -> bytes)", name));
                    } else {
                        match coq_type(&pt.ty, &records) {
                            Ok(ct) => params.push(format!("({} : {})", name, if ct == "SELF" { t.imp.to_string() } else { ct })),
                            Err(e) => err = Some(e),
                        }
                    }
                }
            }
        }
        let ret = match &sig.output { ReturnType::Type(_, t) => tokens(&**t), ReturnType::Default => "()".into() };
        let returns_result = ret.starts_with("Result");
        let body = if let Some(e) = err { Err(e) } else if mut_self {
            // state-passing: the value of the block is discarded, the final state is returned
            cx.block(&block.stmts, &mut |_cx, _v| Ok("Ok self".to_string())).map(|b| fix_mut_self_tail(&b))
        } else if returns_result {
            cx.block(&block.stmts, &mut |_cx, v| Ok(format!("Ok {}", paren(&v))))
        } else {
            cx.block(&block.stmts, &mut |_cx, v| Ok(format!("Ok {}", paren(&v))))
        };
        let _ = has_self;
        let src_name = if t.imp.is_empty() { t.name.to_string() } else { format!("{}::{}", t.imp, t.name) };
        match body {
            Ok(b) => {
                let _ = writeln!(out, "(* {} :: {} *)", t.file, src_name);
                for n in &cx.notes {
                    let _ = writeln!(out, "(* note: {} *)", n.replace('"', "'").replace("*)", "* )").replace("(*", "( *"));
                }
                let _ = writeln!(out, "Definition {} {} :=\n{}.\n", t.coq, params.join(" "), indent(&b));
            }
            Err(e) => {
                let _ = writeln!(out, "(* rs2v: UNTRANSLATABLE {} :: {}: {} *)\n", t.file, src_name, e.replace('"', "'").replace("*)", "* )").replace("(*", "( *"));
            }
        }
    }
    out.push_str("End Gen.\n");
    print!("{}", out);
}

/// In a `&mut self` method returning `Result<(), E>`, a tail `Ok(())` means "return the state".
fn fix_mut_self_tail(b: &str) -> String {
    b.replace("Ok tt", "Ok self")
}

fn indent(s: &str) -> String {
    let mut depth: i32 = 1;
    let mut out = String::new();
    for line in s.lines() {
        let l = line.trim();
        if l.starts_with("else") || l.starts_with("| ") || l == "end" {
            depth = std::cmp::max(1, depth - 1);
        }
        for _ in 0..depth {
            out.push_str("  ");
        }
        out.push_str(l);
        out.push('\n');
        if l.ends_with("then") || l.ends_with("else") || l.ends_with("=>") || l.ends_with("with") {
            depth += 1;
        }
    }
    out.trim_end().to_string()
}
