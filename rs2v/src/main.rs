fn main() {
    let src = std::fs::read_to_string(std::env::args().nth(1).unwrap()).unwrap();
    let f = syn::parse_file(&src).unwrap();
    println!("{} items", f.items.len());
}
