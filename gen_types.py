#!/usr/bin/env python3
"""Generates harness/src/generated.rs: the type catalogue (fixed part + machine-written
#[derive(Encode, Decode)] programs) together with the `Model` impl of every derived type, so
that the Rust type and its model type expression come from the same tree.

usage: gen_types.py <out.rs> [--extra-seed N --extra-count K]
The quick catalogue is seed-independent (so the compiled harness is reusable); the thorough
tier adds a seed-dependent set of derive programs.
"""
import random
import sys


class T:
    """A Rust type expression plus what the generator must know about it."""

    def __init__(self, rust, fixed, zero=False, ordk=False, sym=True, default=True, depth=0):
        self.rust = rust          # Rust type syntax
        self.fixed = fixed        # SSZ fixed-size
        self.zero = zero          # fixed-size with length 0
        self.ordk = ordk          # usable as BTreeSet / BTreeMap key (Ord matches val_cmp)
        self.sym = sym
        self.default = default    # implements Default
        self.depth = depth


def leaf(rust, fixed, **kw):
    return T(rust, fixed, **kw)


BIT_CAPS = [0, 1, 2, 7, 8, 9, 15, 16, 17, 31, 32, 33, 64, 65, 1024]

LEAVES_FIXED = [
    leaf("u8", True, ordk=True), leaf("u16", True, ordk=True), leaf("u32", True, ordk=True),
    leaf("u64", True, ordk=True), leaf("u128", True, ordk=True), leaf("usize", True, ordk=True),
    leaf("U128", True), leaf("U256", True), leaf("bool", True, ordk=True),
    leaf("NonZeroUsize", True, default=False),
    leaf("[u8; 1]", True, ordk=True), leaf("[u8; 4]", True, ordk=True), leaf("[u8; 32]", True, ordk=True),
    leaf("[u8; 33]", True, default=False),
    leaf("FixedBytes<4>", True), leaf("B256", True), leaf("Address", True), leaf("Bloom", True),
]
LEAVES_VAR = [leaf("Bytes", False), leaf("BitVectorDynamic", False, default=False)]
ZERO = leaf("[u8; 0]", True, zero=True, ordk=True)


def bitvector(n):
    return T("BitVector<typenum::U%d>" % n, True)


def bitlist(n):
    return T("BitList<typenum::U%d>" % n, False, default=False)


def vec(t):
    return T("Vec<%s>" % t.rust, False, ordk=t.ordk, sym=t.sym, depth=t.depth + 1)


def smallvec(t, n=4):
    return T("SmallVec<[%s; %d]>" % (t.rust, n), False, sym=t.sym, depth=t.depth + 1)


def option(t):
    return T("Option<%s>" % t.rust, False, ordk=t.ordk, sym=t.sym, depth=t.depth + 1)


def arc(t):
    return T("Arc<%s>" % t.rust, t.fixed, zero=t.zero, sym=t.sym, default=t.default, depth=t.depth + 1)


def tup(ts):
    return T("(%s,)" % ", ".join(t.rust for t in ts), all(t.fixed for t in ts),
             zero=all(t.zero for t in ts), ordk=all(t.ordk for t in ts),
             sym=all(t.sym for t in ts), default=all(t.default for t in ts),
             depth=1 + max(t.depth for t in ts))


def bset(t):
    assert t.ordk
    return T("BTreeSet<%s>" % t.rust, False, depth=t.depth + 1)


def bmap(k, v):
    assert k.ordk
    return T("BTreeMap<%s, %s>" % (k.rust, v.rust), False, sym=v.sym, depth=1 + max(k.depth, v.depth))


class Gen:
    def __init__(self):
        self.items = []       # Rust items (struct / enum / impl text)
        self.catalogue = []   # T
        self.names = set()
        self.legacy = {}      # rust type -> module name
        self.counter = 0
        self.derived = set()      # names of derive-generated types
        self.uses = {}            # derived name -> identifiers used by its fields (transitively)
        self.legacy_users = set() # derived names with a #[ssz(with)] field
        self.union_names = set()
        self.defns = []           # (rust format expression producing the defn s-expr, type name)

    def note(self, name, field_types, legacy=False, union=False):
        import re as _re
        self.derived.add(name)
        ids = set()
        for t in field_types:
            ids |= set(_re.findall(r"[A-Za-z_][A-Za-z0-9_]*", t.rust))
        for i in list(ids):
            ids |= self.uses.get(i, set())
        self.uses[name] = ids
        if legacy or (ids & self.legacy_users) or any(i.startswith("LegacyW_") for i in ids):
            self.legacy_users.add(name)
        if union:
            self.union_names.add(name)

    def fresh(self, prefix):
        self.counter += 1
        return "%s%d" % (prefix, self.counter)

    def add(self, t):
        if t.rust not in self.names:
            self.names.add(t.rust)
            self.catalogue.append(t)
        return t

    # ---- legacy four-byte option modules -------------------------------------------------
    def attr_noise(self, attr):
        """Other attributes around a field's `#[ssz(..)]`: doc comments, lints, `cfg_attr`.  They carry no SSZ
        meaning; a macro that finds its own attribute by position, or stops at the first foreign one, shows
        on these definitions only.  Deterministic: every fifth field is left alone."""
        self.noise_n = getattr(self, "noise_n", 0) + 1
        k = self.noise_n % 5
        if k == 0:
            return attr
        if k == 1:
            return "    /// a documented field\n" + attr
        if k == 2:
            return "    #[allow(dead_code)]\n" + attr
        if k == 3:
            return attr + "    #[doc = \"after\"]\n"
        return "    /// before\n    #[allow(dead_code)]\n" + attr + "    #[cfg_attr(all(), allow(dead_code))]\n"

    def legacy_mod(self, inner):
        if inner.rust in self.legacy:
            return self.legacy[inner.rust]
        m = "legacy_m%d" % (len(self.legacy) + 1)
        self.legacy[inner.rust] = m
        self.items.append("four_byte_option_impl!(%s, %s);" % (m, inner.rust))
        return m

    def legacy_standalone(self, inner):
        """A wrapper type that forwards Encode/Decode to the generated module."""
        m = self.legacy_mod(inner)
        name = "LegacyW_%s" % m
        if name in self.names:
            return [t for t in self.catalogue if t.rust == name][0]
        self.items.append("""
#[derive(Debug, Clone, PartialEq)]
pub struct {name}(pub Option<{inner}>);
impl Encode for {name} {{
    fn is_ssz_fixed_len() -> bool {{ {m}::encode::is_ssz_fixed_len() }}
    fn ssz_fixed_len() -> usize {{ {m}::encode::ssz_fixed_len() }}
    fn ssz_bytes_len(&self) -> usize {{ {m}::encode::ssz_bytes_len(&self.0) }}
    fn ssz_append(&self, buf: &mut Vec<u8>) {{ {m}::encode::ssz_append(&self.0, buf) }}
    fn as_ssz_bytes(&self) -> Vec<u8> {{ {m}::encode::as_ssz_bytes(&self.0) }}
}}
impl Decode for {name} {{
    fn is_ssz_fixed_len() -> bool {{ {m}::decode::is_ssz_fixed_len() }}
    fn ssz_fixed_len() -> usize {{ {m}::decode::ssz_fixed_len() }}
    fn from_ssz_bytes(bytes: &[u8]) -> Result<Self, DecodeError> {{ {m}::decode::from_ssz_bytes(bytes).map({name}) }}
}}
impl Model for {name} {{
    fn ty() -> String {{ format!("(legacy {{}})", <{inner} as Model>::ty()) }}
    fn to_model(&self) -> String {{ self.0.to_model() }}
    fn gen(r: &mut Rng, size: usize) -> Self {{ {name}(<Option<{inner}> as Model>::gen(r, size)) }}
    fn max_slot() -> usize {{ <Option<{inner}> as Model>::max_slot() }}
}}
""".format(name=name, inner=inner.rust, m=m))
        self.derived.discard(name)
        return self.add(T(name, False, default=False))

    # ---- derived containers ---------------------------------------------------------------
    def container(self, fields, name=None):
        """fields: list of (T, flags) with flags a set of 'skip_ser', 'skip_de', 'with'."""
        name = name or self.fresh("S")
        decl = []
        ser_fields, de_fields = [], []
        gens = []
        for i, (t, flags) in enumerate(fields):
            fname = "f%d" % i
            attrs = []
            if "skip_ser" in flags:
                attrs.append("skip_serializing")
            if "skip_de" in flags:
                attrs.append("skip_deserializing")
            rust_ty = t.rust
            ty_expr = "<%s as Model>::ty()" % t.rust
            dty_expr = "<%s as Model>::dec_ty()" % t.rust
            val_expr = "self.%s.to_model()" % fname
            dval_expr = "self.%s.to_model_dec()" % fname
            if "with" in flags:
                m = self.legacy_mod(t)
                attrs.append('with = "%s"' % m)
                rust_ty = "Option<%s>" % t.rust
                ty_expr = 'format!("(legacy {})", <%s as Model>::ty())' % t.rust
                dty_expr = ty_expr
            if "withbe" in flags:
                assert t.rust in ("u16", "u32")
                nb = 2 if t.rust == "u16" else 4
                attrs.append('with = "be_%s"' % t.rust)
                ty_expr = '"(bytesn %d)".to_string()' % nb
                dty_expr = ty_expr
                val_expr = 'format!("(x {:0%dx})", self.%s)' % (2 * nb, fname)
                dval_expr = val_expr
            if "withdecoy" in flags:
                attrs.append('with = "%s"' % DECOYS[t.rust][0])
            attr = ("    #[ssz(%s)]\n" % ", ".join(attrs)) if attrs else ""
            attr = self.attr_noise(attr)
            decl.append("%s    pub %s: %s," % (attr, fname, rust_ty))
            if "skip_ser" not in flags:
                ser_fields.append((fname, ty_expr, val_expr))
            if "skip_de" not in flags:
                de_fields.append((fname, dty_expr, dval_expr))
            both = "skip_ser" in flags and "skip_de" in flags
            if both or ("skip_de" in flags):
                # decode yields Default: generate Default so that equality can hold
                gens.append("%s: Default::default()," % fname)
            else:
                gens.append("%s: <%s as Model>::gen(r, size / 2)," % (fname, rust_ty))
        sym = all(("skip_ser" in fl) == ("skip_de" in fl) for _, fl in fields) and all(t.sym for t, _ in fields)
        live_ser = [t for t, fl in fields if "skip_ser" not in fl]
        live_de = [t for t, fl in fields if "skip_de" not in fl]

        def is_fixed(t, fl):
            if "withdecoy" in fl:
                return DECOYS[t.rust][1]
            return t.fixed and "with" not in fl
        fixed = all(is_fixed(t, fl) for t, fl in fields if "skip_ser" not in fl)
        zero = fixed and all(t.zero for t, fl in fields if "skip_ser" not in fl)
        self.items.append("""
#[derive(Debug, Clone, PartialEq, Encode, Decode)]
pub struct {name} {{
{decl}
}}
impl Model for {name} {{
    fn ty() -> String {{
        let parts: Vec<String> = vec![{tys}];
        format!("(cont 1{{}})", parts.iter().map(|p| format!(" {{}}", p)).collect::<String>())
    }}
    fn dec_ty() -> String {{
        let parts: Vec<String> = vec![{dtys}];
        format!("(cont 1{{}})", parts.iter().map(|p| format!(" {{}}", p)).collect::<String>())
    }}
    fn to_model(&self) -> String {{
        let parts: Vec<String> = vec![{vals}];
        format!("(c{{}})", parts.iter().map(|p| format!(" {{}}", p)).collect::<String>())
    }}
    fn to_model_dec(&self) -> String {{
        let parts: Vec<String> = vec![{dvals}];
        format!("(c{{}})", parts.iter().map(|p| format!(" {{}}", p)).collect::<String>())
    }}
    #[allow(unused_variables)]
    fn gen(r: &mut Rng, size: usize) -> Self {{
        {name} {{ {gens} }}
    }}
    fn symmetric() -> bool {{ {sym} }}
    fn max_slot() -> usize {{
        let v: Vec<usize> = vec![std::mem::size_of::<Self>(), {slots}];
        v.into_iter().max().unwrap()
    }}
}}
""".format(name=name, decl="\n".join(decl), slots=", ".join("<%s as Model>::max_slot()" % (("Option<%s>" % t.rust) if "with" in fl else t.rust) for t, fl in fields) or "0",
           tys=", ".join(e for _, e, _ in ser_fields), dtys=", ".join(e for _, e, _ in de_fields),
           vals=", ".join(v for _, _, v in ser_fields),
           dvals=", ".join(v for _, _, v in de_fields),
           gens=" ".join(gens), sym="true" if sym else "false"))
        fdesc = []
        for t, fl in fields:
            nat = len([1 for k in ("skip_ser", "skip_de", "with", "withbe", "withdecoy") if k in fl])
            if "with" in fl:
                wexpr = 'format!("(legacy {})", <%s as Model>::ty())' % t.rust
            elif "withbe" in fl:
                wexpr = '"(bytesn %d)".to_string()' % (2 if t.rust == "u16" else 4)
            elif "withdecoy" in fl:
                wexpr = DECOYS[t.rust][2]
            else:
                wexpr = '"0".to_string()'
            fdesc.append('format!("(f {} %d %d {} %d)", <%s as Model>::ty(), %s)' % (
                1 if "skip_ser" in fl else 0, 1 if "skip_de" in fl else 0, 1 if nat else 0, t.rust, wexpr))
        self.defns.append(('format!("(struct 0 container 1{}", vec![%s].iter().map(|p: &String| format!(" {}", p)).collect::<String>()) + ")"' % ", ".join(fdesc), name))
        has_default = False
        self.note(name, [t for t, _ in fields], legacy=any('with' in fl for _, fl in fields))
        return self.add(T(name, fixed, zero=zero, sym=sym, default=has_default,
                          depth=1 + max([t.depth for t, _ in fields] + [0])))

    def transparent_struct(self, inner, before=0, after=0, tuple_struct=False, name=None, de_only=False):
        """Exactly one live field; `before`/`after` skipped fields around it.  `de_only`: the skipped fields
        carry `skip_deserializing` alone (both derives key the live field of a transparent struct on that
        flag, so such a field is absent from the encoding too although its type implements Encode)."""
        name = name or self.fresh("W")
        skip_attr = "skip_deserializing" if de_only else "skip_serializing, skip_deserializing"
        skipped_ty = ["u8", "Vec<u16>", "u64"]
        fields = []
        for i in range(before):
            fields.append((skipped_ty[i % 3], True))
        fields.append((inner.rust, False))
        for i in range(after):
            fields.append((skipped_ty[(i + 1) % 3], True))
        if tuple_struct:
            decl = "pub struct %s(%s);" % (name, ", ".join(
                ("#[ssz(%s)] pub %s" % (skip_attr, ty)) if sk else ("pub %s" % ty)
                for ty, sk in fields))
            live = "self.%d" % before
            ctor = "%s(%s)" % (name, ", ".join(
                "Default::default()" if sk else "<%s as Model>::gen(r, size)" % ty for ty, sk in fields))
        else:
            decl = "pub struct %s {\n%s\n}" % (name, "\n".join(
                (self.attr_noise("    #[ssz(%s)]\n" % skip_attr) + "    pub f%d: %s," % (i, ty)) if sk
                else ("    pub f%d: %s," % (i, ty)) for i, (ty, sk) in enumerate(fields)))
            live = "self.f%d" % before
            ctor = "%s { %s }" % (name, " ".join(
                ("f%d: Default::default()," % i) if sk else ("f%d: <%s as Model>::gen(r, size)," % (i, ty))
                for i, (ty, sk) in enumerate(fields)))
        self.items.append("""
#[derive(Debug, Clone, PartialEq, Encode, Decode)]
#[ssz(struct_behaviour = "transparent")]
{decl}
impl Model for {name} {{
    fn ty() -> String {{ format!("(wrap {{}})", <{inner} as Model>::ty()) }}
    fn dec_ty() -> String {{ format!("(wrap {{}})", <{inner} as Model>::dec_ty()) }}
    fn to_model(&self) -> String {{ {live}.to_model() }}
    fn to_model_dec(&self) -> String {{ {live}.to_model_dec() }}
    fn gen(r: &mut Rng, size: usize) -> Self {{ {ctor} }}
    fn symmetric() -> bool {{ <{inner} as Model>::symmetric() }}
    fn max_slot() -> usize {{ std::cmp::max(std::mem::size_of::<Self>(), <{inner} as Model>::max_slot()) }}
}}
""".format(name=name, decl=decl, inner=inner.rust, live=live, ctor=ctor))
        fdesc = []
        for ty_s, sk in fields:
            fdesc.append('format!("(f {} %d %d 0 %d)", <%s as Model>::ty())' % (1 if (sk and not de_only) else 0, 1 if sk else 0, 1 if sk else 0, ty_s))
        self.defns.append(('format!("(struct 0 transparent %d{}", vec![%s].iter().map(|p: &String| format!(" {}", p)).collect::<String>()) + ")"' % (0 if tuple_struct else 1, ", ".join(fdesc)), name))
        self.note(name, [inner])
        return self.add(T(name, inner.fixed, zero=inner.zero, sym=inner.sym, default=False, depth=inner.depth + 1))

    def enum(self, behaviour, variants, name=None):
        """behaviour: union | transparent; variants: list of T."""
        name = name or self.fresh("Un" if behaviour == "union" else "TE")
        decl = "\n".join("    V%d(%s)," % (i, t.rust) for i, t in enumerate(variants))
        head = "union" if behaviour == "union" else "trans"
        tys = ", ".join("<%s as Model>::ty()" % t.rust for t in variants)
        arms = "\n".join('            %s::V%d(x) => format!("(un %d {})", x.to_model()),' % (name, i, i)
                         for i in range(len(variants)))
        darms = "\n".join('            %s::V%d(x) => format!("(un %d {})", x.to_model_dec()),' % (name, i, i)
                          for i in range(len(variants)))
        garms = "\n".join("            %d => %s::V%d(<%s as Model>::gen(r, size))," % (i, name, i, t.rust)
                          for i, t in enumerate(variants))
        self.items.append("""
#[derive(Debug, Clone, PartialEq, Encode, Decode)]
#[ssz(enum_behaviour = "{behaviour}")]
pub enum {name} {{
{decl}
}}
impl Model for {name} {{
    fn ty() -> String {{
        let parts: Vec<String> = vec![{tys}];
        format!("({head}{{}})", parts.iter().map(|p| format!(" {{}}", p)).collect::<String>())
    }}
    fn to_model(&self) -> String {{
        match self {{
{arms}
        }}
    }}
    fn to_model_dec(&self) -> String {{
        match self {{
{darms}
        }}
    }}
    fn gen(r: &mut Rng, size: usize) -> Self {{
        let n = {n};
        let i = match r.below(4) {{ 0 => 0, 1 => n - 1, _ => r.below(n) }};
        match i {{
{garms}
            _ => unreachable!(),
        }}
    }}
    fn symmetric() -> bool {{ true {syms} }}
    fn max_slot() -> usize {{
        let v: Vec<usize> = vec![std::mem::size_of::<Self>(), {slots}];
        v.into_iter().max().unwrap()
    }}
}}
""".format(name=name, behaviour=behaviour, decl=decl, tys=tys, head=head, arms=arms, darms=darms,
           garms=garms, n=len(variants),
           syms="".join(" && <%s as Model>::symmetric()" % t.rust for t in variants),
           slots=", ".join("<%s as Model>::max_slot()" % t.rust for t in variants)))
        vdesc = ['format!("(v {})", <%s as Model>::ty())' % t.rust for t in variants]
        self.defns.append(('format!("(enum 0 %s{}", vec![%s].iter().map(|p: &String| format!(" {}", p)).collect::<String>()) + ")"' % (behaviour, ", ".join(vdesc)), name))
        self.note(name, variants, union=(behaviour == 'union'))
        return self.add(T(name, False, sym=all(t.sym for t in variants), default=False,
                          depth=1 + max(t.depth for t in variants)))

    def tag_enum(self, n, name=None, discr=None):
        """discr: optional explicit Rust discriminants per variant (None = implicit).  The SSZ
        selector is the zero-based declaration index whatever the discriminants are."""
        name = name or self.fresh("Tag")
        discr = discr or [None] * n
        decl = "\n".join(("    V%d," % i) if discr[i] is None else ("    V%d = %d," % (i, discr[i])) for i in range(n))
        arms = "\n".join("            %s::V%d => %d," % (name, i, i) for i in range(n))
        garms = "\n".join("            %d => %s::V%d," % (i, name, i) for i in range(n))
        self.items.append("""
#[derive(Debug, Clone, Copy, PartialEq, Encode, Decode)]
#[ssz(enum_behaviour = "tag")]
pub enum {name} {{
{decl}
}}
impl Model for {name} {{
    fn ty() -> String {{ "(tag {n})".into() }}
    fn to_model(&self) -> String {{
        let i = match self {{
{arms}
        }};
        format!("(tag {{}})", i)
    }}
    fn gen(r: &mut Rng, _size: usize) -> Self {{
        let n = {n};
        let i = match r.below(4) {{ 0 => 0, 1 => n - 1, _ => r.below(n) }};
        match i {{
{garms}
            _ => unreachable!(),
        }}
    }}
}}
""".format(name=name, decl=decl, n=n, arms=arms, garms=garms))
        self.defns.append(('"(enum 0 tag%s)".to_string()' % (" (v)" * n), name))
        self.note(name, [])
        return self.add(T(name, True, default=False))


def build_fixed(g):
    """The seed-independent catalogue."""
    A = g.add
    leaves = [A(t) for t in LEAVES_FIXED + LEAVES_VAR]
    A(ZERO)
    bvs = [A(bitvector(n)) for n in BIT_CAPS]
    bls = [A(bitlist(n)) for n in BIT_CAPS]
    by = {t.rust: t for t in g.catalogue}
    u8, u16, u32, u64 = by["u8"], by["u16"], by["u32"], by["u64"]
    # each leaf once in each wrapper
    for t in leaves + [bvs[3], bvs[9], bls[0], bls[4], bls[9]]:
        A(vec(t)); A(option(t)); A(arc(t)); A(tup([u8, t])); A(tup([t, u16]))
    for t in [u8, u16, u64, by["U256"], by["bool"], by["[u8; 4]"], by["Bytes"], bls[4]]:
        A(smallvec(t))
    for t in [u8, u64, by["[u8; 4]"], by["bool"], vec(u8), tup([u8, u16]), option(u8), by["u128"]]:
        A(bset(t))
    for k in [u8, u64, by["[u8; 4]"], tup([u8, u16]), vec(u8)]:
        for v in [u8, by["U256"], vec(u16), by["Bytes"], option(u8), bls[4]]:
            A(bmap(k, v))
    # entries whose key or value is itself a variable-size tuple or a collection (an entry is a tuple: what a
    # variable-size member reports as its fixed part is read by the entry's encoder and by nobody else)
    vt = tup([u8, vec(u8)])
    A(bmap(u16, vt)); A(bmap(vt, u16)); A(bmap(u8, tup([vec(u8), vec(u16)]))); A(bset(vt))
    A(bmap(u8, bmap(u8, u8))); A(bmap(u8, bset(u16))); A(bmap(u8, option(vec(u8))))
    # nested lists / options
    A(vec(vec(u8))); A(vec(vec(u16))); A(vec(vec(vec(u16)))); A(vec(option(u16))); A(option(vec(u16)))
    A(option(option(u8))); A(vec(by["Bytes"])); A(vec(tup([u8, vec(u8)]))); A(vec(tup([u16, u32])))
    A(option(tup([u8, u16]))); A(arc(vec(u64))); A(vec(arc(vec(u8)))); A(vec(bls[9])); A(vec(bvs[9]))
    A(vec(option(by["U256"]))); A(vec(bset(u8))); A(vec(bmap(u8, vec(u8))))
    # degenerate zero-length items (C05; not round-trippable)
    A(vec(ZERO)); A(smallvec(ZERO)); A(bset(ZERO)); A(bmap(ZERO, ZERO)); A(tup([ZERO, ZERO])); A(vec(tup([ZERO, ZERO])))
    A(tup([u8, ZERO])); A(vec(tup([u8, ZERO]))); A(option(ZERO)); A(vec(bvs[0]))
    # a zero-length fixed item before / between variable items of one builder-decoded container
    A(tup([ZERO, vec(u8)])); A(tup([vec(u16), ZERO, vec(u16), u32])); A(tup([u8, ZERO, vec(u8), ZERO, vec(vec(u8))])); A(bmap(ZERO, vec(u8)))
    # maps whose entries are fixed-size with exactly one zero-length side
    A(bmap(u16, ZERO)); A(bmap(ZERO, u16)); A(bmap(u8, tup([ZERO, ZERO])))
    # tuples of every arity with fixed / variable fields in first / middle / last position
    v8 = vec(u8)
    for n in range(2, 13):
        base = [[u8, u16, u32, u64][i % 4] for i in range(n)]
        A(tup(base))
        for pos in sorted(set([0, n // 2, n - 1])):
            fs = list(base); fs[pos] = v8
            A(tup(fs))
        if n >= 3:
            fs = list(base); fs[0] = v8; fs[n - 1] = vec(u16); fs[n // 2] = by["Bytes"]
            A(tup(fs))
    A(tup([v8, v8])); A(tup([vec(u16), vec(u16), vec(u16)])); A(tup([option(u8), u8, option(u16)]))
    # legacy options
    for inner in [u16, by["[u8; 4]"], vec(u16), vec(vec(u8)), u64]:
        g.legacy_standalone(inner)
    # the suite's own shapes and boundary derive programs
    E = g.container([], name="Empty")
    A(vec(E))
    g.container([(u16, set()), (u32, set()), (by["[u8; 4]"], set())], name="FixedLen")
    g.container([(u16, set()), (vec(u16), set()), (u32, set())], name="VariableLen")
    g.container([(vec(u16), set()), (vec(u16), set()), (vec(u16), set())], name="ThreeVariableLen")
    fl = [t for t in g.catalogue if t.rust == "FixedLen"][0]
    vl = [t for t in g.catalogue if t.rust == "VariableLen"][0]
    A(vec(fl)); A(vec(vl)); A(option(vl)); A(tup([fl, vl]))
    g.container([(u8, set()), (vec(u8), {"skip_ser", "skip_de"}), (u16, set())])
    g.container([(vec(u8), {"skip_ser", "skip_de"}), (vec(u8), set()), (u16, {"skip_ser", "skip_de"})])
    g.container([(u8, {"skip_ser", "skip_de"})])
    g.container([(u8, set()), (u16, {"skip_ser"}), (vec(u8), set())])          # asymmetric: encode only skips
    g.container([(u8, set()), (u16, {"skip_de"}), (vec(u8), set())])           # asymmetric: decode only skips
    g.container([(u16, {"with"}), (u8, set())])
    g.container([(u8, set()), (vec(u16), {"with"}), (u16, {"with"}), (vec(u8), set())])
    g.container([(by["[u8; 4]"], {"with"}), (vec(vec(u8)), {"with"})])
    g.container([(fl, set()), (vl, set()), (bls[9], set()), (bvs[9], set())])
    # fixed-size custom field codecs (big-endian), in all-fixed and in mixed containers
    g.container([(u16, set()), (u32, {"withbe"}), (u8, set())])
    g.container([(u16, {"withbe"})])
    g.container([(u32, {"withbe"}), (vec(u8), set()), (u16, {"withbe"})])
    g.container([(u8, set()), (u16, {"withbe"}), (vec(u16), {"with"}), (u32, {"withbe", "skip_ser", "skip_de"})])
    # a custom codec on a field that is skipped in one direction only: the codec still applies in the other
    g.container([(u8, set()), (u16, {"withbe", "skip_ser"}), (u8, set())])
    g.container([(u8, set()), (u16, {"withbe", "skip_de"}), (u8, set())])
    g.container([(u32, {"withbe", "skip_de"}), (vec(u8), set())])
    g.container([(vec(u8), set()), (u32, {"withbe", "skip_ser"})])
    g.container([(u8, set()), (vec(u16), {"with", "skip_ser"}), (u16, set())])
    g.container([(u8, set()), (vec(u16), {"with", "skip_de"}), (u16, set())])
    # custom field codecs of another size class than the field type's own impls (decoys)
    dF = T("DecoyF", True, default=True); dV = T("DecoyV", False, default=True); dL = T("DecoyL", True, default=True)
    wd = {"withdecoy"}
    g.container([(dV, wd)])
    g.container([(dL, wd)])
    g.container([(dF, wd)])
    g.container([(u8, set()), (dV, wd), (u16, set())])
    g.container([(dL, wd), (dV, wd)])
    g.container([(u8, set()), (dF, wd), (u16, set())])
    g.container([(dV, wd), (vec(u8), set()), (dL, wd)])
    g.container([(dF, wd), (dV, wd), (dF, wd), (dL, wd)])
    g.container([(vec(u16), set()), (dL, wd), (dF, wd)])
    dc = g.container([(dL, wd), (dV, wd), (u8, set())])
    A(vec(dc)); A(option(dc)); A(tup([u8, dc, vec(u8)]))
    dcv = g.container([(u16, set()), (dF, wd)])
    A(vec(dcv)); A(tup([dcv, dc]))
    g.container([(dc, set()), (dcv, set()), (dV, wd)])
    g.container([(u8, set()), (ZERO, set())])
    g.container([(ZERO, set())])
    g.container([(ZERO, set()), (vec(u8), set())])
    g.container([(vec(u16), set()), (ZERO, set()), (vec(u16), set()), (u32, set())])
    # transparent structs
    for inner, b, a, tu in [(u8, 0, 0, False), (vec(u8), 0, 0, True), (u64, 1, 0, False), (vec(u16), 0, 1, True),
                            (vl, 1, 1, False), (bls[9], 2, 1, True), (fl, 0, 2, False),
                            (u64, 0, 0, True), (u16, 1, 0, True), (by["[u8; 33]"], 0, 1, True), (bvs[9], 0, 0, True),
                            (by["[u8; 32]"], 0, 0, False)]:
        w = g.transparent_struct(inner, b, a, tu)
        # the wrapper next to variable-size neighbours: its metadata feeds the parent's offsets
        g.container([(w, set()), (vec(u8), set())])
        A(tup([vec(u8), w, vec(u16)])); A(vec(w)); A(option(w))
    # transparent structs whose skipped fields carry skip_deserializing only (round 10: A18)
    for inner, b, a, tu in [(vec(u8), 1, 0, False), (u64, 1, 0, True), (vec(u16), 2, 1, False), (u16, 0, 1, True)]:
        w = g.transparent_struct(inner, b, a, tu, de_only=True)
        g.container([(u8, set()), (w, set()), (vec(u8), set())]); A(vec(w)); A(option(w))
    # enums
    for n in [1, 2, 3, 127, 128]:
        tg = g.tag_enum(n)
        A(vec(tg)); A(option(tg)); A(tup([tg, u8]))
        pool = [u8, vec(u8), u16, by["Bytes"], option(u8), fl, vl]
        g.enum("union", [pool[i % len(pool)] for i in range(n)])
    # explicit Rust discriminants do not move the SSZ selector
    for n, d in [(3, [1, None, None]), (3, [16, 1, 8]), (2, [100, 3]), (4, [None, 5, None, 2])]:
        tg = g.tag_enum(n, discr=d)
        A(vec(tg)); A(tup([tg, vec(u8)]))
    ut = [t for t in g.catalogue if t.rust.startswith("Tag")][1]
    g.enum("union", [ut, vec(ut)])
    g.transparent_struct(ut, 0, 0, True)
    g.container([(ut, set()), (u8, set())])
    g.enum("union", [u8, u8]); g.enum("union", [vec(u8), vec(u16)])
    un = [t for t in g.catalogue if t.rust.startswith("Un") and t.rust[2:].isdigit()]
    A(vec(un[1])); A(option(un[2])); A(tup([un[1], un[2]]))
    g.enum("transparent", [vec(u8), vec(u16)]); g.enum("transparent", [vec(u16), vec(u8)])
    g.enum("transparent", [vl, by["Bytes"]]); g.enum("transparent", [option(u8), vec(u32), by["Bytes"]])
    # earlier variants that reject with an application-level error while a later one accepts
    g.enum("transparent", [vec(by["bool"]), vec(u8)]); g.enum("transparent", [bls[4], by["Bytes"]])
    g.enum("transparent", [vec(by["NonZeroUsize"]), vec(u64), by["Bytes"]])
    # a fixed-size first variant with invalid bit patterns and a later variant that accepts inputs of the
    # same length (round 10: A20)
    g.enum("transparent", [by["bool"], u8]); g.enum("transparent", [ut, by["Bytes"]])
    g.enum("transparent", [by["NonZeroUsize"], u64]); g.enum("transparent", [bvs[9], u16, by["Bytes"]])
    g.enum("transparent", [u16, by["bool"], vec(u8)])
    # generic structs instantiated at several parameters
    g.items.append("""
#[derive(Debug, Clone, PartialEq, Encode, Decode)]
pub struct Gen2<A: Encode + Decode, B: Encode + Decode> {
    pub a: A,
    pub b: Vec<B>,
    pub c: B,
}
impl<A: Encode + Decode + Model, B: Encode + Decode + Model> Model for Gen2<A, B> {
    fn ty() -> String { format!("(cont 1 {} (list {}) {})", A::ty(), B::ty(), B::ty()) }
    fn dec_ty() -> String { format!("(cont 1 {} (list {}) {})", A::dec_ty(), B::dec_ty(), B::dec_ty()) }
    fn to_model(&self) -> String { format!("(c {} {} {})", self.a.to_model(), self.b.to_model(), self.c.to_model()) }
    fn to_model_dec(&self) -> String { format!("(c {} {} {})", self.a.to_model_dec(), self.b.to_model_dec(), self.c.to_model_dec()) }
    fn gen(r: &mut Rng, size: usize) -> Self { Gen2 { a: A::gen(r, size / 2), b: <Vec<B>>::gen(r, size / 2), c: B::gen(r, size / 2) } }
    fn symmetric() -> bool { A::symmetric() && B::symmetric() }
    fn max_slot() -> usize { std::cmp::max(std::mem::size_of::<Self>(), std::cmp::max(A::max_slot(), B::max_slot())) }
}
""")
    g.derived.add("Gen2")
    for a, b in [(u8, u16), (vec(u8), u8), (u64, vec(u16)), (fl, vl)]:
        A(T("Gen2<%s, %s>" % (a.rust, b.rust), False, sym=True, default=False, depth=2))
    # a generic container whose size class depends on its parameter, instantiated several times in
    # one process (every instantiation of one generic definition lands in the same shard): anything
    # shared between monomorphisations (a `static`, a cache) shows as a wrong answer for one of them
    g.items.append("""
#[derive(Debug, Clone, PartialEq, Encode, Decode)]
pub struct Gen1<T: Encode + Decode> {
    pub a: T,
    pub b: T,
}
impl<T: Encode + Decode + Model> Model for Gen1<T> {
    fn ty() -> String { format!("(cont 1 {} {})", T::ty(), T::ty()) }
    fn dec_ty() -> String { format!("(cont 1 {} {})", T::dec_ty(), T::dec_ty()) }
    fn to_model(&self) -> String { format!("(c {} {})", self.a.to_model(), self.b.to_model()) }
    fn to_model_dec(&self) -> String { format!("(c {} {})", self.a.to_model_dec(), self.b.to_model_dec()) }
    fn gen(r: &mut Rng, size: usize) -> Self { Gen1 { a: T::gen(r, size / 2), b: T::gen(r, size / 2) } }
    fn symmetric() -> bool { T::symmetric() }
    fn max_slot() -> usize { std::cmp::max(std::mem::size_of::<Self>(), T::max_slot()) }
}
#[derive(Debug, Clone, PartialEq, Encode, Decode)]
pub struct Outer1<T: Encode + Decode> {
    pub head: Gen1<T>,
    pub tail: Vec<u8>,
}
impl<T: Encode + Decode + Model> Model for Outer1<T> {
    fn ty() -> String { format!("(cont 1 {} (list (uint 1)))", <Gen1<T>>::ty()) }
    fn dec_ty() -> String { format!("(cont 1 {} (list (uint 1)))", <Gen1<T>>::dec_ty()) }
    fn to_model(&self) -> String { format!("(c {} {})", self.head.to_model(), self.tail.to_model()) }
    fn to_model_dec(&self) -> String { format!("(c {} {})", self.head.to_model_dec(), self.tail.to_model_dec()) }
    fn gen(r: &mut Rng, size: usize) -> Self { Outer1 { head: <Gen1<T>>::gen(r, size), tail: <Vec<u8>>::gen(r, size / 2) } }
    fn symmetric() -> bool { T::symmetric() }
    fn max_slot() -> usize { std::cmp::max(std::mem::size_of::<Self>(), <Gen1<T>>::max_slot()) }
}
""")
    g.derived.add("Gen1"); g.derived.add("Outer1")
    for a in [u8, u64, u16, by["[u8; 4]"], vec(u8), by["bool"], vec(vec(u16))]:
        g1 = A(T("Gen1<%s>" % a.rust, a.fixed, sym=True, default=False, depth=a.depth + 1))
        if a.rust in ("u64", "u8", "Vec<u8>"):
            A(vec(g1)); A(option(g1))
            A(T("Outer1<%s>" % a.rust, False, sym=True, default=False, depth=a.depth + 2))
    for c in const_generic_definitions(g, A, T):
        if c.rust in ("CArr<4>", "CPkt<4>"):
            A(vec(c)); A(option(c))


def const_generic_definitions(g, A, T):
    """Containers over a const generic parameter (the parameter spelled `N`, `LEN` and `M`: names a template's own
    locals could shadow), each instantiated at several values in one process, with values equal to and different from
    the number of fields."""
    g.items.append("""
#[derive(Debug, Clone, PartialEq, Encode, Decode)]
pub struct CArr<const N: usize> {
    pub tag: [u8; N],
    pub id: u16,
}
impl<const N: usize> Model for CArr<N> {
    fn ty() -> String { format!("(cont 1 (bytesn {}) (uint 2))", N) }
    fn to_model(&self) -> String { format!("(c {} {})", self.tag.to_model(), self.id.to_model()) }
    fn gen(r: &mut Rng, size: usize) -> Self { CArr { tag: <[u8; N]>::gen(r, size), id: u16::gen(r, size) } }
}
#[derive(Debug, Clone, PartialEq, Encode, Decode)]
pub struct CPkt<const N: usize> {
    pub id: u16,
    pub tag: [u8; N],
    pub body: Vec<u8>,
}
impl<const N: usize> Model for CPkt<N> {
    fn ty() -> String { format!("(cont 1 (uint 2) (bytesn {}) (list (uint 1)))", N) }
    fn to_model(&self) -> String { format!("(c {} {} {})", self.id.to_model(), self.tag.to_model(), self.body.to_model()) }
    fn gen(r: &mut Rng, size: usize) -> Self { CPkt { id: u16::gen(r, size), tag: <[u8; N]>::gen(r, size), body: <Vec<u8>>::gen(r, size / 2) } }
}
#[derive(Debug, Clone, PartialEq, Encode, Decode)]
pub struct CLen<const LEN: usize, const M: usize> {
    pub head: FixedBytes<LEN>,
    pub items: Vec<[u8; M]>,
    pub last: [u8; M],
}
impl<const LEN: usize, const M: usize> Model for CLen<LEN, M> {
    fn ty() -> String { format!("(cont 1 (bytesn {}) (list (bytesn {})) (bytesn {}))", LEN, M, M) }
    fn to_model(&self) -> String { format!("(c {} {} {})", self.head.to_model(), self.items.to_model(), self.last.to_model()) }
    fn gen(r: &mut Rng, size: usize) -> Self { CLen { head: <FixedBytes<LEN>>::gen(r, size), items: <Vec<[u8; M]>>::gen(r, size / 2), last: <[u8; M]>::gen(r, size) } }
}
""")
    # field names that are also the names of locals the templates are likely to use (not `bytes` or `decoder`: on the pinned tree a
    # field of either name does not compile -- the decode template's own `bytes` parameter / `decoder` local is captured
    # by the field initialisers -- so such a definition is one the macro does not accept)
    g.items.append("""
#[derive(Debug, Clone, PartialEq, Encode, Decode)]
pub struct Names {
    pub data: Vec<u8>,
    pub buf: u16,
    pub offset: Vec<u16>,
    pub encoder: u8,
    pub variable_bytes: Vec<u8>,
    pub builder: u32,
    pub len: u8,
    pub items: Vec<u8>,
}
impl Model for Names {
    fn ty() -> String { "(cont 1 (list (uint 1)) (uint 2) (list (uint 2)) (uint 1) (list (uint 1)) (uint 4) (uint 1) (list (uint 1)))".to_string() }
    fn to_model(&self) -> String {
        format!("(c {} {} {} {} {} {} {} {})", self.data.to_model(), self.buf.to_model(), self.offset.to_model(), self.encoder.to_model(),
                self.variable_bytes.to_model(), self.builder.to_model(), self.len.to_model(), self.items.to_model())
    }
    fn gen(r: &mut Rng, size: usize) -> Self {
        Names { data: <Vec<u8>>::gen(r, size / 3), buf: u16::gen(r, size), offset: <Vec<u16>>::gen(r, size / 3), encoder: u8::gen(r, size),
                variable_bytes: <Vec<u8>>::gen(r, size / 3), builder: u32::gen(r, size), len: u8::gen(r, size), items: <Vec<u8>>::gen(r, size / 3) }
    }
}
""")
    g.derived.add("Names")
    A(T("Names", False, sym=True, default=False, depth=2))
    # a lifetime-parameterised definition (Encode only: its fields are references) behind an owning holder whose decoder is
    # the derived decoder of an owned twin; and a generic definition whose bounds sit in a `where` clause
    g.items.append("""
#[derive(Encode)]
pub struct RefView<'a, 'b: 'a> {
    pub a: &'a u16,
    pub b: &'b Vec<u8>,
    pub c: &'a [u8; 3],
}
#[derive(Debug, Clone, PartialEq, Decode)]
pub struct RefOwned {
    pub a: u16,
    pub b: Vec<u8>,
    pub c: [u8; 3],
}
#[derive(Debug, Clone, PartialEq)]
pub struct RefHolder(pub RefOwned);
impl Encode for RefHolder {
    fn is_ssz_fixed_len() -> bool { <RefView<'static, 'static> as Encode>::is_ssz_fixed_len() }
    fn ssz_fixed_len() -> usize { <RefView<'static, 'static> as Encode>::ssz_fixed_len() }
    fn ssz_bytes_len(&self) -> usize { RefView { a: &self.0.a, b: &self.0.b, c: &self.0.c }.ssz_bytes_len() }
    fn ssz_append(&self, buf: &mut Vec<u8>) { RefView { a: &self.0.a, b: &self.0.b, c: &self.0.c }.ssz_append(buf) }
}
impl Decode for RefHolder {
    fn is_ssz_fixed_len() -> bool { <RefOwned as Decode>::is_ssz_fixed_len() }
    fn ssz_fixed_len() -> usize { <RefOwned as Decode>::ssz_fixed_len() }
    fn from_ssz_bytes(bytes: &[u8]) -> Result<Self, DecodeError> { RefOwned::from_ssz_bytes(bytes).map(RefHolder) }
}
impl Model for RefHolder {
    fn ty() -> String { "(cont 1 (uint 2) (list (uint 1)) (bytesn 3))".to_string() }
    fn to_model(&self) -> String { format!("(c {} {} {})", self.0.a.to_model(), self.0.b.to_model(), self.0.c.to_model()) }
    fn gen(r: &mut Rng, size: usize) -> Self { RefHolder(RefOwned { a: u16::gen(r, size), b: <Vec<u8>>::gen(r, size / 2), c: <[u8; 3]>::gen(r, size) }) }
}
#[derive(Debug, Clone, PartialEq, Encode, Decode)]
pub struct WhereGen<T, U>
where
    T: Encode + Decode,
    U: Encode + Decode + Clone,
{
    pub a: T,
    pub b: Vec<U>,
    pub c: U,
}
impl<T: Encode + Decode + Model, U: Encode + Decode + Clone + Model> Model for WhereGen<T, U> {
    fn ty() -> String { format!("(cont 1 {} (list {}) {})", T::ty(), U::ty(), U::ty()) }
    fn dec_ty() -> String { format!("(cont 1 {} (list {}) {})", T::dec_ty(), U::dec_ty(), U::dec_ty()) }
    fn to_model(&self) -> String { format!("(c {} {} {})", self.a.to_model(), self.b.to_model(), self.c.to_model()) }
    fn to_model_dec(&self) -> String { format!("(c {} {} {})", self.a.to_model_dec(), self.b.to_model_dec(), self.c.to_model_dec()) }
    fn gen(r: &mut Rng, size: usize) -> Self { WhereGen { a: T::gen(r, size / 2), b: <Vec<U>>::gen(r, size / 2), c: U::gen(r, size / 2) } }
    fn symmetric() -> bool { T::symmetric() && U::symmetric() }
    fn max_slot() -> usize { std::cmp::max(std::mem::size_of::<Self>(), std::cmp::max(T::max_slot(), U::max_slot())) }
}
""")
    for n in ("RefView", "RefOwned", "WhereGen"):
        g.derived.add(n)
    A(T("RefHolder", False, sym=True, default=False, depth=2))
    for a_, b_ in (("u8", "u16"), ("Vec<u8>", "u8"), ("u64", "[u8; 4]")):
        A(T("WhereGen<%s, %s>" % (a_, b_), False, sym=True, default=False, depth=2))
    for n in ("CArr", "CPkt", "CLen"):
        g.derived.add(n)
    out = []
    for n in (1, 2, 4, 7):
        out.append(A(T("CArr<%d>" % n, True, sym=True, default=False, depth=1)))
    for n in (1, 3, 4, 33):
        out.append(A(T("CPkt<%d>" % n, False, sym=True, default=False, depth=2)))
    for l, m in ((3, 1), (4, 2), (1, 5)):
        out.append(A(T("CLen<%d, %d>" % (l, m), False, sym=True, default=False, depth=2)))
    return out


def random_programs(g, rnd, count):
    """Machine-written derive inputs."""
    pool = [t for t in g.catalogue if t.depth <= 2 and not t.zero and t.sym
            and not t.rust.startswith("TE") and "Bloom" not in t.rust and "U1024" not in t.rust]
    fixed_pool = [t for t in pool if t.fixed]
    var_pool = [t for t in pool if not t.fixed]
    simple = [t for t in pool if t.depth == 0]
    made = []
    for i in range(count):
        kind = rnd.choice(["cont"] * 6 + ["wrap", "union", "trans", "contfixed"])
        src = pool + made
        if kind in ("cont", "contfixed"):
            n = rnd.choice([0, 1, 1, 2, 2, 3, 3, 4, 5, 6, 8])
            fields = []
            for _ in range(n):
                t = rnd.choice(fixed_pool if kind == "contfixed" else src)
                flags = set()
                x = rnd.random()
                if x < 0.12 and t.default:
                    flags = {"skip_ser", "skip_de"}
                elif x < 0.24 and not t.rust.startswith(("TE",)) and t.depth <= 1 and kind == "cont":
                    flags = {"with"}
                elif x < 0.40 and t.rust in ("u16", "u32"):
                    flags = {"withbe"}
                fields.append((t, flags))
            made.append(g.container(fields))
        elif kind == "wrap":
            t = rnd.choice(src)
            made.append(g.transparent_struct(t, rnd.choice([0, 0, 1, 2]), rnd.choice([0, 0, 1]), rnd.random() < 0.5))
        elif kind == "union":
            n = rnd.choice([1, 2, 2, 3, 4, 5, 9])
            made.append(g.enum("union", [rnd.choice(src) for _ in range(n)]))
        else:
            n = rnd.choice([1, 2, 3])
            vs = [rnd.choice([t for t in src if not t.fixed]) for _ in range(n)]
            made.append(g.enum("transparent", vs))
        last = made[-1]
        if rnd.random() < 0.3:
            g.add(vec(last))
        if rnd.random() < 0.15:
            g.add(option(last))
    return made


def tags_of(t, g):
    """Tags used to select catalogue entries per property."""
    import re as _re
    tags = set()
    r = t.rust
    idents = set(_re.findall(r"[A-Za-z_][A-Za-z0-9_]*", r))
    derived_names = g.derived
    if idents & derived_names:
        tags.add("derive")
    closure = set(idents)
    for name in idents & set(g.uses.keys()):
        closure |= g.uses[name]
    if any(i.startswith("LegacyW_") for i in closure) or (closure & g.legacy_users):
        tags.add("legacy")
    if "BTreeMap" in closure or "BTreeSet" in closure:
        tags.add("coll")
    if "Option" in closure or any(i in g.union_names for i in closure):
        tags.add("union")
    if any(i in ("BitVector", "BitList", "BitVectorDynamic") for i in closure):
        tags.add("bitfield")
    if t.fixed:
        tags.add("fixed")
    for gname in ("Gen1", "Gen2", "Outer1", "CArr", "CPkt", "CLen", "WhereGen"):
        if gname + "<" in r:
            tags.add("group:Gen")       # all instantiations of the generic definitions: one shard
    return tags


HEADER = """// @generated by /verif/gen_types.py -- do not edit.
#![allow(non_camel_case_types, non_snake_case, dead_code, unused_imports, clippy::all)]
use crate::model::Model;
use crate::rng::Rng;
use crate::runner::{ops_of, run_type, Ctx, TypeOps};
use alloy_primitives::{Address, Bloom, Bytes, FixedBytes, B256, U128, U256};
use smallvec::SmallVec;
use ssz::{four_byte_option_impl, BitList, BitVector, BitVectorDynamic, Decode, DecodeError, Encode};
use ssz_derive::{Decode, Encode};
use std::collections::{BTreeMap, BTreeSet};
use std::num::NonZeroUsize;
use std::sync::Arc;

/// Fixed-size custom field codecs for `#[ssz(with = "..")]`: big-endian integers.  On the wire a
/// `u32` field coded by `be_u32` is four arbitrary bytes, i.e. the schema `(bytesn 4)`; the value
/// is presented to the model as those bytes in wire order.
macro_rules! be_codec {
    ($m:ident, $t:ty, $n:expr) => {
        pub mod $m {
            pub mod encode {
                pub fn is_ssz_fixed_len() -> bool { true }
                pub fn ssz_fixed_len() -> usize { $n }
                pub fn ssz_bytes_len(_v: &$t) -> usize { $n }
                pub fn ssz_append(v: &$t, buf: &mut Vec<u8>) { buf.extend_from_slice(&v.to_be_bytes()) }
            }
            pub mod decode {
                pub fn is_ssz_fixed_len() -> bool { true }
                pub fn ssz_fixed_len() -> usize { $n }
                pub fn from_ssz_bytes(bytes: &[u8]) -> Result<$t, ssz::DecodeError> {
                    if bytes.len() != $n {
                        return Err(ssz::DecodeError::InvalidByteLength { len: bytes.len(), expected: $n });
                    }
                    let mut a = [0u8; $n];
                    a.copy_from_slice(bytes);
                    Ok(<$t>::from_be_bytes(a))
                }
            }
        }
    };
}
be_codec!(be_u16, u16, 2);
be_codec!(be_u32, u32, 4);

/// Field types whose *native* `Encode` / `Decode` impls are decoys of another size class than the
/// `#[ssz(with = "..")]` codec they are always used with: a derived container must take every piece
/// of metadata and every byte of such a field from the codec module, never from the field type.
/// `Model` describes the codec's view (schema and value).
macro_rules! decoy_native {
    ($t:ident, $fixed:expr, $len:expr) => {
        impl Encode for $t {
            fn is_ssz_fixed_len() -> bool { $fixed }
            fn ssz_fixed_len() -> usize { $len }
            fn ssz_bytes_len(&self) -> usize { $len }
            fn ssz_append(&self, buf: &mut Vec<u8>) { buf.extend_from_slice(&[0xEE; $len]) }
        }
        impl Decode for $t {
            fn is_ssz_fixed_len() -> bool { $fixed }
            fn ssz_fixed_len() -> usize { $len }
            fn from_ssz_bytes(_bytes: &[u8]) -> Result<Self, DecodeError> {
                Err(DecodeError::BytesInvalid("decoy native impl consulted".into()))
            }
        }
    };
}
/// codec: a byte list (variable-size); native decoy: fixed, 2 bytes
#[derive(Debug, Clone, PartialEq, Default)]
pub struct DecoyF(pub Vec<u8>);
decoy_native!(DecoyF, true, 2);
pub mod decoy_f {
    pub mod encode {
        pub fn is_ssz_fixed_len() -> bool { false }
        pub fn ssz_fixed_len() -> usize { 4 }
        pub fn ssz_bytes_len(v: &super::super::DecoyF) -> usize { v.0.len() }
        pub fn ssz_append(v: &super::super::DecoyF, buf: &mut Vec<u8>) { buf.extend_from_slice(&v.0) }
    }
    pub mod decode {
        pub fn is_ssz_fixed_len() -> bool { false }
        pub fn ssz_fixed_len() -> usize { 4 }
        pub fn from_ssz_bytes(bytes: &[u8]) -> Result<super::super::DecoyF, ssz::DecodeError> { Ok(super::super::DecoyF(bytes.to_vec())) }
    }
}
impl Model for DecoyF {
    fn ty() -> String { "bytelist".into() }
    fn to_model(&self) -> String { if self.0.is_empty() { "(x)".into() } else { format!("(x {})", crate::model::hex(&self.0)) } }
    fn gen(r: &mut Rng, size: usize) -> Self { let n = r.below(size + 1); DecoyF(r.bytes(n)) }
}
/// codec: exactly three bytes (fixed); native decoy: variable-size
#[derive(Debug, Clone, PartialEq, Default)]
pub struct DecoyV(pub [u8; 3]);
decoy_native!(DecoyV, false, 4);
/// codec: exactly two bytes (fixed); native decoy: fixed, 5 bytes
#[derive(Debug, Clone, PartialEq, Default)]
pub struct DecoyL(pub [u8; 2]);
decoy_native!(DecoyL, true, 5);
macro_rules! decoy_fixed_codec {
    ($m:ident, $t:ident, $n:expr) => {
        pub mod $m {
            pub mod encode {
                pub fn is_ssz_fixed_len() -> bool { true }
                pub fn ssz_fixed_len() -> usize { $n }
                pub fn ssz_bytes_len(_v: &super::super::$t) -> usize { $n }
                pub fn ssz_append(v: &super::super::$t, buf: &mut Vec<u8>) { buf.extend_from_slice(&v.0) }
            }
            pub mod decode {
                pub fn is_ssz_fixed_len() -> bool { true }
                pub fn ssz_fixed_len() -> usize { $n }
                pub fn from_ssz_bytes(bytes: &[u8]) -> Result<super::super::$t, ssz::DecodeError> {
                    if bytes.len() != $n {
                        return Err(ssz::DecodeError::InvalidByteLength { len: bytes.len(), expected: $n });
                    }
                    let mut a = [0u8; $n];
                    a.copy_from_slice(bytes);
                    Ok(super::super::$t(a))
                }
            }
        }
        impl Model for $t {
            fn ty() -> String { format!("(bytesn {})", $n) }
            fn to_model(&self) -> String { format!("(x {})", crate::model::hex(&self.0)) }
            fn gen(r: &mut Rng, _size: usize) -> Self { let b = r.bytes($n); let mut a = [0u8; $n]; a.copy_from_slice(&b); $t(a) }
        }
    };
}
decoy_fixed_codec!(decoy_v, DecoyV, 3);
decoy_fixed_codec!(decoy_l, DecoyL, 2);
"""

DECOYS = {"DecoyF": ("decoy_f", False, '"bytelist".to_string()'),
          "DecoyV": ("decoy_v", True, '"(bytesn 3)".to_string()'),
          "DecoyL": ("decoy_l", True, '"(bytesn 2)".to_string()')}


def main():
    out = sys.argv[1]
    extra_seed, extra_count = None, 0
    if "--extra-seed" in sys.argv:
        extra_seed = int(sys.argv[sys.argv.index("--extra-seed") + 1])
        extra_count = int(sys.argv[sys.argv.index("--extra-count") + 1])
    g = Gen()
    build_fixed(g)
    random_programs(g, random.Random(20260929), 90)
    if extra_seed is not None:
        random_programs(g, random.Random(extra_seed), extra_count)
    body = [HEADER]
    body.extend(g.items)
    body.append("\npub fn catalogue() -> Vec<TypeOps> {\n    vec![")
    for t in g.catalogue:
        body.append('        ops_of::<%s>("%s", "%s"),' % (t.rust, t.rust.replace('"', "'"), ",".join(sorted(tags_of(t, g)))))
    body.append("    ]\n}\n")
    body.append("pub fn derive_defs() -> Vec<(String, String, String)> {\n    vec![")
    for expr, name in g.defns:
        body.append("        (%s, <%s as Model>::ty(), <%s as Model>::dec_ty())," % (expr, name, name))
    body.append("    ]\n}\n")
    body.append("pub fn run_catalogue(ctx: &mut Ctx) {\n    for t in catalogue() {\n        run_type(ctx, &t);\n    }\n}\n")
    text = "\n".join(body)
    try:
        old = open(out).read()
    except OSError:
        old = None
    if old != text:
        open(out, "w").write(text)
    sys.stderr.write("gen_types: %d catalogue types, %d items\n" % (len(g.catalogue), len(g.items)))


if __name__ == "__main__":
    main()
