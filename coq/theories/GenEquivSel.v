(** * GenEquivSel: [compute_union_selectors] of the derive macro crate (the function that assigns union and tag
    selectors and rejects definitions with no variant or more than 128) is the model's [selectors_ok] /
    [union_selectors] (Derive.v). *)
From SSZ Require Import Base RustSem Offsets Types Derive Generated GenEquiv.
From Coq Require Import ZArith ZifyN ZifyBool ZifyNat Lia.
Open Scope N_scope.

Definition u8f (i : N) : outcome N := unwrap_or_panic (u8_try_from i).

Lemma mapM_u8_small l : Forall (fun i => i <= 255) l -> mapM u8f l = Ok l.
Proof.
  induction 1 as [|x r Hx _ IH]; [reflexivity|]. cbn [mapM]. unfold u8f at 1, u8_try_from.
  replace (x <=? 255) with true by (symmetry; apply N.leb_le; exact Hx). cbn [unwrap_or_panic bind]. rewrite IH. reflexivity.
Qed.

Lemma mapM_u8_big l1 x l2 : Forall (fun i => i <= 255) l1 -> 255 < x -> mapM u8f (l1 ++ x :: l2) = Panic.
Proof.
  intros H Hx. induction H as [|y r Hy _ IH]; cbn [app mapM].
  - unfold u8f at 1, u8_try_from. replace (x <=? 255) with false by (symmetry; apply N.leb_gt; exact Hx). reflexivity.
  - unfold u8f at 1, u8_try_from. replace (y <=? 255) with true by (symmetry; apply N.leb_le; exact Hy).
    cbn [unwrap_or_panic bind]. rewrite IH. reflexivity.
Qed.

Lemma range_up_0 n : range_up 0 (N.of_nat n) = map N.of_nat (seq 0 n).
Proof. unfold range_up. rewrite N.sub_0_r, Nnat.Nat2N.id. apply map_ext. intro k. lia. Qed.

Lemma seq_small a n : (a + n <= 256)%nat -> Forall (fun i => i <= 255) (map N.of_nat (seq a n)).
Proof.
  revert a. induction n as [|n IH]; intros a H; cbn [seq map]; constructor; [lia|]. apply IH. lia.
Qed.

Lemma last_error_seq m : last_error (map N.of_nat (seq 0 (S m))) = Some (N.of_nat m).
Proof. unfold last_error. rewrite seq_S, map_app, rev_app_distr. reflexivity. Qed.

Theorem gen_compute_union_selectors_eq n :
  Gen.compute_union_selectors (N.of_nat n) = if selectors_ok n then Ok (union_selectors n) else Panic.
Proof.
  unfold Gen.compute_union_selectors, selectors_ok, union_selectors. fold u8f. rewrite range_up_0.
  destruct n as [|m]; [reflexivity|].
  destruct (Nat.le_gt_cases (S m) 256) as [Hs|Hb].
  - rewrite mapM_u8_small by (apply seq_small; lia). cbn [bind]. rewrite last_error_seq. cbn [unwrap_or_panic bind].
    rewrite gen_MAX_UNION_SELECTOR. unfold MAX_UNION_SELECTOR. change (Nat.leb 1 (S m)) with true. cbn [andb].
    destruct (Nat.leb (S m) 128) eqn:E.
    + apply Nat.leb_le in E. replace (N.of_nat m <=? 127) with true by (symmetry; apply N.leb_le; lia). reflexivity.
    + apply Nat.leb_gt in E. replace (N.of_nat m <=? 127) with false by (symmetry; apply N.leb_gt; lia). reflexivity.
  - replace (S m) with (256 + (S m - 256))%nat by lia. rewrite seq_app, map_app.
    destruct (S m - 256)%nat as [|k] eqn:Ek; [lia|].
    change (seq (0 + 256) (S k)) with ((0 + 256)%nat :: seq (S (0 + 256)) k). rewrite map_cons.
    rewrite mapM_u8_big; [| apply seq_small; lia | change (N.of_nat (0 + 256)) with 256; lia]. cbn [bind].
    replace (Nat.leb (256 + S k) 128) with false by (symmetry; apply Nat.leb_gt; lia). rewrite andb_false_r. reflexivity.
Qed.
Print Assumptions gen_compute_union_selectors_eq.

(** the two conversions of [UnionSelector] (a newtype over its byte) *)
Theorem gen_union_selector_conversions n m :
  Gen.union_selector_into_u8 n = Ok n /\ Gen.union_selector_eq_u8 n m = Ok (n =? m).
Proof. split; reflexivity. Qed.
Print Assumptions gen_union_selector_conversions.
