(** * The encoder state machine writes exactly [assemble] (C10, C03, C01). *)
From SSZ Require Import Base BaseFacts Offsets OffsetsFacts Encoder Layout.
From Coq Require Import ZArith ZifyN ZifyNat ZifyBool.
Open Scope N_scope.

(** An item whose [ssz_append] appends the bytes [snd p] and nothing else. *)
Definition appends (it : bool * (bytes -> bytes)) (p : part) : Prop :=
  fst it = fst p /\ forall b, snd it b = b ++ snd p.

Lemma enc_fold_assemble items : forall parts st,
  Forall2 appends items parts ->
  let st' := fold_left (fun st it => enc_append st (fst it) (snd it)) items st in
  e_offset st' = e_offset st /\
  e_buf st' = e_buf st ++ assemble_fixed (e_offset st + len (e_var st)) parts /\
  e_var st' = e_var st ++ var_concat parts.
Proof.
  induction items as [|it items IH]; intros parts st H; inversion H as [|? p ? parts' [Hf Ha] Hr]; subst.
  - cbn. rewrite !app_nil_r. auto.
  - cbn [fold_left]. destruct it as [f app]; destruct p as [pf pb]; cbn [fst snd] in *. subst pf.
    specialize (IH parts' (enc_append st f app) Hr). cbn zeta in IH.
    destruct IH as (I1 & I2 & I3). unfold enc_append in *.
    destruct f; cbn [e_offset e_buf e_var] in *.
    + rewrite I1, I2, I3, Ha. cbn [assemble_fixed var_concat map concat fst snd].
      rewrite <- !app_assoc. auto.
    + rewrite I1, I2, I3, Ha. cbn [assemble_fixed var_concat map concat fst snd].
      rewrite len_app, <- !app_assoc. rewrite N.add_assoc. auto.
Qed.

(** Any append sequence from any pre-filled buffer yields [buf ++ assemble nf parts]. *)
Theorem enc_run_assemble buf nf items parts :
  Forall2 appends items parts ->
  enc_run buf nf items = buf ++ assemble nf parts.
Proof.
  intros H. unfold enc_run, enc_finalize.
  destruct (enc_fold_assemble items parts (enc_container buf nf) H) as (_ & I2 & I3).
  rewrite I2, I3. cbn [enc_container e_buf e_var e_offset app]. unfold len at 1. cbn [length N.of_nat].
  rewrite N.add_0_r. unfold assemble. rewrite app_assoc. reflexivity.
Qed.

(** Plain byte-string items, as the harness drives the encoder. *)
Corollary enc_run_bytes buf nf (parts : list part) :
  enc_run buf nf (map (fun p : part => (fst p, fun b => b ++ snd p)) parts) = buf ++ assemble nf parts.
Proof.
  apply enc_run_assemble. induction parts as [|p parts IH]; constructor; auto.
  split; reflexivity.
Qed.
