(** * GenPropsTupleN: C01 stated about the tuple impls of arity 3 to 12 as rustc expands them: what the expanded
    encoder writes for a tuple, the expanded decoder reads back as that tuple, for every choice of component type
    expressions.  Written by tools/gen_tuple_proofs.py --props (one instance of [src_round_trip] per arity). *)
From SSZ Require Import Base RustSem Offsets Encoder Builder Types Codec CodecUnfold BaseFacts OffsetsFacts AppendFacts MetaFacts
     ListDecFacts NoPanic Canon OrderFacts RoundTrip LeafIface LeafProof SizeFacts Strict
     Generated GenEquiv GenEquivDec GenEquivEnc GenProps GeneratedDerive GenEquivDerive GenEquivDerive2 GenEquivTuple GenEquivTupleN GenPropsDerive.
From Coq Require Import ZArith ZifyN ZifyBool ZifyNat Lia.
Open Scope N_scope.

Definition inj3 (p : val * val * val) : val := VCont [(fst (fst p)); (snd (fst p)); (snd p)].
Lemma inj3_inj p p' : inj3 p' = inj3 p -> p' = p.
Proof. destruct p as [[av bv] cv], p' as [[av' bv'] cv']. unfold inj3. cbn [fst snd]. intro H. injection H; intros; subst; reflexivity. Qed.

Theorem Src_C01_tuple3 tA tB tC av bv cv :
  rt_type (TContainer false [tA; tB; tC]) = true -> has_ty (TContainer false [tA; tB; tC]) (VCont [av; bv; cv]) = true -> len (enc (TContainer false [tA; tB; tC]) (VCont [av; bv; cv])) < two32 ->
  e_fixed_len tA + e_fixed_len tB + e_fixed_len tC + len (enc tA av) + len (enc tB bv) <= usize_max ->
  (do bs <- GenD.tuple3_ssz_append (e_is_fixed tA) (e_fixed_len tA) (app_of tA) (e_is_fixed tB) (e_fixed_len tB) (app_of tB) (e_is_fixed tC) (e_fixed_len tC) (app_of tC) (av, bv, cv) [];
   GenD.tuple3_from_ssz_bytes (d_is_fixed tA) (d_fixed_len tA) (dec tA) (d_is_fixed tB) (d_fixed_len tB) (dec tB) (d_is_fixed tC) (d_fixed_len tC) (dec tC) bs) = Ok (av, bv, cv).
Proof.
  intros Hrt Hty Hlen Hfit.
  apply (src_round_trip (TContainer false [tA; tB; tC]) inj3
           (fun p buf => GenD.tuple3_ssz_append (e_is_fixed tA) (e_fixed_len tA) (app_of tA) (e_is_fixed tB) (e_fixed_len tB) (app_of tB) (e_is_fixed tC) (e_fixed_len tC) (app_of tC) p buf)
           (GenD.tuple3_from_ssz_bytes (d_is_fixed tA) (d_fixed_len tA) (dec tA) (d_is_fixed tB) (d_fixed_len tB) (dec tB) (d_is_fixed tC) (d_fixed_len tC) (dec tC)) (av, bv, cv)).
  - intros p'. apply inj3_inj.
  - exact Hrt.
  - exact Hty.
  - exact Hlen.
  - apply gen_tuple3_ssz_append. exact Hfit.
  - intro bs. apply gen_tuple3_from_ssz_bytes.
Qed.
Print Assumptions Src_C01_tuple3.

Definition inj4 (p : val * val * val * val) : val := VCont [(fst (fst (fst p))); (snd (fst (fst p))); (snd (fst p)); (snd p)].
Lemma inj4_inj p p' : inj4 p' = inj4 p -> p' = p.
Proof. destruct p as [[[av bv] cv] dv], p' as [[[av' bv'] cv'] dv']. unfold inj4. cbn [fst snd]. intro H. injection H; intros; subst; reflexivity. Qed.

Theorem Src_C01_tuple4 tA tB tC tD av bv cv dv :
  rt_type (TContainer false [tA; tB; tC; tD]) = true -> has_ty (TContainer false [tA; tB; tC; tD]) (VCont [av; bv; cv; dv]) = true -> len (enc (TContainer false [tA; tB; tC; tD]) (VCont [av; bv; cv; dv])) < two32 ->
  e_fixed_len tA + e_fixed_len tB + e_fixed_len tC + e_fixed_len tD + len (enc tA av) + len (enc tB bv) + len (enc tC cv) <= usize_max ->
  (do bs <- GenD.tuple4_ssz_append (e_is_fixed tA) (e_fixed_len tA) (app_of tA) (e_is_fixed tB) (e_fixed_len tB) (app_of tB) (e_is_fixed tC) (e_fixed_len tC) (app_of tC) (e_is_fixed tD) (e_fixed_len tD) (app_of tD) (av, bv, cv, dv) [];
   GenD.tuple4_from_ssz_bytes (d_is_fixed tA) (d_fixed_len tA) (dec tA) (d_is_fixed tB) (d_fixed_len tB) (dec tB) (d_is_fixed tC) (d_fixed_len tC) (dec tC) (d_is_fixed tD) (d_fixed_len tD) (dec tD) bs) = Ok (av, bv, cv, dv).
Proof.
  intros Hrt Hty Hlen Hfit.
  apply (src_round_trip (TContainer false [tA; tB; tC; tD]) inj4
           (fun p buf => GenD.tuple4_ssz_append (e_is_fixed tA) (e_fixed_len tA) (app_of tA) (e_is_fixed tB) (e_fixed_len tB) (app_of tB) (e_is_fixed tC) (e_fixed_len tC) (app_of tC) (e_is_fixed tD) (e_fixed_len tD) (app_of tD) p buf)
           (GenD.tuple4_from_ssz_bytes (d_is_fixed tA) (d_fixed_len tA) (dec tA) (d_is_fixed tB) (d_fixed_len tB) (dec tB) (d_is_fixed tC) (d_fixed_len tC) (dec tC) (d_is_fixed tD) (d_fixed_len tD) (dec tD)) (av, bv, cv, dv)).
  - intros p'. apply inj4_inj.
  - exact Hrt.
  - exact Hty.
  - exact Hlen.
  - apply gen_tuple4_ssz_append. exact Hfit.
  - intro bs. apply gen_tuple4_from_ssz_bytes.
Qed.
Print Assumptions Src_C01_tuple4.

Definition inj5 (p : val * val * val * val * val) : val := VCont [(fst (fst (fst (fst p)))); (snd (fst (fst (fst p)))); (snd (fst (fst p))); (snd (fst p)); (snd p)].
Lemma inj5_inj p p' : inj5 p' = inj5 p -> p' = p.
Proof. destruct p as [[[[av bv] cv] dv] ev], p' as [[[[av' bv'] cv'] dv'] ev']. unfold inj5. cbn [fst snd]. intro H. injection H; intros; subst; reflexivity. Qed.

Theorem Src_C01_tuple5 tA tB tC tD tE av bv cv dv ev :
  rt_type (TContainer false [tA; tB; tC; tD; tE]) = true -> has_ty (TContainer false [tA; tB; tC; tD; tE]) (VCont [av; bv; cv; dv; ev]) = true -> len (enc (TContainer false [tA; tB; tC; tD; tE]) (VCont [av; bv; cv; dv; ev])) < two32 ->
  e_fixed_len tA + e_fixed_len tB + e_fixed_len tC + e_fixed_len tD + e_fixed_len tE + len (enc tA av) + len (enc tB bv) + len (enc tC cv) + len (enc tD dv) <= usize_max ->
  (do bs <- GenD.tuple5_ssz_append (e_is_fixed tA) (e_fixed_len tA) (app_of tA) (e_is_fixed tB) (e_fixed_len tB) (app_of tB) (e_is_fixed tC) (e_fixed_len tC) (app_of tC) (e_is_fixed tD) (e_fixed_len tD) (app_of tD) (e_is_fixed tE) (e_fixed_len tE) (app_of tE) (av, bv, cv, dv, ev) [];
   GenD.tuple5_from_ssz_bytes (d_is_fixed tA) (d_fixed_len tA) (dec tA) (d_is_fixed tB) (d_fixed_len tB) (dec tB) (d_is_fixed tC) (d_fixed_len tC) (dec tC) (d_is_fixed tD) (d_fixed_len tD) (dec tD) (d_is_fixed tE) (d_fixed_len tE) (dec tE) bs) = Ok (av, bv, cv, dv, ev).
Proof.
  intros Hrt Hty Hlen Hfit.
  apply (src_round_trip (TContainer false [tA; tB; tC; tD; tE]) inj5
           (fun p buf => GenD.tuple5_ssz_append (e_is_fixed tA) (e_fixed_len tA) (app_of tA) (e_is_fixed tB) (e_fixed_len tB) (app_of tB) (e_is_fixed tC) (e_fixed_len tC) (app_of tC) (e_is_fixed tD) (e_fixed_len tD) (app_of tD) (e_is_fixed tE) (e_fixed_len tE) (app_of tE) p buf)
           (GenD.tuple5_from_ssz_bytes (d_is_fixed tA) (d_fixed_len tA) (dec tA) (d_is_fixed tB) (d_fixed_len tB) (dec tB) (d_is_fixed tC) (d_fixed_len tC) (dec tC) (d_is_fixed tD) (d_fixed_len tD) (dec tD) (d_is_fixed tE) (d_fixed_len tE) (dec tE)) (av, bv, cv, dv, ev)).
  - intros p'. apply inj5_inj.
  - exact Hrt.
  - exact Hty.
  - exact Hlen.
  - apply gen_tuple5_ssz_append. exact Hfit.
  - intro bs. apply gen_tuple5_from_ssz_bytes.
Qed.
Print Assumptions Src_C01_tuple5.

Definition inj6 (p : val * val * val * val * val * val) : val := VCont [(fst (fst (fst (fst (fst p))))); (snd (fst (fst (fst (fst p))))); (snd (fst (fst (fst p)))); (snd (fst (fst p))); (snd (fst p)); (snd p)].
Lemma inj6_inj p p' : inj6 p' = inj6 p -> p' = p.
Proof. destruct p as [[[[[av bv] cv] dv] ev] fv], p' as [[[[[av' bv'] cv'] dv'] ev'] fv']. unfold inj6. cbn [fst snd]. intro H. injection H; intros; subst; reflexivity. Qed.

Theorem Src_C01_tuple6 tA tB tC tD tE tF av bv cv dv ev fv :
  rt_type (TContainer false [tA; tB; tC; tD; tE; tF]) = true -> has_ty (TContainer false [tA; tB; tC; tD; tE; tF]) (VCont [av; bv; cv; dv; ev; fv]) = true -> len (enc (TContainer false [tA; tB; tC; tD; tE; tF]) (VCont [av; bv; cv; dv; ev; fv])) < two32 ->
  e_fixed_len tA + e_fixed_len tB + e_fixed_len tC + e_fixed_len tD + e_fixed_len tE + e_fixed_len tF + len (enc tA av) + len (enc tB bv) + len (enc tC cv) + len (enc tD dv) + len (enc tE ev) <= usize_max ->
  (do bs <- GenD.tuple6_ssz_append (e_is_fixed tA) (e_fixed_len tA) (app_of tA) (e_is_fixed tB) (e_fixed_len tB) (app_of tB) (e_is_fixed tC) (e_fixed_len tC) (app_of tC) (e_is_fixed tD) (e_fixed_len tD) (app_of tD) (e_is_fixed tE) (e_fixed_len tE) (app_of tE) (e_is_fixed tF) (e_fixed_len tF) (app_of tF) (av, bv, cv, dv, ev, fv) [];
   GenD.tuple6_from_ssz_bytes (d_is_fixed tA) (d_fixed_len tA) (dec tA) (d_is_fixed tB) (d_fixed_len tB) (dec tB) (d_is_fixed tC) (d_fixed_len tC) (dec tC) (d_is_fixed tD) (d_fixed_len tD) (dec tD) (d_is_fixed tE) (d_fixed_len tE) (dec tE) (d_is_fixed tF) (d_fixed_len tF) (dec tF) bs) = Ok (av, bv, cv, dv, ev, fv).
Proof.
  intros Hrt Hty Hlen Hfit.
  apply (src_round_trip (TContainer false [tA; tB; tC; tD; tE; tF]) inj6
           (fun p buf => GenD.tuple6_ssz_append (e_is_fixed tA) (e_fixed_len tA) (app_of tA) (e_is_fixed tB) (e_fixed_len tB) (app_of tB) (e_is_fixed tC) (e_fixed_len tC) (app_of tC) (e_is_fixed tD) (e_fixed_len tD) (app_of tD) (e_is_fixed tE) (e_fixed_len tE) (app_of tE) (e_is_fixed tF) (e_fixed_len tF) (app_of tF) p buf)
           (GenD.tuple6_from_ssz_bytes (d_is_fixed tA) (d_fixed_len tA) (dec tA) (d_is_fixed tB) (d_fixed_len tB) (dec tB) (d_is_fixed tC) (d_fixed_len tC) (dec tC) (d_is_fixed tD) (d_fixed_len tD) (dec tD) (d_is_fixed tE) (d_fixed_len tE) (dec tE) (d_is_fixed tF) (d_fixed_len tF) (dec tF)) (av, bv, cv, dv, ev, fv)).
  - intros p'. apply inj6_inj.
  - exact Hrt.
  - exact Hty.
  - exact Hlen.
  - apply gen_tuple6_ssz_append. exact Hfit.
  - intro bs. apply gen_tuple6_from_ssz_bytes.
Qed.
Print Assumptions Src_C01_tuple6.

Definition inj7 (p : val * val * val * val * val * val * val) : val := VCont [(fst (fst (fst (fst (fst (fst p)))))); (snd (fst (fst (fst (fst (fst p)))))); (snd (fst (fst (fst (fst p))))); (snd (fst (fst (fst p)))); (snd (fst (fst p))); (snd (fst p)); (snd p)].
Lemma inj7_inj p p' : inj7 p' = inj7 p -> p' = p.
Proof. destruct p as [[[[[[av bv] cv] dv] ev] fv] gv], p' as [[[[[[av' bv'] cv'] dv'] ev'] fv'] gv']. unfold inj7. cbn [fst snd]. intro H. injection H; intros; subst; reflexivity. Qed.

Theorem Src_C01_tuple7 tA tB tC tD tE tF tG av bv cv dv ev fv gv :
  rt_type (TContainer false [tA; tB; tC; tD; tE; tF; tG]) = true -> has_ty (TContainer false [tA; tB; tC; tD; tE; tF; tG]) (VCont [av; bv; cv; dv; ev; fv; gv]) = true -> len (enc (TContainer false [tA; tB; tC; tD; tE; tF; tG]) (VCont [av; bv; cv; dv; ev; fv; gv])) < two32 ->
  e_fixed_len tA + e_fixed_len tB + e_fixed_len tC + e_fixed_len tD + e_fixed_len tE + e_fixed_len tF + e_fixed_len tG + len (enc tA av) + len (enc tB bv) + len (enc tC cv) + len (enc tD dv) + len (enc tE ev) + len (enc tF fv) <= usize_max ->
  (do bs <- GenD.tuple7_ssz_append (e_is_fixed tA) (e_fixed_len tA) (app_of tA) (e_is_fixed tB) (e_fixed_len tB) (app_of tB) (e_is_fixed tC) (e_fixed_len tC) (app_of tC) (e_is_fixed tD) (e_fixed_len tD) (app_of tD) (e_is_fixed tE) (e_fixed_len tE) (app_of tE) (e_is_fixed tF) (e_fixed_len tF) (app_of tF) (e_is_fixed tG) (e_fixed_len tG) (app_of tG) (av, bv, cv, dv, ev, fv, gv) [];
   GenD.tuple7_from_ssz_bytes (d_is_fixed tA) (d_fixed_len tA) (dec tA) (d_is_fixed tB) (d_fixed_len tB) (dec tB) (d_is_fixed tC) (d_fixed_len tC) (dec tC) (d_is_fixed tD) (d_fixed_len tD) (dec tD) (d_is_fixed tE) (d_fixed_len tE) (dec tE) (d_is_fixed tF) (d_fixed_len tF) (dec tF) (d_is_fixed tG) (d_fixed_len tG) (dec tG) bs) = Ok (av, bv, cv, dv, ev, fv, gv).
Proof.
  intros Hrt Hty Hlen Hfit.
  apply (src_round_trip (TContainer false [tA; tB; tC; tD; tE; tF; tG]) inj7
           (fun p buf => GenD.tuple7_ssz_append (e_is_fixed tA) (e_fixed_len tA) (app_of tA) (e_is_fixed tB) (e_fixed_len tB) (app_of tB) (e_is_fixed tC) (e_fixed_len tC) (app_of tC) (e_is_fixed tD) (e_fixed_len tD) (app_of tD) (e_is_fixed tE) (e_fixed_len tE) (app_of tE) (e_is_fixed tF) (e_fixed_len tF) (app_of tF) (e_is_fixed tG) (e_fixed_len tG) (app_of tG) p buf)
           (GenD.tuple7_from_ssz_bytes (d_is_fixed tA) (d_fixed_len tA) (dec tA) (d_is_fixed tB) (d_fixed_len tB) (dec tB) (d_is_fixed tC) (d_fixed_len tC) (dec tC) (d_is_fixed tD) (d_fixed_len tD) (dec tD) (d_is_fixed tE) (d_fixed_len tE) (dec tE) (d_is_fixed tF) (d_fixed_len tF) (dec tF) (d_is_fixed tG) (d_fixed_len tG) (dec tG)) (av, bv, cv, dv, ev, fv, gv)).
  - intros p'. apply inj7_inj.
  - exact Hrt.
  - exact Hty.
  - exact Hlen.
  - apply gen_tuple7_ssz_append. exact Hfit.
  - intro bs. apply gen_tuple7_from_ssz_bytes.
Qed.
Print Assumptions Src_C01_tuple7.

Definition inj8 (p : val * val * val * val * val * val * val * val) : val := VCont [(fst (fst (fst (fst (fst (fst (fst p))))))); (snd (fst (fst (fst (fst (fst (fst p))))))); (snd (fst (fst (fst (fst (fst p)))))); (snd (fst (fst (fst (fst p))))); (snd (fst (fst (fst p)))); (snd (fst (fst p))); (snd (fst p)); (snd p)].
Lemma inj8_inj p p' : inj8 p' = inj8 p -> p' = p.
Proof. destruct p as [[[[[[[av bv] cv] dv] ev] fv] gv] hv], p' as [[[[[[[av' bv'] cv'] dv'] ev'] fv'] gv'] hv']. unfold inj8. cbn [fst snd]. intro H. injection H; intros; subst; reflexivity. Qed.

Theorem Src_C01_tuple8 tA tB tC tD tE tF tG tH av bv cv dv ev fv gv hv :
  rt_type (TContainer false [tA; tB; tC; tD; tE; tF; tG; tH]) = true -> has_ty (TContainer false [tA; tB; tC; tD; tE; tF; tG; tH]) (VCont [av; bv; cv; dv; ev; fv; gv; hv]) = true -> len (enc (TContainer false [tA; tB; tC; tD; tE; tF; tG; tH]) (VCont [av; bv; cv; dv; ev; fv; gv; hv])) < two32 ->
  e_fixed_len tA + e_fixed_len tB + e_fixed_len tC + e_fixed_len tD + e_fixed_len tE + e_fixed_len tF + e_fixed_len tG + e_fixed_len tH + len (enc tA av) + len (enc tB bv) + len (enc tC cv) + len (enc tD dv) + len (enc tE ev) + len (enc tF fv) + len (enc tG gv) <= usize_max ->
  (do bs <- GenD.tuple8_ssz_append (e_is_fixed tA) (e_fixed_len tA) (app_of tA) (e_is_fixed tB) (e_fixed_len tB) (app_of tB) (e_is_fixed tC) (e_fixed_len tC) (app_of tC) (e_is_fixed tD) (e_fixed_len tD) (app_of tD) (e_is_fixed tE) (e_fixed_len tE) (app_of tE) (e_is_fixed tF) (e_fixed_len tF) (app_of tF) (e_is_fixed tG) (e_fixed_len tG) (app_of tG) (e_is_fixed tH) (e_fixed_len tH) (app_of tH) (av, bv, cv, dv, ev, fv, gv, hv) [];
   GenD.tuple8_from_ssz_bytes (d_is_fixed tA) (d_fixed_len tA) (dec tA) (d_is_fixed tB) (d_fixed_len tB) (dec tB) (d_is_fixed tC) (d_fixed_len tC) (dec tC) (d_is_fixed tD) (d_fixed_len tD) (dec tD) (d_is_fixed tE) (d_fixed_len tE) (dec tE) (d_is_fixed tF) (d_fixed_len tF) (dec tF) (d_is_fixed tG) (d_fixed_len tG) (dec tG) (d_is_fixed tH) (d_fixed_len tH) (dec tH) bs) = Ok (av, bv, cv, dv, ev, fv, gv, hv).
Proof.
  intros Hrt Hty Hlen Hfit.
  apply (src_round_trip (TContainer false [tA; tB; tC; tD; tE; tF; tG; tH]) inj8
           (fun p buf => GenD.tuple8_ssz_append (e_is_fixed tA) (e_fixed_len tA) (app_of tA) (e_is_fixed tB) (e_fixed_len tB) (app_of tB) (e_is_fixed tC) (e_fixed_len tC) (app_of tC) (e_is_fixed tD) (e_fixed_len tD) (app_of tD) (e_is_fixed tE) (e_fixed_len tE) (app_of tE) (e_is_fixed tF) (e_fixed_len tF) (app_of tF) (e_is_fixed tG) (e_fixed_len tG) (app_of tG) (e_is_fixed tH) (e_fixed_len tH) (app_of tH) p buf)
           (GenD.tuple8_from_ssz_bytes (d_is_fixed tA) (d_fixed_len tA) (dec tA) (d_is_fixed tB) (d_fixed_len tB) (dec tB) (d_is_fixed tC) (d_fixed_len tC) (dec tC) (d_is_fixed tD) (d_fixed_len tD) (dec tD) (d_is_fixed tE) (d_fixed_len tE) (dec tE) (d_is_fixed tF) (d_fixed_len tF) (dec tF) (d_is_fixed tG) (d_fixed_len tG) (dec tG) (d_is_fixed tH) (d_fixed_len tH) (dec tH)) (av, bv, cv, dv, ev, fv, gv, hv)).
  - intros p'. apply inj8_inj.
  - exact Hrt.
  - exact Hty.
  - exact Hlen.
  - apply gen_tuple8_ssz_append. exact Hfit.
  - intro bs. apply gen_tuple8_from_ssz_bytes.
Qed.
Print Assumptions Src_C01_tuple8.

Definition inj9 (p : val * val * val * val * val * val * val * val * val) : val := VCont [(fst (fst (fst (fst (fst (fst (fst (fst p)))))))); (snd (fst (fst (fst (fst (fst (fst (fst p)))))))); (snd (fst (fst (fst (fst (fst (fst p))))))); (snd (fst (fst (fst (fst (fst p)))))); (snd (fst (fst (fst (fst p))))); (snd (fst (fst (fst p)))); (snd (fst (fst p))); (snd (fst p)); (snd p)].
Lemma inj9_inj p p' : inj9 p' = inj9 p -> p' = p.
Proof. destruct p as [[[[[[[[av bv] cv] dv] ev] fv] gv] hv] iv], p' as [[[[[[[[av' bv'] cv'] dv'] ev'] fv'] gv'] hv'] iv']. unfold inj9. cbn [fst snd]. intro H. injection H; intros; subst; reflexivity. Qed.

Theorem Src_C01_tuple9 tA tB tC tD tE tF tG tH tI av bv cv dv ev fv gv hv iv :
  rt_type (TContainer false [tA; tB; tC; tD; tE; tF; tG; tH; tI]) = true -> has_ty (TContainer false [tA; tB; tC; tD; tE; tF; tG; tH; tI]) (VCont [av; bv; cv; dv; ev; fv; gv; hv; iv]) = true -> len (enc (TContainer false [tA; tB; tC; tD; tE; tF; tG; tH; tI]) (VCont [av; bv; cv; dv; ev; fv; gv; hv; iv])) < two32 ->
  e_fixed_len tA + e_fixed_len tB + e_fixed_len tC + e_fixed_len tD + e_fixed_len tE + e_fixed_len tF + e_fixed_len tG + e_fixed_len tH + e_fixed_len tI + len (enc tA av) + len (enc tB bv) + len (enc tC cv) + len (enc tD dv) + len (enc tE ev) + len (enc tF fv) + len (enc tG gv) + len (enc tH hv) <= usize_max ->
  (do bs <- GenD.tuple9_ssz_append (e_is_fixed tA) (e_fixed_len tA) (app_of tA) (e_is_fixed tB) (e_fixed_len tB) (app_of tB) (e_is_fixed tC) (e_fixed_len tC) (app_of tC) (e_is_fixed tD) (e_fixed_len tD) (app_of tD) (e_is_fixed tE) (e_fixed_len tE) (app_of tE) (e_is_fixed tF) (e_fixed_len tF) (app_of tF) (e_is_fixed tG) (e_fixed_len tG) (app_of tG) (e_is_fixed tH) (e_fixed_len tH) (app_of tH) (e_is_fixed tI) (e_fixed_len tI) (app_of tI) (av, bv, cv, dv, ev, fv, gv, hv, iv) [];
   GenD.tuple9_from_ssz_bytes (d_is_fixed tA) (d_fixed_len tA) (dec tA) (d_is_fixed tB) (d_fixed_len tB) (dec tB) (d_is_fixed tC) (d_fixed_len tC) (dec tC) (d_is_fixed tD) (d_fixed_len tD) (dec tD) (d_is_fixed tE) (d_fixed_len tE) (dec tE) (d_is_fixed tF) (d_fixed_len tF) (dec tF) (d_is_fixed tG) (d_fixed_len tG) (dec tG) (d_is_fixed tH) (d_fixed_len tH) (dec tH) (d_is_fixed tI) (d_fixed_len tI) (dec tI) bs) = Ok (av, bv, cv, dv, ev, fv, gv, hv, iv).
Proof.
  intros Hrt Hty Hlen Hfit.
  apply (src_round_trip (TContainer false [tA; tB; tC; tD; tE; tF; tG; tH; tI]) inj9
           (fun p buf => GenD.tuple9_ssz_append (e_is_fixed tA) (e_fixed_len tA) (app_of tA) (e_is_fixed tB) (e_fixed_len tB) (app_of tB) (e_is_fixed tC) (e_fixed_len tC) (app_of tC) (e_is_fixed tD) (e_fixed_len tD) (app_of tD) (e_is_fixed tE) (e_fixed_len tE) (app_of tE) (e_is_fixed tF) (e_fixed_len tF) (app_of tF) (e_is_fixed tG) (e_fixed_len tG) (app_of tG) (e_is_fixed tH) (e_fixed_len tH) (app_of tH) (e_is_fixed tI) (e_fixed_len tI) (app_of tI) p buf)
           (GenD.tuple9_from_ssz_bytes (d_is_fixed tA) (d_fixed_len tA) (dec tA) (d_is_fixed tB) (d_fixed_len tB) (dec tB) (d_is_fixed tC) (d_fixed_len tC) (dec tC) (d_is_fixed tD) (d_fixed_len tD) (dec tD) (d_is_fixed tE) (d_fixed_len tE) (dec tE) (d_is_fixed tF) (d_fixed_len tF) (dec tF) (d_is_fixed tG) (d_fixed_len tG) (dec tG) (d_is_fixed tH) (d_fixed_len tH) (dec tH) (d_is_fixed tI) (d_fixed_len tI) (dec tI)) (av, bv, cv, dv, ev, fv, gv, hv, iv)).
  - intros p'. apply inj9_inj.
  - exact Hrt.
  - exact Hty.
  - exact Hlen.
  - apply gen_tuple9_ssz_append. exact Hfit.
  - intro bs. apply gen_tuple9_from_ssz_bytes.
Qed.
Print Assumptions Src_C01_tuple9.

Definition inj10 (p : val * val * val * val * val * val * val * val * val * val) : val := VCont [(fst (fst (fst (fst (fst (fst (fst (fst (fst p))))))))); (snd (fst (fst (fst (fst (fst (fst (fst (fst p))))))))); (snd (fst (fst (fst (fst (fst (fst (fst p)))))))); (snd (fst (fst (fst (fst (fst (fst p))))))); (snd (fst (fst (fst (fst (fst p)))))); (snd (fst (fst (fst (fst p))))); (snd (fst (fst (fst p)))); (snd (fst (fst p))); (snd (fst p)); (snd p)].
Lemma inj10_inj p p' : inj10 p' = inj10 p -> p' = p.
Proof. destruct p as [[[[[[[[[av bv] cv] dv] ev] fv] gv] hv] iv] jv], p' as [[[[[[[[[av' bv'] cv'] dv'] ev'] fv'] gv'] hv'] iv'] jv']. unfold inj10. cbn [fst snd]. intro H. injection H; intros; subst; reflexivity. Qed.

Theorem Src_C01_tuple10 tA tB tC tD tE tF tG tH tI tJ av bv cv dv ev fv gv hv iv jv :
  rt_type (TContainer false [tA; tB; tC; tD; tE; tF; tG; tH; tI; tJ]) = true -> has_ty (TContainer false [tA; tB; tC; tD; tE; tF; tG; tH; tI; tJ]) (VCont [av; bv; cv; dv; ev; fv; gv; hv; iv; jv]) = true -> len (enc (TContainer false [tA; tB; tC; tD; tE; tF; tG; tH; tI; tJ]) (VCont [av; bv; cv; dv; ev; fv; gv; hv; iv; jv])) < two32 ->
  e_fixed_len tA + e_fixed_len tB + e_fixed_len tC + e_fixed_len tD + e_fixed_len tE + e_fixed_len tF + e_fixed_len tG + e_fixed_len tH + e_fixed_len tI + e_fixed_len tJ + len (enc tA av) + len (enc tB bv) + len (enc tC cv) + len (enc tD dv) + len (enc tE ev) + len (enc tF fv) + len (enc tG gv) + len (enc tH hv) + len (enc tI iv) <= usize_max ->
  (do bs <- GenD.tuple10_ssz_append (e_is_fixed tA) (e_fixed_len tA) (app_of tA) (e_is_fixed tB) (e_fixed_len tB) (app_of tB) (e_is_fixed tC) (e_fixed_len tC) (app_of tC) (e_is_fixed tD) (e_fixed_len tD) (app_of tD) (e_is_fixed tE) (e_fixed_len tE) (app_of tE) (e_is_fixed tF) (e_fixed_len tF) (app_of tF) (e_is_fixed tG) (e_fixed_len tG) (app_of tG) (e_is_fixed tH) (e_fixed_len tH) (app_of tH) (e_is_fixed tI) (e_fixed_len tI) (app_of tI) (e_is_fixed tJ) (e_fixed_len tJ) (app_of tJ) (av, bv, cv, dv, ev, fv, gv, hv, iv, jv) [];
   GenD.tuple10_from_ssz_bytes (d_is_fixed tA) (d_fixed_len tA) (dec tA) (d_is_fixed tB) (d_fixed_len tB) (dec tB) (d_is_fixed tC) (d_fixed_len tC) (dec tC) (d_is_fixed tD) (d_fixed_len tD) (dec tD) (d_is_fixed tE) (d_fixed_len tE) (dec tE) (d_is_fixed tF) (d_fixed_len tF) (dec tF) (d_is_fixed tG) (d_fixed_len tG) (dec tG) (d_is_fixed tH) (d_fixed_len tH) (dec tH) (d_is_fixed tI) (d_fixed_len tI) (dec tI) (d_is_fixed tJ) (d_fixed_len tJ) (dec tJ) bs) = Ok (av, bv, cv, dv, ev, fv, gv, hv, iv, jv).
Proof.
  intros Hrt Hty Hlen Hfit.
  apply (src_round_trip (TContainer false [tA; tB; tC; tD; tE; tF; tG; tH; tI; tJ]) inj10
           (fun p buf => GenD.tuple10_ssz_append (e_is_fixed tA) (e_fixed_len tA) (app_of tA) (e_is_fixed tB) (e_fixed_len tB) (app_of tB) (e_is_fixed tC) (e_fixed_len tC) (app_of tC) (e_is_fixed tD) (e_fixed_len tD) (app_of tD) (e_is_fixed tE) (e_fixed_len tE) (app_of tE) (e_is_fixed tF) (e_fixed_len tF) (app_of tF) (e_is_fixed tG) (e_fixed_len tG) (app_of tG) (e_is_fixed tH) (e_fixed_len tH) (app_of tH) (e_is_fixed tI) (e_fixed_len tI) (app_of tI) (e_is_fixed tJ) (e_fixed_len tJ) (app_of tJ) p buf)
           (GenD.tuple10_from_ssz_bytes (d_is_fixed tA) (d_fixed_len tA) (dec tA) (d_is_fixed tB) (d_fixed_len tB) (dec tB) (d_is_fixed tC) (d_fixed_len tC) (dec tC) (d_is_fixed tD) (d_fixed_len tD) (dec tD) (d_is_fixed tE) (d_fixed_len tE) (dec tE) (d_is_fixed tF) (d_fixed_len tF) (dec tF) (d_is_fixed tG) (d_fixed_len tG) (dec tG) (d_is_fixed tH) (d_fixed_len tH) (dec tH) (d_is_fixed tI) (d_fixed_len tI) (dec tI) (d_is_fixed tJ) (d_fixed_len tJ) (dec tJ)) (av, bv, cv, dv, ev, fv, gv, hv, iv, jv)).
  - intros p'. apply inj10_inj.
  - exact Hrt.
  - exact Hty.
  - exact Hlen.
  - apply gen_tuple10_ssz_append. exact Hfit.
  - intro bs. apply gen_tuple10_from_ssz_bytes.
Qed.
Print Assumptions Src_C01_tuple10.

Definition inj11 (p : val * val * val * val * val * val * val * val * val * val * val) : val := VCont [(fst (fst (fst (fst (fst (fst (fst (fst (fst (fst p)))))))))); (snd (fst (fst (fst (fst (fst (fst (fst (fst (fst p)))))))))); (snd (fst (fst (fst (fst (fst (fst (fst (fst p))))))))); (snd (fst (fst (fst (fst (fst (fst (fst p)))))))); (snd (fst (fst (fst (fst (fst (fst p))))))); (snd (fst (fst (fst (fst (fst p)))))); (snd (fst (fst (fst (fst p))))); (snd (fst (fst (fst p)))); (snd (fst (fst p))); (snd (fst p)); (snd p)].
Lemma inj11_inj p p' : inj11 p' = inj11 p -> p' = p.
Proof. destruct p as [[[[[[[[[[av bv] cv] dv] ev] fv] gv] hv] iv] jv] kv], p' as [[[[[[[[[[av' bv'] cv'] dv'] ev'] fv'] gv'] hv'] iv'] jv'] kv']. unfold inj11. cbn [fst snd]. intro H. injection H; intros; subst; reflexivity. Qed.

Theorem Src_C01_tuple11 tA tB tC tD tE tF tG tH tI tJ tK av bv cv dv ev fv gv hv iv jv kv :
  rt_type (TContainer false [tA; tB; tC; tD; tE; tF; tG; tH; tI; tJ; tK]) = true -> has_ty (TContainer false [tA; tB; tC; tD; tE; tF; tG; tH; tI; tJ; tK]) (VCont [av; bv; cv; dv; ev; fv; gv; hv; iv; jv; kv]) = true -> len (enc (TContainer false [tA; tB; tC; tD; tE; tF; tG; tH; tI; tJ; tK]) (VCont [av; bv; cv; dv; ev; fv; gv; hv; iv; jv; kv])) < two32 ->
  e_fixed_len tA + e_fixed_len tB + e_fixed_len tC + e_fixed_len tD + e_fixed_len tE + e_fixed_len tF + e_fixed_len tG + e_fixed_len tH + e_fixed_len tI + e_fixed_len tJ + e_fixed_len tK + len (enc tA av) + len (enc tB bv) + len (enc tC cv) + len (enc tD dv) + len (enc tE ev) + len (enc tF fv) + len (enc tG gv) + len (enc tH hv) + len (enc tI iv) + len (enc tJ jv) <= usize_max ->
  (do bs <- GenD.tuple11_ssz_append (e_is_fixed tA) (e_fixed_len tA) (app_of tA) (e_is_fixed tB) (e_fixed_len tB) (app_of tB) (e_is_fixed tC) (e_fixed_len tC) (app_of tC) (e_is_fixed tD) (e_fixed_len tD) (app_of tD) (e_is_fixed tE) (e_fixed_len tE) (app_of tE) (e_is_fixed tF) (e_fixed_len tF) (app_of tF) (e_is_fixed tG) (e_fixed_len tG) (app_of tG) (e_is_fixed tH) (e_fixed_len tH) (app_of tH) (e_is_fixed tI) (e_fixed_len tI) (app_of tI) (e_is_fixed tJ) (e_fixed_len tJ) (app_of tJ) (e_is_fixed tK) (e_fixed_len tK) (app_of tK) (av, bv, cv, dv, ev, fv, gv, hv, iv, jv, kv) [];
   GenD.tuple11_from_ssz_bytes (d_is_fixed tA) (d_fixed_len tA) (dec tA) (d_is_fixed tB) (d_fixed_len tB) (dec tB) (d_is_fixed tC) (d_fixed_len tC) (dec tC) (d_is_fixed tD) (d_fixed_len tD) (dec tD) (d_is_fixed tE) (d_fixed_len tE) (dec tE) (d_is_fixed tF) (d_fixed_len tF) (dec tF) (d_is_fixed tG) (d_fixed_len tG) (dec tG) (d_is_fixed tH) (d_fixed_len tH) (dec tH) (d_is_fixed tI) (d_fixed_len tI) (dec tI) (d_is_fixed tJ) (d_fixed_len tJ) (dec tJ) (d_is_fixed tK) (d_fixed_len tK) (dec tK) bs) = Ok (av, bv, cv, dv, ev, fv, gv, hv, iv, jv, kv).
Proof.
  intros Hrt Hty Hlen Hfit.
  apply (src_round_trip (TContainer false [tA; tB; tC; tD; tE; tF; tG; tH; tI; tJ; tK]) inj11
           (fun p buf => GenD.tuple11_ssz_append (e_is_fixed tA) (e_fixed_len tA) (app_of tA) (e_is_fixed tB) (e_fixed_len tB) (app_of tB) (e_is_fixed tC) (e_fixed_len tC) (app_of tC) (e_is_fixed tD) (e_fixed_len tD) (app_of tD) (e_is_fixed tE) (e_fixed_len tE) (app_of tE) (e_is_fixed tF) (e_fixed_len tF) (app_of tF) (e_is_fixed tG) (e_fixed_len tG) (app_of tG) (e_is_fixed tH) (e_fixed_len tH) (app_of tH) (e_is_fixed tI) (e_fixed_len tI) (app_of tI) (e_is_fixed tJ) (e_fixed_len tJ) (app_of tJ) (e_is_fixed tK) (e_fixed_len tK) (app_of tK) p buf)
           (GenD.tuple11_from_ssz_bytes (d_is_fixed tA) (d_fixed_len tA) (dec tA) (d_is_fixed tB) (d_fixed_len tB) (dec tB) (d_is_fixed tC) (d_fixed_len tC) (dec tC) (d_is_fixed tD) (d_fixed_len tD) (dec tD) (d_is_fixed tE) (d_fixed_len tE) (dec tE) (d_is_fixed tF) (d_fixed_len tF) (dec tF) (d_is_fixed tG) (d_fixed_len tG) (dec tG) (d_is_fixed tH) (d_fixed_len tH) (dec tH) (d_is_fixed tI) (d_fixed_len tI) (dec tI) (d_is_fixed tJ) (d_fixed_len tJ) (dec tJ) (d_is_fixed tK) (d_fixed_len tK) (dec tK)) (av, bv, cv, dv, ev, fv, gv, hv, iv, jv, kv)).
  - intros p'. apply inj11_inj.
  - exact Hrt.
  - exact Hty.
  - exact Hlen.
  - apply gen_tuple11_ssz_append. exact Hfit.
  - intro bs. apply gen_tuple11_from_ssz_bytes.
Qed.
Print Assumptions Src_C01_tuple11.

Definition inj12 (p : val * val * val * val * val * val * val * val * val * val * val * val) : val := VCont [(fst (fst (fst (fst (fst (fst (fst (fst (fst (fst (fst p))))))))))); (snd (fst (fst (fst (fst (fst (fst (fst (fst (fst (fst p))))))))))); (snd (fst (fst (fst (fst (fst (fst (fst (fst (fst p)))))))))); (snd (fst (fst (fst (fst (fst (fst (fst (fst p))))))))); (snd (fst (fst (fst (fst (fst (fst (fst p)))))))); (snd (fst (fst (fst (fst (fst (fst p))))))); (snd (fst (fst (fst (fst (fst p)))))); (snd (fst (fst (fst (fst p))))); (snd (fst (fst (fst p)))); (snd (fst (fst p))); (snd (fst p)); (snd p)].
Lemma inj12_inj p p' : inj12 p' = inj12 p -> p' = p.
Proof. destruct p as [[[[[[[[[[[av bv] cv] dv] ev] fv] gv] hv] iv] jv] kv] lv], p' as [[[[[[[[[[[av' bv'] cv'] dv'] ev'] fv'] gv'] hv'] iv'] jv'] kv'] lv']. unfold inj12. cbn [fst snd]. intro H. injection H; intros; subst; reflexivity. Qed.

Theorem Src_C01_tuple12 tA tB tC tD tE tF tG tH tI tJ tK tL av bv cv dv ev fv gv hv iv jv kv lv :
  rt_type (TContainer false [tA; tB; tC; tD; tE; tF; tG; tH; tI; tJ; tK; tL]) = true -> has_ty (TContainer false [tA; tB; tC; tD; tE; tF; tG; tH; tI; tJ; tK; tL]) (VCont [av; bv; cv; dv; ev; fv; gv; hv; iv; jv; kv; lv]) = true -> len (enc (TContainer false [tA; tB; tC; tD; tE; tF; tG; tH; tI; tJ; tK; tL]) (VCont [av; bv; cv; dv; ev; fv; gv; hv; iv; jv; kv; lv])) < two32 ->
  e_fixed_len tA + e_fixed_len tB + e_fixed_len tC + e_fixed_len tD + e_fixed_len tE + e_fixed_len tF + e_fixed_len tG + e_fixed_len tH + e_fixed_len tI + e_fixed_len tJ + e_fixed_len tK + e_fixed_len tL + len (enc tA av) + len (enc tB bv) + len (enc tC cv) + len (enc tD dv) + len (enc tE ev) + len (enc tF fv) + len (enc tG gv) + len (enc tH hv) + len (enc tI iv) + len (enc tJ jv) + len (enc tK kv) <= usize_max ->
  (do bs <- GenD.tuple12_ssz_append (e_is_fixed tA) (e_fixed_len tA) (app_of tA) (e_is_fixed tB) (e_fixed_len tB) (app_of tB) (e_is_fixed tC) (e_fixed_len tC) (app_of tC) (e_is_fixed tD) (e_fixed_len tD) (app_of tD) (e_is_fixed tE) (e_fixed_len tE) (app_of tE) (e_is_fixed tF) (e_fixed_len tF) (app_of tF) (e_is_fixed tG) (e_fixed_len tG) (app_of tG) (e_is_fixed tH) (e_fixed_len tH) (app_of tH) (e_is_fixed tI) (e_fixed_len tI) (app_of tI) (e_is_fixed tJ) (e_fixed_len tJ) (app_of tJ) (e_is_fixed tK) (e_fixed_len tK) (app_of tK) (e_is_fixed tL) (e_fixed_len tL) (app_of tL) (av, bv, cv, dv, ev, fv, gv, hv, iv, jv, kv, lv) [];
   GenD.tuple12_from_ssz_bytes (d_is_fixed tA) (d_fixed_len tA) (dec tA) (d_is_fixed tB) (d_fixed_len tB) (dec tB) (d_is_fixed tC) (d_fixed_len tC) (dec tC) (d_is_fixed tD) (d_fixed_len tD) (dec tD) (d_is_fixed tE) (d_fixed_len tE) (dec tE) (d_is_fixed tF) (d_fixed_len tF) (dec tF) (d_is_fixed tG) (d_fixed_len tG) (dec tG) (d_is_fixed tH) (d_fixed_len tH) (dec tH) (d_is_fixed tI) (d_fixed_len tI) (dec tI) (d_is_fixed tJ) (d_fixed_len tJ) (dec tJ) (d_is_fixed tK) (d_fixed_len tK) (dec tK) (d_is_fixed tL) (d_fixed_len tL) (dec tL) bs) = Ok (av, bv, cv, dv, ev, fv, gv, hv, iv, jv, kv, lv).
Proof.
  intros Hrt Hty Hlen Hfit.
  apply (src_round_trip (TContainer false [tA; tB; tC; tD; tE; tF; tG; tH; tI; tJ; tK; tL]) inj12
           (fun p buf => GenD.tuple12_ssz_append (e_is_fixed tA) (e_fixed_len tA) (app_of tA) (e_is_fixed tB) (e_fixed_len tB) (app_of tB) (e_is_fixed tC) (e_fixed_len tC) (app_of tC) (e_is_fixed tD) (e_fixed_len tD) (app_of tD) (e_is_fixed tE) (e_fixed_len tE) (app_of tE) (e_is_fixed tF) (e_fixed_len tF) (app_of tF) (e_is_fixed tG) (e_fixed_len tG) (app_of tG) (e_is_fixed tH) (e_fixed_len tH) (app_of tH) (e_is_fixed tI) (e_fixed_len tI) (app_of tI) (e_is_fixed tJ) (e_fixed_len tJ) (app_of tJ) (e_is_fixed tK) (e_fixed_len tK) (app_of tK) (e_is_fixed tL) (e_fixed_len tL) (app_of tL) p buf)
           (GenD.tuple12_from_ssz_bytes (d_is_fixed tA) (d_fixed_len tA) (dec tA) (d_is_fixed tB) (d_fixed_len tB) (dec tB) (d_is_fixed tC) (d_fixed_len tC) (dec tC) (d_is_fixed tD) (d_fixed_len tD) (dec tD) (d_is_fixed tE) (d_fixed_len tE) (dec tE) (d_is_fixed tF) (d_fixed_len tF) (dec tF) (d_is_fixed tG) (d_fixed_len tG) (dec tG) (d_is_fixed tH) (d_fixed_len tH) (dec tH) (d_is_fixed tI) (d_fixed_len tI) (dec tI) (d_is_fixed tJ) (d_fixed_len tJ) (dec tJ) (d_is_fixed tK) (d_fixed_len tK) (dec tK) (d_is_fixed tL) (d_fixed_len tL) (dec tL)) (av, bv, cv, dv, ev, fv, gv, hv, iv, jv, kv, lv)).
  - intros p'. apply inj12_inj.
  - exact Hrt.
  - exact Hty.
  - exact Hlen.
  - apply gen_tuple12_ssz_append. exact Hfit.
  - intro bs. apply gen_tuple12_from_ssz_bytes.
Qed.
Print Assumptions Src_C01_tuple12.
