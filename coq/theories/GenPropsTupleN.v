(** * GenPropsTupleN: C01 and C02 stated about the tuple impls of arity 3 to 12 as rustc expands them: what the expanded
    encoder writes for a tuple, the expanded decoder reads back as that tuple; what the expanded decoder accepts, the
    expanded encoder writes back byte for byte -- for every choice of component type expressions.  Written by
    tools/gen_tuple_proofs.py --props. *)
From SSZ Require Import Base RustSem Offsets Encoder Builder Types Codec CodecUnfold BaseFacts OffsetsFacts AppendFacts MetaFacts
     ListDecFacts NoPanic Canon OrderFacts RoundTrip LeafIface LeafProof SizeFacts Strict
     Generated GenEquiv GenEquivDec GenEquivEnc GenProps GeneratedDerive GenEquivDerive GenEquivDerive2 GenEquivTuple GenEquivTupleN GenPropsDerive.
From Coq Require Import ZArith ZifyN ZifyBool ZifyNat Lia.
Open Scope N_scope.

(** the length of a container's encoding is the sum of its fields' shares, whatever their size classes *)
Lemma sum_fixed_is_field_len fs vs : length fs = length vs -> forallb e_is_fixed fs = true ->
  sumN (map e_fixed_len fs) = sumN (map (fun p => field_len (fst p) (snd p)) (combine fs vs)).
Proof.
  revert vs. induction fs as [|f fs IH]; intros [|v vs] Hl Hf; try discriminate; [reflexivity|].
  cbn [forallb] in Hf. apply andb_prop in Hf. destruct Hf as [Hf1 Hf2].
  cbn [combine map sumN fst snd]. unfold field_len at 1. rewrite Hf1. rewrite (IH vs); [reflexivity| cbn [length] in Hl; congruence | exact Hf2].
Qed.

Lemma bytes_len_container_sum d fs vs : length fs = length vs ->
  bytes_len (TContainer d fs) (VCont vs) = sumN (map (fun p => field_len (fst p) (snd p)) (combine fs vs)).
Proof.
  intro Hl. rewrite bytes_len_container. destruct (forallb e_is_fixed fs) eqn:E; [|reflexivity].
  apply sum_fixed_is_field_len; assumption.
Qed.

Lemma field_len_ge t v : has_ty t v = true -> len (enc t v) <= field_len t v.
Proof.
  intro Hty. unfold field_len. destruct (e_is_fixed t) eqn:EF.
  - rewrite (proj2 (size_facts leaf_facts t v Hty) EF). lia.
  - rewrite <- (proj1 (size_facts leaf_facts t v Hty)). lia.
Qed.

Lemma fixed_len_le_field_len t v : e_fixed_len t <= field_len t v.
Proof.
  unfold field_len. destruct (e_is_fixed t) eqn:EF; [lia|]. rewrite (variable_fixed_len t EF). unfold BYTES_PER_LENGTH_OFFSET. lia.
Qed.

Definition inj3 (p : val * val * val) : val := VCont [(fst (fst p)); (snd (fst p)); (snd p)].
Lemma inj3_inj p p' : inj3 p' = inj3 p -> p' = p.
Proof. destruct p as [[av bv] cv], p' as [[av' bv'] cv']. unfold inj3. cbn [fst snd]. intro H. injection H; intros; subst; reflexivity. Qed.

Theorem Src_C01_tuple3 tA tB tC av bv cv :
  rt_type (TContainer false [tA; tB; tC]) = true -> has_ty (TContainer false [tA; tB; tC]) (VCont [av; bv; cv]) = true -> len (enc (TContainer false [tA; tB; tC]) (VCont [av; bv; cv])) < two32 ->
  e_fixed_len tA + e_fixed_len tB + e_fixed_len tC + len (enc tA av) + len (enc tB bv) <= usize_max ->
  (do bs <- GenD.tuple3_ssz_append (e_is_fixed tA) (e_fixed_len tA) (app_of tA) (e_is_fixed tB) (e_fixed_len tB) (app_of tB) (e_is_fixed tC) (e_fixed_len tC) (app_of tC) (av, bv, cv) [];
   GenD.tuple3_from_ssz_bytes (d_is_fixed tA) (d_fixed_len tA) (dec tA) (d_is_fixed tB) (d_fixed_len tB) (dec tB) (d_is_fixed tC) (d_fixed_len tC) (dec tC) bs) = Ok (av, bv, cv).
Proof.
  intros Hrt Hty Hlen Hfit.
  apply (src_round_trip (TContainer false [tA; tB; tC]) inj3
           (fun p buf => GenD.tuple3_ssz_append (e_is_fixed tA) (e_fixed_len tA) (app_of tA) (e_is_fixed tB) (e_fixed_len tB) (app_of tB) (e_is_fixed tC) (e_fixed_len tC) (app_of tC) p buf)
           (GenD.tuple3_from_ssz_bytes (d_is_fixed tA) (d_fixed_len tA) (dec tA) (d_is_fixed tB) (d_fixed_len tB) (dec tB) (d_is_fixed tC) (d_fixed_len tC) (dec tC)) (av, bv, cv)).
  - intros p'. apply inj3_inj.
  - exact Hrt.
  - exact Hty.
  - exact Hlen.
  - apply gen_tuple3_ssz_append. exact Hfit.
  - intro bs. apply gen_tuple3_from_ssz_bytes.
Qed.
Print Assumptions Src_C01_tuple3.

Theorem Src_C02_tuple3 tA tB tC bs p :
  canon_type (TContainer false [tA; tB; tC]) = true -> phys bs -> 2 * len bs <= usize_max ->
  GenD.tuple3_from_ssz_bytes (d_is_fixed tA) (d_fixed_len tA) (dec tA) (d_is_fixed tB) (d_fixed_len tB) (dec tB) (d_is_fixed tC) (d_fixed_len tC) (dec tC) bs = Ok p ->
  GenD.tuple3_ssz_append (e_is_fixed tA) (e_fixed_len tA) (app_of tA) (e_is_fixed tB) (e_fixed_len tB) (app_of tB) (e_is_fixed tC) (e_fixed_len tC) (app_of tC) p [] = Ok bs.
Proof.
  intros Hc Hp HF Hr.
  assert (Hd : dec (TContainer false [tA; tB; tC]) bs = Ok (inj3 p)) by (rewrite <- gen_tuple3_from_ssz_bytes, Hr; reflexivity).
  destruct (canon_facts leaf_facts _ Hc bs (inj3 p) Hp Hd) as (He & Hty).
  destruct p as [[av bv] cv]. unfold inj3 in *. cbn [fst snd] in *.
  rewrite gen_tuple3_ssz_append; [f_equal; exact He|].
  pose proof (proj1 (size_facts leaf_facts _ _ Hty)) as S. rewrite bytes_len_container_sum in S by reflexivity.
  cbn [combine map sumN fst snd] in S. fold (enc (TContainer false [tA; tB; tC]) (VCont [av; bv; cv])) in He. rewrite He in S.
  rewrite has_ty_container, !has_ty_fields_cons in Hty.
  repeat (let H := fresh "HT" in apply andb_prop in Hty; destruct Hty as [H Hty]).
  pose proof (field_len_ge tA av HT).
  pose proof (field_len_ge tB bv HT0).
  pose proof (fixed_len_le_field_len tA av).
  pose proof (fixed_len_le_field_len tB bv).
  pose proof (fixed_len_le_field_len tC cv).
  clear Hc Hp Hr Hd He Hty. repeat match goal with H : has_ty _ _ = true |- _ => clear H end.
  repeat match goal with |- context [len (enc ?t ?v)] => let x := fresh "x" in set (x := len (enc t v)) in *; clearbody x end.
  repeat match goal with H : context [field_len ?t ?v] |- _ => let y := fresh "y" in set (y := field_len t v) in *; clearbody y end.
  repeat match goal with |- context [e_fixed_len ?t] => let z := fresh "z" in set (z := e_fixed_len t) in *; clearbody z end.
  lia.
Qed.
Print Assumptions Src_C02_tuple3.

Definition inj4 (p : val * val * val * val) : val := VCont [(fst (fst (fst p))); (snd (fst (fst p))); (snd (fst p)); (snd p)].
Lemma inj4_inj p p' : inj4 p' = inj4 p -> p' = p.
Proof. destruct p as [[[av bv] cv] dv], p' as [[[av' bv'] cv'] dv']. unfold inj4. cbn [fst snd]. intro H. injection H; intros; subst; reflexivity. Qed.

Theorem Src_C01_tuple4 tA tB tC tD av bv cv dv :
  rt_type (TContainer false [tA; tB; tC; tD]) = true -> has_ty (TContainer false [tA; tB; tC; tD]) (VCont [av; bv; cv; dv]) = true -> len (enc (TContainer false [tA; tB; tC; tD]) (VCont [av; bv; cv; dv])) < two32 ->
  e_fixed_len tA + e_fixed_len tB + e_fixed_len tC + e_fixed_len tD + len (enc tA av) + len (enc tB bv) + len (enc tC cv) <= usize_max ->
  (do bs <- GenD.tuple4_ssz_append (e_is_fixed tA) (e_fixed_len tA) (app_of tA) (e_is_fixed tB) (e_fixed_len tB) (app_of tB) (e_is_fixed tC) (e_fixed_len tC) (app_of tC) (e_is_fixed tD) (e_fixed_len tD) (app_of tD) (av, bv, cv, dv) [];
   GenD.tuple4_from_ssz_bytes (d_is_fixed tA) (d_fixed_len tA) (dec tA) (d_is_fixed tB) (d_fixed_len tB) (dec tB) (d_is_fixed tC) (d_fixed_len tC) (dec tC) (d_is_fixed tD) (d_fixed_len tD) (dec tD) bs) = Ok (av, bv, cv, dv).
Proof.
  intros Hrt Hty Hlen Hfit.
  apply (src_round_trip (TContainer false [tA; tB; tC; tD]) inj4
           (fun p buf => GenD.tuple4_ssz_append (e_is_fixed tA) (e_fixed_len tA) (app_of tA) (e_is_fixed tB) (e_fixed_len tB) (app_of tB) (e_is_fixed tC) (e_fixed_len tC) (app_of tC) (e_is_fixed tD) (e_fixed_len tD) (app_of tD) p buf)
           (GenD.tuple4_from_ssz_bytes (d_is_fixed tA) (d_fixed_len tA) (dec tA) (d_is_fixed tB) (d_fixed_len tB) (dec tB) (d_is_fixed tC) (d_fixed_len tC) (dec tC) (d_is_fixed tD) (d_fixed_len tD) (dec tD)) (av, bv, cv, dv)).
  - intros p'. apply inj4_inj.
  - exact Hrt.
  - exact Hty.
  - exact Hlen.
  - apply gen_tuple4_ssz_append. exact Hfit.
  - intro bs. apply gen_tuple4_from_ssz_bytes.
Qed.
Print Assumptions Src_C01_tuple4.

Theorem Src_C02_tuple4 tA tB tC tD bs p :
  canon_type (TContainer false [tA; tB; tC; tD]) = true -> phys bs -> 2 * len bs <= usize_max ->
  GenD.tuple4_from_ssz_bytes (d_is_fixed tA) (d_fixed_len tA) (dec tA) (d_is_fixed tB) (d_fixed_len tB) (dec tB) (d_is_fixed tC) (d_fixed_len tC) (dec tC) (d_is_fixed tD) (d_fixed_len tD) (dec tD) bs = Ok p ->
  GenD.tuple4_ssz_append (e_is_fixed tA) (e_fixed_len tA) (app_of tA) (e_is_fixed tB) (e_fixed_len tB) (app_of tB) (e_is_fixed tC) (e_fixed_len tC) (app_of tC) (e_is_fixed tD) (e_fixed_len tD) (app_of tD) p [] = Ok bs.
Proof.
  intros Hc Hp HF Hr.
  assert (Hd : dec (TContainer false [tA; tB; tC; tD]) bs = Ok (inj4 p)) by (rewrite <- gen_tuple4_from_ssz_bytes, Hr; reflexivity).
  destruct (canon_facts leaf_facts _ Hc bs (inj4 p) Hp Hd) as (He & Hty).
  destruct p as [[[av bv] cv] dv]. unfold inj4 in *. cbn [fst snd] in *.
  rewrite gen_tuple4_ssz_append; [f_equal; exact He|].
  pose proof (proj1 (size_facts leaf_facts _ _ Hty)) as S. rewrite bytes_len_container_sum in S by reflexivity.
  cbn [combine map sumN fst snd] in S. fold (enc (TContainer false [tA; tB; tC; tD]) (VCont [av; bv; cv; dv])) in He. rewrite He in S.
  rewrite has_ty_container, !has_ty_fields_cons in Hty.
  repeat (let H := fresh "HT" in apply andb_prop in Hty; destruct Hty as [H Hty]).
  pose proof (field_len_ge tA av HT).
  pose proof (field_len_ge tB bv HT0).
  pose proof (field_len_ge tC cv HT1).
  pose proof (fixed_len_le_field_len tA av).
  pose proof (fixed_len_le_field_len tB bv).
  pose proof (fixed_len_le_field_len tC cv).
  pose proof (fixed_len_le_field_len tD dv).
  clear Hc Hp Hr Hd He Hty. repeat match goal with H : has_ty _ _ = true |- _ => clear H end.
  repeat match goal with |- context [len (enc ?t ?v)] => let x := fresh "x" in set (x := len (enc t v)) in *; clearbody x end.
  repeat match goal with H : context [field_len ?t ?v] |- _ => let y := fresh "y" in set (y := field_len t v) in *; clearbody y end.
  repeat match goal with |- context [e_fixed_len ?t] => let z := fresh "z" in set (z := e_fixed_len t) in *; clearbody z end.
  lia.
Qed.
Print Assumptions Src_C02_tuple4.

Definition inj5 (p : val * val * val * val * val) : val := VCont [(fst (fst (fst (fst p)))); (snd (fst (fst (fst p)))); (snd (fst (fst p))); (snd (fst p)); (snd p)].
Lemma inj5_inj p p' : inj5 p' = inj5 p -> p' = p.
Proof. destruct p as [[[[av bv] cv] dv] ev], p' as [[[[av' bv'] cv'] dv'] ev']. unfold inj5. cbn [fst snd]. intro H. injection H; intros; subst; reflexivity. Qed.

Theorem Src_C01_tuple5 tA tB tC tD tE av bv cv dv ev :
  rt_type (TContainer false [tA; tB; tC; tD; tE]) = true -> has_ty (TContainer false [tA; tB; tC; tD; tE]) (VCont [av; bv; cv; dv; ev]) = true -> len (enc (TContainer false [tA; tB; tC; tD; tE]) (VCont [av; bv; cv; dv; ev])) < two32 ->
  e_fixed_len tA + e_fixed_len tB + e_fixed_len tC + e_fixed_len tD + e_fixed_len tE + len (enc tA av) + len (enc tB bv) + len (enc tC cv) + len (enc tD dv) <= usize_max ->
  (do bs <- GenD.tuple5_ssz_append (e_is_fixed tA) (e_fixed_len tA) (app_of tA) (e_is_fixed tB) (e_fixed_len tB) (app_of tB) (e_is_fixed tC) (e_fixed_len tC) (app_of tC) (e_is_fixed tD) (e_fixed_len tD) (app_of tD) (e_is_fixed tE) (e_fixed_len tE) (app_of tE) (av, bv, cv, dv, ev) [];
   GenD.tuple5_from_ssz_bytes (d_is_fixed tA) (d_fixed_len tA) (dec tA) (d_is_fixed tB) (d_fixed_len tB) (dec tB) (d_is_fixed tC) (d_fixed_len tC) (dec tC) (d_is_fixed tD) (d_fixed_len tD) (dec tD) (d_is_fixed tE) (d_fixed_len tE) (dec tE) bs) = Ok (av, bv, cv, dv, ev).
Proof.
  intros Hrt Hty Hlen Hfit.
  apply (src_round_trip (TContainer false [tA; tB; tC; tD; tE]) inj5
           (fun p buf => GenD.tuple5_ssz_append (e_is_fixed tA) (e_fixed_len tA) (app_of tA) (e_is_fixed tB) (e_fixed_len tB) (app_of tB) (e_is_fixed tC) (e_fixed_len tC) (app_of tC) (e_is_fixed tD) (e_fixed_len tD) (app_of tD) (e_is_fixed tE) (e_fixed_len tE) (app_of tE) p buf)
           (GenD.tuple5_from_ssz_bytes (d_is_fixed tA) (d_fixed_len tA) (dec tA) (d_is_fixed tB) (d_fixed_len tB) (dec tB) (d_is_fixed tC) (d_fixed_len tC) (dec tC) (d_is_fixed tD) (d_fixed_len tD) (dec tD) (d_is_fixed tE) (d_fixed_len tE) (dec tE)) (av, bv, cv, dv, ev)).
  - intros p'. apply inj5_inj.
  - exact Hrt.
  - exact Hty.
  - exact Hlen.
  - apply gen_tuple5_ssz_append. exact Hfit.
  - intro bs. apply gen_tuple5_from_ssz_bytes.
Qed.
Print Assumptions Src_C01_tuple5.

Theorem Src_C02_tuple5 tA tB tC tD tE bs p :
  canon_type (TContainer false [tA; tB; tC; tD; tE]) = true -> phys bs -> 2 * len bs <= usize_max ->
  GenD.tuple5_from_ssz_bytes (d_is_fixed tA) (d_fixed_len tA) (dec tA) (d_is_fixed tB) (d_fixed_len tB) (dec tB) (d_is_fixed tC) (d_fixed_len tC) (dec tC) (d_is_fixed tD) (d_fixed_len tD) (dec tD) (d_is_fixed tE) (d_fixed_len tE) (dec tE) bs = Ok p ->
  GenD.tuple5_ssz_append (e_is_fixed tA) (e_fixed_len tA) (app_of tA) (e_is_fixed tB) (e_fixed_len tB) (app_of tB) (e_is_fixed tC) (e_fixed_len tC) (app_of tC) (e_is_fixed tD) (e_fixed_len tD) (app_of tD) (e_is_fixed tE) (e_fixed_len tE) (app_of tE) p [] = Ok bs.
Proof.
  intros Hc Hp HF Hr.
  assert (Hd : dec (TContainer false [tA; tB; tC; tD; tE]) bs = Ok (inj5 p)) by (rewrite <- gen_tuple5_from_ssz_bytes, Hr; reflexivity).
  destruct (canon_facts leaf_facts _ Hc bs (inj5 p) Hp Hd) as (He & Hty).
  destruct p as [[[[av bv] cv] dv] ev]. unfold inj5 in *. cbn [fst snd] in *.
  rewrite gen_tuple5_ssz_append; [f_equal; exact He|].
  pose proof (proj1 (size_facts leaf_facts _ _ Hty)) as S. rewrite bytes_len_container_sum in S by reflexivity.
  cbn [combine map sumN fst snd] in S. fold (enc (TContainer false [tA; tB; tC; tD; tE]) (VCont [av; bv; cv; dv; ev])) in He. rewrite He in S.
  rewrite has_ty_container, !has_ty_fields_cons in Hty.
  repeat (let H := fresh "HT" in apply andb_prop in Hty; destruct Hty as [H Hty]).
  pose proof (field_len_ge tA av HT).
  pose proof (field_len_ge tB bv HT0).
  pose proof (field_len_ge tC cv HT1).
  pose proof (field_len_ge tD dv HT2).
  pose proof (fixed_len_le_field_len tA av).
  pose proof (fixed_len_le_field_len tB bv).
  pose proof (fixed_len_le_field_len tC cv).
  pose proof (fixed_len_le_field_len tD dv).
  pose proof (fixed_len_le_field_len tE ev).
  clear Hc Hp Hr Hd He Hty. repeat match goal with H : has_ty _ _ = true |- _ => clear H end.
  repeat match goal with |- context [len (enc ?t ?v)] => let x := fresh "x" in set (x := len (enc t v)) in *; clearbody x end.
  repeat match goal with H : context [field_len ?t ?v] |- _ => let y := fresh "y" in set (y := field_len t v) in *; clearbody y end.
  repeat match goal with |- context [e_fixed_len ?t] => let z := fresh "z" in set (z := e_fixed_len t) in *; clearbody z end.
  lia.
Qed.
Print Assumptions Src_C02_tuple5.

Definition inj6 (p : val * val * val * val * val * val) : val := VCont [(fst (fst (fst (fst (fst p))))); (snd (fst (fst (fst (fst p))))); (snd (fst (fst (fst p)))); (snd (fst (fst p))); (snd (fst p)); (snd p)].
Lemma inj6_inj p p' : inj6 p' = inj6 p -> p' = p.
Proof. destruct p as [[[[[av bv] cv] dv] ev] fv], p' as [[[[[av' bv'] cv'] dv'] ev'] fv']. unfold inj6. cbn [fst snd]. intro H. injection H; intros; subst; reflexivity. Qed.

Theorem Src_C01_tuple6 tA tB tC tD tE tF av bv cv dv ev fv :
  rt_type (TContainer false [tA; tB; tC; tD; tE; tF]) = true -> has_ty (TContainer false [tA; tB; tC; tD; tE; tF]) (VCont [av; bv; cv; dv; ev; fv]) = true -> len (enc (TContainer false [tA; tB; tC; tD; tE; tF]) (VCont [av; bv; cv; dv; ev; fv])) < two32 ->
  e_fixed_len tA + e_fixed_len tB + e_fixed_len tC + e_fixed_len tD + e_fixed_len tE + e_fixed_len tF + len (enc tA av) + len (enc tB bv) + len (enc tC cv) + len (enc tD dv) + len (enc tE ev) <= usize_max ->
  (do bs <- GenD.tuple6_ssz_append (e_is_fixed tA) (e_fixed_len tA) (app_of tA) (e_is_fixed tB) (e_fixed_len tB) (app_of tB) (e_is_fixed tC) (e_fixed_len tC) (app_of tC) (e_is_fixed tD) (e_fixed_len tD) (app_of tD) (e_is_fixed tE) (e_fixed_len tE) (app_of tE) (e_is_fixed tF) (e_fixed_len tF) (app_of tF) (av, bv, cv, dv, ev, fv) [];
   GenD.tuple6_from_ssz_bytes (d_is_fixed tA) (d_fixed_len tA) (dec tA) (d_is_fixed tB) (d_fixed_len tB) (dec tB) (d_is_fixed tC) (d_fixed_len tC) (dec tC) (d_is_fixed tD) (d_fixed_len tD) (dec tD) (d_is_fixed tE) (d_fixed_len tE) (dec tE) (d_is_fixed tF) (d_fixed_len tF) (dec tF) bs) = Ok (av, bv, cv, dv, ev, fv).
Proof.
  intros Hrt Hty Hlen Hfit.
  apply (src_round_trip (TContainer false [tA; tB; tC; tD; tE; tF]) inj6
           (fun p buf => GenD.tuple6_ssz_append (e_is_fixed tA) (e_fixed_len tA) (app_of tA) (e_is_fixed tB) (e_fixed_len tB) (app_of tB) (e_is_fixed tC) (e_fixed_len tC) (app_of tC) (e_is_fixed tD) (e_fixed_len tD) (app_of tD) (e_is_fixed tE) (e_fixed_len tE) (app_of tE) (e_is_fixed tF) (e_fixed_len tF) (app_of tF) p buf)
           (GenD.tuple6_from_ssz_bytes (d_is_fixed tA) (d_fixed_len tA) (dec tA) (d_is_fixed tB) (d_fixed_len tB) (dec tB) (d_is_fixed tC) (d_fixed_len tC) (dec tC) (d_is_fixed tD) (d_fixed_len tD) (dec tD) (d_is_fixed tE) (d_fixed_len tE) (dec tE) (d_is_fixed tF) (d_fixed_len tF) (dec tF)) (av, bv, cv, dv, ev, fv)).
  - intros p'. apply inj6_inj.
  - exact Hrt.
  - exact Hty.
  - exact Hlen.
  - apply gen_tuple6_ssz_append. exact Hfit.
  - intro bs. apply gen_tuple6_from_ssz_bytes.
Qed.
Print Assumptions Src_C01_tuple6.

Theorem Src_C02_tuple6 tA tB tC tD tE tF bs p :
  canon_type (TContainer false [tA; tB; tC; tD; tE; tF]) = true -> phys bs -> 2 * len bs <= usize_max ->
  GenD.tuple6_from_ssz_bytes (d_is_fixed tA) (d_fixed_len tA) (dec tA) (d_is_fixed tB) (d_fixed_len tB) (dec tB) (d_is_fixed tC) (d_fixed_len tC) (dec tC) (d_is_fixed tD) (d_fixed_len tD) (dec tD) (d_is_fixed tE) (d_fixed_len tE) (dec tE) (d_is_fixed tF) (d_fixed_len tF) (dec tF) bs = Ok p ->
  GenD.tuple6_ssz_append (e_is_fixed tA) (e_fixed_len tA) (app_of tA) (e_is_fixed tB) (e_fixed_len tB) (app_of tB) (e_is_fixed tC) (e_fixed_len tC) (app_of tC) (e_is_fixed tD) (e_fixed_len tD) (app_of tD) (e_is_fixed tE) (e_fixed_len tE) (app_of tE) (e_is_fixed tF) (e_fixed_len tF) (app_of tF) p [] = Ok bs.
Proof.
  intros Hc Hp HF Hr.
  assert (Hd : dec (TContainer false [tA; tB; tC; tD; tE; tF]) bs = Ok (inj6 p)) by (rewrite <- gen_tuple6_from_ssz_bytes, Hr; reflexivity).
  destruct (canon_facts leaf_facts _ Hc bs (inj6 p) Hp Hd) as (He & Hty).
  destruct p as [[[[[av bv] cv] dv] ev] fv]. unfold inj6 in *. cbn [fst snd] in *.
  rewrite gen_tuple6_ssz_append; [f_equal; exact He|].
  pose proof (proj1 (size_facts leaf_facts _ _ Hty)) as S. rewrite bytes_len_container_sum in S by reflexivity.
  cbn [combine map sumN fst snd] in S. fold (enc (TContainer false [tA; tB; tC; tD; tE; tF]) (VCont [av; bv; cv; dv; ev; fv])) in He. rewrite He in S.
  rewrite has_ty_container, !has_ty_fields_cons in Hty.
  repeat (let H := fresh "HT" in apply andb_prop in Hty; destruct Hty as [H Hty]).
  pose proof (field_len_ge tA av HT).
  pose proof (field_len_ge tB bv HT0).
  pose proof (field_len_ge tC cv HT1).
  pose proof (field_len_ge tD dv HT2).
  pose proof (field_len_ge tE ev HT3).
  pose proof (fixed_len_le_field_len tA av).
  pose proof (fixed_len_le_field_len tB bv).
  pose proof (fixed_len_le_field_len tC cv).
  pose proof (fixed_len_le_field_len tD dv).
  pose proof (fixed_len_le_field_len tE ev).
  pose proof (fixed_len_le_field_len tF fv).
  clear Hc Hp Hr Hd He Hty. repeat match goal with H : has_ty _ _ = true |- _ => clear H end.
  repeat match goal with |- context [len (enc ?t ?v)] => let x := fresh "x" in set (x := len (enc t v)) in *; clearbody x end.
  repeat match goal with H : context [field_len ?t ?v] |- _ => let y := fresh "y" in set (y := field_len t v) in *; clearbody y end.
  repeat match goal with |- context [e_fixed_len ?t] => let z := fresh "z" in set (z := e_fixed_len t) in *; clearbody z end.
  lia.
Qed.
Print Assumptions Src_C02_tuple6.

Definition inj7 (p : val * val * val * val * val * val * val) : val := VCont [(fst (fst (fst (fst (fst (fst p)))))); (snd (fst (fst (fst (fst (fst p)))))); (snd (fst (fst (fst (fst p))))); (snd (fst (fst (fst p)))); (snd (fst (fst p))); (snd (fst p)); (snd p)].
Lemma inj7_inj p p' : inj7 p' = inj7 p -> p' = p.
Proof. destruct p as [[[[[[av bv] cv] dv] ev] fv] gv], p' as [[[[[[av' bv'] cv'] dv'] ev'] fv'] gv']. unfold inj7. cbn [fst snd]. intro H. injection H; intros; subst; reflexivity. Qed.

Theorem Src_C01_tuple7 tA tB tC tD tE tF tG av bv cv dv ev fv gv :
  rt_type (TContainer false [tA; tB; tC; tD; tE; tF; tG]) = true -> has_ty (TContainer false [tA; tB; tC; tD; tE; tF; tG]) (VCont [av; bv; cv; dv; ev; fv; gv]) = true -> len (enc (TContainer false [tA; tB; tC; tD; tE; tF; tG]) (VCont [av; bv; cv; dv; ev; fv; gv])) < two32 ->
  e_fixed_len tA + e_fixed_len tB + e_fixed_len tC + e_fixed_len tD + e_fixed_len tE + e_fixed_len tF + e_fixed_len tG + len (enc tA av) + len (enc tB bv) + len (enc tC cv) + len (enc tD dv) + len (enc tE ev) + len (enc tF fv) <= usize_max ->
  (do bs <- GenD.tuple7_ssz_append (e_is_fixed tA) (e_fixed_len tA) (app_of tA) (e_is_fixed tB) (e_fixed_len tB) (app_of tB) (e_is_fixed tC) (e_fixed_len tC) (app_of tC) (e_is_fixed tD) (e_fixed_len tD) (app_of tD) (e_is_fixed tE) (e_fixed_len tE) (app_of tE) (e_is_fixed tF) (e_fixed_len tF) (app_of tF) (e_is_fixed tG) (e_fixed_len tG) (app_of tG) (av, bv, cv, dv, ev, fv, gv) [];
   GenD.tuple7_from_ssz_bytes (d_is_fixed tA) (d_fixed_len tA) (dec tA) (d_is_fixed tB) (d_fixed_len tB) (dec tB) (d_is_fixed tC) (d_fixed_len tC) (dec tC) (d_is_fixed tD) (d_fixed_len tD) (dec tD) (d_is_fixed tE) (d_fixed_len tE) (dec tE) (d_is_fixed tF) (d_fixed_len tF) (dec tF) (d_is_fixed tG) (d_fixed_len tG) (dec tG) bs) = Ok (av, bv, cv, dv, ev, fv, gv).
Proof.
  intros Hrt Hty Hlen Hfit.
  apply (src_round_trip (TContainer false [tA; tB; tC; tD; tE; tF; tG]) inj7
           (fun p buf => GenD.tuple7_ssz_append (e_is_fixed tA) (e_fixed_len tA) (app_of tA) (e_is_fixed tB) (e_fixed_len tB) (app_of tB) (e_is_fixed tC) (e_fixed_len tC) (app_of tC) (e_is_fixed tD) (e_fixed_len tD) (app_of tD) (e_is_fixed tE) (e_fixed_len tE) (app_of tE) (e_is_fixed tF) (e_fixed_len tF) (app_of tF) (e_is_fixed tG) (e_fixed_len tG) (app_of tG) p buf)
           (GenD.tuple7_from_ssz_bytes (d_is_fixed tA) (d_fixed_len tA) (dec tA) (d_is_fixed tB) (d_fixed_len tB) (dec tB) (d_is_fixed tC) (d_fixed_len tC) (dec tC) (d_is_fixed tD) (d_fixed_len tD) (dec tD) (d_is_fixed tE) (d_fixed_len tE) (dec tE) (d_is_fixed tF) (d_fixed_len tF) (dec tF) (d_is_fixed tG) (d_fixed_len tG) (dec tG)) (av, bv, cv, dv, ev, fv, gv)).
  - intros p'. apply inj7_inj.
  - exact Hrt.
  - exact Hty.
  - exact Hlen.
  - apply gen_tuple7_ssz_append. exact Hfit.
  - intro bs. apply gen_tuple7_from_ssz_bytes.
Qed.
Print Assumptions Src_C01_tuple7.

Theorem Src_C02_tuple7 tA tB tC tD tE tF tG bs p :
  canon_type (TContainer false [tA; tB; tC; tD; tE; tF; tG]) = true -> phys bs -> 2 * len bs <= usize_max ->
  GenD.tuple7_from_ssz_bytes (d_is_fixed tA) (d_fixed_len tA) (dec tA) (d_is_fixed tB) (d_fixed_len tB) (dec tB) (d_is_fixed tC) (d_fixed_len tC) (dec tC) (d_is_fixed tD) (d_fixed_len tD) (dec tD) (d_is_fixed tE) (d_fixed_len tE) (dec tE) (d_is_fixed tF) (d_fixed_len tF) (dec tF) (d_is_fixed tG) (d_fixed_len tG) (dec tG) bs = Ok p ->
  GenD.tuple7_ssz_append (e_is_fixed tA) (e_fixed_len tA) (app_of tA) (e_is_fixed tB) (e_fixed_len tB) (app_of tB) (e_is_fixed tC) (e_fixed_len tC) (app_of tC) (e_is_fixed tD) (e_fixed_len tD) (app_of tD) (e_is_fixed tE) (e_fixed_len tE) (app_of tE) (e_is_fixed tF) (e_fixed_len tF) (app_of tF) (e_is_fixed tG) (e_fixed_len tG) (app_of tG) p [] = Ok bs.
Proof.
  intros Hc Hp HF Hr.
  assert (Hd : dec (TContainer false [tA; tB; tC; tD; tE; tF; tG]) bs = Ok (inj7 p)) by (rewrite <- gen_tuple7_from_ssz_bytes, Hr; reflexivity).
  destruct (canon_facts leaf_facts _ Hc bs (inj7 p) Hp Hd) as (He & Hty).
  destruct p as [[[[[[av bv] cv] dv] ev] fv] gv]. unfold inj7 in *. cbn [fst snd] in *.
  rewrite gen_tuple7_ssz_append; [f_equal; exact He|].
  pose proof (proj1 (size_facts leaf_facts _ _ Hty)) as S. rewrite bytes_len_container_sum in S by reflexivity.
  cbn [combine map sumN fst snd] in S. fold (enc (TContainer false [tA; tB; tC; tD; tE; tF; tG]) (VCont [av; bv; cv; dv; ev; fv; gv])) in He. rewrite He in S.
  rewrite has_ty_container, !has_ty_fields_cons in Hty.
  repeat (let H := fresh "HT" in apply andb_prop in Hty; destruct Hty as [H Hty]).
  pose proof (field_len_ge tA av HT).
  pose proof (field_len_ge tB bv HT0).
  pose proof (field_len_ge tC cv HT1).
  pose proof (field_len_ge tD dv HT2).
  pose proof (field_len_ge tE ev HT3).
  pose proof (field_len_ge tF fv HT4).
  pose proof (fixed_len_le_field_len tA av).
  pose proof (fixed_len_le_field_len tB bv).
  pose proof (fixed_len_le_field_len tC cv).
  pose proof (fixed_len_le_field_len tD dv).
  pose proof (fixed_len_le_field_len tE ev).
  pose proof (fixed_len_le_field_len tF fv).
  pose proof (fixed_len_le_field_len tG gv).
  clear Hc Hp Hr Hd He Hty. repeat match goal with H : has_ty _ _ = true |- _ => clear H end.
  repeat match goal with |- context [len (enc ?t ?v)] => let x := fresh "x" in set (x := len (enc t v)) in *; clearbody x end.
  repeat match goal with H : context [field_len ?t ?v] |- _ => let y := fresh "y" in set (y := field_len t v) in *; clearbody y end.
  repeat match goal with |- context [e_fixed_len ?t] => let z := fresh "z" in set (z := e_fixed_len t) in *; clearbody z end.
  lia.
Qed.
Print Assumptions Src_C02_tuple7.

Definition inj8 (p : val * val * val * val * val * val * val * val) : val := VCont [(fst (fst (fst (fst (fst (fst (fst p))))))); (snd (fst (fst (fst (fst (fst (fst p))))))); (snd (fst (fst (fst (fst (fst p)))))); (snd (fst (fst (fst (fst p))))); (snd (fst (fst (fst p)))); (snd (fst (fst p))); (snd (fst p)); (snd p)].
Lemma inj8_inj p p' : inj8 p' = inj8 p -> p' = p.
Proof. destruct p as [[[[[[[av bv] cv] dv] ev] fv] gv] hv], p' as [[[[[[[av' bv'] cv'] dv'] ev'] fv'] gv'] hv']. unfold inj8. cbn [fst snd]. intro H. injection H; intros; subst; reflexivity. Qed.

Theorem Src_C01_tuple8 tA tB tC tD tE tF tG tH av bv cv dv ev fv gv hv :
  rt_type (TContainer false [tA; tB; tC; tD; tE; tF; tG; tH]) = true -> has_ty (TContainer false [tA; tB; tC; tD; tE; tF; tG; tH]) (VCont [av; bv; cv; dv; ev; fv; gv; hv]) = true -> len (enc (TContainer false [tA; tB; tC; tD; tE; tF; tG; tH]) (VCont [av; bv; cv; dv; ev; fv; gv; hv])) < two32 ->
  e_fixed_len tA + e_fixed_len tB + e_fixed_len tC + e_fixed_len tD + e_fixed_len tE + e_fixed_len tF + e_fixed_len tG + e_fixed_len tH + len (enc tA av) + len (enc tB bv) + len (enc tC cv) + len (enc tD dv) + len (enc tE ev) + len (enc tF fv) + len (enc tG gv) <= usize_max ->
  (do bs <- GenD.tuple8_ssz_append (e_is_fixed tA) (e_fixed_len tA) (app_of tA) (e_is_fixed tB) (e_fixed_len tB) (app_of tB) (e_is_fixed tC) (e_fixed_len tC) (app_of tC) (e_is_fixed tD) (e_fixed_len tD) (app_of tD) (e_is_fixed tE) (e_fixed_len tE) (app_of tE) (e_is_fixed tF) (e_fixed_len tF) (app_of tF) (e_is_fixed tG) (e_fixed_len tG) (app_of tG) (e_is_fixed tH) (e_fixed_len tH) (app_of tH) (av, bv, cv, dv, ev, fv, gv, hv) [];
   GenD.tuple8_from_ssz_bytes (d_is_fixed tA) (d_fixed_len tA) (dec tA) (d_is_fixed tB) (d_fixed_len tB) (dec tB) (d_is_fixed tC) (d_fixed_len tC) (dec tC) (d_is_fixed tD) (d_fixed_len tD) (dec tD) (d_is_fixed tE) (d_fixed_len tE) (dec tE) (d_is_fixed tF) (d_fixed_len tF) (dec tF) (d_is_fixed tG) (d_fixed_len tG) (dec tG) (d_is_fixed tH) (d_fixed_len tH) (dec tH) bs) = Ok (av, bv, cv, dv, ev, fv, gv, hv).
Proof.
  intros Hrt Hty Hlen Hfit.
  apply (src_round_trip (TContainer false [tA; tB; tC; tD; tE; tF; tG; tH]) inj8
           (fun p buf => GenD.tuple8_ssz_append (e_is_fixed tA) (e_fixed_len tA) (app_of tA) (e_is_fixed tB) (e_fixed_len tB) (app_of tB) (e_is_fixed tC) (e_fixed_len tC) (app_of tC) (e_is_fixed tD) (e_fixed_len tD) (app_of tD) (e_is_fixed tE) (e_fixed_len tE) (app_of tE) (e_is_fixed tF) (e_fixed_len tF) (app_of tF) (e_is_fixed tG) (e_fixed_len tG) (app_of tG) (e_is_fixed tH) (e_fixed_len tH) (app_of tH) p buf)
           (GenD.tuple8_from_ssz_bytes (d_is_fixed tA) (d_fixed_len tA) (dec tA) (d_is_fixed tB) (d_fixed_len tB) (dec tB) (d_is_fixed tC) (d_fixed_len tC) (dec tC) (d_is_fixed tD) (d_fixed_len tD) (dec tD) (d_is_fixed tE) (d_fixed_len tE) (dec tE) (d_is_fixed tF) (d_fixed_len tF) (dec tF) (d_is_fixed tG) (d_fixed_len tG) (dec tG) (d_is_fixed tH) (d_fixed_len tH) (dec tH)) (av, bv, cv, dv, ev, fv, gv, hv)).
  - intros p'. apply inj8_inj.
  - exact Hrt.
  - exact Hty.
  - exact Hlen.
  - apply gen_tuple8_ssz_append. exact Hfit.
  - intro bs. apply gen_tuple8_from_ssz_bytes.
Qed.
Print Assumptions Src_C01_tuple8.

Theorem Src_C02_tuple8 tA tB tC tD tE tF tG tH bs p :
  canon_type (TContainer false [tA; tB; tC; tD; tE; tF; tG; tH]) = true -> phys bs -> 2 * len bs <= usize_max ->
  GenD.tuple8_from_ssz_bytes (d_is_fixed tA) (d_fixed_len tA) (dec tA) (d_is_fixed tB) (d_fixed_len tB) (dec tB) (d_is_fixed tC) (d_fixed_len tC) (dec tC) (d_is_fixed tD) (d_fixed_len tD) (dec tD) (d_is_fixed tE) (d_fixed_len tE) (dec tE) (d_is_fixed tF) (d_fixed_len tF) (dec tF) (d_is_fixed tG) (d_fixed_len tG) (dec tG) (d_is_fixed tH) (d_fixed_len tH) (dec tH) bs = Ok p ->
  GenD.tuple8_ssz_append (e_is_fixed tA) (e_fixed_len tA) (app_of tA) (e_is_fixed tB) (e_fixed_len tB) (app_of tB) (e_is_fixed tC) (e_fixed_len tC) (app_of tC) (e_is_fixed tD) (e_fixed_len tD) (app_of tD) (e_is_fixed tE) (e_fixed_len tE) (app_of tE) (e_is_fixed tF) (e_fixed_len tF) (app_of tF) (e_is_fixed tG) (e_fixed_len tG) (app_of tG) (e_is_fixed tH) (e_fixed_len tH) (app_of tH) p [] = Ok bs.
Proof.
  intros Hc Hp HF Hr.
  assert (Hd : dec (TContainer false [tA; tB; tC; tD; tE; tF; tG; tH]) bs = Ok (inj8 p)) by (rewrite <- gen_tuple8_from_ssz_bytes, Hr; reflexivity).
  destruct (canon_facts leaf_facts _ Hc bs (inj8 p) Hp Hd) as (He & Hty).
  destruct p as [[[[[[[av bv] cv] dv] ev] fv] gv] hv]. unfold inj8 in *. cbn [fst snd] in *.
  rewrite gen_tuple8_ssz_append; [f_equal; exact He|].
  pose proof (proj1 (size_facts leaf_facts _ _ Hty)) as S. rewrite bytes_len_container_sum in S by reflexivity.
  cbn [combine map sumN fst snd] in S. fold (enc (TContainer false [tA; tB; tC; tD; tE; tF; tG; tH]) (VCont [av; bv; cv; dv; ev; fv; gv; hv])) in He. rewrite He in S.
  rewrite has_ty_container, !has_ty_fields_cons in Hty.
  repeat (let H := fresh "HT" in apply andb_prop in Hty; destruct Hty as [H Hty]).
  pose proof (field_len_ge tA av HT).
  pose proof (field_len_ge tB bv HT0).
  pose proof (field_len_ge tC cv HT1).
  pose proof (field_len_ge tD dv HT2).
  pose proof (field_len_ge tE ev HT3).
  pose proof (field_len_ge tF fv HT4).
  pose proof (field_len_ge tG gv HT5).
  pose proof (fixed_len_le_field_len tA av).
  pose proof (fixed_len_le_field_len tB bv).
  pose proof (fixed_len_le_field_len tC cv).
  pose proof (fixed_len_le_field_len tD dv).
  pose proof (fixed_len_le_field_len tE ev).
  pose proof (fixed_len_le_field_len tF fv).
  pose proof (fixed_len_le_field_len tG gv).
  pose proof (fixed_len_le_field_len tH hv).
  clear Hc Hp Hr Hd He Hty. repeat match goal with H : has_ty _ _ = true |- _ => clear H end.
  repeat match goal with |- context [len (enc ?t ?v)] => let x := fresh "x" in set (x := len (enc t v)) in *; clearbody x end.
  repeat match goal with H : context [field_len ?t ?v] |- _ => let y := fresh "y" in set (y := field_len t v) in *; clearbody y end.
  repeat match goal with |- context [e_fixed_len ?t] => let z := fresh "z" in set (z := e_fixed_len t) in *; clearbody z end.
  lia.
Qed.
Print Assumptions Src_C02_tuple8.

Definition inj9 (p : val * val * val * val * val * val * val * val * val) : val := VCont [(fst (fst (fst (fst (fst (fst (fst (fst p)))))))); (snd (fst (fst (fst (fst (fst (fst (fst p)))))))); (snd (fst (fst (fst (fst (fst (fst p))))))); (snd (fst (fst (fst (fst (fst p)))))); (snd (fst (fst (fst (fst p))))); (snd (fst (fst (fst p)))); (snd (fst (fst p))); (snd (fst p)); (snd p)].
Lemma inj9_inj p p' : inj9 p' = inj9 p -> p' = p.
Proof. destruct p as [[[[[[[[av bv] cv] dv] ev] fv] gv] hv] iv], p' as [[[[[[[[av' bv'] cv'] dv'] ev'] fv'] gv'] hv'] iv']. unfold inj9. cbn [fst snd]. intro H. injection H; intros; subst; reflexivity. Qed.

Theorem Src_C01_tuple9 tA tB tC tD tE tF tG tH tI av bv cv dv ev fv gv hv iv :
  rt_type (TContainer false [tA; tB; tC; tD; tE; tF; tG; tH; tI]) = true -> has_ty (TContainer false [tA; tB; tC; tD; tE; tF; tG; tH; tI]) (VCont [av; bv; cv; dv; ev; fv; gv; hv; iv]) = true -> len (enc (TContainer false [tA; tB; tC; tD; tE; tF; tG; tH; tI]) (VCont [av; bv; cv; dv; ev; fv; gv; hv; iv])) < two32 ->
  e_fixed_len tA + e_fixed_len tB + e_fixed_len tC + e_fixed_len tD + e_fixed_len tE + e_fixed_len tF + e_fixed_len tG + e_fixed_len tH + e_fixed_len tI + len (enc tA av) + len (enc tB bv) + len (enc tC cv) + len (enc tD dv) + len (enc tE ev) + len (enc tF fv) + len (enc tG gv) + len (enc tH hv) <= usize_max ->
  (do bs <- GenD.tuple9_ssz_append (e_is_fixed tA) (e_fixed_len tA) (app_of tA) (e_is_fixed tB) (e_fixed_len tB) (app_of tB) (e_is_fixed tC) (e_fixed_len tC) (app_of tC) (e_is_fixed tD) (e_fixed_len tD) (app_of tD) (e_is_fixed tE) (e_fixed_len tE) (app_of tE) (e_is_fixed tF) (e_fixed_len tF) (app_of tF) (e_is_fixed tG) (e_fixed_len tG) (app_of tG) (e_is_fixed tH) (e_fixed_len tH) (app_of tH) (e_is_fixed tI) (e_fixed_len tI) (app_of tI) (av, bv, cv, dv, ev, fv, gv, hv, iv) [];
   GenD.tuple9_from_ssz_bytes (d_is_fixed tA) (d_fixed_len tA) (dec tA) (d_is_fixed tB) (d_fixed_len tB) (dec tB) (d_is_fixed tC) (d_fixed_len tC) (dec tC) (d_is_fixed tD) (d_fixed_len tD) (dec tD) (d_is_fixed tE) (d_fixed_len tE) (dec tE) (d_is_fixed tF) (d_fixed_len tF) (dec tF) (d_is_fixed tG) (d_fixed_len tG) (dec tG) (d_is_fixed tH) (d_fixed_len tH) (dec tH) (d_is_fixed tI) (d_fixed_len tI) (dec tI) bs) = Ok (av, bv, cv, dv, ev, fv, gv, hv, iv).
Proof.
  intros Hrt Hty Hlen Hfit.
  apply (src_round_trip (TContainer false [tA; tB; tC; tD; tE; tF; tG; tH; tI]) inj9
           (fun p buf => GenD.tuple9_ssz_append (e_is_fixed tA) (e_fixed_len tA) (app_of tA) (e_is_fixed tB) (e_fixed_len tB) (app_of tB) (e_is_fixed tC) (e_fixed_len tC) (app_of tC) (e_is_fixed tD) (e_fixed_len tD) (app_of tD) (e_is_fixed tE) (e_fixed_len tE) (app_of tE) (e_is_fixed tF) (e_fixed_len tF) (app_of tF) (e_is_fixed tG) (e_fixed_len tG) (app_of tG) (e_is_fixed tH) (e_fixed_len tH) (app_of tH) (e_is_fixed tI) (e_fixed_len tI) (app_of tI) p buf)
           (GenD.tuple9_from_ssz_bytes (d_is_fixed tA) (d_fixed_len tA) (dec tA) (d_is_fixed tB) (d_fixed_len tB) (dec tB) (d_is_fixed tC) (d_fixed_len tC) (dec tC) (d_is_fixed tD) (d_fixed_len tD) (dec tD) (d_is_fixed tE) (d_fixed_len tE) (dec tE) (d_is_fixed tF) (d_fixed_len tF) (dec tF) (d_is_fixed tG) (d_fixed_len tG) (dec tG) (d_is_fixed tH) (d_fixed_len tH) (dec tH) (d_is_fixed tI) (d_fixed_len tI) (dec tI)) (av, bv, cv, dv, ev, fv, gv, hv, iv)).
  - intros p'. apply inj9_inj.
  - exact Hrt.
  - exact Hty.
  - exact Hlen.
  - apply gen_tuple9_ssz_append. exact Hfit.
  - intro bs. apply gen_tuple9_from_ssz_bytes.
Qed.
Print Assumptions Src_C01_tuple9.

Theorem Src_C02_tuple9 tA tB tC tD tE tF tG tH tI bs p :
  canon_type (TContainer false [tA; tB; tC; tD; tE; tF; tG; tH; tI]) = true -> phys bs -> 2 * len bs <= usize_max ->
  GenD.tuple9_from_ssz_bytes (d_is_fixed tA) (d_fixed_len tA) (dec tA) (d_is_fixed tB) (d_fixed_len tB) (dec tB) (d_is_fixed tC) (d_fixed_len tC) (dec tC) (d_is_fixed tD) (d_fixed_len tD) (dec tD) (d_is_fixed tE) (d_fixed_len tE) (dec tE) (d_is_fixed tF) (d_fixed_len tF) (dec tF) (d_is_fixed tG) (d_fixed_len tG) (dec tG) (d_is_fixed tH) (d_fixed_len tH) (dec tH) (d_is_fixed tI) (d_fixed_len tI) (dec tI) bs = Ok p ->
  GenD.tuple9_ssz_append (e_is_fixed tA) (e_fixed_len tA) (app_of tA) (e_is_fixed tB) (e_fixed_len tB) (app_of tB) (e_is_fixed tC) (e_fixed_len tC) (app_of tC) (e_is_fixed tD) (e_fixed_len tD) (app_of tD) (e_is_fixed tE) (e_fixed_len tE) (app_of tE) (e_is_fixed tF) (e_fixed_len tF) (app_of tF) (e_is_fixed tG) (e_fixed_len tG) (app_of tG) (e_is_fixed tH) (e_fixed_len tH) (app_of tH) (e_is_fixed tI) (e_fixed_len tI) (app_of tI) p [] = Ok bs.
Proof.
  intros Hc Hp HF Hr.
  assert (Hd : dec (TContainer false [tA; tB; tC; tD; tE; tF; tG; tH; tI]) bs = Ok (inj9 p)) by (rewrite <- gen_tuple9_from_ssz_bytes, Hr; reflexivity).
  destruct (canon_facts leaf_facts _ Hc bs (inj9 p) Hp Hd) as (He & Hty).
  destruct p as [[[[[[[[av bv] cv] dv] ev] fv] gv] hv] iv]. unfold inj9 in *. cbn [fst snd] in *.
  rewrite gen_tuple9_ssz_append; [f_equal; exact He|].
  pose proof (proj1 (size_facts leaf_facts _ _ Hty)) as S. rewrite bytes_len_container_sum in S by reflexivity.
  cbn [combine map sumN fst snd] in S. fold (enc (TContainer false [tA; tB; tC; tD; tE; tF; tG; tH; tI]) (VCont [av; bv; cv; dv; ev; fv; gv; hv; iv])) in He. rewrite He in S.
  rewrite has_ty_container, !has_ty_fields_cons in Hty.
  repeat (let H := fresh "HT" in apply andb_prop in Hty; destruct Hty as [H Hty]).
  pose proof (field_len_ge tA av HT).
  pose proof (field_len_ge tB bv HT0).
  pose proof (field_len_ge tC cv HT1).
  pose proof (field_len_ge tD dv HT2).
  pose proof (field_len_ge tE ev HT3).
  pose proof (field_len_ge tF fv HT4).
  pose proof (field_len_ge tG gv HT5).
  pose proof (field_len_ge tH hv HT6).
  pose proof (fixed_len_le_field_len tA av).
  pose proof (fixed_len_le_field_len tB bv).
  pose proof (fixed_len_le_field_len tC cv).
  pose proof (fixed_len_le_field_len tD dv).
  pose proof (fixed_len_le_field_len tE ev).
  pose proof (fixed_len_le_field_len tF fv).
  pose proof (fixed_len_le_field_len tG gv).
  pose proof (fixed_len_le_field_len tH hv).
  pose proof (fixed_len_le_field_len tI iv).
  clear Hc Hp Hr Hd He Hty. repeat match goal with H : has_ty _ _ = true |- _ => clear H end.
  repeat match goal with |- context [len (enc ?t ?v)] => let x := fresh "x" in set (x := len (enc t v)) in *; clearbody x end.
  repeat match goal with H : context [field_len ?t ?v] |- _ => let y := fresh "y" in set (y := field_len t v) in *; clearbody y end.
  repeat match goal with |- context [e_fixed_len ?t] => let z := fresh "z" in set (z := e_fixed_len t) in *; clearbody z end.
  lia.
Qed.
Print Assumptions Src_C02_tuple9.

Definition inj10 (p : val * val * val * val * val * val * val * val * val * val) : val := VCont [(fst (fst (fst (fst (fst (fst (fst (fst (fst p))))))))); (snd (fst (fst (fst (fst (fst (fst (fst (fst p))))))))); (snd (fst (fst (fst (fst (fst (fst (fst p)))))))); (snd (fst (fst (fst (fst (fst (fst p))))))); (snd (fst (fst (fst (fst (fst p)))))); (snd (fst (fst (fst (fst p))))); (snd (fst (fst (fst p)))); (snd (fst (fst p))); (snd (fst p)); (snd p)].
Lemma inj10_inj p p' : inj10 p' = inj10 p -> p' = p.
Proof. destruct p as [[[[[[[[[av bv] cv] dv] ev] fv] gv] hv] iv] jv], p' as [[[[[[[[[av' bv'] cv'] dv'] ev'] fv'] gv'] hv'] iv'] jv']. unfold inj10. cbn [fst snd]. intro H. injection H; intros; subst; reflexivity. Qed.

Theorem Src_C01_tuple10 tA tB tC tD tE tF tG tH tI tJ av bv cv dv ev fv gv hv iv jv :
  rt_type (TContainer false [tA; tB; tC; tD; tE; tF; tG; tH; tI; tJ]) = true -> has_ty (TContainer false [tA; tB; tC; tD; tE; tF; tG; tH; tI; tJ]) (VCont [av; bv; cv; dv; ev; fv; gv; hv; iv; jv]) = true -> len (enc (TContainer false [tA; tB; tC; tD; tE; tF; tG; tH; tI; tJ]) (VCont [av; bv; cv; dv; ev; fv; gv; hv; iv; jv])) < two32 ->
  e_fixed_len tA + e_fixed_len tB + e_fixed_len tC + e_fixed_len tD + e_fixed_len tE + e_fixed_len tF + e_fixed_len tG + e_fixed_len tH + e_fixed_len tI + e_fixed_len tJ + len (enc tA av) + len (enc tB bv) + len (enc tC cv) + len (enc tD dv) + len (enc tE ev) + len (enc tF fv) + len (enc tG gv) + len (enc tH hv) + len (enc tI iv) <= usize_max ->
  (do bs <- GenD.tuple10_ssz_append (e_is_fixed tA) (e_fixed_len tA) (app_of tA) (e_is_fixed tB) (e_fixed_len tB) (app_of tB) (e_is_fixed tC) (e_fixed_len tC) (app_of tC) (e_is_fixed tD) (e_fixed_len tD) (app_of tD) (e_is_fixed tE) (e_fixed_len tE) (app_of tE) (e_is_fixed tF) (e_fixed_len tF) (app_of tF) (e_is_fixed tG) (e_fixed_len tG) (app_of tG) (e_is_fixed tH) (e_fixed_len tH) (app_of tH) (e_is_fixed tI) (e_fixed_len tI) (app_of tI) (e_is_fixed tJ) (e_fixed_len tJ) (app_of tJ) (av, bv, cv, dv, ev, fv, gv, hv, iv, jv) [];
   GenD.tuple10_from_ssz_bytes (d_is_fixed tA) (d_fixed_len tA) (dec tA) (d_is_fixed tB) (d_fixed_len tB) (dec tB) (d_is_fixed tC) (d_fixed_len tC) (dec tC) (d_is_fixed tD) (d_fixed_len tD) (dec tD) (d_is_fixed tE) (d_fixed_len tE) (dec tE) (d_is_fixed tF) (d_fixed_len tF) (dec tF) (d_is_fixed tG) (d_fixed_len tG) (dec tG) (d_is_fixed tH) (d_fixed_len tH) (dec tH) (d_is_fixed tI) (d_fixed_len tI) (dec tI) (d_is_fixed tJ) (d_fixed_len tJ) (dec tJ) bs) = Ok (av, bv, cv, dv, ev, fv, gv, hv, iv, jv).
Proof.
  intros Hrt Hty Hlen Hfit.
  apply (src_round_trip (TContainer false [tA; tB; tC; tD; tE; tF; tG; tH; tI; tJ]) inj10
           (fun p buf => GenD.tuple10_ssz_append (e_is_fixed tA) (e_fixed_len tA) (app_of tA) (e_is_fixed tB) (e_fixed_len tB) (app_of tB) (e_is_fixed tC) (e_fixed_len tC) (app_of tC) (e_is_fixed tD) (e_fixed_len tD) (app_of tD) (e_is_fixed tE) (e_fixed_len tE) (app_of tE) (e_is_fixed tF) (e_fixed_len tF) (app_of tF) (e_is_fixed tG) (e_fixed_len tG) (app_of tG) (e_is_fixed tH) (e_fixed_len tH) (app_of tH) (e_is_fixed tI) (e_fixed_len tI) (app_of tI) (e_is_fixed tJ) (e_fixed_len tJ) (app_of tJ) p buf)
           (GenD.tuple10_from_ssz_bytes (d_is_fixed tA) (d_fixed_len tA) (dec tA) (d_is_fixed tB) (d_fixed_len tB) (dec tB) (d_is_fixed tC) (d_fixed_len tC) (dec tC) (d_is_fixed tD) (d_fixed_len tD) (dec tD) (d_is_fixed tE) (d_fixed_len tE) (dec tE) (d_is_fixed tF) (d_fixed_len tF) (dec tF) (d_is_fixed tG) (d_fixed_len tG) (dec tG) (d_is_fixed tH) (d_fixed_len tH) (dec tH) (d_is_fixed tI) (d_fixed_len tI) (dec tI) (d_is_fixed tJ) (d_fixed_len tJ) (dec tJ)) (av, bv, cv, dv, ev, fv, gv, hv, iv, jv)).
  - intros p'. apply inj10_inj.
  - exact Hrt.
  - exact Hty.
  - exact Hlen.
  - apply gen_tuple10_ssz_append. exact Hfit.
  - intro bs. apply gen_tuple10_from_ssz_bytes.
Qed.
Print Assumptions Src_C01_tuple10.

Theorem Src_C02_tuple10 tA tB tC tD tE tF tG tH tI tJ bs p :
  canon_type (TContainer false [tA; tB; tC; tD; tE; tF; tG; tH; tI; tJ]) = true -> phys bs -> 2 * len bs <= usize_max ->
  GenD.tuple10_from_ssz_bytes (d_is_fixed tA) (d_fixed_len tA) (dec tA) (d_is_fixed tB) (d_fixed_len tB) (dec tB) (d_is_fixed tC) (d_fixed_len tC) (dec tC) (d_is_fixed tD) (d_fixed_len tD) (dec tD) (d_is_fixed tE) (d_fixed_len tE) (dec tE) (d_is_fixed tF) (d_fixed_len tF) (dec tF) (d_is_fixed tG) (d_fixed_len tG) (dec tG) (d_is_fixed tH) (d_fixed_len tH) (dec tH) (d_is_fixed tI) (d_fixed_len tI) (dec tI) (d_is_fixed tJ) (d_fixed_len tJ) (dec tJ) bs = Ok p ->
  GenD.tuple10_ssz_append (e_is_fixed tA) (e_fixed_len tA) (app_of tA) (e_is_fixed tB) (e_fixed_len tB) (app_of tB) (e_is_fixed tC) (e_fixed_len tC) (app_of tC) (e_is_fixed tD) (e_fixed_len tD) (app_of tD) (e_is_fixed tE) (e_fixed_len tE) (app_of tE) (e_is_fixed tF) (e_fixed_len tF) (app_of tF) (e_is_fixed tG) (e_fixed_len tG) (app_of tG) (e_is_fixed tH) (e_fixed_len tH) (app_of tH) (e_is_fixed tI) (e_fixed_len tI) (app_of tI) (e_is_fixed tJ) (e_fixed_len tJ) (app_of tJ) p [] = Ok bs.
Proof.
  intros Hc Hp HF Hr.
  assert (Hd : dec (TContainer false [tA; tB; tC; tD; tE; tF; tG; tH; tI; tJ]) bs = Ok (inj10 p)) by (rewrite <- gen_tuple10_from_ssz_bytes, Hr; reflexivity).
  destruct (canon_facts leaf_facts _ Hc bs (inj10 p) Hp Hd) as (He & Hty).
  destruct p as [[[[[[[[[av bv] cv] dv] ev] fv] gv] hv] iv] jv]. unfold inj10 in *. cbn [fst snd] in *.
  rewrite gen_tuple10_ssz_append; [f_equal; exact He|].
  pose proof (proj1 (size_facts leaf_facts _ _ Hty)) as S. rewrite bytes_len_container_sum in S by reflexivity.
  cbn [combine map sumN fst snd] in S. fold (enc (TContainer false [tA; tB; tC; tD; tE; tF; tG; tH; tI; tJ]) (VCont [av; bv; cv; dv; ev; fv; gv; hv; iv; jv])) in He. rewrite He in S.
  rewrite has_ty_container, !has_ty_fields_cons in Hty.
  repeat (let H := fresh "HT" in apply andb_prop in Hty; destruct Hty as [H Hty]).
  pose proof (field_len_ge tA av HT).
  pose proof (field_len_ge tB bv HT0).
  pose proof (field_len_ge tC cv HT1).
  pose proof (field_len_ge tD dv HT2).
  pose proof (field_len_ge tE ev HT3).
  pose proof (field_len_ge tF fv HT4).
  pose proof (field_len_ge tG gv HT5).
  pose proof (field_len_ge tH hv HT6).
  pose proof (field_len_ge tI iv HT7).
  pose proof (fixed_len_le_field_len tA av).
  pose proof (fixed_len_le_field_len tB bv).
  pose proof (fixed_len_le_field_len tC cv).
  pose proof (fixed_len_le_field_len tD dv).
  pose proof (fixed_len_le_field_len tE ev).
  pose proof (fixed_len_le_field_len tF fv).
  pose proof (fixed_len_le_field_len tG gv).
  pose proof (fixed_len_le_field_len tH hv).
  pose proof (fixed_len_le_field_len tI iv).
  pose proof (fixed_len_le_field_len tJ jv).
  clear Hc Hp Hr Hd He Hty. repeat match goal with H : has_ty _ _ = true |- _ => clear H end.
  repeat match goal with |- context [len (enc ?t ?v)] => let x := fresh "x" in set (x := len (enc t v)) in *; clearbody x end.
  repeat match goal with H : context [field_len ?t ?v] |- _ => let y := fresh "y" in set (y := field_len t v) in *; clearbody y end.
  repeat match goal with |- context [e_fixed_len ?t] => let z := fresh "z" in set (z := e_fixed_len t) in *; clearbody z end.
  lia.
Qed.
Print Assumptions Src_C02_tuple10.

Definition inj11 (p : val * val * val * val * val * val * val * val * val * val * val) : val := VCont [(fst (fst (fst (fst (fst (fst (fst (fst (fst (fst p)))))))))); (snd (fst (fst (fst (fst (fst (fst (fst (fst (fst p)))))))))); (snd (fst (fst (fst (fst (fst (fst (fst (fst p))))))))); (snd (fst (fst (fst (fst (fst (fst (fst p)))))))); (snd (fst (fst (fst (fst (fst (fst p))))))); (snd (fst (fst (fst (fst (fst p)))))); (snd (fst (fst (fst (fst p))))); (snd (fst (fst (fst p)))); (snd (fst (fst p))); (snd (fst p)); (snd p)].
Lemma inj11_inj p p' : inj11 p' = inj11 p -> p' = p.
Proof. destruct p as [[[[[[[[[[av bv] cv] dv] ev] fv] gv] hv] iv] jv] kv], p' as [[[[[[[[[[av' bv'] cv'] dv'] ev'] fv'] gv'] hv'] iv'] jv'] kv']. unfold inj11. cbn [fst snd]. intro H. injection H; intros; subst; reflexivity. Qed.

Theorem Src_C01_tuple11 tA tB tC tD tE tF tG tH tI tJ tK av bv cv dv ev fv gv hv iv jv kv :
  rt_type (TContainer false [tA; tB; tC; tD; tE; tF; tG; tH; tI; tJ; tK]) = true -> has_ty (TContainer false [tA; tB; tC; tD; tE; tF; tG; tH; tI; tJ; tK]) (VCont [av; bv; cv; dv; ev; fv; gv; hv; iv; jv; kv]) = true -> len (enc (TContainer false [tA; tB; tC; tD; tE; tF; tG; tH; tI; tJ; tK]) (VCont [av; bv; cv; dv; ev; fv; gv; hv; iv; jv; kv])) < two32 ->
  e_fixed_len tA + e_fixed_len tB + e_fixed_len tC + e_fixed_len tD + e_fixed_len tE + e_fixed_len tF + e_fixed_len tG + e_fixed_len tH + e_fixed_len tI + e_fixed_len tJ + e_fixed_len tK + len (enc tA av) + len (enc tB bv) + len (enc tC cv) + len (enc tD dv) + len (enc tE ev) + len (enc tF fv) + len (enc tG gv) + len (enc tH hv) + len (enc tI iv) + len (enc tJ jv) <= usize_max ->
  (do bs <- GenD.tuple11_ssz_append (e_is_fixed tA) (e_fixed_len tA) (app_of tA) (e_is_fixed tB) (e_fixed_len tB) (app_of tB) (e_is_fixed tC) (e_fixed_len tC) (app_of tC) (e_is_fixed tD) (e_fixed_len tD) (app_of tD) (e_is_fixed tE) (e_fixed_len tE) (app_of tE) (e_is_fixed tF) (e_fixed_len tF) (app_of tF) (e_is_fixed tG) (e_fixed_len tG) (app_of tG) (e_is_fixed tH) (e_fixed_len tH) (app_of tH) (e_is_fixed tI) (e_fixed_len tI) (app_of tI) (e_is_fixed tJ) (e_fixed_len tJ) (app_of tJ) (e_is_fixed tK) (e_fixed_len tK) (app_of tK) (av, bv, cv, dv, ev, fv, gv, hv, iv, jv, kv) [];
   GenD.tuple11_from_ssz_bytes (d_is_fixed tA) (d_fixed_len tA) (dec tA) (d_is_fixed tB) (d_fixed_len tB) (dec tB) (d_is_fixed tC) (d_fixed_len tC) (dec tC) (d_is_fixed tD) (d_fixed_len tD) (dec tD) (d_is_fixed tE) (d_fixed_len tE) (dec tE) (d_is_fixed tF) (d_fixed_len tF) (dec tF) (d_is_fixed tG) (d_fixed_len tG) (dec tG) (d_is_fixed tH) (d_fixed_len tH) (dec tH) (d_is_fixed tI) (d_fixed_len tI) (dec tI) (d_is_fixed tJ) (d_fixed_len tJ) (dec tJ) (d_is_fixed tK) (d_fixed_len tK) (dec tK) bs) = Ok (av, bv, cv, dv, ev, fv, gv, hv, iv, jv, kv).
Proof.
  intros Hrt Hty Hlen Hfit.
  apply (src_round_trip (TContainer false [tA; tB; tC; tD; tE; tF; tG; tH; tI; tJ; tK]) inj11
           (fun p buf => GenD.tuple11_ssz_append (e_is_fixed tA) (e_fixed_len tA) (app_of tA) (e_is_fixed tB) (e_fixed_len tB) (app_of tB) (e_is_fixed tC) (e_fixed_len tC) (app_of tC) (e_is_fixed tD) (e_fixed_len tD) (app_of tD) (e_is_fixed tE) (e_fixed_len tE) (app_of tE) (e_is_fixed tF) (e_fixed_len tF) (app_of tF) (e_is_fixed tG) (e_fixed_len tG) (app_of tG) (e_is_fixed tH) (e_fixed_len tH) (app_of tH) (e_is_fixed tI) (e_fixed_len tI) (app_of tI) (e_is_fixed tJ) (e_fixed_len tJ) (app_of tJ) (e_is_fixed tK) (e_fixed_len tK) (app_of tK) p buf)
           (GenD.tuple11_from_ssz_bytes (d_is_fixed tA) (d_fixed_len tA) (dec tA) (d_is_fixed tB) (d_fixed_len tB) (dec tB) (d_is_fixed tC) (d_fixed_len tC) (dec tC) (d_is_fixed tD) (d_fixed_len tD) (dec tD) (d_is_fixed tE) (d_fixed_len tE) (dec tE) (d_is_fixed tF) (d_fixed_len tF) (dec tF) (d_is_fixed tG) (d_fixed_len tG) (dec tG) (d_is_fixed tH) (d_fixed_len tH) (dec tH) (d_is_fixed tI) (d_fixed_len tI) (dec tI) (d_is_fixed tJ) (d_fixed_len tJ) (dec tJ) (d_is_fixed tK) (d_fixed_len tK) (dec tK)) (av, bv, cv, dv, ev, fv, gv, hv, iv, jv, kv)).
  - intros p'. apply inj11_inj.
  - exact Hrt.
  - exact Hty.
  - exact Hlen.
  - apply gen_tuple11_ssz_append. exact Hfit.
  - intro bs. apply gen_tuple11_from_ssz_bytes.
Qed.
Print Assumptions Src_C01_tuple11.

Theorem Src_C02_tuple11 tA tB tC tD tE tF tG tH tI tJ tK bs p :
  canon_type (TContainer false [tA; tB; tC; tD; tE; tF; tG; tH; tI; tJ; tK]) = true -> phys bs -> 2 * len bs <= usize_max ->
  GenD.tuple11_from_ssz_bytes (d_is_fixed tA) (d_fixed_len tA) (dec tA) (d_is_fixed tB) (d_fixed_len tB) (dec tB) (d_is_fixed tC) (d_fixed_len tC) (dec tC) (d_is_fixed tD) (d_fixed_len tD) (dec tD) (d_is_fixed tE) (d_fixed_len tE) (dec tE) (d_is_fixed tF) (d_fixed_len tF) (dec tF) (d_is_fixed tG) (d_fixed_len tG) (dec tG) (d_is_fixed tH) (d_fixed_len tH) (dec tH) (d_is_fixed tI) (d_fixed_len tI) (dec tI) (d_is_fixed tJ) (d_fixed_len tJ) (dec tJ) (d_is_fixed tK) (d_fixed_len tK) (dec tK) bs = Ok p ->
  GenD.tuple11_ssz_append (e_is_fixed tA) (e_fixed_len tA) (app_of tA) (e_is_fixed tB) (e_fixed_len tB) (app_of tB) (e_is_fixed tC) (e_fixed_len tC) (app_of tC) (e_is_fixed tD) (e_fixed_len tD) (app_of tD) (e_is_fixed tE) (e_fixed_len tE) (app_of tE) (e_is_fixed tF) (e_fixed_len tF) (app_of tF) (e_is_fixed tG) (e_fixed_len tG) (app_of tG) (e_is_fixed tH) (e_fixed_len tH) (app_of tH) (e_is_fixed tI) (e_fixed_len tI) (app_of tI) (e_is_fixed tJ) (e_fixed_len tJ) (app_of tJ) (e_is_fixed tK) (e_fixed_len tK) (app_of tK) p [] = Ok bs.
Proof.
  intros Hc Hp HF Hr.
  assert (Hd : dec (TContainer false [tA; tB; tC; tD; tE; tF; tG; tH; tI; tJ; tK]) bs = Ok (inj11 p)) by (rewrite <- gen_tuple11_from_ssz_bytes, Hr; reflexivity).
  destruct (canon_facts leaf_facts _ Hc bs (inj11 p) Hp Hd) as (He & Hty).
  destruct p as [[[[[[[[[[av bv] cv] dv] ev] fv] gv] hv] iv] jv] kv]. unfold inj11 in *. cbn [fst snd] in *.
  rewrite gen_tuple11_ssz_append; [f_equal; exact He|].
  pose proof (proj1 (size_facts leaf_facts _ _ Hty)) as S. rewrite bytes_len_container_sum in S by reflexivity.
  cbn [combine map sumN fst snd] in S. fold (enc (TContainer false [tA; tB; tC; tD; tE; tF; tG; tH; tI; tJ; tK]) (VCont [av; bv; cv; dv; ev; fv; gv; hv; iv; jv; kv])) in He. rewrite He in S.
  rewrite has_ty_container, !has_ty_fields_cons in Hty.
  repeat (let H := fresh "HT" in apply andb_prop in Hty; destruct Hty as [H Hty]).
  pose proof (field_len_ge tA av HT).
  pose proof (field_len_ge tB bv HT0).
  pose proof (field_len_ge tC cv HT1).
  pose proof (field_len_ge tD dv HT2).
  pose proof (field_len_ge tE ev HT3).
  pose proof (field_len_ge tF fv HT4).
  pose proof (field_len_ge tG gv HT5).
  pose proof (field_len_ge tH hv HT6).
  pose proof (field_len_ge tI iv HT7).
  pose proof (field_len_ge tJ jv HT8).
  pose proof (fixed_len_le_field_len tA av).
  pose proof (fixed_len_le_field_len tB bv).
  pose proof (fixed_len_le_field_len tC cv).
  pose proof (fixed_len_le_field_len tD dv).
  pose proof (fixed_len_le_field_len tE ev).
  pose proof (fixed_len_le_field_len tF fv).
  pose proof (fixed_len_le_field_len tG gv).
  pose proof (fixed_len_le_field_len tH hv).
  pose proof (fixed_len_le_field_len tI iv).
  pose proof (fixed_len_le_field_len tJ jv).
  pose proof (fixed_len_le_field_len tK kv).
  clear Hc Hp Hr Hd He Hty. repeat match goal with H : has_ty _ _ = true |- _ => clear H end.
  repeat match goal with |- context [len (enc ?t ?v)] => let x := fresh "x" in set (x := len (enc t v)) in *; clearbody x end.
  repeat match goal with H : context [field_len ?t ?v] |- _ => let y := fresh "y" in set (y := field_len t v) in *; clearbody y end.
  repeat match goal with |- context [e_fixed_len ?t] => let z := fresh "z" in set (z := e_fixed_len t) in *; clearbody z end.
  lia.
Qed.
Print Assumptions Src_C02_tuple11.

Definition inj12 (p : val * val * val * val * val * val * val * val * val * val * val * val) : val := VCont [(fst (fst (fst (fst (fst (fst (fst (fst (fst (fst (fst p))))))))))); (snd (fst (fst (fst (fst (fst (fst (fst (fst (fst (fst p))))))))))); (snd (fst (fst (fst (fst (fst (fst (fst (fst (fst p)))))))))); (snd (fst (fst (fst (fst (fst (fst (fst (fst p))))))))); (snd (fst (fst (fst (fst (fst (fst (fst p)))))))); (snd (fst (fst (fst (fst (fst (fst p))))))); (snd (fst (fst (fst (fst (fst p)))))); (snd (fst (fst (fst (fst p))))); (snd (fst (fst (fst p)))); (snd (fst (fst p))); (snd (fst p)); (snd p)].
Lemma inj12_inj p p' : inj12 p' = inj12 p -> p' = p.
Proof. destruct p as [[[[[[[[[[[av bv] cv] dv] ev] fv] gv] hv] iv] jv] kv] lv], p' as [[[[[[[[[[[av' bv'] cv'] dv'] ev'] fv'] gv'] hv'] iv'] jv'] kv'] lv']. unfold inj12. cbn [fst snd]. intro H. injection H; intros; subst; reflexivity. Qed.

Theorem Src_C01_tuple12 tA tB tC tD tE tF tG tH tI tJ tK tL av bv cv dv ev fv gv hv iv jv kv lv :
  rt_type (TContainer false [tA; tB; tC; tD; tE; tF; tG; tH; tI; tJ; tK; tL]) = true -> has_ty (TContainer false [tA; tB; tC; tD; tE; tF; tG; tH; tI; tJ; tK; tL]) (VCont [av; bv; cv; dv; ev; fv; gv; hv; iv; jv; kv; lv]) = true -> len (enc (TContainer false [tA; tB; tC; tD; tE; tF; tG; tH; tI; tJ; tK; tL]) (VCont [av; bv; cv; dv; ev; fv; gv; hv; iv; jv; kv; lv])) < two32 ->
  e_fixed_len tA + e_fixed_len tB + e_fixed_len tC + e_fixed_len tD + e_fixed_len tE + e_fixed_len tF + e_fixed_len tG + e_fixed_len tH + e_fixed_len tI + e_fixed_len tJ + e_fixed_len tK + e_fixed_len tL + len (enc tA av) + len (enc tB bv) + len (enc tC cv) + len (enc tD dv) + len (enc tE ev) + len (enc tF fv) + len (enc tG gv) + len (enc tH hv) + len (enc tI iv) + len (enc tJ jv) + len (enc tK kv) <= usize_max ->
  (do bs <- GenD.tuple12_ssz_append (e_is_fixed tA) (e_fixed_len tA) (app_of tA) (e_is_fixed tB) (e_fixed_len tB) (app_of tB) (e_is_fixed tC) (e_fixed_len tC) (app_of tC) (e_is_fixed tD) (e_fixed_len tD) (app_of tD) (e_is_fixed tE) (e_fixed_len tE) (app_of tE) (e_is_fixed tF) (e_fixed_len tF) (app_of tF) (e_is_fixed tG) (e_fixed_len tG) (app_of tG) (e_is_fixed tH) (e_fixed_len tH) (app_of tH) (e_is_fixed tI) (e_fixed_len tI) (app_of tI) (e_is_fixed tJ) (e_fixed_len tJ) (app_of tJ) (e_is_fixed tK) (e_fixed_len tK) (app_of tK) (e_is_fixed tL) (e_fixed_len tL) (app_of tL) (av, bv, cv, dv, ev, fv, gv, hv, iv, jv, kv, lv) [];
   GenD.tuple12_from_ssz_bytes (d_is_fixed tA) (d_fixed_len tA) (dec tA) (d_is_fixed tB) (d_fixed_len tB) (dec tB) (d_is_fixed tC) (d_fixed_len tC) (dec tC) (d_is_fixed tD) (d_fixed_len tD) (dec tD) (d_is_fixed tE) (d_fixed_len tE) (dec tE) (d_is_fixed tF) (d_fixed_len tF) (dec tF) (d_is_fixed tG) (d_fixed_len tG) (dec tG) (d_is_fixed tH) (d_fixed_len tH) (dec tH) (d_is_fixed tI) (d_fixed_len tI) (dec tI) (d_is_fixed tJ) (d_fixed_len tJ) (dec tJ) (d_is_fixed tK) (d_fixed_len tK) (dec tK) (d_is_fixed tL) (d_fixed_len tL) (dec tL) bs) = Ok (av, bv, cv, dv, ev, fv, gv, hv, iv, jv, kv, lv).
Proof.
  intros Hrt Hty Hlen Hfit.
  apply (src_round_trip (TContainer false [tA; tB; tC; tD; tE; tF; tG; tH; tI; tJ; tK; tL]) inj12
           (fun p buf => GenD.tuple12_ssz_append (e_is_fixed tA) (e_fixed_len tA) (app_of tA) (e_is_fixed tB) (e_fixed_len tB) (app_of tB) (e_is_fixed tC) (e_fixed_len tC) (app_of tC) (e_is_fixed tD) (e_fixed_len tD) (app_of tD) (e_is_fixed tE) (e_fixed_len tE) (app_of tE) (e_is_fixed tF) (e_fixed_len tF) (app_of tF) (e_is_fixed tG) (e_fixed_len tG) (app_of tG) (e_is_fixed tH) (e_fixed_len tH) (app_of tH) (e_is_fixed tI) (e_fixed_len tI) (app_of tI) (e_is_fixed tJ) (e_fixed_len tJ) (app_of tJ) (e_is_fixed tK) (e_fixed_len tK) (app_of tK) (e_is_fixed tL) (e_fixed_len tL) (app_of tL) p buf)
           (GenD.tuple12_from_ssz_bytes (d_is_fixed tA) (d_fixed_len tA) (dec tA) (d_is_fixed tB) (d_fixed_len tB) (dec tB) (d_is_fixed tC) (d_fixed_len tC) (dec tC) (d_is_fixed tD) (d_fixed_len tD) (dec tD) (d_is_fixed tE) (d_fixed_len tE) (dec tE) (d_is_fixed tF) (d_fixed_len tF) (dec tF) (d_is_fixed tG) (d_fixed_len tG) (dec tG) (d_is_fixed tH) (d_fixed_len tH) (dec tH) (d_is_fixed tI) (d_fixed_len tI) (dec tI) (d_is_fixed tJ) (d_fixed_len tJ) (dec tJ) (d_is_fixed tK) (d_fixed_len tK) (dec tK) (d_is_fixed tL) (d_fixed_len tL) (dec tL)) (av, bv, cv, dv, ev, fv, gv, hv, iv, jv, kv, lv)).
  - intros p'. apply inj12_inj.
  - exact Hrt.
  - exact Hty.
  - exact Hlen.
  - apply gen_tuple12_ssz_append. exact Hfit.
  - intro bs. apply gen_tuple12_from_ssz_bytes.
Qed.
Print Assumptions Src_C01_tuple12.

Theorem Src_C02_tuple12 tA tB tC tD tE tF tG tH tI tJ tK tL bs p :
  canon_type (TContainer false [tA; tB; tC; tD; tE; tF; tG; tH; tI; tJ; tK; tL]) = true -> phys bs -> 2 * len bs <= usize_max ->
  GenD.tuple12_from_ssz_bytes (d_is_fixed tA) (d_fixed_len tA) (dec tA) (d_is_fixed tB) (d_fixed_len tB) (dec tB) (d_is_fixed tC) (d_fixed_len tC) (dec tC) (d_is_fixed tD) (d_fixed_len tD) (dec tD) (d_is_fixed tE) (d_fixed_len tE) (dec tE) (d_is_fixed tF) (d_fixed_len tF) (dec tF) (d_is_fixed tG) (d_fixed_len tG) (dec tG) (d_is_fixed tH) (d_fixed_len tH) (dec tH) (d_is_fixed tI) (d_fixed_len tI) (dec tI) (d_is_fixed tJ) (d_fixed_len tJ) (dec tJ) (d_is_fixed tK) (d_fixed_len tK) (dec tK) (d_is_fixed tL) (d_fixed_len tL) (dec tL) bs = Ok p ->
  GenD.tuple12_ssz_append (e_is_fixed tA) (e_fixed_len tA) (app_of tA) (e_is_fixed tB) (e_fixed_len tB) (app_of tB) (e_is_fixed tC) (e_fixed_len tC) (app_of tC) (e_is_fixed tD) (e_fixed_len tD) (app_of tD) (e_is_fixed tE) (e_fixed_len tE) (app_of tE) (e_is_fixed tF) (e_fixed_len tF) (app_of tF) (e_is_fixed tG) (e_fixed_len tG) (app_of tG) (e_is_fixed tH) (e_fixed_len tH) (app_of tH) (e_is_fixed tI) (e_fixed_len tI) (app_of tI) (e_is_fixed tJ) (e_fixed_len tJ) (app_of tJ) (e_is_fixed tK) (e_fixed_len tK) (app_of tK) (e_is_fixed tL) (e_fixed_len tL) (app_of tL) p [] = Ok bs.
Proof.
  intros Hc Hp HF Hr.
  assert (Hd : dec (TContainer false [tA; tB; tC; tD; tE; tF; tG; tH; tI; tJ; tK; tL]) bs = Ok (inj12 p)) by (rewrite <- gen_tuple12_from_ssz_bytes, Hr; reflexivity).
  destruct (canon_facts leaf_facts _ Hc bs (inj12 p) Hp Hd) as (He & Hty).
  destruct p as [[[[[[[[[[[av bv] cv] dv] ev] fv] gv] hv] iv] jv] kv] lv]. unfold inj12 in *. cbn [fst snd] in *.
  rewrite gen_tuple12_ssz_append; [f_equal; exact He|].
  pose proof (proj1 (size_facts leaf_facts _ _ Hty)) as S. rewrite bytes_len_container_sum in S by reflexivity.
  cbn [combine map sumN fst snd] in S. fold (enc (TContainer false [tA; tB; tC; tD; tE; tF; tG; tH; tI; tJ; tK; tL]) (VCont [av; bv; cv; dv; ev; fv; gv; hv; iv; jv; kv; lv])) in He. rewrite He in S.
  rewrite has_ty_container, !has_ty_fields_cons in Hty.
  repeat (let H := fresh "HT" in apply andb_prop in Hty; destruct Hty as [H Hty]).
  pose proof (field_len_ge tA av HT).
  pose proof (field_len_ge tB bv HT0).
  pose proof (field_len_ge tC cv HT1).
  pose proof (field_len_ge tD dv HT2).
  pose proof (field_len_ge tE ev HT3).
  pose proof (field_len_ge tF fv HT4).
  pose proof (field_len_ge tG gv HT5).
  pose proof (field_len_ge tH hv HT6).
  pose proof (field_len_ge tI iv HT7).
  pose proof (field_len_ge tJ jv HT8).
  pose proof (field_len_ge tK kv HT9).
  pose proof (fixed_len_le_field_len tA av).
  pose proof (fixed_len_le_field_len tB bv).
  pose proof (fixed_len_le_field_len tC cv).
  pose proof (fixed_len_le_field_len tD dv).
  pose proof (fixed_len_le_field_len tE ev).
  pose proof (fixed_len_le_field_len tF fv).
  pose proof (fixed_len_le_field_len tG gv).
  pose proof (fixed_len_le_field_len tH hv).
  pose proof (fixed_len_le_field_len tI iv).
  pose proof (fixed_len_le_field_len tJ jv).
  pose proof (fixed_len_le_field_len tK kv).
  pose proof (fixed_len_le_field_len tL lv).
  clear Hc Hp Hr Hd He Hty. repeat match goal with H : has_ty _ _ = true |- _ => clear H end.
  repeat match goal with |- context [len (enc ?t ?v)] => let x := fresh "x" in set (x := len (enc t v)) in *; clearbody x end.
  repeat match goal with H : context [field_len ?t ?v] |- _ => let y := fresh "y" in set (y := field_len t v) in *; clearbody y end.
  repeat match goal with |- context [e_fixed_len ?t] => let z := fresh "z" in set (z := e_fixed_len t) in *; clearbody z end.
  lia.
Qed.
Print Assumptions Src_C02_tuple12.
