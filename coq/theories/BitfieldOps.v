(** * BitfieldOps: operation histories on bitfields, run on the byte-level implementation model
    ([Bitfield.v]) and on plain boolean sequences (the abstract machine), with the observations
    C11 compares.  Definitions only. *)
From SSZ Require Export Bitfield Spec.

Inductive flavour := FList (cap : N) | FVec (n : N) | FDyn.

(** Operations on four registers (indices are taken modulo 4 by [reg_get]/[reg_set]). *)
Inductive bop :=
| ONew (r : nat) (n : N)                 (* with_capacity(n) / new() / Dynamic::new(n) *)
| OSet (r : nat) (i : N) (v : bool)
| OShiftUp (r : nat) (n : N)
| ODiffInplace (r s : nat)
| OClone (r s : nat)
| ODecode (r : nat) (bs : bytes)         (* from_ssz_bytes / from_bytes *)
| OUnion (r a b : nat)
| OInter (r a b : nat)
| ODiff (r a b : nat)
| OSubset (r a b : nat).                 (* observation only: is_subset(a, b), reported at r *)

Definition target (o : bop) : nat :=
  match o with
  | ONew r _ | OSet r _ _ | OShiftUp r _ | ODiffInplace r _ | OClone r _ | ODecode r _
  | OUnion r _ _ | OInter r _ _ | ODiff r _ _ | OSubset r _ _ => r
  end.

Definition regs (A : Type) := list (option A).
Definition empty_regs {A} : regs A := [None; None; None; None].
Definition reg_get {A} (rs : regs A) (r : nat) : option A := nth (Nat.modulo r 4) rs None.
Fixpoint set_idx {A} (l : list A) (i : nat) (x : A) : list A :=
  match l, i with
  | [], _ => []
  | _ :: t, O => x :: t
  | h :: t, S j => h :: set_idx t j x
  end.
Definition reg_set {A} (rs : regs A) (r : nat) (x : option A) : regs A := set_idx rs (Nat.modulo r 4) x.

(** What is observed of the target register after each operation. *)
Record obs := {
  o_status : N;                 (* 0 = the operation succeeded, 1 = it returned an error (or had
                                   nothing to act on), 2 = panic *)
  o_present : bool;
  o_len : N;
  o_bits : list bool;           (* iter() *)
  o_nsb : N;                    (* num_set_bits *)
  o_hsb : option N;             (* highest_set_bit *)
  o_zero : bool;                (* is_zero *)
  o_slice : bytes;              (* as_slice *)
  o_ssz : bytes;                (* as_ssz_bytes *)
  o_eq : list bool;             (* == against each of the four registers *)
  o_hash : list N;              (* what Hash feeds to the hasher *)
  o_sub : option bool           (* is_subset result, for OSubset *)
}.

Definition no_obs (st : N) (sub : option bool) : obs :=
  {| o_status := st; o_present := false; o_len := 0; o_bits := []; o_nsb := 0; o_hsb := None;
     o_zero := false; o_slice := []; o_ssz := []; o_eq := []; o_hash := []; o_sub := sub |}.

Definition status_of {A} (o : outcome A) : N := match o with Ok _ => 0 | Err => 1 | Panic => 2 end.

(** ** the implementation machine *)
Definition i_ssz (fl : flavour) (b : bf) : bytes :=
  match fl with
  | FList _ => match bl_into_bytes b with Ok bs => bs | _ => [] end
  | FVec _ => bv_into_bytes b
  | FDyn => bd_into_bytes b
  end.

Definition i_observe (fl : flavour) (rs : regs bf) (r : nat) (st : N) (sub : option bool) : obs :=
  match reg_get rs r with
  | None => no_obs st sub
  | Some b =>
      {| o_status := st; o_present := true; o_len := bf_len b; o_bits := bf_iter b;
         o_nsb := num_set_bits b; o_hsb := highest_set_bit b; o_zero := is_zero b;
         o_slice := bf_bytes b; o_ssz := i_ssz fl b;
         o_eq := map (fun x => match x with Some c => bf_eqb b c | None => false end) rs;
         o_hash := bf_hash_stream b; o_sub := sub |}
  end.

Definition i_new (fl : flavour) (n : N) : outcome bf :=
  match fl with
  | FList cap => bl_with_capacity cap n
  | FVec m => Ok (bv_new m)
  | FDyn => bd_new n
  end.
Definition i_decode (fl : flavour) (bs : bytes) : outcome bf :=
  match fl with
  | FList cap => bl_from_bytes cap bs
  | FVec m => bv_from_bytes m bs
  | FDyn => bd_decode bs
  end.
Definition i_union (fl : flavour) (a o : bf) : outcome bf :=
  match fl with
  | FList cap => bl_union cap a o
  | FVec m => Ok (bv_union m a o)
  | FDyn => bd_union a o
  end.
Definition i_inter (fl : flavour) (a o : bf) : outcome bf :=
  match fl with
  | FList cap => bl_intersection cap a o
  | FVec m => bv_intersection m a o
  | FDyn => bd_intersection a o
  end.

(** One step: new registers, status, is_subset result. *)
Definition i_step (fl : flavour) (rs : regs bf) (o : bop) : regs bf * N * option bool :=
  let upd (r : nat) (res : outcome bf) : regs bf * N * option bool :=
    match res with
    | Ok b => (reg_set rs r (Some b), 0, None)
    | Err => (rs, 1, None)
    | Panic => (rs, 2, None)
    end in
  match o with
  | ONew r n => upd r (i_new fl n)
  | OSet r i v => match reg_get rs r with Some b => upd r (bf_set b i v) | None => (rs, 1, None) end
  | OShiftUp r n => match reg_get rs r with Some b => upd r (shift_up b n) | None => (rs, 1, None) end
  | ODiffInplace r s =>
      match reg_get rs r, reg_get rs s with
      | Some a, Some c => upd r (Ok (difference_inplace a c))
      | _, _ => (rs, 1, None)
      end
  | OClone r s => match reg_get rs s with Some b => upd r (Ok b) | None => (rs, 1, None) end
  | ODecode r bs => upd r (i_decode fl bs)
  | OUnion r a b =>
      match reg_get rs a, reg_get rs b with
      | Some x, Some y => upd r (i_union fl x y)
      | _, _ => (rs, 1, None)
      end
  | OInter r a b =>
      match reg_get rs a, reg_get rs b with
      | Some x, Some y => upd r (i_inter fl x y)
      | _, _ => (rs, 1, None)
      end
  | ODiff r a b =>
      match reg_get rs a, reg_get rs b with
      | Some x, Some y => upd r (Ok (difference x y))
      | _, _ => (rs, 1, None)
      end
  | OSubset r a b =>
      match reg_get rs a, reg_get rs b with
      | Some x, Some y => (rs, 0, Some (bf_is_subset x y))
      | _, _ => (rs, 1, None)
      end
  end.

Fixpoint i_run (fl : flavour) (rs : regs bf) (ops : list bop) : list obs :=
  match ops with
  | [] => []
  | o :: r =>
      let '(rs', st, sub) := i_step fl rs o in
      i_observe fl rs' (target o) st sub :: i_run fl rs' r
  end.
Definition run_impl (fl : flavour) (ops : list bop) : list obs := i_run fl empty_regs ops.

(** ** the abstract machine: plain boolean sequences *)
Definition blen (bits : list bool) : N := N.of_nat (length bits).
Definition bit (bits : list bool) (i : nat) : bool := nth i bits false.

Definition a_set (bits : list bool) (i : N) (v : bool) : outcome (list bool) :=
  if i <? blen bits then Ok (set_idx bits (N.to_nat i) v) else Err.
Definition a_shift_up (bits : list bool) (n : N) : outcome (list bool) :=
  if n <=? blen bits then Ok (repeat false (N.to_nat n) ++ firstn (length bits - N.to_nat n) bits) else Err.
(** pointwise operation on the first [n] positions, missing positions read as [false] *)
Definition a_zip (f : bool -> bool -> bool) (n : nat) (a o : list bool) : list bool :=
  map (fun i => f (bit a i) (bit o i)) (seq 0 n).
Definition a_diff (a o : list bool) : list bool := a_zip (fun x y => x && negb y) (length a) a o.

Definition a_new (fl : flavour) (n : N) : outcome (list bool) :=
  match fl with
  | FList cap => if n <=? cap then Ok (repeat false (N.to_nat n)) else Err
  | FVec m => Ok (repeat false (N.to_nat m))
  | FDyn => if (n =? 0) || negb (n mod 8 =? 0) then Err else Ok (repeat false (N.to_nat n))
  end.
Definition a_union (fl : flavour) (a o : list bool) : outcome (list bool) :=
  match fl with
  | FList _ | FDyn => Ok (a_zip orb (Nat.max (length a) (length o)) a o)
  | FVec m => Ok (a_zip orb (N.to_nat m) a o)
  end.
Definition a_inter (fl : flavour) (a o : list bool) : outcome (list bool) :=
  match fl with
  | FList _ => Ok (a_zip andb (Nat.min (length a) (length o)) a o)
  | FVec m => Ok (a_zip andb (N.to_nat m) a o)
  | FDyn => Ok (a_zip andb (Nat.max (length a) (length o)) a o)
  end.

(** bits of a byte string, LSB first *)
Definition byte_bits (b : N) : list bool := map (fun k => N.testbit b (N.of_nat k)) (seq 0 8).
Definition unpack (bs : bytes) : list bool := concat (map byte_bits bs).

(** The accept sets of C14, in closed form. *)
Definition a_decode (fl : flavour) (bs : bytes) : outcome (list bool) :=
  match fl with
  | FList cap =>
      match rev bs with
      | [] => Err
      | last :: _ =>
          if last =? 0 then Err
          else
            let l := 8 * (len bs - 1) + N.log2 last in
            if l <=? cap then Ok (firstn (N.to_nat l) (unpack bs)) else Err
      end
  | FVec n =>
      if (len bs =? bytes_for_bit_len n)
         && forallb (fun b => negb b) (skipn (N.to_nat n) (unpack bs))
      then Ok (firstn (N.to_nat n) (unpack bs)) else Err
  | FDyn => match bs with [] => Err | _ => Ok (unpack bs) end
  end.

Definition count_true (bits : list bool) : N := sumN (map (fun b : bool => if b then 1 else 0) bits).
Fixpoint a_hsb_go (bits : list bool) (i : N) (acc : option N) : option N :=
  match bits with
  | [] => acc
  | b :: r => a_hsb_go r (i + 1) (if b then Some i else acc)
  end.
Definition a_hsb (bits : list bool) : option N := a_hsb_go bits 0 None.
Fixpoint bits_eqb (a b : list bool) : bool :=
  match a, b with
  | [], [] => true
  | x :: ar, y :: br => Bool.eqb x y && bits_eqb ar br
  | _, _ => false
  end.

Definition a_slice (bits : list bool) : bytes :=
  spec_pack bits (N.to_nat (bytes_for_bit_len (blen bits))).
Definition a_ssz (fl : flavour) (bits : list bool) : bytes :=
  match fl with
  | FList _ => spec_bitlist bits
  | FVec _ => spec_bitvector bits
  | FDyn => spec_pack bits (Nat.div (length bits) 8)
  end.

Definition a_observe (fl : flavour) (rs : regs (list bool)) (r : nat) (st : N) (sub : option bool) : obs :=
  match reg_get rs r with
  | None => no_obs st sub
  | Some bits =>
      {| o_status := st; o_present := true; o_len := blen bits; o_bits := bits;
         o_nsb := count_true bits; o_hsb := a_hsb bits; o_zero := forallb negb bits;
         o_slice := a_slice bits; o_ssz := a_ssz fl bits;
         o_eq := map (fun x => match x with Some c => bits_eqb bits c | None => false end) rs;
         o_hash := len (a_slice bits) :: a_slice bits ++ [blen bits]; o_sub := sub |}
  end.

Definition a_step (fl : flavour) (rs : regs (list bool)) (o : bop)
  : regs (list bool) * N * option bool :=
  let upd (r : nat) (res : outcome (list bool)) : regs (list bool) * N * option bool :=
    match res with
    | Ok b => (reg_set rs r (Some b), 0, None)
    | Err => (rs, 1, None)
    | Panic => (rs, 2, None)
    end in
  match o with
  | ONew r n => upd r (a_new fl n)
  | OSet r i v => match reg_get rs r with Some b => upd r (a_set b i v) | None => (rs, 1, None) end
  | OShiftUp r n => match reg_get rs r with Some b => upd r (a_shift_up b n) | None => (rs, 1, None) end
  | ODiffInplace r s =>
      match reg_get rs r, reg_get rs s with
      | Some a, Some c => upd r (Ok (a_diff a c))
      | _, _ => (rs, 1, None)
      end
  | OClone r s => match reg_get rs s with Some b => upd r (Ok b) | None => (rs, 1, None) end
  | ODecode r bs => upd r (a_decode fl bs)
  | OUnion r a b =>
      match reg_get rs a, reg_get rs b with
      | Some x, Some y => upd r (a_union fl x y)
      | _, _ => (rs, 1, None)
      end
  | OInter r a b =>
      match reg_get rs a, reg_get rs b with
      | Some x, Some y => upd r (a_inter fl x y)
      | _, _ => (rs, 1, None)
      end
  | ODiff r a b =>
      match reg_get rs a, reg_get rs b with
      | Some x, Some y => upd r (Ok (a_diff x y))
      | _, _ => (rs, 1, None)
      end
  | OSubset r a b =>
      match reg_get rs a, reg_get rs b with
      | Some x, Some y => (rs, 0, Some (forallb negb (a_diff x y)))
      | _, _ => (rs, 1, None)
      end
  end.

Fixpoint a_run (fl : flavour) (rs : regs (list bool)) (ops : list bop) : list obs :=
  match ops with
  | [] => []
  | o :: r =>
      let '(rs', st, sub) := a_step fl rs o in
      a_observe fl rs' (target o) st sub :: a_run fl rs' r
  end.
Definition run_abs (fl : flavour) (ops : list bop) : list obs := a_run fl empty_regs ops.

(** ** construction paths of C13 that are not register operations *)
(** [resize::<M>()] of a bitlist of capacity [n]: abstractly, pad with [false] up to [m]. *)
Definition a_resize (n m : N) (bits : list bool) : outcome (list bool) :=
  if m <? n then Err else Ok (bits ++ repeat false (N.to_nat m - length bits)).
(** [from_bytes_with_len] of the dynamic flavour. *)
Definition a_from_bytes_with_len (bs : bytes) (l : N) : outcome (list bool) :=
  if l =? 8 * len bs then a_decode FDyn bs else Err.
