(** * ListViewTyped: whatever a decoder returns is well typed -- every set / map strictly ascending, wherever it sits
    in the value -- and re-encoding it is a fixed point of the decoder.  [collect_rec] turns a typed value of the
    entry-list view into a typed value of the type ([collect_rec_typed]); with ListViewFacts.dec_by_collection and the
    canonicity facts of the (collection-free) view this gives the two theorems at the end. *)
From SSZ Require Import Base BaseFacts Offsets Builder Types Codec Spec CodecUnfold ListDecFacts OrderFacts LeafIface LeafProof RoundTrip Canon Strict ListView ListViewFacts.
From Coq Require Import List ZArith Lia Bool.
Import ListNotations.
Open Scope N_scope.

(** key types hold no sets or maps: their entry-list view is themselves *)
Lemma key_view k : key_type k = true -> list_view k = k /\ forall v, collect_rec k v = v.
Proof.
  induction k using ty_ind'; intro Hk; try discriminate; try (split; [reflexivity|intro v; reflexivity]).
  - (* list *) cbn [key_type] in Hk. destruct (IHk Hk) as [E C]. split; [cbn [list_view]; rewrite E; reflexivity|].
    intro v. cbn [collect_rec]. destruct v as [n0|b0|bs0|l| |x|cs|i x|i|bits]; try reflexivity. f_equal. rewrite <- (map_id l) at 2. apply map_ext. exact C.
  - (* option *) cbn [key_type] in Hk. destruct (IHk Hk) as [E C]. split; [cbn [list_view]; rewrite E; reflexivity|].
    intro v. cbn [collect_rec]. destruct v as [n0|b0|bs0|l| |x|cs|i x|i|bits]; try reflexivity. rewrite C. reflexivity.
  - (* container *)
    cbn [key_type] in Hk.
    assert (HF : Forall (fun f => list_view f = f /\ forall v, collect_rec f v = v) fs).
    { clear d. induction H as [|f r Hf _ IH]; constructor.
      - apply Hf. apply andb_prop in Hk. exact (proj1 Hk).
      - apply IH. apply andb_prop in Hk. exact (proj2 Hk). }
    split.
    + cbn [list_view]. f_equal. clear - HF. induction HF as [|f r [E _] _ IH]; cbn [map]; [reflexivity|]. rewrite E, IH. reflexivity.
    + intro v. destruct v as [n0|b0|bs0|l| |x|cs|i x|i|bits]; try reflexivity. rewrite collect_rec_container. f_equal.
      clear - HF. revert cs. induction HF as [|f r [_ C] _ IH]; intros [|x xr]; cbn [collect_fields]; try reflexivity.
      rewrite C, IH. reflexivity.
  - (* wrap *) cbn [key_type] in Hk. destruct (IHk Hk) as [E C]. split; [cbn [list_view]; rewrite E; reflexivity|].
    intro v. cbn [collect_rec]. apply C.
Qed.

Lemma wf_list_inv p fs : (fix all fs := match fs with [] => true | f :: r => ty_all p f && all r end) fs = true -> Forall (fun f => ty_all p f = true) fs.
Proof. rewrite ty_all_list. intro H. apply Forall_forall. intros f Hf. rewrite forallb_forall in H. exact (H f Hf). Qed.

Definition TypedView (t : ty) : Prop :=
  wf_type t = true -> forall L, has_ty (list_view t) L = true -> has_ty t (collect_rec t L) = true.

Lemma fields_typed fs : Forall TypedView fs -> Forall (fun f => wf_type f = true) fs -> forall vs,
  has_ty_fields (map list_view fs) vs = true -> has_ty_fields fs (collect_fields fs vs) = true.
Proof.
  induction 1 as [|f r Hf _ IH]; intros Hw vs Hty.
  - cbn [map] in Hty. rewrite has_ty_fields_nil_l in *. destruct vs; [reflexivity|discriminate].
  - inversion Hw as [|? ? Hwf Hwr]; subst. cbn [map] in Hty. destruct vs as [|x xr]; [rewrite has_ty_fields_nil_r in Hty; discriminate|].
    rewrite has_ty_fields_cons in Hty. apply andb_prop in Hty as [Hx Hr]. cbn [collect_fields]. rewrite has_ty_fields_cons.
    rewrite (Hf Hwf x Hx), (IH Hwr xr Hr). reflexivity.
Qed.

Lemma pick_typed ts : Forall TypedView ts -> Forall (fun f => wf_type f = true) ts -> forall i x,
  pick_has_ty (map list_view ts) i x = true -> pick_has_ty ts i (collect_pick ts i x) = true.
Proof.
  unfold pick_has_ty. induction 1 as [|t r Ht _ IH]; intros Hw i x Hty; [destruct i; discriminate|].
  inversion Hw as [|? ? Hwt Hwr]; subst. destruct i as [|i]; cbn [map nth_error collect_pick] in *.
  - apply Ht; assumption.
  - apply IH; assumption.
Qed.

Theorem collect_rec_typed t : TypedView t.
Proof.
  induction t using ty_ind'; intros Hwf L Hty; try exact Hty.
  - (* list *)
    unfold wf_type in Hwf. cbn [ty_all] in Hwf. apply andb_prop in Hwf as [_ Hwa].
    destruct L as [n0|b0|bs0|l| |x|cs|i x|i|bits]; try discriminate. cbn [list_view has_ty collect_rec] in *.
    apply forallb_forall. intros y Hy. apply in_map_iff in Hy as (z & <- & Hz). apply IHt; [exact Hwa|].
    rewrite forallb_forall in Hty. exact (Hty z Hz).
  - (* set *)
    unfold wf_type in Hwf. cbn [ty_all] in Hwf. apply andb_prop in Hwf as [Hk Hwa]. cbn [node_wf] in Hk.
    destruct (key_view t Hk) as [E C].
    destruct L as [n0|b0|bs0|l| |x|cs|i x|i|bits]; try discriminate. cbn [list_view has_ty collect_rec] in *. rewrite E in Hty.
    rewrite (map_ext _ (fun v => v) C), map_id.
    apply andb_true_intro. split.
    + apply forallb_forall. intros e He. apply collect_incl in He. rewrite forallb_forall in Hty. exact (Hty e He).
    + apply (collect_is_sorted t); [exact Hk|]. apply Forall_forall. intros e He. cbn [entry_key].
      rewrite forallb_forall in Hty. exact (Hty e He).
  - (* map *)
    unfold wf_type in Hwf. cbn [ty_all] in Hwf. apply andb_prop in Hwf as [Hk Hw12]. apply andb_prop in Hw12 as [Hw1 Hw2]. cbn [node_wf] in Hk.
    destruct (key_view t1 Hk) as [E C].
    destruct L as [n0|b0|bs0|l| |x|cs|i x|i|bits]; try discriminate. cbn [list_view] in Hty. cbn [collect_rec].
    assert (HE : Forall (fun e => exists x y, e = VCont [x; y] /\ has_ty t1 x = true /\ has_ty t2 y = true)
                        (map (collect_entry (collect_rec t1) (collect_rec t2)) l)).
    { apply Forall_forall. intros e He. apply in_map_iff in He as (z & <- & Hz).
      cbn [has_ty] in Hty. rewrite forallb_forall in Hty. specialize (Hty z Hz).
      destruct z as [n1|b1|bs1|l1| |x1|es|i1 x1|i1|bits1]; try discriminate. destruct es as [|a [|c [|? ?]]]; try discriminate;
        try (rewrite ?andb_false_r in Hty; discriminate).
      apply andb_prop in Hty as [Ha Hc]. apply andb_prop in Hc as [Hc _]. cbn [collect_entry]. exists (collect_rec t1 a), (collect_rec t2 c).
      split; [reflexivity|]. rewrite E in Ha. rewrite C. split; [exact Ha|]. apply IHt2; assumption. }
    cbn [has_ty]. apply andb_true_intro. split.
    + apply forallb_forall. intros e He. apply collect_incl in He. rewrite Forall_forall in HE.
      destruct (HE e He) as (x & y & -> & Hx & Hy). rewrite Hx, Hy. reflexivity.
    + apply (collect_is_sorted t1); [exact Hk|]. apply Forall_forall. intros e He. rewrite Forall_forall in HE.
      destruct (HE e He) as (x & y & -> & Hx & _). cbn [entry_key]. exact Hx.
  - (* option *)
    unfold wf_type in Hwf. cbn [ty_all] in Hwf. apply andb_prop in Hwf as [_ Hwa].
    destruct L as [n0|b0|bs0|l| |x|cs|i x|i|bits]; try discriminate; [reflexivity|]. cbn [list_view has_ty collect_rec] in *. apply IHt; assumption.
  - (* container *)
    unfold wf_type in Hwf. cbn [ty_all] in Hwf. apply andb_prop in Hwf as [_ Hwa]. apply wf_list_inv in Hwa.
    destruct L as [n0|b0|bs0|l| |x|cs|i x|i|bits]; try discriminate. cbn [list_view] in Hty. rewrite has_ty_container in Hty.
    rewrite collect_rec_container, has_ty_container. apply fields_typed; assumption.
  - (* union *)
    unfold wf_type in Hwf. cbn [ty_all] in Hwf. apply andb_prop in Hwf as [_ Hwa]. apply wf_list_inv in Hwa.
    destruct L as [n0|b0|bs0|l| |x|cs|i x|i|bits]; try discriminate. cbn [list_view] in Hty. rewrite has_ty_union in Hty.
    rewrite collect_rec_union, has_ty_union. rewrite map_length in Hty. apply andb_prop in Hty as [Hl Hp]. rewrite Hl. cbn [andb].
    apply pick_typed; assumption.
  - (* transparent enum *)
    unfold wf_type in Hwf. cbn [ty_all] in Hwf. apply andb_prop in Hwf as [_ Hwa]. apply wf_list_inv in Hwa.
    destruct L as [n0|b0|bs0|l| |x|cs|i x|i|bits]; try discriminate. cbn [list_view] in Hty. rewrite has_ty_trans in Hty.
    rewrite collect_rec_trans, has_ty_trans. apply pick_typed; assumption.
  - (* wrap *)
    unfold wf_type in Hwf. cbn [ty_all] in Hwf. apply andb_prop in Hwf as [_ Hwa].
    cbn [list_view has_ty collect_rec] in *. apply IHt; assumption.
  - (* legacy *)
    unfold wf_type in Hwf. cbn [ty_all] in Hwf. apply andb_prop in Hwf as [_ Hwa].
    destruct L as [n0|b0|bs0|l| |x|cs|i x|i|bits]; try discriminate; [reflexivity|]. cbn [list_view has_ty collect_rec] in *. apply IHt; assumption.
Qed.
Print Assumptions collect_rec_typed.

Lemma ty_all_impl (p q : ty -> bool) : (forall t, p t = true -> q t = true) -> forall t, ty_all p t = true -> ty_all q t = true.
Proof.
  intro Hpq. induction t using ty_ind'; intro HA; cbn [ty_all] in *;
    try (apply andb_prop in HA as [Hp Hr]; rewrite (Hpq _ Hp); cbn [andb]; auto; fail).
  - (* map *) apply andb_prop in HA as [Hp Hr]. apply andb_prop in Hr as [H1 H2]. rewrite (Hpq _ Hp), (IHt1 H1), (IHt2 H2). reflexivity.
  - (* container *) apply andb_prop in HA as [Hp Hr]. rewrite (Hpq _ Hp). cbn [andb]. rewrite ty_all_list in *.
    apply forallb_forall. intros f Hf. rewrite forallb_forall in Hr. rewrite Forall_forall in H. exact (H f Hf (Hr f Hf)).
  - (* union *) apply andb_prop in HA as [Hp Hr]. rewrite (Hpq _ Hp). cbn [andb]. rewrite ty_all_list in *.
    apply forallb_forall. intros f Hf. rewrite forallb_forall in Hr. rewrite Forall_forall in H. exact (H f Hf (Hr f Hf)).
  - (* trans *) apply andb_prop in HA as [Hp Hr]. rewrite (Hpq _ Hp). cbn [andb]. rewrite ty_all_list in *.
    apply forallb_forall. intros f Hf. rewrite forallb_forall in Hr. rewrite Forall_forall in H. exact (H f Hf (Hr f Hf)).
Qed.
Lemma rt_type_wf t : rt_type t = true -> wf_type t = true.
Proof. apply ty_all_impl. intros u H. unfold node_rt in H. apply andb_prop in H. exact (proj1 H). Qed.

(** what any decoder returns is well typed -- collections strictly ascending, wherever they sit *)
Theorem dec_typed_at_any_depth t bs v :
  canon_type (list_view t) = true -> wf_type t = true -> phys bs -> dec t bs = Ok v -> has_ty t v = true.
Proof.
  intros Hc Hw Hp Hd. rewrite (dec_by_collection t bs) in Hd.
  destruct (dec (list_view t) bs) as [L| |] eqn:E; cbn [omap] in Hd; try discriminate. injection Hd as <-.
  apply collect_rec_typed; [exact Hw|]. exact (proj2 (canon_facts leaf_facts (list_view t) Hc bs L Hp E)).
Qed.

(** ... hence re-encoding a decoded value is a fixed point of the decoder, for sets / maps at any depth *)
Theorem fixed_point_at_any_depth t bs v :
  canon_type (list_view t) = true -> rt_type t = true -> phys bs -> dec t bs = Ok v ->
  len (enc t v) < 4294967296 -> dec t (enc t v) = Ok v.
Proof.
  intros Hc Hr Hp Hd Hl. apply (rt_facts leaf_facts collect_sorted_holds t Hr v); [|exact Hl].
  exact (dec_typed_at_any_depth t bs v Hc (rt_type_wf t Hr) Hp Hd).
Qed.
Print Assumptions fixed_point_at_any_depth.
