(** * C04 — Decoding accepts exactly the valid encodings and returns the specified value. *)
From SSZ Require Import Base Offsets Types Codec Spec CodecUnfold ListDecFacts Strict ListView ListViewFacts.
Open Scope N_scope.

(** The reference "deserializer" is the relation [Valid t bs v] of [Spec.v]: [v] is a value of
    schema [t] and [bs] is its serialization.  For every strict type (everything except ordered
    collections, transparent enums and lists of zero-length items, which SSZ forbids) and every
    byte string shorter than 2^32 (the spec's own size bound; the crate does not enforce it and
    this theorem does not claim it does): *)
Theorem C04_exact :
  forall t bs v, strict_type t = true -> phys bs -> len bs < 4294967296 ->
    (dec t bs = Ok v <-> Valid t bs v).
Proof. exact dec_iff_valid. Qed.
Print Assumptions C04_exact.

(** Ordered collections, forward direction: whatever is accepted is a well-formed entry list
    and the result is the collection of its entries. *)
Theorem C04_sets_forward :
  forall t bs m, canon_type t = true -> phys bs -> dec (TSet t) bs = Ok m ->
    exists es, dec (TList t) bs = Ok (VList es) /\ Valid (TList t) bs (VList es) /\
               m = VList (collect_entries false es).
Proof. exact dec_set_forward. Qed.
Print Assumptions C04_sets_forward.
Theorem C04_maps_forward :
  forall k v bs m, canon_type k = true -> canon_type v = true -> phys bs -> dec (TMap k v) bs = Ok m ->
    exists es, dec (TList (TContainer false [k; v])) bs = Ok (VList es) /\
               Valid (TList (TContainer false [k; v])) bs (VList es) /\
               m = VList (collect_entries true es).
Proof. exact dec_map_forward. Qed.
Print Assumptions C04_maps_forward.

(** Ordered collections anywhere inside a type, both directions: with every set / map read as the plain list of its
    entries ([list_view]), a type accepts exactly the valid encodings of that view, and returns the collection of the
    listed entries, collected innermost first ([collect_rec]).  This contains the two forward theorems above and
    their converse, at every nesting depth (a map whose values are sets, a list of maps, a set inside a union ...). *)
Theorem C04_collections_at_any_depth :
  forall t bs v, strict_type (list_view t) = true -> phys bs -> len bs < 4294967296 ->
    (dec t bs = Ok v <-> exists L, Valid (list_view t) bs L /\ v = collect_rec t L).
Proof.
  intros t bs v Hs Hp Hl. rewrite (dec_by_collection t bs). split.
  - destruct (dec (list_view t) bs) as [L| |] eqn:E; cbn [omap]; try discriminate.
    intro H. injection H as <-. exists L. split; [|reflexivity].
    apply (dec_iff_valid (list_view t) bs L Hs Hp Hl). exact E.
  - intros (L & HV & ->). apply (dec_iff_valid (list_view t) bs L Hs Hp Hl) in HV. rewrite HV. reflexivity.
Qed.
Print Assumptions C04_collections_at_any_depth.
Example C04_collections_hypotheses_satisfiable :
  let t := TMap (TUint 1) (TSet (TUint 2)) in
  strict_type (list_view t) = true /\
  Valid (list_view t) [4; 0; 0; 0; 0; 5; 0; 0; 0; 0; 0; 0; 0] (VList [VCont [VUint 0; VList [VUint 0; VUint 0]]]) /\
  collect_rec t (VList [VCont [VUint 0; VList [VUint 0; VUint 0]]]) = VList [VCont [VUint 0; VList [VUint 0]]].
Proof. vm_compute. repeat split; reflexivity. Qed.

(** Transparent enums decode to the first variant that accepts. *)
Theorem C04_transparent_enum :
  forall ts bs, dec (TTransEnum ts) bs = first_ok (map dec ts) bs 0.
Proof. exact dec_trans. Qed.
Print Assumptions C04_transparent_enum.

Example C04_hypotheses_satisfiable :
  let t := TContainer true [TUint 2; TList (TUint 2); TOption TBool] in
  strict_type t = true /\
  Valid t [1; 0; 10; 0; 0; 0; 14; 0; 0; 0; 2; 0; 3; 0; 1; 1]
        (VCont [VUint 1; VList [VUint 2; VUint 3]; VSome (VBool true)]).
Proof. vm_compute. repeat split; reflexivity. Qed.
