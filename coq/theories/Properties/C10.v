(** * C10 — Encoding is append-only, context-free and identical across entry points. *)
From SSZ Require Import Base Offsets Encoder EncoderFacts Layout Types Codec CodecUnfold AppendFacts.
Open Scope N_scope.

(** Appending a value's encoding to any buffer leaves the buffer untouched and adds exactly the
    standalone encoding: for every type expression (any nesting), every value (even ill-typed
    ones, which encode to nothing) and every buffer. *)
Theorem C10_append_only : forall t v buf, append t v buf = buf ++ enc t v.
Proof. exact append_spec. Qed.
Print Assumptions C10_append_only.

(** [as_ssz_bytes] (including the three overriding impls), [ssz_encode], and encoding through
    [Arc]/[&T]/transparent wrappers give the same bytes as appending to an empty buffer. *)
Theorem C10_entry_points :
  forall t v, as_bytes t v = enc t v /\ ssz_encode t v = enc t v /\
              enc (TWrap t) v = enc t v /\ as_bytes (TWrap t) v = enc t v.
Proof.
  intros t v. split; [apply as_bytes_enc|]. split; [apply ssz_encode_enc|]. split; reflexivity.
Qed.
Print Assumptions C10_entry_points.

(** The manual container encoder: any append sequence, from any pre-filled buffer and with any
    declared fixed size, produces the buffer followed by fixed parts / offsets / variable
    parts; offsets are relative to the declared fixed size, never to the buffer. *)
Theorem C10_encoder_any_history :
  forall buf nf (parts : list part),
    enc_run buf nf (map (fun p : part => (fst p, fun b => b ++ snd p)) parts) = buf ++ assemble nf parts.
Proof. exact enc_run_bytes. Qed.
Print Assumptions C10_encoder_any_history.

(** Driven with the fields of a container it reproduces the container's own encoding. *)
Theorem C10_encoder_is_container :
  forall d fs vs buf,
    enc_run buf (sumN (map e_fixed_len fs)) (cont_items fs vs) = buf ++ enc (TContainer d fs) (VCont vs).
Proof.
  intros d fs vs buf. rewrite <- (append_container d). apply append_spec.
Qed.
Print Assumptions C10_encoder_is_container.

(** Non-vacuity / sanity: a nested value appended after a non-empty prefix. *)
Example C10_example :
  append (TContainer true [TUint 1; TList (TUint 2); TOption (TUint 1)])
         (VCont [VUint 7; VList [VUint 258]; VSome (VUint 9)]) [170; 187]
  = [170; 187] ++ [7; 9; 0; 0; 0; 11; 0; 0; 0; 2; 1; 1; 9].
Proof. reflexivity. Qed.
