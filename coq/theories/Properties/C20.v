(** * C20 — Arbitrary generators yield valid and reachable bitfields. *)
From SSZ Require Import Base Bitfield BitfieldFacts BitfieldOps BitfieldOpsFacts.
Open Scope N_scope.

(** [Unstructured] is modelled by its remaining data; [fill_buffer] copies what is available
    and zero-fills the rest, [usize::arbitrary] reads 8 bytes little-endian the same way
    (third-party behaviour, assumed; tied by the correspondence run). *)
Theorem C20_never_panics :
  forall n data, wfb data -> arb_bitvector n data <> Panic /\ arb_bitlist n data <> Panic.
Proof. exact arb_no_panic. Qed.
Print Assumptions C20_never_panics.

(** Every returned value is a valid bitfield of its type: representation invariant, exactly N
    bits (bitvector) / at most N bits (bitlist), and it survives an SSZ round trip. *)
Theorem C20_bitvector_valid :
  forall n data b, wfb data -> arb_bitvector n data = Ok b ->
    exists bits, R (FVec n) b bits /\ bf_len b = n /\ i_decode (FVec n) (i_ssz (FVec n) b) = Ok b.
Proof.
  intros n data b Hw Ha. destruct (arb_bitvector_sound n data b Hw Ha) as (bits & HR).
  exists bits. split; [exact HR|]. split; [exact (proj2 (proj2 HR))|].
  exact (proj2 (decode_ssz_round_trip _ _ _ HR)).
Qed.
Print Assumptions C20_bitvector_valid.
Theorem C20_bitlist_valid :
  forall n data b, wfb data -> arb_bitlist n data = Ok b ->
    exists bits, R (FList n) b bits /\ bf_len b <= n /\ i_decode (FList n) (i_ssz (FList n) b) = Ok b.
Proof.
  intros n data b Hw Ha. destruct (arb_bitlist_sound n data b Hw Ha) as (bits & HR).
  exists bits. split; [exact HR|]. split; [exact (proj2 (proj2 HR))|].
  exact (proj2 (decode_ssz_round_trip _ _ _ HR)).
Qed.
Print Assumptions C20_bitlist_valid.

(** Reachability: for every capacity (bitvectors) / every capacity >= 1 (bitlists) there is an
    input on which generation succeeds. *)
Theorem C20_bitvector_reachable : forall n, exists b, arb_bitvector n [] = Ok b.
Proof. exact arb_bitvector_reachable. Qed.
Print Assumptions C20_bitvector_reachable.
Theorem C20_bitlist_reachable :
  forall n, 1 <= n -> exists b, arb_bitlist n [1; 0; 0; 0; 0; 0; 0; 0; 1] = Ok b.
Proof. exact arb_bitlist_reachable. Qed.
Print Assumptions C20_bitlist_reachable.

Example C20_example :
  is_ok (arb_bitvector 9 [255; 1]) = true /\ arb_bitvector 9 [255; 3] = Err /\
  is_ok (arb_bitlist 16 [2; 0; 0; 0; 0; 0; 0; 0; 255; 1]) = true.
Proof. vm_compute. repeat split; reflexivity. Qed.
