(** * C01 — Round trip: decoding an encoding returns the original value. *)
From SSZ Require Import Base Types Codec LeafIface LeafProof OrderFacts RoundTrip.
Open Scope N_scope.

(** For every type expression of the algebra except transparent enums and lists (sets, maps)
    of zero-length items ([rt_type], which also asks for 1..128 union/tag variants and orderable
    keys: what the Rust compiler and the derive macro accept), every value of it, and encodings
    shorter than 2^32 bytes: decoding the encoding yields the value.  Any nesting, any arity:
    the proof is by induction on the type expression. *)
Theorem C01_round_trip :
  forall t v, rt_type t = true -> has_ty t v = true -> len (enc t v) < 4294967296 ->
    dec t (enc t v) = Ok v.
Proof.
  intros t v Hrt Hv Hlen.
  assert (C : CollectSorted).
  { intros kt m l Hk Hkeys Hs. exact (collect_sorted kt m l Hk Hkeys Hs). }
  exact (rt_facts leaf_facts C t Hrt v Hv Hlen).
Qed.
Print Assumptions C01_round_trip.

(** Non-vacuity: a nested type with a derived container, a map, a union, a bitlist, a legacy
    option and a transparent wrapper, and a value of it, satisfy all three hypotheses. *)
Definition ex_ty : ty :=
  TContainer true
    [TUint 2; TList (TList (TUint 1)); TMap (TUint 1) (TList (TUint 2));
     TUnion [TUint 1; TOption (TBytesN 2)]; TBitList 9; TLegacyOpt (TUint 4); TWrap (TTag 3);
     TSet (TContainer false [TUint 1; TBool])].
Definition ex_val : val :=
  VCont [VUint 513; VList [VList [VUint 1; VUint 2]; VList []];
         VList [VCont [VUint 1; VList [VUint 7]]; VCont [VUint 9; VList []]];
         VUnion 1 (VSome (VBytes [5; 6])); VBits [true; false; true]; VSome (VUint 99); VTag 2;
         VList [VCont [VUint 0; VBool true]; VCont [VUint 1; VBool false]]].
Example C01_hypotheses_satisfiable :
  rt_type ex_ty = true /\ has_ty ex_ty ex_val = true /\ len (enc ex_ty ex_val) < 4294967296 /\
  dec ex_ty (enc ex_ty ex_val) = Ok ex_val.
Proof. vm_compute. repeat split; reflexivity. Qed.
