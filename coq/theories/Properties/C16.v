(** * C16 — List length limits and fallible collections are enforced before work is done. *)
From SSZ Require Import Base Offsets Types Codec ListDecFacts.
Open Scope N_scope.

(** [announced bs n]: the input's first offset word is a well-formed table size for n items. *)

(** Over the limit: an error, no item decoder was invoked, nothing was reserved — for every
    item decoder, target collection and input. *)
Theorem C16_over_limit :
  forall (d : bytes -> outcome val) c bs n max,
    announced bs n -> max < n -> decode_list_var_full d c bs (Some max) = (Err, 0, 0).
Proof. intros d. exact (lv_over_limit d). Qed.
Print Assumptions C16_over_limit.

(** Within the limit: exactly what unlimited decoding returns (result, work, reservation). *)
Theorem C16_within_limit :
  forall (d : bytes -> outcome val) c bs n max,
    announced bs n -> n <= max ->
    decode_list_var_full d c bs (Some max) = decode_list_var_full d c bs None.
Proof. intros d. exact (lv_within_limit d). Qed.
Print Assumptions C16_within_limit.

(** A malformed first offset is an error before any work, whatever the limit. *)
Theorem C16_not_announced :
  forall (d : bytes -> outcome val) c bs max,
    bs <> [] -> (forall n, ~ announced bs n) -> decode_list_var_full d c bs max = (Err, 0, 0).
Proof. intros d. exact (lv_not_announced d). Qed.
Print Assumptions C16_not_announced.

(** A collection that refuses yields an error, never a shorter collection, never a panic. *)
Theorem C16_refusing :
  forall (d : bytes -> outcome val) bs max, decode_list_var d CRefusing bs max = Err.
Proof. intros d. exact (lv_refusing d). Qed.
Print Assumptions C16_refusing.
Theorem C16_bounded :
  forall (d : bytes -> outcome val) k bs max,
    decode_list_var d (CBounded k) bs max =
    match decode_list_var d CVec bs max with
    | Ok vs => if N.of_nat (length vs) <=? k then Ok vs else Err
    | r => r
    end.
Proof. intros d. exact (lv_bounded d). Qed.
Print Assumptions C16_bounded.

(** Empty input: the collection's answer on the empty iterator. *)
Theorem C16_empty :
  forall (d : bytes -> outcome val) c max, decode_list_var d c [] max = collect_kind c [].
Proof. intros d. exact (lv_empty d). Qed.
Print Assumptions C16_empty.

(** A successful decode returns exactly the announced number of items. *)
Theorem C16_count :
  forall (d : bytes -> outcome val) bs max vs n,
    decode_list_var d CVec bs max = Ok vs -> announced bs n -> N.of_nat (length vs) = n.
Proof. intros d. exact (lv_ok_length d). Qed.
Print Assumptions C16_count.

(** No panic, for every limit and collection kind. *)
Theorem C16_no_panic :
  forall (d : bytes -> outcome val) c bs max,
    (forall s, d s <> Panic) -> decode_list_var d c bs max <> Panic.
Proof. intros d. exact (decode_list_var_no_panic d). Qed.
Print Assumptions C16_no_panic.

(** Non-vacuity: two items announced, limit 1 / limit 2. *)
Example C16_example :
  announced [8; 0; 0; 0; 10; 0; 0; 0; 1; 0; 2; 0] 2 /\
  decode_list_var_full (dec (TList (TUint 2))) CVec [8; 0; 0; 0; 10; 0; 0; 0; 1; 0; 2; 0] (Some 1) = (Err, 0, 0) /\
  decode_list_var (dec (TList (TUint 2))) CVec [8; 0; 0; 0; 10; 0; 0; 0; 1; 0; 2; 0] (Some 2)
  = Ok [VList [VUint 1]; VList [VUint 2]].
Proof.
  split; [|split; reflexivity].
  exists 8. split; [reflexivity|]. split; [vm_compute; discriminate|].
  split; [reflexivity|]. split; [vm_compute; discriminate|reflexivity].
Qed.
