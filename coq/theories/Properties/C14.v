(** * C14 — Bitfield byte-level API agrees with the SSZ codec and its validity rules. *)
From SSZ Require Import Base Bitfield BitfieldFacts Types Codec Spec BitfieldOps BitfieldOpsFacts.
Open Scope N_scope.

(** The SSZ codec of the three bitfield types IS the byte-level API (the Encode/Decode impls
    delegate to into_bytes / from_bytes). *)
Theorem C14_codec_is_byte_api :
  forall n bs,
    dec (TBitList n) bs = omap (fun b => VBits (bf_iter b)) (bl_from_bytes n bs) /\
    dec (TBitVector n) bs = omap (fun b => VBits (bf_iter b)) (bv_from_bytes n bs) /\
    dec TBitDyn bs = omap (fun b => VBits (bf_iter b)) (bd_decode bs).
Proof. intros. repeat split. Qed.
Print Assumptions C14_codec_is_byte_api.

(** into_bytes / as_ssz_bytes of a bitfield are the spec serialization of its bits. *)
Theorem C14_into_bytes :
  forall fl b bits, R fl b bits ->
    i_ssz fl b = a_ssz fl bits /\ bf_bytes b = a_slice bits.
Proof. intros fl b bits H. destruct (R_observe fl b bits H) as (_ & _ & _ & Hs & Hz & _). auto. Qed.
Print Assumptions C14_into_bytes.

(** from_bytes accepts exactly the closed-form accept sets and yields the unpacked bits. *)
Theorem C14_from_bytes :
  forall fl bs, wfb bs ->
    match i_decode fl bs, a_decode fl bs with Ok b, Ok bits => R fl b bits | Err, Err => True | _, _ => False end.
Proof. exact R_decode. Qed.
Print Assumptions C14_from_bytes.

(** The accept sets, spelled out as in the property. *)
Theorem C14_accept_bitlist :
  forall n bs, is_ok (a_decode (FList n) bs) = true <->
    exists last rest, rev bs = last :: rest /\ last <> 0 /\ 8 * (len bs - 1) + N.log2 last <= n.
Proof.
  intros n bs. unfold a_decode. destruct (rev bs) as [|last rest] eqn:E.
  - split; [discriminate|]. intros (l & r & H & _). discriminate.
  - destruct (last =? 0) eqn:E0.
    + split; [discriminate|]. intros (l & r & H & Hl & _). injection H as <- <-. apply N.eqb_eq in E0. contradiction.
    + destruct (8 * (len bs - 1) + N.log2 last <=? n) eqn:El.
      * split; [|reflexivity]. intros _. exists last, rest. repeat split; [intro; subst; discriminate|now apply N.leb_le].
      * split; [discriminate|]. intros (l & r & H & _ & Hn). injection H as <- <-. apply N.leb_le in Hn. congruence.
Qed.
Print Assumptions C14_accept_bitlist.
Theorem C14_accept_bitvector :
  forall n bs, is_ok (a_decode (FVec n) bs) = true <->
    len bs = bytes_for_bit_len n /\ forallb negb (skipn (N.to_nat n) (unpack bs)) = true.
Proof.
  intros n bs. unfold a_decode, is_ok.
  destruct (len bs =? bytes_for_bit_len n) eqn:E1; cbn [andb].
  - apply N.eqb_eq in E1.
    destruct (forallb (fun b : bool => negb b) (skipn (N.to_nat n) (unpack bs))) eqn:E2.
    + split; [intros _; split; [exact E1|reflexivity]|reflexivity].
    + split; [discriminate|]. intros [_ H]. discriminate.
  - split; [discriminate|]. intros [H _]. apply N.eqb_neq in E1. contradiction.
Qed.
Print Assumptions C14_accept_bitvector.
Theorem C14_accept_dynamic : forall bs, is_ok (a_decode FDyn bs) = true <-> bs <> [].
Proof. intros [|b bs]; cbn; split; congruence. Qed.
Print Assumptions C14_accept_dynamic.
Theorem C14_dynamic_with_len :
  forall bs l, wfb bs ->
    match bd_from_bytes_with_len bs l, a_from_bytes_with_len bs l with
    | Ok b, Ok bits => R FDyn b bits | Err, Err => True | _, _ => False end.
Proof. exact from_bytes_with_len_refines. Qed.
Print Assumptions C14_dynamic_with_len.

Example C14_example :
  a_decode (FList 8) [16] = Ok [false; false; false; false] /\ a_decode (FList 3) [16] = Err /\
  a_decode (FVec 0) [0] = Ok [] /\ a_decode (FVec 0) [1] = Err /\ a_decode (FVec 9) [255; 1] = Ok (repeat true 9) /\
  a_decode (FVec 9) [255; 2] = Err /\ a_decode FDyn [] = Err.
Proof. vm_compute. repeat split; reflexivity. Qed.
