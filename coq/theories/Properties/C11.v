(** * C11 — Bitfields behave as boolean sequences under any operation history. *)
From SSZ Require Import Base Bitfield BitfieldFacts BitfieldOps BitfieldOpsFacts.
Open Scope N_scope.

(** For every flavour (BitList<N>, BitVector<N>, dynamic), every capacity, and every history of
    constructions, set, shift_up, in-place difference, clone, decode, union / intersection /
    difference and subset tests over four registers: every observation after every step
    (status of the operation, length, each bit via iteration, number and highest index of set
    bits, all-zero test, byte view, SSZ encoding, equality against every register, what Hash
    feeds to the hasher) is the one the plain boolean-sequence machine makes.  In particular a
    failed operation reports an error and changes nothing, equality and hash are functions of
    the bit sequence alone. *)
Theorem C11_refinement :
  forall fl ops, ops_wfb ops -> run_impl fl ops = run_abs fl ops.
Proof. exact run_refines. Qed.
Print Assumptions C11_refinement.

(** In every reachable state the exposed byte view has the minimal length for the bit length,
    consists of bytes, has no bit set at or beyond the length, and the flavour's length rule
    holds. *)
Theorem C11_reachable_invariant :
  forall fl ops, ops_wfb ops ->
    Forall (fun o => o_present o = true ->
                     len (o_slice o) = bytes_for_bit_len (o_len o) /\ wfb (o_slice o) /\
                     (forall i, o_len o <= i -> bit_at (o_slice o) i = false) /\ len_ok fl (o_len o))
           (run_impl fl ops).
Proof. exact reachable_inv. Qed.
Print Assumptions C11_reachable_invariant.

(** Failed operations leave every register unchanged. *)
Theorem C11_failed_ops_are_identities :
  forall fl rs o, snd (fst (i_step fl rs o)) <> 0 -> fst (fst (i_step fl rs o)) = rs.
Proof. exact failed_step_unchanged. Qed.
Print Assumptions C11_failed_ops_are_identities.

Example C11_history_example :
  let ops := [ONew 0 10; OSet 0 3 true; OSet 0 9 true; OSet 0 10 true; OShiftUp 0 2; OClone 1 0;
              ODiffInplace 0 1; ODecode 2 [255; 3]; OUnion 3 0 2; OShiftUp 1 11] in
  ops_wfb ops /\ map o_status (run_impl (FList 16) ops) = [0; 0; 0; 1; 0; 0; 0; 0; 0; 1].
Proof. split; [repeat constructor|reflexivity]. Qed.
