(** * C06 — Decoding allocates memory at most linearly in the input length. *)
From SSZ Require Import Base Offsets Types Codec ListDecFacts Alloc AllocFacts.
Open Scope N_scope.

(** [units t bs] (Alloc.v) is an account, in elements, of everything the decoder may reserve
    ([Vec::with_capacity(num_items)]), collect ([collect()]) or copy ([to_vec], [to_smallvec])
    while decoding [bs] at type [t], summed over every nesting level, charged on success and on
    every error path (early exit is ignored, which only enlarges the account).
    MAIN THEOREM: the account is at most a constant depending only on the type ([ufactor t]: one
    per list / byte-copy level) times the input length — for every type expression and every
    byte string.  No length, count or offset field inside the input enters the bound. *)
Theorem C06_linear :
  forall t bs, wfb bs -> len bs <= usize_max -> units t bs <= ufactor t * len bs.
Proof. exact units_linear. Qed.
Print Assumptions C06_linear.

(** The mechanism the property's anchors name: what the variable-item list decoder reserves up
    front, and the number of item decoders it runs, are bounded by a quarter of the input
    length, whatever the first offset word announces; the slices it hands out are disjoint. *)
Theorem C06_reserved_before_decoding :
  forall (d : bytes -> outcome val) c bs max,
    snd (decode_list_var_full d c bs max) <= len bs / 4 /\
    snd (fst (decode_list_var_full d c bs max)) <= len bs / 4.
Proof. intros d. exact (lv_reserved_bound d). Qed.
Print Assumptions C06_reserved_before_decoding.
Theorem C06_list_account :
  forall bs, fst (lv_alloc bs) <= len bs / 4 /\ sumN (map len (snd (lv_alloc bs))) <= len bs.
Proof. exact lv_alloc_bound. Qed.
Print Assumptions C06_list_account.
Theorem C06_sequence_account :
  forall f k bs, fst (seq_alloc f k bs) <= len bs /\ sumN (map len (snd (seq_alloc f k bs))) <= len bs.
Proof. exact seq_alloc_bound. Qed.
Print Assumptions C06_sequence_account.
Theorem C06_builder_slices_disjoint :
  forall regs bs items, wfb bs -> len bs <= usize_max ->
    builder_build regs bs = Ok items -> sumN (map len items) <= len bs.
Proof. exact builder_items_sum. Qed.
Print Assumptions C06_builder_slices_disjoint.

(** An input announcing 2^30 items in 8 bytes: nothing is reserved, the account is tiny. *)
Example C06_example :
  units (TList (TList (TUint 8))) [0; 0; 0; 64; 1; 2; 3; 4] = 0 /\
  decode_list_var_full (dec (TList (TUint 8))) CVec [0; 0; 0; 64; 1; 2; 3; 4] None = (Err, 0, 0) /\
  units (TList (TList (TUint 2))) [8; 0; 0; 0; 10; 0; 0; 0; 1; 0; 2; 0] = 4.
Proof. vm_compute. repeat split; reflexivity. Qed.
