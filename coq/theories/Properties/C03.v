(** * C03 — Encoding matches the SSZ wire format. *)
From SSZ Require Import Base Offsets Types Codec Spec LeafIface LeafProof SpecFacts.
Open Scope N_scope.

(** For every type expression and every value of it, the bytes the implementation model
    produces are the serialization [Spec.v] defines (spec-text style: positional integers,
    fixed parts / offsets as prefix sums / variable parts, bit packing by index formula).
    No size hypothesis is needed: both sides write offsets modulo 2^32; below 2^32 (the only
    sizes SSZ defines) that is the offset itself. *)
Theorem C03_wire_format : forall t v, has_ty t v = true -> enc t v = spec_enc t v.
Proof. exact (spec_facts leaf_facts). Qed.
Print Assumptions C03_wire_format.

(** The offset word is the spec's uint32 for every value. *)
Theorem C03_offset_word : forall n, encode_length n = spec_uint 4 n.
Proof. exact encode_length_spec. Qed.
Print Assumptions C03_offset_word.

(** [Spec.v] reproduces byte vectors pinned by the crate's own test suite (sanity of the
    reference), evaluated by the kernel. *)
Example spec_vec_u16 : spec_enc (TList (TUint 2)) (VList [VUint 0; VUint 1; VUint 2; VUint 3])
                       = [0; 0; 1; 0; 2; 0; 3; 0].
Proof. reflexivity. Qed.
Example spec_vec_vec_u16 :
  spec_enc (TList (TList (TUint 2)))
           (VList [VList [VUint 0; VUint 1; VUint 2]; VList [VUint 11; VUint 22; VUint 33]])
  = [8; 0; 0; 0; 14; 0; 0; 0; 0; 0; 1; 0; 2; 0; 11; 0; 22; 0; 33; 0].
Proof. reflexivity. Qed.
Example spec_variable_len_struct :
  spec_enc (TContainer true [TUint 2; TList (TUint 2); TUint 4])
           (VCont [VUint 1; VList [VUint 2; VUint 3]; VUint 4])
  = [1; 0; 10; 0; 0; 0; 4; 0; 0; 0; 2; 0; 3; 0].
Proof. reflexivity. Qed.
Example spec_option_u8 :
  spec_enc (TOption (TUint 1)) VNone = [0] /\ spec_enc (TOption (TUint 1)) (VSome (VUint 2)) = [1; 2].
Proof. split; reflexivity. Qed.
Example spec_bitlist_8 :
  spec_enc (TBitList 8) (VBits [false; false; false; false]) = [16] /\
  spec_enc (TBitList 8) (VBits []) = [1] /\
  spec_enc (TBitList 16) (VBits [true; true; true; true; true; true; true; true]) = [255; 1].
Proof. repeat split; reflexivity. Qed.
Example spec_bitvector :
  spec_enc (TBitVector 4) (VBits [true; false; false; true]) = [9] /\
  spec_enc (TBitVector 0) (VBits []) = [0] /\
  spec_enc (TBitVector 16) (VBits (repeat true 16)) = [255; 255].
Proof. repeat split; reflexivity. Qed.
Example spec_legacy_option :
  spec_enc (TLegacyOpt (TUint 2)) VNone = [0; 0; 0; 0] /\
  spec_enc (TLegacyOpt (TUint 2)) (VSome (VUint 65535)) = [1; 0; 0; 0; 255; 255].
Proof. split; reflexivity. Qed.
Example spec_tuple_u8_u16 :
  spec_enc (TContainer false [TUint 1; TUint 2]) (VCont [VUint 0; VUint 1]) = [0; 1; 0].
Proof. reflexivity. Qed.
(** Non-vacuity of the theorem's hypothesis. *)
Example C03_typed_example :
  has_ty (TContainer true [TUint 2; TList (TUint 2); TUint 4])
         (VCont [VUint 1; VList [VUint 2; VUint 3]; VUint 4]) = true.
Proof. reflexivity. Qed.
