(** * C02 — Canonical decoding: accepted bytes re-encode to exactly themselves. *)
From SSZ Require Import Base Offsets Types Codec ListDecFacts LeafIface LeafProof Canon.
Open Scope N_scope.

(** [phys bs]: [bs] consists of bytes and is shorter than 2^64 (any slice that exists on the
    64-bit targets the model covers).  [canon_type] = every type expression except ordered
    maps/sets and transparent enums (with 1..128 union/tag variants). *)
Theorem C02_canonical :
  forall t bs v, canon_type t = true -> phys bs -> dec t bs = Ok v -> enc t v = bs.
Proof. intros t bs v Hc Hp Hd. exact (proj1 (canon_facts leaf_facts t Hc bs v Hp Hd)). Qed.
Print Assumptions C02_canonical.

(** Consequently no two different byte strings decode to the same value. *)
Theorem C02_injective :
  forall t b1 b2 v, canon_type t = true -> phys b1 -> phys b2 ->
    dec t b1 = Ok v -> dec t b2 = Ok v -> b1 = b2.
Proof.
  intros t b1 b2 v Hc H1 H2 D1 D2.
  rewrite <- (C02_canonical t b1 v Hc H1 D1). exact (C02_canonical t b2 v Hc H2 D2).
Qed.
Print Assumptions C02_injective.

(** The decoded value is a value of the type. *)
Theorem C02_decoded_is_typed :
  forall t bs v, canon_type t = true -> phys bs -> dec t bs = Ok v -> has_ty t v = true.
Proof. intros t bs v Hc Hp Hd. exact (proj2 (canon_facts leaf_facts t Hc bs v Hp Hd)). Qed.
Print Assumptions C02_decoded_is_typed.

(** The rejection classes named in the property, as evaluated instances (each is also an
    instance of the theorem: were it accepted, it would have to re-encode to itself). *)
Example C02_rejects :
  (* trailing byte after a fixed-size container *)
  dec (TContainer true [TUint 1; TUint 2]) [1; 2; 0; 9] = Err /\
  (* first offset skips a byte / points into the fixed part / offsets decreasing / out of range *)
  dec (TContainer true [TUint 1; TList (TUint 1)]) [1; 6; 0; 0; 0; 7; 7] = Err /\
  dec (TContainer true [TUint 1; TList (TUint 1)]) [1; 4; 0; 0; 0; 7] = Err /\
  dec (TList (TList (TUint 1))) [8; 0; 0; 0; 7; 0; 0; 0; 1] = Err /\
  dec (TList (TList (TUint 1))) [8; 0; 0; 0; 10; 0; 0; 0; 1] = Err /\
  (* bool other than 0/1 *)
  dec TBool [2] = Err /\
  (* padding bit set in a bitvector; over-long bitlist; bitlist without delimiter *)
  dec (TBitVector 4) [16] = Err /\ dec (TBitList 3) [16] = Err /\ dec (TBitList 8) [1; 0] = Err /\
  (* unused union body: None selector followed by bytes; tag enum with a trailing byte;
     legacy None followed by a byte *)
  dec (TOption (TUint 1)) [0; 5] = Err /\ dec (TTag 2) [1; 99] = Err /\
  dec (TLegacyOpt (TUint 1)) [0; 0; 0; 0; 5] = Err.
Proof. vm_compute. repeat split; reflexivity. Qed.

(** Non-vacuity: an accepted input of a nested canonical type. *)
Example C02_hypotheses_satisfiable :
  let t := TContainer true [TUint 1; TList (TList (TUint 1)); TOption (TTag 3)] in
  let bs := [7; 9; 0; 0; 0; 18; 0; 0; 0; 8; 0; 0; 0; 8; 0; 0; 0; 5; 1; 2] in
  canon_type t = true /\ wfbb bs = true /\
  dec t bs = Ok (VCont [VUint 7; VList [VList []; VList [VUint 5]]; VSome (VTag 2)]).
Proof. vm_compute. repeat split; reflexivity. Qed.
