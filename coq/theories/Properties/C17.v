(** * C17 — Legacy four-byte-selector Option codec is exact and strict. *)
From SSZ Require Import Base Offsets Types Codec CodecUnfold ListDecFacts LeafIface LeafProof
     SizeFacts RoundTrip Canon Strict.
Open Scope N_scope.

Theorem C17_encoding :
  forall t x, enc (TLegacyOpt t) VNone = [0; 0; 0; 0] /\
              enc (TLegacyOpt t) (VSome x) = [1; 0; 0; 0] ++ enc t x.
Proof. intros t x. split; [reflexivity|apply enc_legacy_some]. Qed.
Print Assumptions C17_encoding.

Theorem C17_exact_sizes :
  forall t v, has_ty (TLegacyOpt t) v = true -> bytes_len (TLegacyOpt t) v = len (enc (TLegacyOpt t) v).
Proof. intros t v Hv. exact (proj1 (size_facts leaf_facts (TLegacyOpt t) v Hv)). Qed.
Print Assumptions C17_exact_sizes.

(** Round trip standalone, and as a field codec inside derived containers (a [#[ssz(with)]]
    field is a field of type [TLegacyOpt t]), at any position among other fields. *)
Theorem C17_round_trip :
  forall t v, rt_type t = true -> has_ty (TLegacyOpt t) v = true ->
    len (enc (TLegacyOpt t) v) < 4294967296 -> dec (TLegacyOpt t) (enc (TLegacyOpt t) v) = Ok v.
Proof.
  intros t v Hr Hv Hl. refine (rt_facts leaf_facts collect_sorted_holds (TLegacyOpt t) _ v Hv Hl).
  unfold rt_type in *. cbn [ty_all]. now rewrite Hr.
Qed.
Print Assumptions C17_round_trip.
Theorem C17_round_trip_as_field :
  forall pre t post v, rt_type (TContainer true (pre ++ TLegacyOpt t :: post)) = true ->
    has_ty (TContainer true (pre ++ TLegacyOpt t :: post)) v = true ->
    len (enc (TContainer true (pre ++ TLegacyOpt t :: post)) v) < 4294967296 ->
    dec (TContainer true (pre ++ TLegacyOpt t :: post)) (enc (TContainer true (pre ++ TLegacyOpt t :: post)) v) = Ok v.
Proof. intros pre t post v Hr Hv Hl. exact (rt_facts leaf_facts collect_sorted_holds _ Hr v Hv Hl). Qed.
Print Assumptions C17_round_trip_as_field.

(** Strictness. *)
Theorem C17_rejects_short : forall t bs, len bs < 4 -> dec (TLegacyOpt t) bs = Err.
Proof. exact legacy_short. Qed.
Print Assumptions C17_rejects_short.
Theorem C17_selectors :
  forall t w body, length w = 4%nat ->
    dec (TLegacyOpt t) (w ++ body) =
    if le_val w =? 0 then (match body with [] => Ok VNone | _ => Err end)
    else if le_val w =? 1 then omap VSome (dec t body) else Err.
Proof. exact legacy_selector. Qed.
Print Assumptions C17_selectors.
Theorem C17_canonical :
  forall t bs v, canon_type t = true -> phys bs -> dec (TLegacyOpt t) bs = Ok v -> enc (TLegacyOpt t) v = bs.
Proof.
  intros t bs v Hc Hp Hd.
  refine (proj1 (canon_facts leaf_facts (TLegacyOpt t) _ bs v Hp Hd)).
  unfold canon_type in *. cbn [ty_all]. now rewrite Hc.
Qed.
Print Assumptions C17_canonical.

Example C17_example :
  dec (TLegacyOpt (TList (TUint 2))) [1; 0; 0; 0; 5; 0; 6; 0] = Ok (VSome (VList [VUint 5; VUint 6])) /\
  dec (TLegacyOpt (TUint 2)) [2; 0; 0; 0; 5; 0] = Err /\ dec (TLegacyOpt (TUint 2)) [0; 0; 0] = Err /\
  dec (TLegacyOpt (TUint 2)) [0; 0; 0; 0; 5] = Err.
Proof. vm_compute. repeat split; reflexivity. Qed.
