(** * C19 — Ordered maps and sets encode as sorted entry lists and decode by collection. *)
From SSZ Require Import Base Offsets Types Codec CodecUnfold ListDecFacts LeafIface LeafProof
     OrderFacts RoundTrip Canon Strict ListView ListViewFacts ListViewEnc ListViewTyped.
Open Scope N_scope.

(** A map or set value is its list of entries in strictly ascending key order ([has_ty]). *)
Theorem C19_set_encodes_as_list :
  forall t vs, enc (TSet t) (VList vs) = enc (TList t) (VList vs).
Proof. exact set_encodes_as_list. Qed.
Print Assumptions C19_set_encodes_as_list.
Theorem C19_map_encodes_as_list :
  forall k v es, has_ty (TMap k v) (VList es) = true ->
    enc (TMap k v) (VList es) = enc (TList (TContainer false [k; v])) (VList es).
Proof. exact map_encodes_as_list. Qed.
Print Assumptions C19_map_encodes_as_list.

(** Decoding = decoding the entry list, then collecting (ascending, later duplicate wins);
    malformed lists or entries are rejected because the list decoder rejects them. *)
Theorem C19_set_decodes_by_collection :
  forall t bs, dec (TSet t) bs =
    match dec (TList t) bs with
    | Ok (VList es) => Ok (VList (collect_entries false es))
    | Ok _ => Err | Err => Err | Panic => Panic
    end.
Proof. exact dec_set_is_collect. Qed.
Print Assumptions C19_set_decodes_by_collection.
Theorem C19_map_decodes_by_collection :
  forall k v bs, dec (TMap k v) bs =
    match dec (TList (TContainer false [k; v])) bs with
    | Ok (VList es) => Ok (VList (collect_entries true es))
    | Ok _ => Err | Err => Err | Panic => Panic
    end.
Proof. exact dec_map_is_collect. Qed.
Print Assumptions C19_map_decodes_by_collection.

(** What [collect_entries] computes: strictly ascending, only listed entries, and for every
    listed key the LAST entry listed for it. *)
Theorem C19_collection_semantics :
  forall kt is_map l, key_type kt = true -> keys_typed kt is_map l ->
    strictly_sorted is_map (collect_entries is_map l) = true /\
    (forall e, In e (collect_entries is_map l) -> In e l) /\
    (forall l1 e l2, l = l1 ++ e :: l2 ->
       (forall e', In e' l2 -> val_cmp (entry_key is_map e') (entry_key is_map e) <> Eq) ->
       In e (collect_entries is_map l)).
Proof.
  intros kt m l Hk Ht. split; [now apply (collect_is_sorted kt)|]. split; [intros e; apply collect_incl|].
  intros l1 e l2 -> H. now apply (collect_later_wins kt).
Qed.
Print Assumptions C19_collection_semantics.

(** [val_cmp] is a strict total order on key-typed values (it is the Rust [Ord] there). *)
Theorem C19_key_order :
  forall t a b c, key_type t = true -> has_ty t a = true -> has_ty t b = true -> has_ty t c = true ->
    (val_cmp a b = Eq -> a = b) /\ val_cmp a b = CompOpp (val_cmp b a) /\
    (val_cmp a b = Lt -> val_cmp b c = Lt -> val_cmp a c = Lt).
Proof.
  intros t a b c Hk Ha Hb Hc. split; [now apply (val_cmp_eq t)|]. split; [apply val_cmp_antisym|].
  now apply (val_cmp_trans t).
Qed.
Print Assumptions C19_key_order.

(** Decoding an encoding returns the original collection; re-encoding a decoded collection is
    a fixed point. *)
Theorem C19_round_trip :
  forall t m, (exists a, t = TSet a) \/ (exists k v, t = TMap k v) ->
    rt_type t = true -> has_ty t m = true -> len (enc t m) < 4294967296 -> dec t (enc t m) = Ok m.
Proof. intros t m _ Hr Hv Hl. exact (rt_facts leaf_facts collect_sorted_holds t Hr m Hv Hl). Qed.
Print Assumptions C19_round_trip.
Theorem C19_set_fixed_point :
  forall t bs m, canon_type t = true -> rt_type (TSet t) = true -> phys bs -> dec (TSet t) bs = Ok m ->
    len (enc (TSet t) m) < 4294967296 -> dec (TSet t) (enc (TSet t) m) = Ok m.
Proof. exact dec_set_fixed_point. Qed.
Print Assumptions C19_set_fixed_point.

(** Decoding by collection at every depth: a type with sets / maps anywhere inside it accepts exactly the
    byte strings its entry-list view accepts ([list_view]: every set / map read as the plain list of its entries),
    and returns the collection of the listed entries, collected innermost first ([collect_rec]).  In particular an
    inner set listed out of order or with a duplicate is accepted and denotes the sorted duplicate-free set. *)
Theorem C19_decode_by_collection_at_every_depth :
  forall t bs, dec t bs = omap (collect_rec t) (dec (list_view t) bs).
Proof. exact dec_by_collection. Qed.
Print Assumptions C19_decode_by_collection_at_every_depth.

(** ... and encoding as entry lists at every depth: a well-typed value (collections strictly ascending, wherever
    they sit) encodes exactly as the same value read at the entry-list view of the type. *)
Theorem C19_encode_as_entry_lists_at_every_depth :
  forall t v, has_ty t v = true -> enc t v = enc (list_view t) v.
Proof. exact enc_by_entry_list. Qed.
Print Assumptions C19_encode_as_entry_lists_at_every_depth.

(** What a decoder returns is well typed at every depth (each set / map strictly ascending, wherever it sits), and
    re-encoding it is a fixed point of the decoder -- the general form of [C19_set_fixed_point]: [t] may hold sets and
    maps anywhere, as long as what remains when they are read as lists is a canonical type. *)
Theorem C19_decoded_collections_sorted_at_every_depth :
  forall t bs v, canon_type (list_view t) = true -> wf_type t = true -> phys bs -> dec t bs = Ok v -> has_ty t v = true.
Proof. exact dec_typed_at_any_depth. Qed.
Print Assumptions C19_decoded_collections_sorted_at_every_depth.
Theorem C19_fixed_point_at_every_depth :
  forall t bs v, canon_type (list_view t) = true -> rt_type t = true -> phys bs -> dec t bs = Ok v ->
    len (enc t v) < 4294967296 -> dec t (enc t v) = Ok v.
Proof. exact fixed_point_at_any_depth. Qed.
Print Assumptions C19_fixed_point_at_every_depth.
Example C19_every_depth_hypotheses_satisfiable :
  let t := TContainer true [TUint 2; TMap (TUint 1) (TSet (TUint 2)); TList (TSet (TUint 1))] in
  canon_type (list_view t) = true /\ rt_type t = true /\ wf_type t = true.
Proof. vm_compute. repeat split; reflexivity. Qed.

Example C19_nested_example :
  list_view (TMap (TUint 1) (TSet (TUint 2))) = TList (TContainer false [TUint 1; TList (TUint 2)]) /\
  dec (TMap (TUint 1) (TSet (TUint 2))) [4; 0; 0; 0; 0; 5; 0; 0; 0; 0; 0; 0; 0]
    = Ok (VList [VCont [VUint 0; VList [VUint 0]]]) /\
  dec (TList (TContainer false [TUint 1; TList (TUint 2)])) [4; 0; 0; 0; 0; 5; 0; 0; 0; 0; 0; 0; 0]
    = Ok (VList [VCont [VUint 0; VList [VUint 0; VUint 0]]]).
Proof. vm_compute. repeat split; reflexivity. Qed.

Example C19_example :
  dec (TMap (TUint 1) (TUint 1)) [3; 1; 1; 2; 3; 9; 2; 5] =
    Ok (VList [VCont [VUint 1; VUint 2]; VCont [VUint 2; VUint 5]; VCont [VUint 3; VUint 9]]) /\
  enc (TMap (TUint 1) (TUint 1)) (VList [VCont [VUint 1; VUint 2]; VCont [VUint 2; VUint 5]; VCont [VUint 3; VUint 9]])
    = [1; 2; 2; 5; 3; 9].
Proof. vm_compute. split; reflexivity. Qed.
