(** * C13 — Bitfield length bounds are enforced on every path. *)
From SSZ Require Import Base Bitfield BitfieldFacts BitfieldOps BitfieldOpsFacts.
Open Scope N_scope.

(** [len_ok]: a bitlist of capacity N holds at most N bits, a bitvector exactly N, a dynamic
    bitvector a positive multiple of 8.  It holds of every bitfield reachable by ANY history of
    constructors, byte-level constructors / SSZ decoding, mutations and set operations. *)
Theorem C13_every_path :
  forall fl ops, ops_wfb ops ->
    Forall (fun o => o_present o = true -> len_ok fl (o_len o)) (run_impl fl ops).
Proof.
  intros fl ops H. pose proof (reachable_inv fl ops H) as HI.
  rewrite Forall_forall in *. intros o Ho Hp. now apply (HI o Ho Hp).
Qed.
Print Assumptions C13_every_path.

(** A request beyond the bound fails with an error (never truncation or growth): the
    constructor agrees with the abstract one, which is [Err] exactly beyond the bound. *)
Theorem C13_constructors :
  forall fl n, match i_new fl n, a_new fl n with
               | Ok b, Ok bits => R fl b bits | Err, Err => True | _, _ => False end.
Proof. exact R_new. Qed.
Print Assumptions C13_constructors.
Theorem C13_over_capacity_is_error :
  forall cap n, cap < n -> bl_with_capacity cap n = Err.
Proof. intros cap n H. unfold bl_with_capacity. now replace (n <=? cap) with false by lia. Qed.
Print Assumptions C13_over_capacity_is_error.
Theorem C13_dynamic_new :
  forall n, (n = 0 \/ n mod 8 <> 0) -> bd_new n = Err.
Proof.
  intros n [->|H]; [reflexivity|]. unfold bd_new. destruct (n =? 0); [reflexivity|].
  now replace (n mod 8 =? 0) with false by lia.
Qed.
Print Assumptions C13_dynamic_new.

(** Byte-level constructors and decoders obey the closed-form accept sets (whose results obey
    the bound by construction). *)
Theorem C13_decoders :
  forall fl bs, wfb bs ->
    match i_decode fl bs, a_decode fl bs with Ok b, Ok bits => R fl b bits | Err, Err => True | _, _ => False end.
Proof. exact R_decode. Qed.
Print Assumptions C13_decoders.
Theorem C13_from_bytes_with_len :
  forall bs l, wfb bs ->
    match bd_from_bytes_with_len bs l, a_from_bytes_with_len bs l with
    | Ok b, Ok bits => R FDyn b bits | Err, Err => True | _, _ => False end.
Proof. exact from_bytes_with_len_refines. Qed.
Print Assumptions C13_from_bytes_with_len.

(** Resizing a bitlist: to a capacity at least as large it preserves exactly the set bits (the
    result is the old bits padded with false up to the new capacity); to a smaller one it fails. *)
Theorem C13_resize :
  forall n m b bits, R (FList n) b bits ->
    match bl_resize n m b, a_resize n m bits with
    | Ok r, Ok rbits => R (FList m) r rbits | Err, Err => True | _, _ => False end.
Proof. exact resize_refines. Qed.
Print Assumptions C13_resize.
Theorem C13_resize_smaller_fails : forall n m b, m < n -> bl_resize n m b = Err.
Proof. intros n m b H. unfold bl_resize. now replace (m <? n) with true by lia. Qed.
Print Assumptions C13_resize_smaller_fails.

Example C13_example :
  bl_with_capacity 8 9 = Err /\ bd_new 12 = Err /\ bl_from_bytes 3 [16] = Err /\
  bl_resize 16 8 {| bf_bytes := [5]; bf_len := 3 |} = Err /\
  a_resize 4 8 [true; false; true] = Ok [true; false; true; false; false; false; false; false].
Proof. vm_compute. repeat split; reflexivity. Qed.
