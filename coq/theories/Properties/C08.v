(** * C08 — Derived codecs implement the SSZ schema of the type definition. *)
From SSZ Require Import Base Offsets Types Codec Spec CodecUnfold ListDecFacts LeafIface LeafProof
     SpecFacts SizeFacts RoundTrip Canon Strict Derive DeriveFacts.
Open Scope N_scope.

(** [Derive.v] abstracts a derive input to what the macro inspects; [derive d] is the pair
    (schema written by Encode, schema read by Decode) or [None] where the macro panics, i.e. a
    compile error.  [rejected d] spells out the definitions without an SSZ meaning (zero or more
    than 128 union / tag variants, transparent structs without exactly one live field, enums
    without a declared behaviour) and the macro's other shape requirements. *)
Theorem C08_rejected_at_compile_time : forall d, derive d = None <-> rejected d.
Proof. exact derive_none_iff_rejected. Qed.
Print Assumptions C08_rejected_at_compile_time.

(** Containers: declaration order, skipped fields absent; both directions coincide when each
    skipped field carries both flags. *)
Theorem C08_container_schema :
  forall named fs e r, derive (DStruct false SContainer named fs) = Some (e, r) ->
    e = TContainer true (map field_schema (filter (fun f => negb (f_skip_ser f)) fs)) /\
    r = TContainer true (map field_schema (filter (fun f => negb (f_skip_de f)) fs)) /\
    ((forall f, In f fs -> f_skip_ser f = f_skip_de f) -> e = r).
Proof.
  intros named fs e r H. destruct (derive_container_schema named fs e r H) as [He Hr].
  split; [exact He|]. split; [exact Hr|]. now apply (derive_container_symmetric named fs e r H).
Qed.
Print Assumptions C08_container_schema.
(** Transparent structs are identical to their single live field. *)
Theorem C08_transparent_schema :
  forall named fs e r, derive (DStruct false STransparent named fs) = Some (e, r) ->
    exists f, filter (fun f => negb (f_skip_de f)) fs = [f] /\ e = TWrap (f_ty f) /\ r = TWrap (f_ty f).
Proof. exact derive_transparent_schema. Qed.
Print Assumptions C08_transparent_schema.
(** Enums: unions and tags have 1..128 variants, selectors are the declaration indices;
    transparent enums encode as the inner value and decode to the first variant that accepts. *)
Theorem C08_enum_schemas :
  forall vs e r,
    (derive (DEnum false EUnion vs) = Some (e, r) ->
       exists ts, map (fun t => [t]) ts = vs /\ e = TUnion ts /\ r = TUnion ts /\ (1 <= length ts <= 128)%nat) /\
    (derive (DEnum false ETag vs) = Some (e, r) ->
       e = TTag (length vs) /\ r = TTag (length vs) /\ (1 <= length vs <= 128)%nat) /\
    (derive (DEnum false ETransparent vs) = Some (e, r) ->
       exists ts, map (fun t => [t]) ts = vs /\ e = TTransEnum ts /\ r = TTransEnum ts).
Proof.
  intros vs e r. split; [apply derive_union_schema|]. split; [|apply derive_trans_schema].
  intros H. destruct (derive_tag_schema vs e r H) as (_ & He & Hr & Hn). auto.
Qed.
Print Assumptions C08_enum_schemas.
Theorem C08_selectors_are_declaration_indices :
  forall n i, (i < n)%nat -> length (union_selectors n) = n /\ nth i (union_selectors n) 0 = N.of_nat i.
Proof. exact union_selectors_are_indices. Qed.
Print Assumptions C08_selectors_are_declaration_indices.

(** The generated codec behaves exactly as the reference codec for its schema: the generic
    theorems instantiated at whatever schema [derive] yields. *)
Theorem C08_behaves_as_reference :
  forall d e r, derive d = Some (e, r) ->
    (forall v, has_ty e v = true -> enc e v = spec_enc e v) /\
    (forall bs v, strict_type r = true -> phys bs -> len bs < 4294967296 -> (dec r bs = Ok v <-> Valid r bs v)) /\
    (forall ts, r = TTransEnum ts -> forall bs, dec r bs = first_ok (map dec ts) bs 0).
Proof.
  intros d e r _. split; [exact (spec_facts leaf_facts e)|]. split.
  - intros bs v. apply dec_iff_valid.
  - intros ts -> bs. apply dec_trans.
Qed.
Print Assumptions C08_behaves_as_reference.

Example C08_example :
  derive (DStruct false SContainer true
            [{| f_ty := TUint 1; f_skip_ser := false; f_skip_de := false; f_with := None; f_nattrs := 0 |};
             {| f_ty := TList (TUint 1); f_skip_ser := true; f_skip_de := true; f_with := None; f_nattrs := 1 |};
             {| f_ty := TUint 2; f_skip_ser := false; f_skip_de := false; f_with := Some (TLegacyOpt (TUint 2)); f_nattrs := 1 |}])
  = Some (TContainer true [TUint 1; TLegacyOpt (TUint 2)], TContainer true [TUint 1; TLegacyOpt (TUint 2)]) /\
  derive (DEnum false EUnion []) = None /\ derive (DEnum false ETag (repeat [] 129)) = None /\
  derive (DEnum false EAbsent [[TUint 1]]) = None.
Proof. vm_compute. repeat split; reflexivity. Qed.
