(** * C09 — Container and list offset tables partition the input exactly. *)
From SSZ Require Import Base Offsets Builder OffsetsFacts.
Open Scope N_scope.

(** The 4-byte offset word codec is an exact little-endian bijection on [0, 2^32). *)
Theorem C09_word_decode_encode :
  forall x, x < 4294967296 ->
    decode_offset (encode_length x) = Ok x /\
    (forall rest, read_offset (encode_length x ++ rest) = Ok x) /\
    encode_length x = [x mod 256; (x / 256) mod 256; (x / 65536) mod 256; x / 16777216].
Proof.
  intros x Hx. split; [|split].
  - exact (decode_offset_encode_length x Hx).
  - intros rest. exact (read_offset_encode_length x rest Hx).
  - exact (encode_length_closed_form x Hx).
Qed.
Print Assumptions C09_word_decode_encode.

Theorem C09_word_encode_decode :
  forall w, length w = 4%nat -> wfb w ->
    encode_length (le_val w) = w /\ le_val w < 4294967296 /\ read_offset w = Ok (le_val w).
Proof.
  intros w Hl Hw. destruct (encode_length_le_val w Hl Hw) as [H1 H2].
  split; [exact H1|]. split; [exact H2|].
  rewrite <- (app_nil_r w) at 1. exact (read_offset_app w [] Hl).
Qed.
Print Assumptions C09_word_encode_decode.

Theorem C09_word_injective :
  forall a b, a < 4294967296 -> b < 4294967296 -> encode_length a = encode_length b -> a = b.
Proof. exact encode_length_inj. Qed.
Print Assumptions C09_word_injective.

(** Non-vacuity: the hypotheses are met by concrete values. *)
Example C09_word_example :
  258 < 4294967296 /\ encode_length 258 = [2; 1; 0; 0] /\ read_offset [2; 1; 0; 0; 9] = Ok 258.
Proof. repeat split. Qed.
