(** * C09 — Container and list offset tables partition the input exactly. *)
From SSZ Require Import Base Offsets Builder OffsetsFacts.
Open Scope N_scope.

(** The 4-byte offset word codec is an exact little-endian bijection on [0, 2^32). *)
Theorem C09_word_decode_encode :
  forall x, x < 4294967296 ->
    decode_offset (encode_length x) = Ok x /\
    (forall rest, read_offset (encode_length x ++ rest) = Ok x) /\
    encode_length x = [x mod 256; (x / 256) mod 256; (x / 65536) mod 256; x / 16777216].
Proof.
  intros x Hx. split; [|split].
  - exact (decode_offset_encode_length x Hx).
  - intros rest. exact (read_offset_encode_length x rest Hx).
  - exact (encode_length_closed_form x Hx).
Qed.
Print Assumptions C09_word_decode_encode.

Theorem C09_word_encode_decode :
  forall w, length w = 4%nat -> wfb w ->
    encode_length (le_val w) = w /\ le_val w < 4294967296 /\ read_offset w = Ok (le_val w).
Proof.
  intros w Hl Hw. destruct (encode_length_le_val w Hl Hw) as [H1 H2].
  split; [exact H1|]. split; [exact H2|].
  rewrite <- (app_nil_r w) at 1. exact (read_offset_app w [] Hl).
Qed.
Print Assumptions C09_word_encode_decode.

Theorem C09_word_injective :
  forall a b, a < 4294967296 -> b < 4294967296 -> encode_length a = encode_length b -> a = b.
Proof. exact encode_length_inj. Qed.
Print Assumptions C09_word_injective.

(** Non-vacuity: the hypotheses are met by concrete values. *)
Example C09_word_example :
  258 < 4294967296 /\ encode_length 258 = [2; 1; 0; 0] /\ read_offset [2; 1; 0; 0; 9] = Ok 258.
Proof. repeat split. Qed.

(** ** The decoder builder accepts exactly the tiled inputs. *)
From SSZ Require Import Layout BuilderFacts Codec ListDecFacts.

(** For every registration sequence [regs] (each item fixed with any length, or variable) and
    every byte string: building succeeds with slices [slices] iff fixed parts, offset words and
    variable parts tile the input ([Tiles]: one slice per item, fixed items have their registered
    length, and the input is exactly [assemble] of the parts with every offset word equal to the
    position of its part), and the slices are handed out in registration order. *)
Theorem C09_builder_tiles :
  forall regs bs slices, wfb bs -> len bs <= usize_max ->
    (builder_build regs bs = Ok slices <-> Tiles regs bs slices).
Proof. exact builder_build_tiles. Qed.
Print Assumptions C09_builder_tiles.

(** [decode_next] called once per registered item returns the slices in order. *)
Theorem C09_decode_next_in_order :
  forall (items : list bytes) (fs : list (bytes -> outcome bytes)),
    length items = length fs ->
    decode_all items fs = mapM (fun p : (bytes -> outcome bytes) * bytes => fst p (snd p)) (combine fs items).
Proof. intros. now apply decode_all_mapM. Qed.
Print Assumptions C09_decode_next_in_order.

(** The tiling spelled out as in the property text: the first offset equals the end of the fixed
    part (or, without variable items, the input ends there), offsets are non-decreasing and none
    is past the end. *)
Theorem C09_offsets_spelled_out :
  forall regs bs slices, Tiles regs bs slices ->
    let parts := combine (map fst regs) slices in
    let offs := offsets_of (fixed_size parts) parts in
    (forall o, In o offs -> fixed_size parts <= o /\ o <= len bs) /\
    (match offs with [] => len bs = fixed_size parts | o :: _ => o = fixed_size parts end) /\
    (forall i j, (i <= j)%nat -> (j < length offs)%nat -> nth i offs 0 <= nth j offs 0).
Proof. exact tiles_offsets. Qed.
Print Assumptions C09_offsets_spelled_out.

(** Lists of variable-size items: decoding succeeds exactly on tiled offset tables, each item
    decoder receiving its own bytes in order. *)
Theorem C09_list_tiles :
  forall (d : bytes -> outcome val) bs vs, wfb bs ->
    (decode_list_var d CVec bs None = Ok vs <->
     (bs = [] /\ vs = []) \/ (exists slices, TilesList bs slices /\ mapM d slices = Ok vs)).
Proof. intros d bs vs. apply decode_list_var_tiles. Qed.
Print Assumptions C09_list_tiles.

(** Non-vacuity: a concrete tiled input. *)
Example C09_tiles_example :
  builder_build [(true, 1); (false, 4); (true, 2); (false, 4)] [7; 11; 0; 0; 0; 8; 9; 13; 0; 0; 0; 1; 2; 3]
  = Ok [[7]; [1; 2]; [8; 9]; [3]].
Proof. reflexivity. Qed.

(** ** The conditions of the property text, as an executable check, are exactly acceptance. *)
From SSZ Require Import SplitSpec SplitFacts.

(** [layout_ok regs bs] (SplitSpec.v) computes every item's position from the registration
    sequence alone, reads ALL offset words and checks: the fixed part fits; without variable
    items the input ends with it; otherwise the first offset equals the end of the fixed part,
    offsets are non-decreasing and none is past the end.  [split] then cuts fixed items in
    place and the i-th variable item from its offset to the next one (the last to the end). *)
Theorem C09_conditions_iff_acceptance :
  forall regs bs, wfb bs -> len bs <= usize_max ->
    (layout_ok regs bs = true <-> exists slices, builder_build regs bs = Ok slices).
Proof. exact layout_ok_accepts. Qed.
Print Assumptions C09_conditions_iff_acceptance.

Theorem C09_each_item_its_own_bytes :
  forall regs bs slices, wfb bs -> len bs <= usize_max ->
    (SplitSpec.split regs bs = Some slices <-> builder_build regs bs = Ok slices).
Proof. exact split_builder. Qed.
Print Assumptions C09_each_item_its_own_bytes.

Theorem C09_tiling_is_unique :
  forall regs bs s1 s2, wfb bs -> Tiles regs bs s1 -> Tiles regs bs s2 -> s1 = s2.
Proof. exact tiles_unique. Qed.
Print Assumptions C09_tiling_is_unique.
