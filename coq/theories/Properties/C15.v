(** * C15 — Union selectors are validated and assigned by declaration order. *)
From SSZ Require Import Base Offsets OffsetsFacts Types Codec CodecUnfold SizeFacts Strict.
Open Scope N_scope.

(** Encoding: the variant's zero-based declaration index as one byte, then the variant's own
    encoding. *)
Theorem C15_encode_union :
  forall ts i x t, nth_error ts i = Some t -> enc (TUnion ts) (VUnion i x) = N.of_nat i :: enc t x.
Proof. intros ts i x t E. now rewrite enc_union, E. Qed.
Print Assumptions C15_encode_union.
Theorem C15_encode_option :
  forall t x, enc (TOption t) VNone = [0] /\ enc (TOption t) (VSome x) = 1 :: enc t x.
Proof. intros t x. split; [reflexivity|apply enc_option_some]. Qed.
Print Assumptions C15_encode_option.

(** Decoding, for all 256 selector bytes, every body and every variant list. *)
Theorem C15_decode_union :
  forall ts s body,
    dec (TUnion ts) (s :: body) =
    if s <=? 127 then
      match nth_error ts (N.to_nat s) with
      | Some t => omap (VUnion (N.to_nat s)) (dec t body)
      | None => Err
      end
    else Err.
Proof. exact dec_union_selector. Qed.
Print Assumptions C15_decode_union.
Theorem C15_rejects_empty_and_undeclared :
  forall ts, dec (TUnion ts) [] = Err /\
             (forall s body, (length ts <= N.to_nat s)%nat -> dec (TUnion ts) (s :: body) = Err) /\
             (forall s body, 127 < s -> dec (TUnion ts) (s :: body) = Err).
Proof.
  intros ts. split; [apply dec_union_empty|]. split; [intros; now apply dec_union_undeclared|].
  intros s body H. rewrite dec_union_selector. now replace (s <=? 127) with false by lia.
Qed.
Print Assumptions C15_rejects_empty_and_undeclared.
Theorem C15_decode_option :
  forall t s body,
    dec (TOption t) (s :: body) =
    if s =? 0 then (match body with [] => Ok VNone | _ => Err end)
    else if s =? 1 then omap VSome (dec t body) else Err.
Proof. exact dec_option_selector. Qed.
Print Assumptions C15_decode_option.

(** The selector-splitting helper: first byte and the remaining bytes unchanged, iff <= 127. *)
Theorem C15_split_union_bytes :
  forall bs, split_union_bytes bs =
             match bs with [] => Err | s :: body => if s <=? 127 then Ok (s, body) else Err end.
Proof. exact split_union_bytes_spec. Qed.
Print Assumptions C15_split_union_bytes.

(** Cross-check of the general statements on the full 128 x 256 grid of (variant count,
    selector), by kernel evaluation: a union of n byte variants accepts [s; 7] iff s < n. *)
Example C15_grid :
  forallb (fun n => forallb (fun s =>
      Bool.eqb (is_ok (dec (TUnion (repeat (TUint 1) n)) [N.of_nat s; 7])) (Nat.ltb s n))
    (seq 0 256)) (seq 1 128) = true.
Proof. vm_compute. reflexivity. Qed.
