(** * C12 — Bitfield set operations are exact for all operand pairs. *)
From SSZ Require Import Base Bitfield BitfieldFacts BitfieldOps BitfieldOpsFacts.
Open Scope N_scope.

(** [R fl b bits]: the implementation bitfield [b] (satisfying the representation invariant and
    the flavour's length rule) represents the boolean sequence [bits].  The abstract operations
    are pointwise on the first n positions with missing positions read as false ([a_zip]);
    n = the longer operand (union of bitlists / dynamic, intersection of dynamic), the shorter
    (intersection of bitlists), N (bitvectors), the left operand (difference). *)
Theorem C12_union :
  forall fl a abits o obits, R fl a abits -> R fl o obits ->
    match i_union fl a o, a_union fl abits obits with Ok r, Ok rbits => R fl r rbits | _, _ => False end.
Proof. exact R_union. Qed.
Print Assumptions C12_union.
Theorem C12_intersection :
  forall fl a abits o obits, R fl a abits -> R fl o obits ->
    match i_inter fl a o, a_inter fl abits obits with Ok r, Ok rbits => R fl r rbits | _, _ => False end.
Proof. exact R_inter. Qed.
Print Assumptions C12_intersection.
Theorem C12_difference :
  forall fl a abits o obits, R fl a abits -> R fl o obits ->
    R fl (difference a o) (a_diff abits obits) /\ R fl (difference_inplace a o) (a_diff abits obits).
Proof. intros. split; now apply R_diff. Qed.
Print Assumptions C12_difference.
Theorem C12_subset :
  forall fl a abits o obits, R fl a abits -> R fl o obits ->
    bf_is_subset a o = forallb negb (a_diff abits obits).
Proof. exact R_subset. Qed.
Print Assumptions C12_subset.
(** The abstract results have the lengths the property states. *)
Theorem C12_result_lengths :
  forall a o n,
    length (a_zip orb n a o) = n /\ length (a_zip andb n a o) = n /\ length (a_diff a o) = length a.
Proof. intros. unfold a_diff, a_zip. rewrite !map_length, !seq_length. auto. Qed.
Print Assumptions C12_result_lengths.

Example C12_example :
  exists a o, R (FList 16) a [true; false; true] /\ R (FList 16) o [true; true; false; false; true] /\
    a_union (FList 16) [true; false; true] [true; true; false; false; true] = Ok [true; true; true; false; true] /\
    a_inter (FList 16) [true; false; true] [true; true; false; false; true] = Ok [true; false; false].
Proof.
  exists {| bf_bytes := [5]; bf_len := 3 |}, {| bf_bytes := [19]; bf_len := 5 |}.
  assert (H1 := R_decode (FList 16) [13] ltac:(repeat constructor; lia)).
  assert (H2 := R_decode (FList 16) [51] ltac:(repeat constructor; lia)).
  vm_compute in H1, H2. repeat split; try reflexivity; try tauto; try (destruct H1; assumption); try (destruct H2; assumption).
  all: first [apply H1 | apply H2].
Qed.
