(** * C18 — Bitfield serde form is the 0x-hex of the SSZ encoding. *)
From SSZ Require Import Base Bitfield BitfieldFacts BitfieldOps BitfieldOpsFacts Hex HexFacts.
Open Scope N_scope.

(** Strings are lists of character codes; 48 = '0', 120 = 'x'.  [hex_of_bytes] writes two
    lowercase hex digits per byte. *)
Theorem C18_serialize_form :
  forall fl b, serde_ser fl b = 48 :: 120 :: hex_of_bytes (i_ssz fl b).
Proof. exact serde_ser_form. Qed.
Print Assumptions C18_serialize_form.

(** Deserializing succeeds exactly when the string is "0x" followed by even-length hex
    ([bytes_of_hex]: pairs of characters from [0-9a-fA-F]) of a byte string that SSZ decoding
    accepts for the type, and yields the same value. *)
Theorem C18_deserialize_exact :
  forall fl s b,
    serde_de fl s = Ok b <->
    exists h bs, s = 48 :: 120 :: h /\ bytes_of_hex h = Some bs /\ i_decode fl bs = Ok b.
Proof. exact serde_de_ok. Qed.
Print Assumptions C18_deserialize_exact.
Theorem C18_hex_is_even_length_bytes :
  forall h bs, bytes_of_hex h = Some bs -> length h = (2 * length bs)%nat /\ wfb bs.
Proof. intros h bs H. split; [now apply bytes_of_hex_even|now apply (wfb_bytes_of_hex h)]. Qed.
Print Assumptions C18_hex_is_even_length_bytes.
Theorem C18_hex_digits :
  forall c, (exists x, digit_val c = Some x) <-> (48 <= c <= 57) \/ (97 <= c <= 102) \/ (65 <= c <= 70).
Proof. exact digit_val_some. Qed.
Print Assumptions C18_hex_digits.

(** Hence serde round-trips every bitfield (of every flavour and capacity). *)
Theorem C18_round_trip :
  forall fl b bits, R fl b bits -> serde_de fl (serde_ser fl b) = Ok b.
Proof. exact serde_round_trip. Qed.
Print Assumptions C18_round_trip.

Example C18_example :
  serde_ser (FList 8) {| bf_bytes := [5]; bf_len := 3 |} = [48; 120; 48; 100] (* "0x0d" *) /\
  is_ok (serde_de (FList 8) [48; 120; 48; 68]) = true (* "0x0D" *) /\
  serde_de (FList 8) [48; 88; 48; 100] = Err (* "0X0d" *) /\
  serde_de (FList 8) [48; 120; 48] = Err (* odd length *) /\
  serde_de (FList 8) [48; 100] = Err (* no prefix *) /\
  serde_de (FList 8) [48; 120; 48; 103] = Err (* bad digit *).
Proof. vm_compute. repeat split; reflexivity. Qed.
