(** * C05 — Decoding untrusted bytes never panics or aborts. *)
From SSZ Require Import Base Offsets OffsetsFacts Builder BuilderFacts Types Codec ListDecFacts
     Bitfield BitfieldFacts LeafIface LeafProof NoPanic.
Open Scope N_scope.

(** Every Rust panic site reachable from a decoder ([slice::chunks(0)], slice indexing,
    [split_at], [expect]/[unwrap]/[unreachable!], [remove(0)] on an empty vector, checked usize
    addition) is an explicit [Panic] branch of the model, guarded by the condition under which
    Rust panics.  For EVERY type expression (degenerate ones included: zero-length items, empty
    containers, transparent enums) and every byte string that can exist, none is reached. *)
Theorem C05_decode_no_panic : forall t bs, phys bs -> dec t bs <> Panic.
Proof. intros t bs. exact (nopanic_facts leaf_facts t bs). Qed.
Print Assumptions C05_decode_no_panic.

(** The public byte-parsing helpers. *)
Theorem C05_read_offset : forall bs, read_offset bs <> Panic.
Proof. exact read_offset_not_panic. Qed.
Print Assumptions C05_read_offset.
Theorem C05_split_union_bytes : forall bs, split_union_bytes bs <> Panic.
Proof. exact split_union_bytes_not_panic. Qed.
Print Assumptions C05_split_union_bytes.
Theorem C05_list_decoder :
  forall (d : bytes -> outcome val) c bs max,
    phys bs -> (forall s, phys s -> d s <> Panic) -> decode_list_var d c bs max <> Panic.
Proof.
  intros d c bs max Hp Hd.
  exact (decode_list_var_no_panic_rel phys d c bs max phys_slice_closed Hp Hd).
Qed.
Print Assumptions C05_list_decoder.

(** The decoder builder used as documented: any registration sequence (any [usize] lengths),
    stop at the first error, then decode exactly the registered items. *)
Theorem C05_builder :
  forall regs bs, len bs <= usize_max -> builder_build regs bs <> Panic.
Proof. exact builder_build_no_panic. Qed.
Print Assumptions C05_builder.
Theorem C05_builder_decode_next :
  forall regs bs items (fs : list (bytes -> outcome val)),
    builder_build regs bs = Ok items -> length fs = length regs ->
    (forall f s, In f fs -> f s <> Panic) -> decode_all items fs <> Panic.
Proof.
  intros regs bs items fs Hb Hl Hf. apply decode_all_no_panic; [|exact Hf].
  apply builder_build_length in Hb. rewrite Hb, Hl. apply le_n.
Qed.
Print Assumptions C05_builder_decode_next.

(** Bitfield byte constructors. *)
Theorem C05_bitfield_constructors :
  forall n bs, wfb bs ->
    bl_from_bytes n bs <> Panic /\ bv_from_bytes n bs <> Panic /\ bd_decode bs <> Panic /\
    (forall l, bd_from_bytes_with_len bs l <> Panic).
Proof.
  intros n bs Hw. split; [now apply bitlist_no_panic|]. split; [apply bitvector_no_panic|].
  split; [apply bitdyn_no_panic|]. intros l. unfold bd_from_bytes_with_len.
  destruct (negb _); [discriminate|apply from_raw_bytes_no_panic].
Qed.
Print Assumptions C05_bitfield_constructors.

(** Evaluated instances at the inputs that used to panic (zero-length items; cursor overflow). *)
Example C05_former_panics :
  dec (TList (TBytesN 0)) [1] = Err /\ dec (TList (TContainer true [])) [0] = Err /\
  dec (TSet (TBytesN 0)) [7] = Err /\ dec (TMap (TBytesN 0) (TBytesN 0)) [7] = Err /\
  builder_build [(true, 2); (true, 18446744073709551615)] [1; 2; 3] = Err.
Proof. vm_compute. repeat split; reflexivity. Qed.
