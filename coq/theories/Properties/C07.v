(** * C07 — Size metadata is exact and consistent between encoder and decoder. *)
From SSZ Require Import Base Offsets Types Codec ListDecFacts LeafIface LeafProof MetaFacts SizeFacts Strict.
Open Scope N_scope.

(** [bytes_len] mirrors each [ssz_bytes_len] body (tuple sums, [sequence_ssz_bytes_len],
    [into_bytes().len()], the legacy module, Option + 1), not [length (enc ..)]. *)
Theorem C07_predicted_size : forall t v, has_ty t v = true -> bytes_len t v = len (enc t v).
Proof. intros t v Hv. exact (proj1 (size_facts leaf_facts t v Hv)). Qed.
Print Assumptions C07_predicted_size.

Theorem C07_sides_agree :
  forall t, e_is_fixed t = d_is_fixed t /\ e_fixed_len t = d_fixed_len t.
Proof. intros t. split; [apply is_fixed_agree|apply fixed_len_agree]. Qed.
Print Assumptions C07_sides_agree.

Theorem C07_variable_is_4 : forall t, e_is_fixed t = false -> e_fixed_len t = 4.
Proof. exact variable_fixed_len. Qed.
Print Assumptions C07_variable_is_4.

Theorem C07_fixed_encodes_to_fixed_len :
  forall t v, e_is_fixed t = true -> has_ty t v = true -> len (enc t v) = e_fixed_len t.
Proof. intros t v Hf Hv. exact (proj2 (size_facts leaf_facts t v Hv) Hf). Qed.
Print Assumptions C07_fixed_encodes_to_fixed_len.

Theorem C07_fixed_accepts_only_fixed_len :
  forall t bs v, d_is_fixed t = true -> phys bs -> dec t bs = Ok v -> len bs = d_fixed_len t.
Proof. intros t bs v Hf. exact (fixed_dec_len t Hf bs v). Qed.
Print Assumptions C07_fixed_accepts_only_fixed_len.

Example C07_example :
  let t := TContainer true [TUint 2; TBitVector 9; TTag 3; TContainer false [TBool; TBytesN 3]] in
  e_is_fixed t = true /\ e_fixed_len t = 9 /\
  has_ty t (VCont [VUint 7; VBits (repeat true 9); VTag 1; VCont [VBool true; VBytes [1; 2; 3]]]) = true.
Proof. vm_compute. repeat split; reflexivity. Qed.
