(** * RustSem: the Gallina meaning of the Rust constructs that [rs2v] translates.

    [Generated.v] is produced from the Rust sources of /repo on every run by /verif/rs2v; its
    definitions use only [Base.v] and the operations below.  This file is the semantic half of
    the translator's trusted base: each definition states what one Rust construct means on a
    64-bit target with overflow checks on (the profile the correspondence harness builds with).
    Definitions only (lemmas are in [GenEquiv.v]). *)
From SSZ Require Export Base.
Open Scope N_scope.

(** [x.len()] for any slice / vector *)
Definition llen {A} (l : list A) : N := N.of_nat (length l).

(** [Option::is_some_and], [Option::is_none], [Option::filter] *)
Definition is_some_and {A} (o : option A) (p : A -> bool) : bool :=
  match o with Some a => p a | None => false end.
Definition is_none {A} (o : option A) : bool :=
  match o with Some _ => false | None => true end.
Definition opt_filter {A} (p : A -> bool) (o : option A) : option A :=
  match o with Some a => if p a then Some a else None | None => None end.

(** [slice.last()] *)
Definition last_error {A} (l : list A) : option A :=
  match rev l with [] => None | x :: _ => Some x end.

(** [u8::try_from(n)] for [n : usize] *)
Definition u8_try_from (n : N) : option N := if n <=? 255 then Some n else None.

(** [a.div_ceil(d)] *)
Definition div_ceil (a d : N) : N := if a mod d =? 0 then a / d else a / d + 1.

(** checked [usize] arithmetic ([usize_add] is in Base.v) *)
Definition usize_sub (a b : N) : outcome N := if b <=? a then Ok (a - b) else Panic.
Definition usize_mul (a b : N) : outcome N := if a * b <=? usize_max then Ok (a * b) else Panic.
Definition usize_div (a b : N) : outcome N := if b =? 0 then Panic else Ok (a / b).
Definition usize_rem (a b : N) : outcome N := if b =? 0 then Panic else Ok (a mod b).

(** [x[i]] (panics out of range), [x.get(i)], [x[i] = v] *)
Definition index_at {A} (l : list A) (i : N) : outcome A :=
  match nth_error l (N.to_nat i) with Some x => Ok x | None => Panic end.
Definition get_at {A} (l : list A) (i : N) : option A := nth_error l (N.to_nat i).
Fixpoint set_at_nat {A} (l : list A) (pos : nat) (x : A) : outcome (list A) :=
  match l, pos with
  | [], _ => Panic
  | _ :: r, O => Ok (x :: r)
  | y :: r, S p => do r' <- set_at_nat r p x; Ok (y :: r')
  end.
Definition set_at {A} (l : list A) (i : N) (x : A) : outcome (list A) := set_at_nat l (N.to_nat i) x.

(** [slice.windows(2)] *)
Fixpoint windows2 {A} (l : list A) : list (list A) :=
  match l with
  | a :: ((b :: _) as r) => [a; b] :: windows2 r
  | _ => []
  end.

(** [for x in xs { body }] where the body may return early with [?]: a fold in the outcome monad
    carrying the mutable state *)
Fixpoint fold_m {S X} (f : S -> X -> outcome S) (l : list X) (s : S) : outcome S :=
  match l with
  | [] => Ok s
  | x :: r => do s' <- f s x; fold_m f r s'
  end.

(** [Option::unwrap] / [expect] *)
Definition unwrap_or_panic {A} (o : option A) : outcome A :=
  match o with Some a => Ok a | None => Panic end.

(** [u8] bit operations: [!b], [b << k] for [k < 8] (rs2v only translates shifts whose amount is
    visibly [_ % 8]), and [b.overflowing_shr(s).0] (the shift amount is taken modulo 8) *)
Definition not8 (b : N) : N := N.lxor 255 b.
Definition shl8 (b k : N) : N := (N.shiftl b k) mod 256.
Definition overflowing_shr8 (b s : N) : N := N.shiftr b (s mod 8).

(** [*x = v] where [x] was obtained from [l.get_mut(i)] (so [i] is in range) *)
Fixpoint upd_at (l : list N) (i : N) (x : N) : list N :=
  match l with
  | [] => []
  | y :: r => if i =? 0 then x :: r else y :: upd_at r (i - 1) x
  end.

(** [lo..hi] as the list of its elements; [(lo..hi).rev()] is [rev] of it *)
Definition range_up (lo hi : N) : list N :=
  map (fun k => lo + N.of_nat k) (seq 0 (N.to_nat (hi - lo))).

(** [Result::unwrap] / [expect]: an [Err] becomes a panic *)
Definition unwrap_res {A} (o : outcome A) : outcome A :=
  match o with Ok a => Ok a | _ => Panic end.

(** ** Constructs added for the bitfield impls (rs2v second rule set) *)

(** [smallvec![x; n]] / [vec![x; n]] *)
Definition repeat_n {A} (x : A) (n : N) : list A := repeat x (N.to_nat n).

(** [v.resize(n, x)], [v.truncate(n)] *)
Definition truncate_n {A} (l : list A) (n : N) : list A := firstn (N.to_nat n) l.
Definition resize_n {A} (l : list A) (n : N) (x : A) : list A :=
  if n <=? llen l then truncate_n l n else l ++ repeat_n x (n - llen l).

(** [o.unwrap_or(d)] *)
Definition opt_unwrap_or {A} (o : option A) (d : A) : A :=
  match o with Some a => a | None => d end.

(** [xs.iter().enumerate()] *)
Definition enumerate_n {A} (l : list A) : list (N * A) := combine (range_up 0 (llen l)) l.

(** [Option::map] / [Iterator::map] with a closure that can fail or panic *)
Definition opt_mapm {A B} (f : A -> outcome B) (o : option A) : outcome (option B) :=
  match o with
  | Some a => do b <- f a; Ok (Some b)
  | None => Ok None
  end.
(* [Iterator::map] with a fallible closure, consumed up to the first error: [mapM] of Base.v *)

(** [Result::ok] *)
Definition outcome_ok {A} (o : outcome A) : outcome (option A) :=
  match o with Ok a => Ok (Some a) | Err => Ok None | Panic => Panic end.

(** [u8::leading_zeros], [u8::count_ones] *)
Definition leading_zeros8 (b : N) : N := if b =? 0 then 8 else 7 - N.log2 b.
Fixpoint popcount_fuel (fuel : nat) (b : N) : N :=
  match fuel with O => 0 | S f => (b mod 2) + popcount_fuel f (b / 2) end.
Definition count_ones8 (b : N) : N := popcount_fuel 8 b.

(** [iter.sum::<usize>()]: checked additions (the harness profile) *)
Definition usize_sum (l : list N) : outcome N := fold_m usize_add l 0.

(** [a == b] on byte vectors *)
Fixpoint bytes_eqb (a b : list N) : bool :=
  match a, b with
  | [], [] => true
  | x :: ar, y :: br => (x =? y) && bytes_eqb ar br
  | _, _ => false
  end.

(** [for x in it { body }] over a translated iterator ([next] is its translated [&mut self]
    method, returning the item and the new iterator state): [next] and the body alternate, the
    loop ends at the first [None].  [for_iter_enum] is the same loop over [it.enumerate()] (the
    counter of [Enumerate] is not overflow-checked here: it cannot reach 2^64).  The fuel is the
    termination measure rs2v attaches to the iterator type; running out of it is a [Panic], so
    that a measure that is too small cannot make an equivalence proof succeed. *)
Fixpoint for_iter_from {It A St} (next : It -> outcome (option A * It)) (body : St -> N * A -> outcome St)
         (fuel : nat) (it : It) (i : N) (st : St) : outcome St :=
  match fuel with
  | O => Panic
  | S f =>
      do r <- next it;
      match r with
      | (None, _) => Ok st
      | (Some a, it') => do st' <- body st (i, a); for_iter_from next body f it' (i + 1) st'
      end
  end.
Definition for_iter_enum {It A St} (next : It -> outcome (option A * It)) (body : St -> N * A -> outcome St)
           (fuel : nat) (it : It) (st : St) : outcome St := for_iter_from next body fuel it 0 st.
Definition for_iter {It A St} (next : It -> outcome (option A * It)) (body : St -> A -> outcome St)
           (fuel : nat) (it : It) (st : St) : outcome St :=
  for_iter_from next (fun st p => body st (snd p)) fuel it 0 st.

(** ** Constructs added for the [Decode] impls (rs2v third rule set) *)

(** [lo..=hi] *)
Definition range_incl (lo hi : N) : list N := range_up lo (hi + 1).

(** [slice.chunks(n)] for [n > 0] (the callers check [n != 0] first; [chunks(0)] panics in Rust and
    is never reached in a translated body without that check) *)
Definition chunks_n (l : bytes) (n : N) : list bytes := chunks (N.to_nat n) l.

(** [xs.map(f)] consumed up to the first error, where the closure [f] assigns captured locals:
    the state is threaded through the calls and returned with the items *)
Fixpoint map_state {S X A} (f : S -> X -> outcome (A * S)) (l : list X) (s : S) : outcome (list A * S) :=
  match l with
  | [] => Ok ([], s)
  | x :: r => do p <- f s x; do q <- map_state f r (snd p); Ok (fst p :: fst q, snd q)
  end.

(** std / third-party constructors (assumed behaviour, tied by the correspondence harness):
    [NonZeroUsize::new]; alloy [Address::from_slice] / [Bloom::from_slice] (panic unless the slice has
    exactly the type's length); ruint [Uint::from_le_slice] (panics when the value does not fit);
    [TryFromIter for Vec / SmallVec] (collects everything, never refuses) *)
Definition nonzero_new (x : N) : option N := if x =? 0 then None else Some x.
Definition from_slice_exact (n : N) (bs : bytes) : outcome bytes := if llen bs =? n then Ok bs else Panic.
Definition uint_from_le_slice (nbytes : N) (bs : bytes) : outcome N :=
  if le_val bs <? 256 ^ nbytes then Ok (le_val bs) else Panic.
Definition vec_try_from_iter {A} (l : list A) : outcome (list A) := Ok l.
Definition smallvec_try_from_iter {A} (l : list A) : outcome (list A) := Ok l.
(** [SmallVec::from_iter]: the items in order (the inline / spilled representation is not a value matter) *)
Definition smallvec_from_iter {A} (l : list A) : list A := l.

(** [BTreeSet::from_iter] under the item type's [Ord]: the elements in ascending order, a later element
    that compares equal replaces the earlier one (std: "if the set did have an equal element present,
    the new one replaces it" holds for [BTreeMap] values; for [BTreeSet] the two are indistinguishable by
    [Ord], and SSZ items that compare equal encode equally for every key type of the crate). *)
Fixpoint ord_insert {A} (cmp : A -> A -> comparison) (e : A) (l : list A) : list A :=
  match l with
  | [] => [e]
  | x :: r =>
      match cmp e x with
      | Lt => e :: l
      | Eq => e :: r
      | Gt => x :: ord_insert cmp e r
      end
  end.
Definition btreeset_from_iter {A} (cmp : A -> A -> comparison) (es : list A) : list A :=
  fold_left (fun acc e => ord_insert cmp e acc) es [].
Definition btreeset_try_from_iter {A} (cmp : A -> A -> comparison) (es : list A) : outcome (list A) :=
  Ok (btreeset_from_iter cmp es).

(** [BTreeMap::from_iter] under the key type's [Ord]: the entries in ascending key order, a later entry
    with an equal key replaces the earlier one. *)
Fixpoint ord_insert_key {K V} (cmp : K -> K -> comparison) (e : K * V) (l : list (K * V)) : list (K * V) :=
  match l with
  | [] => [e]
  | x :: r =>
      match cmp (fst e) (fst x) with
      | Lt => e :: l
      | Eq => e :: r
      | Gt => x :: ord_insert_key cmp e r
      end
  end.
Definition btreemap_from_iter {K V} (cmp : K -> K -> comparison) (es : list (K * V)) : list (K * V) :=
  fold_left (fun acc e => ord_insert_key cmp e acc) es [].
Definition btreemap_try_from_iter {K V} (cmp : K -> K -> comparison) (es : list (K * V)) : outcome (list (K * V)) :=
  Ok (btreemap_from_iter cmp es).

(** [v.remove(i)]: the element and the vector without it; panics when [i] is out of range *)
Definition vec_remove {A} (l : list A) (i : N) : outcome (A * list A) :=
  match nth_error l (N.to_nat i) with
  | Some x => Ok (x, firstn (N.to_nat i) l ++ skipn (S (N.to_nat i)) l)
  | None => Panic
  end.

(** [s.split_at(mid)]: panics when [mid > len] *)
Definition split_at_n {A} (l : list A) (mid : N) : outcome (list A * list A) :=
  if mid <=? llen l then Ok (firstn (N.to_nat mid) l, skipn (N.to_nat mid) l) else Panic.

(** ** [ethereum_serde_utils::hex::{encode, PrefixedHexVisitor}] (third-party; behaviour assumed, tied by the C18
    correspondence).  Strings are lists of character codes. *)
Definition str := list N.

Definition hex_digit (d : N) : N := if d <? 10 then 48 + d else 87 + d.     (* '0'..'9', 'a'..'f' *)
Definition hex_of_bytes (bs : bytes) : str :=
  concat (map (fun b => [hex_digit (b / 16); hex_digit (b mod 16)]) bs).
(** [hex::encode]: "0x" followed by lowercase hex *)
Definition hex_encode (bs : bytes) : str := 48 :: 120 :: hex_of_bytes bs.

Definition digit_val (c : N) : option N :=
  if (48 <=? c) && (c <=? 57) then Some (c - 48)
  else if (97 <=? c) && (c <=? 102) then Some (c - 87)
  else if (65 <=? c) && (c <=? 70) then Some (c - 55)
  else None.
(** even-length strings over [0-9a-fA-F] *)
Fixpoint bytes_of_hex (s : str) : option bytes :=
  match s with
  | [] => Some []
  | [_] => None
  | a :: b :: r =>
      match digit_val a, digit_val b, bytes_of_hex r with
      | Some x, Some y, Some bs => Some (16 * x + y :: bs)
      | _, _, _ => None
      end
  end.
(** [PrefixedHexVisitor]: the string must start with "0x" *)
Definition prefixed_hex_decode (s : str) : option bytes :=
  match s with
  | 48 :: 120 :: r => bytes_of_hex r
  | _ => None
  end.

(** ** [arbitrary::Unstructured] (third-party; behaviour assumed, tied by the C20 correspondence): the state is the
    entropy that is left.  [fill_buffer(buf)] copies what is available and zero-fills the rest (it never fails);
    [usize::arbitrary] reads eight bytes little-endian the same way. *)
Definition fill_buffer (data : bytes) (n : N) : bytes * bytes :=
  let k := N.min n (len data) in
  (take k data ++ repeat_n 0 (n - k), drop k data).
Definition arbitrary_usize (data : bytes) : N * bytes :=
  let p := fill_buffer data 8 in (le_val (fst p), snd p).

(** ** [core::hash::Hash] of the two field types of [Bitfield], as sequences of words written to the hasher (std
    behaviour, assumed): a byte vector writes its length, then its bytes; a [usize] writes itself. *)
Definition hash_bytes (state : list N) (bs : bytes) : list N := state ++ len bs :: bs.
Definition hash_usize (state : list N) (n : N) : list N := state ++ [n].
