(** * RustSem: the Gallina meaning of the Rust constructs that [rs2v] translates.

    [Generated.v] is produced from the Rust sources of /repo on every run by /verif/rs2v; its
    definitions use only [Base.v] and the operations below.  This file is the semantic half of
    the translator's trusted base: each definition states what one Rust construct means on a
    64-bit target with overflow checks on (the profile the correspondence harness builds with).
    Definitions only (lemmas are in [GenEquiv.v]). *)
From SSZ Require Export Base.
Open Scope N_scope.

(** [x.len()] for any slice / vector *)
Definition llen {A} (l : list A) : N := N.of_nat (length l).

(** [Option::is_some_and], [Option::is_none], [Option::filter] *)
Definition is_some_and {A} (o : option A) (p : A -> bool) : bool :=
  match o with Some a => p a | None => false end.
Definition is_none {A} (o : option A) : bool :=
  match o with Some _ => false | None => true end.
Definition opt_filter {A} (p : A -> bool) (o : option A) : option A :=
  match o with Some a => if p a then Some a else None | None => None end.

(** [slice.last()] *)
Definition last_error {A} (l : list A) : option A :=
  match rev l with [] => None | x :: _ => Some x end.

(** [a.div_ceil(d)] *)
Definition div_ceil (a d : N) : N := if a mod d =? 0 then a / d else a / d + 1.

(** checked [usize] arithmetic ([usize_add] is in Base.v) *)
Definition usize_sub (a b : N) : outcome N := if b <=? a then Ok (a - b) else Panic.
Definition usize_mul (a b : N) : outcome N := if a * b <=? usize_max then Ok (a * b) else Panic.
Definition usize_div (a b : N) : outcome N := if b =? 0 then Panic else Ok (a / b).
Definition usize_rem (a b : N) : outcome N := if b =? 0 then Panic else Ok (a mod b).

(** [x[i]] (panics out of range), [x.get(i)], [x[i] = v] *)
Definition index_at {A} (l : list A) (i : N) : outcome A :=
  match nth_error l (N.to_nat i) with Some x => Ok x | None => Panic end.
Definition get_at {A} (l : list A) (i : N) : option A := nth_error l (N.to_nat i).
Fixpoint set_at_nat {A} (l : list A) (pos : nat) (x : A) : outcome (list A) :=
  match l, pos with
  | [], _ => Panic
  | _ :: r, O => Ok (x :: r)
  | y :: r, S p => do r' <- set_at_nat r p x; Ok (y :: r')
  end.
Definition set_at {A} (l : list A) (i : N) (x : A) : outcome (list A) := set_at_nat l (N.to_nat i) x.

(** [slice.windows(2)] *)
Fixpoint windows2 {A} (l : list A) : list (list A) :=
  match l with
  | a :: ((b :: _) as r) => [a; b] :: windows2 r
  | _ => []
  end.

(** [for x in xs { body }] where the body may return early with [?]: a fold in the outcome monad
    carrying the mutable state *)
Fixpoint fold_m {S X} (f : S -> X -> outcome S) (l : list X) (s : S) : outcome S :=
  match l with
  | [] => Ok s
  | x :: r => do s' <- f s x; fold_m f r s'
  end.

(** [Option::unwrap] / [expect] *)
Definition unwrap_or_panic {A} (o : option A) : outcome A :=
  match o with Some a => Ok a | None => Panic end.

(** [u8] bit operations: [!b], [b << k] for [k < 8] (rs2v only translates shifts whose amount is
    visibly [_ % 8]), and [b.overflowing_shr(s).0] (the shift amount is taken modulo 8) *)
Definition not8 (b : N) : N := N.lxor 255 b.
Definition shl8 (b k : N) : N := (N.shiftl b k) mod 256.
Definition overflowing_shr8 (b s : N) : N := N.shiftr b (s mod 8).

(** [*x = v] where [x] was obtained from [l.get_mut(i)] (so [i] is in range) *)
Fixpoint upd_at (l : list N) (i : N) (x : N) : list N :=
  match l with
  | [] => []
  | y :: r => if i =? 0 then x :: r else y :: upd_at r (i - 1) x
  end.

(** [lo..hi] as the list of its elements; [(lo..hi).rev()] is [rev] of it *)
Definition range_up (lo hi : N) : list N :=
  map (fun k => lo + N.of_nat k) (seq 0 (N.to_nat (hi - lo))).

(** [Result::unwrap] / [expect]: an [Err] becomes a panic *)
Definition unwrap_res {A} (o : outcome A) : outcome A :=
  match o with Ok a => Ok a | _ => Panic end.
