(** * Facts about the [SszDecoderBuilder] model: it succeeds exactly on tiled inputs (C09/C10). *)
From SSZ Require Import Base BaseFacts Offsets OffsetsFacts Builder Layout.
From Coq Require Import ZArith ZifyN ZifyNat ZifyBool.
Ltac Zify.zify_post_hook ::= Z.div_mod_to_equations.
Open Scope N_scope.

(** ** Layout algebra *)
Lemma fixed_size_nil : fixed_size [] = 0. Proof. reflexivity. Qed.
Lemma fixed_size_true b r : fixed_size ((true, b) :: r) = len b + fixed_size r.
Proof. reflexivity. Qed.
Lemma fixed_size_false b r : fixed_size ((false, b) :: r) = 4 + fixed_size r.
Proof. reflexivity. Qed.
Lemma var_concat_nil : var_concat [] = []. Proof. reflexivity. Qed.
Lemma var_concat_true b r : var_concat ((true, b) :: r) = var_concat r.
Proof. reflexivity. Qed.
Lemma var_concat_false b r : var_concat ((false, b) :: r) = b ++ var_concat r.
Proof. reflexivity. Qed.

Lemma assemble_fixed_len off parts : len (assemble_fixed off parts) = fixed_size parts.
Proof.
  revert off; induction parts as [|[[|] b] r IH]; intros off; cbn [assemble_fixed].
  - reflexivity.
  - rewrite len_app, IH, fixed_size_true. reflexivity.
  - rewrite len_app, encode_length_len, IH, fixed_size_false. reflexivity.
Qed.

Lemma assemble_len nf parts : len (assemble nf parts) = fixed_size parts + len (var_concat parts).
Proof. unfold assemble. rewrite len_app, assemble_fixed_len. reflexivity. Qed.

Lemma wfb_assemble_fixed off parts :
  Forall (fun p : part => wfb (snd p)) parts -> wfb (assemble_fixed off parts).
Proof.
  intros H; revert off; induction H as [|[[|] b] r Hb _ IH]; intros off; cbn [assemble_fixed].
  - constructor.
  - apply wfb_app. split; [exact Hb|apply IH].
  - apply wfb_app. split; [apply wfb_encode_length|apply IH].
Qed.

Lemma wfb_var_concat parts :
  Forall (fun p : part => wfb (snd p)) parts -> wfb (var_concat parts).
Proof.
  induction 1 as [|[[|] b] r Hb _ IH].
  - constructor.
  - rewrite var_concat_true. exact IH.
  - rewrite var_concat_false. apply wfb_app. split; [exact Hb|exact IH].
Qed.

Lemma wfb_assemble nf parts : Forall (fun p : part => wfb (snd p)) parts -> wfb (assemble nf parts).
Proof.
  intros H. unfold assemble. apply wfb_app. split; [apply wfb_assemble_fixed|apply wfb_var_concat]; exact H.
Qed.

(** ** Offsets written by [assemble_fixed] *)
Lemma offsets_of_bound off parts o :
  In o (offsets_of off parts) -> off <= o /\ o <= off + len (var_concat parts).
Proof.
  revert off; induction parts as [|[[|] b] r IH]; intros off; cbn [offsets_of].
  - intros [].
  - rewrite var_concat_true. apply IH.
  - rewrite var_concat_false, len_app. intros [<-|H]; [lia|]. apply IH in H. lia.
Qed.

Lemma offsets_of_head off parts :
  match offsets_of off parts with [] => var_concat parts = [] | o :: _ => o = off end.
Proof.
  revert off; induction parts as [|[[|] b] r IH]; intros off; cbn [offsets_of].
  - reflexivity.
  - rewrite var_concat_true. apply IH.
  - reflexivity.
Qed.

Lemma offsets_of_sorted off parts i j :
  (i <= j)%nat -> (j < length (offsets_of off parts))%nat ->
  nth i (offsets_of off parts) 0 <= nth j (offsets_of off parts) 0.
Proof.
  revert off i j; induction parts as [|[[|] b] r IH]; intros off i j Hij Hj; cbn [offsets_of] in *.
  - cbn in Hj. lia.
  - apply IH; assumption.
  - cbn [length] in Hj. destruct j as [|j].
    + replace i with 0%nat by lia. lia.
    + destruct i as [|i]; cbn [nth].
      * assert (In (nth j (offsets_of (off + len b) r) 0) (offsets_of (off + len b) r)) as HI
          by (apply nth_In; lia).
        apply offsets_of_bound in HI. lia.
      * apply IH; lia.
Qed.

(** ** decode_all *)
Lemma decode_all_mapM {A} (items : list bytes) (fs : list (bytes -> outcome A)) :
  length items = length fs ->
  decode_all items fs = mapM (fun p : (bytes -> outcome A) * bytes => fst p (snd p)) (combine fs items).
Proof.
  revert items; induction fs as [|f fr IH]; intros items Hl.
  - reflexivity.
  - destruct items as [|s r]; [discriminate|].
    cbn [decode_all decode_next combine mapM fst snd].
    destruct (f s) as [a| |]; cbn [bind snd fst]; try reflexivity.
    rewrite IH by (cbn [length] in Hl; lia). reflexivity.
Qed.

Lemma decode_all_no_panic {A} (items : list bytes) (fs : list (bytes -> outcome A)) :
  (length fs <= length items)%nat -> (forall f s, In f fs -> f s <> Panic) -> decode_all items fs <> Panic.
Proof.
  revert items; induction fs as [|f fr IH]; intros items Hl Hf.
  - discriminate.
  - destruct items as [|s r]; [cbn [length] in Hl; lia|].
    cbn [decode_all decode_next].
    pose proof (Hf f s (or_introl eq_refl)) as Hs.
    destruct (f s) as [a| |]; cbn [bind snd fst]; try discriminate; [|congruence].
    specialize (IH r).
    destruct (decode_all r fr) as [x| |]; cbn [bind]; try discriminate.
    exfalso. apply IH; [cbn [length] in Hl; lia| |reflexivity].
    intros g t Hg. apply Hf. right. exact Hg.
Qed.

(** ** The builder: intermediate description of a run

    [raw] describes what the registration phase saw: [(true, slice)] for a fixed item and
    [(false, word)] (the four bytes of the offset word) for a variable item. *)
Definition ph (p : part) : bytes := if fst p then snd p else [].
Definition raw_bytes (raw : list part) : bytes := concat (map snd raw).

Fixpoint mk_offs (pos : nat) (raw : list part) : list boffset :=
  match raw with
  | [] => []
  | (true, _) :: r => mk_offs (S pos) r
  | (false, w) :: r => {| o_position := pos; o_offset := le_val w |} :: mk_offs (S pos) r
  end.

Fixpoint next_off (raw : list part) (n : N) : N :=
  match raw with
  | [] => n
  | (true, _) :: r => next_off r n
  | (false, w) :: _ => le_val w
  end.

Fixpoint chain (prev : N) (raw : list part) (n : N) : Prop :=
  match raw with
  | [] => prev <= n
  | (true, _) :: r => chain prev r n
  | (false, w) :: r => prev <= le_val w /\ chain (le_val w) r n
  end.

Fixpoint fill_parts (bs : bytes) (raw : list part) : list part :=
  match raw with
  | [] => []
  | (true, b) :: r => (true, b) :: fill_parts bs r
  | (false, w) :: r =>
      (false, take (next_off r (len bs) - le_val w) (drop (le_val w) bs)) :: fill_parts bs r
  end.

Fixpoint RawOk (regs : list (bool * N)) (raw : list part) : Prop :=
  match regs, raw with
  | [], [] => True
  | (f, l) :: rs, (g, b) :: rw =>
      g = f /\ (if f then len b = l else length b = 4%nat) /\ RawOk rs rw
  | _, _ => False
  end.

Definition prev_of (os : list boffset) : N :=
  match last_offset os with Some p => p | None => 0 end.

Lemma raw_bytes_cons f b r : raw_bytes ((f, b) :: r) = b ++ raw_bytes r.
Proof. reflexivity. Qed.

Lemma last_offset_snoc os x : last_offset (os ++ [x]) = Some (o_offset x).
Proof. unfold last_offset. rewrite rev_app_distr. reflexivity. Qed.
Lemma prev_of_snoc os x : prev_of (os ++ [x]) = o_offset x.
Proof. unfold prev_of. rewrite last_offset_snoc. reflexivity. Qed.
Lemma prev_of_nil : prev_of [] = 0. Proof. reflexivity. Qed.

Lemma chain_bounds prev raw n : chain prev raw n -> prev <= next_off raw n /\ next_off raw n <= n.
Proof.
  revert prev; induction raw as [|[[|] b] r IH]; intros prev; cbn [chain next_off].
  - lia.
  - apply IH.
  - intros [H1 H2]. apply IH in H2. lia.
Qed.

Lemma chain_weaken p q raw n : p <= q -> chain q raw n -> chain p raw n.
Proof.
  revert p q; induction raw as [|[[|] b] r IH]; intros p q Hpq; cbn [chain].
  - lia.
  - apply IH; exact Hpq.
  - intros [H1 H2]. split; [lia|exact H2].
Qed.

(** ** One registration step *)
Lemma register_fixed_sound bs st l st' :
  register bs st true l = Ok st' ->
  b_index st + l <= len bs /\
  st' = {| b_items := b_items st ++ [take l (drop (b_index st) bs)];
           b_offsets := b_offsets st; b_index := b_index st + l |}.
Proof.
  unfold register, checked_add.
  destruct (b_index st + l <=? usize_max) eqn:E; cbn [ok_or bind]; [|discriminate].
  destruct (get_range bs (b_index st) (b_index st + l)) as [s|] eqn:G; cbn [ok_or bind]; [|discriminate].
  apply get_range_some in G as (G1 & G2 & ->).
  replace (b_index st + l - b_index st) with l by lia.
  intros [= <-]. split; [exact G2|reflexivity].
Qed.

Lemma register_fixed_complete bs st l :
  b_index st + l <= len bs -> len bs <= usize_max ->
  register bs st true l =
  Ok {| b_items := b_items st ++ [take l (drop (b_index st) bs)];
        b_offsets := b_offsets st; b_index := b_index st + l |}.
Proof.
  intros H1 H2. unfold register, checked_add.
  replace (b_index st + l <=? usize_max) with true by lia. cbn [ok_or bind].
  rewrite (proj2 (get_range_some bs (b_index st) (b_index st + l) _)
                 (conj (N.le_add_r _ _) (conj H1 eq_refl))).
  cbn [ok_or bind].
  replace (b_index st + l - b_index st) with l by lia. reflexivity.
Qed.

Lemma register_fixed_no_panic bs st l : register bs st true l <> Panic.
Proof.
  unfold register, checked_add.
  destruct (b_index st + l <=? usize_max); cbn [ok_or bind]; [|discriminate].
  destruct (get_range bs (b_index st) (b_index st + l)); cbn [ok_or bind]; discriminate.
Qed.

Lemma take4_firstn (bs : bytes) : firstn 4 bs = take 4 bs.
Proof. reflexivity. Qed.

Lemma register_var_sound bs st l st' :
  b_index st <= len bs -> register bs st false l = Ok st' ->
  let w := take 4 (drop (b_index st) bs) in
  b_index st + 4 <= len bs /\ le_val w <= len bs /\ prev_of (b_offsets st) <= le_val w /\
  st' = {| b_items := b_items st ++ [[]];
           b_offsets := b_offsets st ++
                        [{| o_position := length (b_items st); o_offset := le_val w |}];
           b_index := b_index st + 4 |}.
Proof.
  intros Hi. unfold register, index_from.
  rewrite (proj2 (get_from_some bs (b_index st) _) (conj Hi eq_refl)). cbn [bind].
  destruct (read_offset (drop (b_index st) bs)) as [off| |] eqn:R; cbn [bind]; try discriminate.
  apply read_offset_ok in R as [R1 ->]. rewrite len_drop in R1. rewrite take4_firstn.
  destruct (sanitize_offset _ _ _ _) as [off'| |] eqn:S; cbn [bind]; try discriminate.
  apply sanitize_offset_builder in S as (-> & S1 & S2).
  unfold usize_add, BYTES_PER_LENGTH_OFFSET.
  destruct (b_index st + 4 <=? usize_max); cbn [bind]; [|discriminate].
  intros [= <-]. cbv zeta. repeat split; try lia.
  unfold prev_of. destruct (last_offset (b_offsets st)) as [p|]; [apply S2; reflexivity|lia].
Qed.

Lemma register_var_complete bs st l :
  let w := take 4 (drop (b_index st) bs) in
  b_index st + 4 <= len bs -> len bs <= usize_max ->
  le_val w <= len bs -> prev_of (b_offsets st) <= le_val w ->
  register bs st false l =
  Ok {| b_items := b_items st ++ [[]];
        b_offsets := b_offsets st ++
                     [{| o_position := length (b_items st); o_offset := le_val w |}];
        b_index := b_index st + 4 |}.
Proof.
  intros w H1 H2 H3 H4. unfold register, index_from.
  assert (b_index st <= len bs) as Hi by lia.
  rewrite (proj2 (get_from_some bs (b_index st) _) (conj Hi eq_refl)). cbn [bind].
  rewrite read_offset_long by (rewrite len_drop; lia). cbn [bind].
  rewrite take4_firstn. fold w.
  rewrite (proj2 (sanitize_offset_builder (le_val w) (last_offset (b_offsets st)) (len bs) (le_val w))).
  - cbn [bind]. unfold usize_add, BYTES_PER_LENGTH_OFFSET.
    replace (b_index st + 4 <=? usize_max) with true by lia. reflexivity.
  - split; [reflexivity|]. split; [exact H3|].
    intros p Hp. unfold prev_of in H4. rewrite Hp in H4. exact H4.
Qed.

Lemma register_var_no_panic bs st l :
  b_index st <= len bs -> len bs <= usize_max -> register bs st false l <> Panic.
Proof.
  intros Hi Hm. unfold register, index_from.
  rewrite (proj2 (get_from_some bs (b_index st) _) (conj Hi eq_refl)). cbn [bind].
  destruct (read_offset (drop (b_index st) bs)) as [off| |] eqn:R; cbn [bind]; try discriminate.
  2:{ exfalso. eapply read_offset_not_panic; eauto. }
  apply read_offset_ok in R as [R1 _]. rewrite len_drop in R1.
  pose proof (sanitize_offset_not_panic off (last_offset (b_offsets st)) (len bs) None) as SP.
  destruct (sanitize_offset _ _ _ _) as [off'| |]; cbn [bind]; try discriminate; [|congruence].
  unfold usize_add, BYTES_PER_LENGTH_OFFSET.
  replace (b_index st + 4 <=? usize_max) with true by lia. discriminate.
Qed.

(** ** The registration phase *)
Lemma drop_split n (bs : bytes) k :
  drop k bs = take n (drop k bs) ++ drop (k + n) bs.
Proof. rewrite <- drop_drop. symmetry. apply take_drop. Qed.

Lemma register_all_sound bs regs : forall st st',
  b_index st <= len bs -> prev_of (b_offsets st) <= len bs ->
  register_all bs st regs = Ok st' ->
  exists raw, RawOk regs raw
   /\ drop (b_index st) bs = raw_bytes raw ++ drop (b_index st') bs
   /\ b_index st' = b_index st + len (raw_bytes raw) /\ b_index st' <= len bs
   /\ b_items st' = b_items st ++ map ph raw
   /\ b_offsets st' = b_offsets st ++ mk_offs (length (b_items st)) raw
   /\ chain (prev_of (b_offsets st)) raw (len bs).
Proof.
  induction regs as [|[[|] l] regs IH]; intros st st' Hi Hp; cbn [register_all].
  - intros [= <-]. exists []. cbn [RawOk map mk_offs chain].
    rewrite !app_nil_r. unfold raw_bytes. cbn [map concat app]. rewrite len_nil.
    repeat split; try lia; auto.
  - destruct (register bs st true l) as [st1| |] eqn:R; cbn [bind]; try discriminate.
    apply register_fixed_sound in R as [R1 ->]. intros H.
    apply IH in H; cbn [b_index b_items b_offsets] in *; [|lia|exact Hp].
    destruct H as (raw & H1 & H2 & H3 & H4 & H5 & H6 & H7).
    set (s := take l (drop (b_index st) bs)) in *.
    assert (len s = l) as Hs by (apply len_take; rewrite len_drop; lia).
    exists ((true, s) :: raw). cbn [RawOk mk_offs chain map]. rewrite raw_bytes_cons.
    repeat split; auto.
    + rewrite <- app_assoc, <- H2. apply drop_split.
    + rewrite len_app. lia.
    + rewrite H5, <- app_assoc. reflexivity.
    + rewrite H6, app_length. cbn [length]. rewrite Nat.add_1_r. reflexivity.
  - destruct (register bs st false l) as [st1| |] eqn:R; cbn [bind]; try discriminate.
    apply register_var_sound in R; [|exact Hi]. cbv zeta in R.
    destruct R as (R1 & R2 & R3 & ->). intros H.
    apply IH in H; cbn [b_index b_items b_offsets] in *; [|lia|rewrite prev_of_snoc; exact R2].
    destruct H as (raw & H1 & H2 & H3 & H4 & H5 & H6 & H7).
    set (w := take 4 (drop (b_index st) bs)) in *.
    assert (len w = 4) as Hw by (apply len_take; rewrite len_drop; lia).
    exists ((false, w) :: raw). cbn [RawOk mk_offs chain map]. rewrite raw_bytes_cons.
    rewrite prev_of_snoc in H7. cbn [o_offset] in H7.
    repeat split; auto.
    + unfold len in Hw. lia.
    + rewrite <- app_assoc, <- H2. apply drop_split.
    + rewrite len_app. lia.
    + rewrite H5, <- app_assoc. reflexivity.
    + rewrite H6, app_length. cbn [length]. rewrite Nat.add_1_r, <- app_assoc. reflexivity.
Qed.

Lemma register_all_complete bs regs : forall raw st rest,
  len bs <= usize_max ->
  RawOk regs raw -> b_index st <= len bs ->
  drop (b_index st) bs = raw_bytes raw ++ rest ->
  chain (prev_of (b_offsets st)) raw (len bs) ->
  register_all bs st regs =
  Ok {| b_items := b_items st ++ map ph raw;
        b_offsets := b_offsets st ++ mk_offs (length (b_items st)) raw;
        b_index := b_index st + len (raw_bytes raw) |}.
Proof.
  induction regs as [|[f l] regs IH]; intros [|[g b] raw] st rest Hm HR Hi Hd Hc;
    cbn [RawOk] in HR; try contradiction.
  - cbn [register_all map mk_offs]. unfold raw_bytes. cbn [map concat]. rewrite len_nil.
    rewrite !app_nil_r, N.add_0_r. destruct st; reflexivity.
  - destruct HR as (-> & Hb & HR). rewrite raw_bytes_cons, <- app_assoc in Hd.
    assert (len (drop (b_index st) bs) = len b + len (raw_bytes raw ++ rest)) as Hl
      by (rewrite Hd, len_app; reflexivity).
    rewrite len_drop in Hl.
    cbn [register_all]. destruct f.
    + subst l. rewrite register_fixed_complete by lia. cbn [bind].
      rewrite Hd, take_app_exact.
      cbn [chain] in Hc.
      erewrite (IH raw _ rest); cbn [b_index b_items b_offsets]; auto; try lia.
      * f_equal. rewrite raw_bytes_cons, len_app. f_equal.
        -- rewrite <- app_assoc. reflexivity.
        -- cbn [mk_offs]. rewrite app_length. cbn [length]. rewrite Nat.add_1_r. reflexivity.
        -- lia.
      * rewrite <- drop_drop, Hd. apply drop_app_exact.
    + assert (len b = 4) as Hb4 by (unfold len; lia).
      assert (take 4 (drop (b_index st) bs) = b) as Hw
        by (rewrite Hd, <- Hb4; apply take_app_exact).
      cbn [chain] in Hc. destruct Hc as [Hc1 Hc2].
      pose proof (chain_bounds _ _ _ Hc2) as Hcb.
      rewrite register_var_complete; rewrite ?Hw; try lia. cbn [bind].
      erewrite (IH raw _ rest); cbn [b_index b_items b_offsets]; auto; try lia.
      * f_equal. rewrite raw_bytes_cons, len_app. f_equal.
        -- rewrite <- app_assoc. reflexivity.
        -- cbn [mk_offs]. rewrite app_length. cbn [length]. rewrite Nat.add_1_r, <- app_assoc. reflexivity.
        -- lia.
      * rewrite <- drop_drop, Hd, <- Hb4. apply drop_app_exact.
      * rewrite prev_of_snoc. exact Hc2.
Qed.

Lemma register_all_no_panic bs regs : forall st,
  len bs <= usize_max -> b_index st <= len bs -> register_all bs st regs <> Panic.
Proof.
  induction regs as [|[[|] l] regs IH]; intros st Hm Hi; cbn [register_all].
  - discriminate.
  - pose proof (register_fixed_no_panic bs st l) as NP.
    destruct (register bs st true l) as [st1| |] eqn:R; cbn [bind]; try discriminate; [|congruence].
    apply register_fixed_sound in R as [R1 ->]. apply IH; [exact Hm|exact R1].
  - pose proof (register_var_no_panic bs st l Hi Hm) as NP.
    destruct (register bs st false l) as [st1| |] eqn:R; cbn [bind]; try discriminate; [|congruence].
    apply register_var_sound in R; [|exact Hi]. cbv zeta in R.
    destruct R as (R1 & _ & _ & ->). apply IH; [exact Hm|exact R1].
Qed.

(** ** The fill phase ([finalize]) *)
Fixpoint fill_all (bs : bytes) (os : list boffset) (items : list bytes) : outcome (list bytes) :=
  match os with
  | [] => Ok items
  | a :: r =>
      match r with
      | [] => do s <- index_from bs (o_offset a); set_nth items (o_position a) s
      | b :: _ =>
          do s <- index_range bs (o_offset a) (o_offset b);
          do items' <- set_nth items (o_position a) s;
          fill_all bs r items'
      end
  end.

Lemma fill_all_one bs a items :
  fill_all bs [a] items = do s <- index_from bs (o_offset a); set_nth items (o_position a) s.
Proof. reflexivity. Qed.
Lemma fill_all_cons2 bs a b t items :
  fill_all bs (a :: b :: t) items =
  do s <- index_range bs (o_offset a) (o_offset b);
  do items' <- set_nth items (o_position a) s;
  fill_all bs (b :: t) items'.
Proof. reflexivity. Qed.
Lemma fill_pairs_one bs a items : fill_pairs bs [a] items = Ok items.
Proof. reflexivity. Qed.
Lemma fill_pairs_cons2 bs a b t items :
  fill_pairs bs (a :: b :: t) items =
  do s <- index_range bs (o_offset a) (o_offset b);
  do items' <- set_nth items (o_position a) s;
  fill_pairs bs (b :: t) items'.
Proof. reflexivity. Qed.

Lemma finalize_fill bs os : forall items,
  os <> [] ->
  (do items' <- fill_pairs bs os items;
   match rev os with
   | last :: _ => do s <- index_from bs (o_offset last); set_nth items' (o_position last) s
   | [] => Ok items'
   end) = fill_all bs os items.
Proof.
  induction os as [|a r IH]; intros items Hne; [contradiction|].
  destruct r as [|b t].
  - rewrite fill_pairs_one, fill_all_one. reflexivity.
  - rewrite fill_pairs_cons2, fill_all_cons2.
    destruct (index_range bs (o_offset a) (o_offset b)) as [s| |]; cbn [bind]; try reflexivity.
    destruct (set_nth items (o_position a) s) as [items1| |]; cbn [bind]; try reflexivity.
    rewrite <- IH by discriminate.
    change (rev (a :: b :: t)) with (rev (b :: t) ++ [a]).
    destruct (rev (b :: t)) as [|x xs] eqn:E.
    + apply (f_equal (@length _)) in E. rewrite rev_length in E. discriminate.
    + reflexivity.
Qed.

Lemma set_nth_app {A} (done : list A) x r s :
  set_nth (done ++ x :: r) (length done) s = Ok (done ++ s :: r).
Proof.
  induction done as [|d done IH]; cbn [app length set_nth]; [reflexivity|].
  rewrite IH. reflexivity.
Qed.

Lemma mk_offs_head bs pos raw n :
  match mk_offs pos raw with
  | [] => next_off raw n = n /\ map snd (fill_parts bs raw) = map ph raw
  | a :: _ => o_offset a = next_off raw n
  end.
Proof.
  revert pos; induction raw as [|[[|] b] r IH]; intros pos; cbn [mk_offs next_off fill_parts map].
  - split; reflexivity.
  - specialize (IH (S pos)). destruct (mk_offs (S pos) r); [|exact IH].
    destruct IH as [IH1 IH2]. split; [exact IH1|]. rewrite IH2. reflexivity.
  - reflexivity.
Qed.

Lemma fill_eq bs raw : forall done prev,
  chain prev raw (len bs) ->
  fill_all bs (mk_offs (length done) raw) (done ++ map ph raw) =
  Ok (done ++ map snd (fill_parts bs raw)).
Proof.
  induction raw as [|[[|] w] r IH]; intros done prev Hc; cbn [mk_offs map fill_parts chain] in *.
  - reflexivity.
  - specialize (IH (done ++ [w]) prev Hc).
    rewrite app_length in IH. cbn [length] in IH. rewrite Nat.add_1_r, <- !app_assoc in IH.
    exact IH.
  - destruct Hc as [Hc1 Hc2]. pose proof (chain_bounds _ _ _ Hc2) as [B1 B2].
    specialize (IH (done ++ [take (next_off r (len bs) - le_val w) (drop (le_val w) bs)]) _ Hc2).
    rewrite app_length in IH. cbn [length] in IH. rewrite Nat.add_1_r, <- !app_assoc in IH.
    cbn [app] in IH.
    pose proof (mk_offs_head bs (S (length done)) r (len bs)) as Hh.
    destruct (mk_offs (S (length done)) r) as [|b t] eqn:E.
    + destruct Hh as [Hh1 Hh2]. rewrite fill_all_one. cbn [o_offset o_position fst snd].
      unfold index_from.
      rewrite (proj2 (get_from_some bs (le_val w) _) (conj (N.le_trans _ _ _ B1 B2) eq_refl)).
      cbn [bind]. unfold ph at 1. cbn [fst]. rewrite set_nth_app.
      rewrite Hh1, Hh2, <- len_drop, take_all. reflexivity.
    + rewrite fill_all_cons2. cbn [o_offset o_position]. rewrite Hh.
      unfold index_range.
      rewrite (proj2 (get_range_some bs (le_val w) (next_off r (len bs)) _)
                     (conj B1 (conj B2 eq_refl))).
      cbn [bind]. unfold ph at 1. cbn [fst]. rewrite set_nth_app. cbn [bind].
      exact IH.
Qed.

Lemma fill_parts_fst bs raw : map fst (fill_parts bs raw) = map fst raw.
Proof.
  induction raw as [|[[|] w] r IH]; cbn [fill_parts map fst]; [reflexivity| |]; rewrite IH; reflexivity.
Qed.

Lemma finalize_spec bs st raw prev :
  b_offsets st = mk_offs 0 raw -> b_items st = map ph raw -> chain prev raw (len bs) ->
  finalize bs st =
  if next_off raw (len bs) =? b_index st then Ok (map snd (fill_parts bs raw)) else Err.
Proof.
  intros HO HI Hc. unfold finalize. rewrite HO.
  pose proof (mk_offs_head bs 0 raw (len bs)) as Hh.
  pose proof (fill_eq bs raw [] prev Hc) as HF. cbn [length app] in HF.
  destruct (mk_offs 0 raw) as [|first t] eqn:E.
  - destruct Hh as [Hh1 Hh2]. rewrite Hh1, Hh2, HI, N.eqb_sym.
    destruct (len bs =? b_index st); reflexivity.
  - rewrite Hh.
    destruct (next_off raw (len bs) <? b_index st) eqn:E1;
      [replace (next_off raw (len bs) =? b_index st) with false by lia; reflexivity|].
    destruct (b_index st <? next_off raw (len bs)) eqn:E2;
      [replace (next_off raw (len bs) =? b_index st) with false by lia; reflexivity|].
    replace (next_off raw (len bs) =? b_index st) with true by lia.
    rewrite finalize_fill by discriminate. rewrite HI. exact HF.
Qed.

(** ** From a successful run to the layout *)
Lemma RawOk_length regs raw : RawOk regs raw -> length raw = length regs.
Proof.
  revert raw; induction regs as [|[f l] regs IH]; intros [|[g b] raw] H; cbn [RawOk] in H;
    try contradiction; [reflexivity|].
  destruct H as (_ & _ & H). cbn [length]. f_equal. apply IH. exact H.
Qed.

Lemma RawOk_fst regs raw : RawOk regs raw -> map fst raw = map fst regs.
Proof.
  revert raw; induction regs as [|[f l] regs IH]; intros [|[g b] raw] H; cbn [RawOk] in H;
    try contradiction; [reflexivity|].
  destruct H as (-> & _ & H). cbn [map fst]. f_equal. apply IH. exact H.
Qed.

Lemma RawOk_fixed_len bs regs raw :
  RawOk regs raw ->
  Forall2 (fun (r : bool * N) (s : bytes) => fst r = true -> len s = snd r)
          regs (map snd (fill_parts bs raw)).
Proof.
  revert raw; induction regs as [|[f l] regs IH]; intros [|[g b] raw] H; cbn [RawOk] in H;
    try contradiction; [constructor|].
  destruct H as (-> & Hb & H). specialize (IH raw H).
  destruct f; cbn [fill_parts map snd]; constructor; cbn [fst snd]; auto; discriminate.
Qed.

Lemma combine_fst_snd {A B} (l : list (A * B)) : combine (map fst l) (map snd l) = l.
Proof. induction l as [|[a b] l IH]; cbn [map combine fst snd]; [reflexivity|]. rewrite IH. reflexivity. Qed.

Lemma layout_sound bs raw : forall regs prev,
  RawOk regs raw -> wfb (raw_bytes raw) -> chain prev raw (len bs) ->
  assemble_fixed (next_off raw (len bs)) (fill_parts bs raw) = raw_bytes raw /\
  var_concat (fill_parts bs raw) = drop (next_off raw (len bs)) bs /\
  offsets_fit (next_off raw (len bs)) (fill_parts bs raw) /\
  fixed_size (fill_parts bs raw) = len (raw_bytes raw).
Proof.
  induction raw as [|[[|] w] r IH]; intros [|[f l] regs] prev HR Hw Hc; cbn [RawOk] in HR;
    try contradiction; cbn [next_off fill_parts chain] in *.
  - cbn [assemble_fixed offsets_fit]. rewrite var_concat_nil, drop_all. repeat split; reflexivity.
  - destruct HR as (_ & _ & HR). rewrite raw_bytes_cons in *. apply wfb_app in Hw as [_ Hw].
    destruct (IH regs prev HR Hw Hc) as (I1 & I2 & I3 & I4).
    cbn [assemble_fixed offsets_fit]. rewrite var_concat_true, fixed_size_true, len_app, I1, I2, I4.
    repeat split; auto.
  - destruct HR as (<- & Hl & HR). rewrite raw_bytes_cons in *. apply wfb_app in Hw as [Hw1 Hw].
    destruct Hc as [Hc1 Hc2]. pose proof (chain_bounds _ _ _ Hc2) as [B1 B2].
    destruct (IH regs _ HR Hw Hc2) as (I1 & I2 & I3 & I4).
    destruct (encode_length_le_val w Hl Hw1) as [E1 E2].
    set (nx := next_off r (len bs)) in *. set (off := le_val w) in *.
    assert (len (take (nx - off) (drop off bs)) = nx - off) as Hs
      by (apply len_take; rewrite len_drop; lia).
    cbn [assemble_fixed offsets_fit].
    rewrite var_concat_false, fixed_size_false, len_app, Hs.
    replace (off + (nx - off)) with nx by lia.
    rewrite I1, I2, I4, E1.
    repeat split; auto.
    + pose proof (drop_split (nx - off) bs off) as D.
      replace (off + (nx - off)) with nx in D by lia. symmetry. exact D.
    + unfold len. rewrite Hl. reflexivity.
Qed.

Lemma builder_run bs regs st' :
  register_all bs builder_new regs = Ok st' ->
  exists raw, RawOk regs raw /\ bs = raw_bytes raw ++ drop (b_index st') bs
    /\ b_index st' = len (raw_bytes raw) /\ chain 0 raw (len bs)
    /\ finalize bs st' =
       if next_off raw (len bs) =? b_index st' then Ok (map snd (fill_parts bs raw)) else Err.
Proof.
  intros R. apply register_all_sound in R; cbn [builder_new b_index b_items b_offsets];
    [|apply N.le_0_l|rewrite prev_of_nil; apply N.le_0_l].
  destruct R as (raw & H1 & H2 & H3 & H4 & H5 & H6 & H7).
  cbn [builder_new b_index b_items b_offsets app length] in *. rewrite prev_of_nil in H7.
  exists raw. rewrite drop_0 in H2. rewrite N.add_0_l in H3.
  repeat split; auto. eapply finalize_spec; eauto.
Qed.

(** ** From the layout to a successful run *)
Fixpoint raw_of (off : N) (parts : list part) : list part :=
  match parts with
  | [] => []
  | (true, b) :: r => (true, b) :: raw_of off r
  | (false, b) :: r => (false, encode_length off) :: raw_of (off + len b) r
  end.

Lemma le_val_encode_length off : off < 4294967296 -> le_val (encode_length off) = off.
Proof.
  intros H. unfold encode_length. rewrite N.mod_small by exact H.
  apply le_val_le_bytes. rewrite pow256_4. exact H.
Qed.

Lemma raw_bytes_raw_of off parts : raw_bytes (raw_of off parts) = assemble_fixed off parts.
Proof.
  revert off; induction parts as [|[[|] b] r IH]; intros off; cbn [raw_of assemble_fixed];
    [reflexivity| |]; rewrite raw_bytes_cons, IH; reflexivity.
Qed.

Lemma next_off_raw_of off parts :
  offsets_fit off parts -> next_off (raw_of off parts) (off + len (var_concat parts)) = off.
Proof.
  revert off; induction parts as [|[[|] b] r IH]; intros off H; cbn [raw_of next_off offsets_fit] in *.
  - rewrite var_concat_nil, len_nil. lia.
  - rewrite var_concat_true. apply IH. exact H.
  - apply le_val_encode_length. apply H.
Qed.

Lemma chain_raw_of off parts : forall prev n,
  offsets_fit off parts -> prev <= off -> off + len (var_concat parts) <= n ->
  chain prev (raw_of off parts) n.
Proof.
  revert off; induction parts as [|[[|] b] r IH]; intros off prev n H Hp Hn;
    cbn [raw_of chain offsets_fit] in *.
  - lia.
  - rewrite var_concat_true in Hn. apply IH; assumption.
  - destruct H as [H1 H2]. rewrite var_concat_false, len_app in Hn.
    rewrite le_val_encode_length by exact H1. split; [exact Hp|].
    apply IH; [exact H2|lia|lia].
Qed.

Lemma RawOk_raw_of regs : forall parts off,
  map fst regs = map fst parts ->
  Forall2 (fun (r : bool * N) (p : part) => fst r = true -> len (snd p) = snd r) regs parts ->
  RawOk regs (raw_of off parts).
Proof.
  induction regs as [|[f l] regs IH]; intros parts off Hf HF; inversion HF as [|r p rs ps Hrp HF' E1 E2]; subst.
  - exact I.
  - destruct p as [g b]. cbn [map fst] in Hf. injection Hf as -> Hf. cbn [fst snd] in Hrp.
    destruct g; cbn [raw_of RawOk].
    + split; [reflexivity|]. split; [apply Hrp; reflexivity|]. apply IH; assumption.
    + split; [reflexivity|]. split; [apply encode_length_length|]. apply IH; assumption.
Qed.

Lemma fill_parts_raw_of bs rest : forall pre,
  bs = pre ++ var_concat rest -> offsets_fit (len pre) rest ->
  fill_parts bs (raw_of (len pre) rest) = rest.
Proof.
  induction rest as [|[[|] b] r IH]; intros pre Hbs Hf; cbn [raw_of fill_parts offsets_fit] in *.
  - reflexivity.
  - rewrite var_concat_true in Hbs. rewrite (IH pre Hbs Hf). reflexivity.
  - destruct Hf as [Hf1 Hf2]. rewrite var_concat_false in Hbs.
    assert (bs = (pre ++ b) ++ var_concat r) as Hbs' by (rewrite <- app_assoc; exact Hbs).
    rewrite <- len_app in *.
    rewrite (IH (pre ++ b) Hbs' Hf2).
    rewrite le_val_encode_length by exact Hf1.
    assert (len bs = len (pre ++ b) + len (var_concat r)) as Hl by (rewrite Hbs', len_app; reflexivity).
    rewrite Hl, next_off_raw_of by exact Hf2.
    rewrite len_app. replace (len pre + len b - len pre) with (len b) by lia.
    rewrite Hbs at 1. rewrite drop_app_exact, take_app_exact. reflexivity.
Qed.

(** ** Main statements *)
Lemma builder_build_length regs bs items :
  builder_build regs bs = Ok items -> length items = length regs.
Proof.
  unfold builder_build.
  destruct (register_all bs builder_new regs) as [st'| |] eqn:R; cbn [bind]; try discriminate.
  apply builder_run in R as (raw & H1 & _ & _ & _ & HF). rewrite HF.
  destruct (_ =? _); [|discriminate]. intros [= <-].
  rewrite map_length, <- (map_length fst), fill_parts_fst, map_length. apply RawOk_length. exact H1.
Qed.

Lemma builder_build_assemble (parts : list part) (regs : list (bool * N)) :
  map fst regs = map fst parts ->
  Forall2 (fun (r : bool * N) (p : part) => fst r = true -> len (snd p) = snd r) regs parts ->
  offsets_fit (fixed_size parts) parts ->
  wfb (assemble (fixed_size parts) parts) -> len (assemble (fixed_size parts) parts) <= usize_max ->
  builder_build regs (assemble (fixed_size parts) parts) = Ok (map snd parts).
Proof.
  intros Hf HF Hfit _ Hm.
  set (nf := fixed_size parts) in *. set (bs := assemble nf parts) in *.
  set (raw := raw_of nf parts).
  assert (len bs = nf + len (var_concat parts)) as Hl by apply assemble_len.
  assert (raw_bytes raw = assemble_fixed nf parts) as Hrb by apply raw_bytes_raw_of.
  assert (len (raw_bytes raw) = nf) as Hrl by (rewrite Hrb; apply assemble_fixed_len).
  assert (chain 0 raw (len bs)) as Hc by (apply chain_raw_of; [exact Hfit|apply N.le_0_l|lia]).
  unfold builder_build.
  rewrite (register_all_complete bs regs raw builder_new (var_concat parts)).
  - cbn [bind builder_new b_items b_offsets b_index app length].
    erewrite finalize_spec; cbn [b_items b_offsets b_index]; [|reflexivity|reflexivity|exact Hc].
    rewrite Hl. unfold raw. rewrite next_off_raw_of by exact Hfit. fold raw.
    rewrite Hrl, N.add_0_l, N.eqb_refl.
    f_equal. f_equal.
    unfold raw. pose proof (fill_parts_raw_of bs parts (assemble_fixed nf parts)) as HP.
    rewrite assemble_fixed_len in HP. apply HP; [reflexivity|exact Hfit].
  - exact Hm.
  - apply RawOk_raw_of; assumption.
  - apply N.le_0_l.
  - cbn [builder_new b_index]. rewrite drop_0, Hrb. reflexivity.
  - cbn [builder_new b_offsets]. rewrite prev_of_nil. exact Hc.
Qed.

Lemma map_fst_combine' {A B} (a : list A) : forall (b : list B),
  length b = length a -> map fst (combine a b) = a.
Proof.
  induction a as [|x a IH]; intros [|y b] H; cbn [length] in H; try discriminate; [reflexivity|].
  cbn [combine map fst]. f_equal. apply IH. lia.
Qed.
Lemma map_snd_combine' {A B} (a : list A) : forall (b : list B),
  length b = length a -> map snd (combine a b) = b.
Proof.
  induction a as [|x a IH]; intros [|y b] H; cbn [length] in H; try discriminate; [reflexivity|].
  cbn [combine map snd]. f_equal. apply IH. lia.
Qed.

Lemma Forall2_combine_fst (regs : list (bool * N)) (slices : list bytes) :
  Forall2 (fun (r : bool * N) (s : bytes) => fst r = true -> len s = snd r) regs slices ->
  Forall2 (fun (r : bool * N) (p : part) => fst r = true -> len (snd p) = snd r)
          regs (combine (map fst regs) slices).
Proof.
  induction 1 as [|r s regs slices H _ IH]; cbn [map combine]; constructor; auto.
Qed.

Theorem builder_build_tiles regs bs slices :
  wfb bs -> len bs <= usize_max ->
  (builder_build regs bs = Ok slices <-> Tiles regs bs slices).
Proof.
  intros Hw Hm. split.
  - unfold builder_build.
    destruct (register_all bs builder_new regs) as [st'| |] eqn:R; cbn [bind]; try discriminate.
    apply builder_run in R as (raw & H1 & H2 & H3 & H4 & HF). rewrite HF.
    destruct (next_off raw (len bs) =? b_index st') eqn:E; [|discriminate]. intros [= <-].
    apply N.eqb_eq in E.
    assert (wfb (raw_bytes raw)) as Hwr by (rewrite H2 in Hw; apply wfb_app in Hw; apply Hw).
    destruct (layout_sound bs raw regs 0 H1 Hwr H4) as (L1 & L2 & L3 & L4).
    unfold Tiles.
    assert (combine (map fst regs) (map snd (fill_parts bs raw)) = fill_parts bs raw) as Hcomb.
    { rewrite <- (RawOk_fst regs raw H1), <- (fill_parts_fst bs raw). apply combine_fst_snd. }
    split.
    { rewrite map_length, <- (map_length fst), fill_parts_fst, map_length. apply RawOk_length. exact H1. }
    cbv zeta. rewrite Hcomb.
    split; [apply RawOk_fixed_len; exact H1|].
    rewrite L4, <- H3, <- E.
    split; [exact L3|].
    unfold assemble. rewrite L1, L2, E. exact H2.
  - unfold Tiles. cbv zeta. intros (HL & HF & Hfit & Hbs).
    set (parts := combine (map fst regs) slices) in *.
    assert (map fst parts = map fst regs) as Hfst
      by (apply map_fst_combine'; rewrite map_length; exact HL).
    assert (map snd parts = slices) as Hsnd
      by (apply map_snd_combine'; rewrite map_length; exact HL).
    rewrite Hbs, <- Hsnd. apply builder_build_assemble.
    + symmetry. exact Hfst.
    + apply Forall2_combine_fst. exact HF.
    + exact Hfit.
    + rewrite <- Hbs. exact Hw.
    + rewrite <- Hbs. exact Hm.
Qed.

Theorem builder_build_no_panic regs bs : len bs <= usize_max -> builder_build regs bs <> Panic.
Proof.
  intros Hm. unfold builder_build.
  destruct (register_all bs builder_new regs) as [st'| |] eqn:R; cbn [bind]; try discriminate.
  - apply builder_run in R as (raw & _ & _ & _ & _ & HF). rewrite HF.
    destruct (_ =? _); discriminate.
  - exfalso. eapply register_all_no_panic; [exact Hm| |exact R]. apply N.le_0_l.
Qed.

Lemma tiles_offsets regs bs slices : Tiles regs bs slices ->
  let parts := combine (map fst regs) slices in
  let offs := offsets_of (fixed_size parts) parts in
  (forall o, In o offs -> fixed_size parts <= o /\ o <= len bs) /\
  (match offs with [] => len bs = fixed_size parts | o :: _ => o = fixed_size parts end) /\
  (forall i j, (i <= j)%nat -> (j < length offs)%nat -> nth i offs 0 <= nth j offs 0).
Proof.
  unfold Tiles. cbv zeta. intros (HL & HF & Hfit & Hbs).
  set (parts := combine (map fst regs) slices) in *. set (nf := fixed_size parts) in *.
  assert (len bs = nf + len (var_concat parts)) as Hl by (rewrite Hbs; apply assemble_len).
  split; [|split].
  - intros o Ho. apply offsets_of_bound in Ho. lia.
  - pose proof (offsets_of_head nf parts) as Hh.
    destruct (offsets_of nf parts) as [|o t]; [|exact Hh].
    rewrite Hl, Hh, len_nil. lia.
  - intros i j. apply offsets_of_sorted.
Qed.

