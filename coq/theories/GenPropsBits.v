(** * GenPropsBits: properties C11 - C14 stated directly about the bitfield definitions that
    [rs2v] derives from the Rust text ([Generated.v]), by composing [GenEquivBits.v]
    (generated = model) with the refinement theorems of [BitfieldOpsFacts.v] (model = plain
    boolean sequences).  [R fl b bits] is the representation relation of those theorems: the
    byte-level bitfield [b] (invariant + the flavour's length rule) represents [bits].

    The source does checked [usize] arithmetic on lengths; [fits b] says that the byte vector is
    one that can exist ([8 * bytes.len()] does not overflow), which is all those additions need. *)
From SSZ Require Import Base RustSem Offsets Bitfield BaseFacts BitfieldFacts BitfieldOps BitfieldOpsFacts
     Generated GenEquiv GenEquivBits.
From Coq Require Import ZArith ZifyN ZifyBool ZifyNat Lia.
Open Scope N_scope.
Ltac Zify.zify_post_hook ::= Z.div_mod_to_equations.

Definition fits (b : Gen.Bitfield) : Prop := 8 * len (Gen.Bitfield_bytes b) <= usize_max.

(** ** the three flavours' operations, as written in the source *)
Definition g_union (fl : flavour) (a o : Gen.Bitfield) : outcome Gen.Bitfield :=
  match fl with
  | FList cap => Gen.bitlist_union cap a o
  | FVec m => Gen.bitvector_union m a o
  | FDyn => Gen.bitdyn_union a o
  end.
Definition g_inter (fl : flavour) (a o : Gen.Bitfield) : outcome Gen.Bitfield :=
  match fl with
  | FList cap => Gen.bitlist_intersection cap a o
  | FVec m => Gen.bitvector_intersection m a o
  | FDyn => Gen.bitdyn_intersection a o
  end.
Definition g_decode (fl : flavour) (bs : bytes) : outcome Gen.Bitfield :=
  match fl with
  | FList cap => Gen.bitlist_from_ssz_bytes cap bs
  | FVec m => Gen.bitvector_from_ssz_bytes m bs
  | FDyn => Gen.bitdyn_from_ssz_bytes bs
  end.
Definition g_ssz_append (fl : flavour) (b : Gen.Bitfield) (buf : bytes) : outcome bytes :=
  match fl with
  | FList cap => Gen.bitlist_ssz_append cap b buf
  | FVec m => Gen.bitvector_ssz_append m b buf
  | FDyn => Gen.bitdyn_ssz_append b buf
  end.
Definition g_ssz_bytes_len (fl : flavour) (b : Gen.Bitfield) : outcome N :=
  match fl with
  | FList cap => Gen.bitlist_ssz_bytes_len cap b
  | FVec m => Gen.bitvector_ssz_bytes_len m b
  | FDyn => Gen.bitdyn_ssz_bytes_len b
  end.
Definition g_new (fl : flavour) (n : N) : outcome Gen.Bitfield :=
  match fl with
  | FList cap => Gen.bitlist_with_capacity cap n
  | FVec m => Gen.bitvector_new m
  | FDyn => Gen.bitdyn_new n
  end.

Lemma g_union_eq fl a o : omap bf_abs (g_union fl a o) = i_union fl (bf_abs a) (bf_abs o).
Proof.
  destruct fl; cbn [g_union i_union].
  - apply gen_bitlist_union_eq.
  - apply gen_bitvector_union_eq.
  - apply gen_bitdyn_union_eq.
Qed.
Lemma g_inter_eq fl a o : omap bf_abs (g_inter fl a o) = i_inter fl (bf_abs a) (bf_abs o).
Proof.
  destruct fl; cbn [g_inter i_inter].
  - apply gen_bitlist_intersection_eq.
  - apply gen_bitvector_intersection_eq.
  - apply gen_bitdyn_intersection_eq.
Qed.
Lemma g_new_eq fl n : omap bf_abs (g_new fl n) = i_new fl n.
Proof.
  destruct fl; cbn [g_new i_new].
  - apply gen_bitlist_with_capacity_eq.
  - apply gen_bitvector_new_eq.
  - apply gen_bitdyn_new_eq.
Qed.
Lemma g_decode_eq fl bs : wfb bs -> 8 * len bs <= usize_max -> omap bf_abs (g_decode fl bs) = i_decode fl bs.
Proof.
  intros Hw Hl. destruct fl; cbn [g_decode i_decode].
  - apply gen_bitlist_from_ssz_bytes_eq; assumption.
  - apply gen_bitvector_from_ssz_bytes_eq.
  - apply gen_bitdyn_from_ssz_bytes_eq; assumption.
Qed.

(** transport of a refinement statement along [omap bf_abs g = i] *)
Lemma transport_R {B} (g : outcome Gen.Bitfield) (i : outcome bf) (a : outcome B) (P : bf -> B -> Prop) :
  omap bf_abs g = i ->
  match i, a with Ok r, Ok rb => P r rb | _, _ => False end ->
  match g, a with Ok r, Ok rb => P (bf_abs r) rb | _, _ => False end.
Proof.
  intros <- H. destruct g as [r| |]; cbn [omap] in H; exact H.
Qed.
Lemma transport_R_err {B} (g : outcome Gen.Bitfield) (i : outcome bf) (a : outcome B) (P : bf -> B -> Prop) :
  omap bf_abs g = i ->
  match i, a with Ok r, Ok rb => P r rb | Err, Err => True | _, _ => False end ->
  match g, a with Ok r, Ok rb => P (bf_abs r) rb | Err, Err => True | _, _ => False end.
Proof.
  intros <- H. destruct g as [r| |]; cbn [omap] in H; exact H.
Qed.

(** ** C12: the set operations of the source are exact on the operands' bits *)
Theorem Src_C12_union fl a abits o obits :
  R fl (bf_abs a) abits -> R fl (bf_abs o) obits ->
  match g_union fl a o, a_union fl abits obits with Ok r, Ok rbits => R fl (bf_abs r) rbits | _, _ => False end.
Proof. intros Ha Ho. apply (transport_R _ _ _ (R fl) (g_union_eq fl a o)). apply R_union; assumption. Qed.

Theorem Src_C12_intersection fl a abits o obits :
  R fl (bf_abs a) abits -> R fl (bf_abs o) obits ->
  match g_inter fl a o, a_inter fl abits obits with Ok r, Ok rbits => R fl (bf_abs r) rbits | _, _ => False end.
Proof. intros Ha Ho. apply (transport_R _ _ _ (R fl) (g_inter_eq fl a o)). apply R_inter; assumption. Qed.

Theorem Src_C12_difference fl a abits o obits :
  R fl (bf_abs a) abits -> R fl (bf_abs o) obits ->
  match Gen.bitfield_difference a o with Ok r => R fl (bf_abs r) (a_diff abits obits) | _ => False end.
Proof.
  intros Ha Ho. pose proof (gen_bitfield_difference_eq a o) as E.
  destruct (Gen.bitfield_difference a o) as [r| |]; cbn [omap] in E; try discriminate.
  apply Ok_inj in E. rewrite E. apply R_diff; assumption.
Qed.

Theorem Src_C12_subset fl a abits o obits :
  R fl (bf_abs a) abits -> R fl (bf_abs o) obits ->
  (forall n, Gen.bitlist_is_subset n a o = Ok (forallb negb (a_diff abits obits))) /\
  (forall n, Gen.bitvector_is_subset n a o = Ok (forallb negb (a_diff abits obits))).
Proof.
  intros Ha Ho. split; intro n.
  - rewrite gen_bitlist_is_subset_eq. f_equal. apply (R_subset fl); assumption.
  - rewrite gen_bitvector_is_subset_eq. f_equal. apply (R_subset fl); assumption.
Qed.

(** ** C13 / C14: constructors and decoders of the source enforce the length rule and accept exactly
    the closed-form accept sets; what they return represents the unpacked bits *)
Theorem Src_C13_new fl n :
  match g_new fl n, a_new fl n with Ok b, Ok bits => R fl (bf_abs b) bits | Err, Err => True | _, _ => False end.
Proof. apply (transport_R_err _ _ _ (R fl) (g_new_eq fl n)). apply R_new. Qed.

Theorem Src_C14_from_ssz_bytes fl bs :
  wfb bs -> 8 * len bs <= usize_max ->
  match g_decode fl bs, a_decode fl bs with Ok b, Ok bits => R fl (bf_abs b) bits | Err, Err => True | _, _ => False end.
Proof.
  intros Hw Hl. apply (transport_R_err _ _ _ (R fl) (g_decode_eq fl bs Hw Hl)). apply R_decode. exact Hw.
Qed.

Theorem Src_C05_from_ssz_bytes_no_panic fl bs :
  wfb bs -> 8 * len bs <= usize_max -> g_decode fl bs <> Panic.
Proof.
  intros Hw Hl. pose proof (Src_C14_from_ssz_bytes fl bs Hw Hl) as H.
  destruct (g_decode fl bs); [discriminate | discriminate |]. destruct (a_decode fl bs); contradiction.
Qed.

Theorem Src_C14_dynamic_with_len bs l :
  wfb bs -> 8 * len bs <= usize_max ->
  match Gen.bitdyn_from_bytes_with_len bs l, a_from_bytes_with_len bs l with
  | Ok b, Ok bits => R FDyn (bf_abs b) bits | Err, Err => True | _, _ => False end.
Proof.
  intros Hw Hl. apply (transport_R_err _ _ _ (R FDyn) (gen_bitdyn_from_bytes_with_len_eq bs l Hl)).
  apply from_bytes_with_len_refines. exact Hw.
Qed.

(** ** C03 / C07 / C10 / C14: what the source's [ssz_append] / [ssz_bytes_len] produce *)
Lemma R_fits_len fl b bits : R fl (bf_abs b) bits -> fits b -> bf_len (bf_abs b) < usize_max.
Proof.
  intros HR Hf. pose proof (R_Inv _ _ _ HR) as (Hlen & _ & _). unfold fits in Hf.
  cbn [bf_abs bf_bytes bf_len] in *. unfold bytes_for_bit_len in Hlen.
  assert (usize_max = 18446744073709551615) by reflexivity. lia.
Qed.

Theorem Src_C14_ssz_append fl b bits buf :
  R fl (bf_abs b) bits -> fits b ->
  g_ssz_append fl b buf = Ok (buf ++ a_ssz fl bits) /\ g_ssz_bytes_len fl b = Ok (len (a_ssz fl bits)).
Proof.
  intros HR Hf. destruct (R_observe _ _ _ HR) as (_ & _ & _ & Hs & Hz & _).
  destruct fl as [cap|m|]; cbn [g_ssz_append g_ssz_bytes_len].
  - pose proof (R_fits_len _ _ _ HR Hf) as Hl.
    rewrite gen_bitlist_ssz_append_eq, gen_bitlist_ssz_bytes_len_eq by exact Hl.
    cbn [i_ssz] in Hz. destruct (bl_into_bytes_ok (bf_abs b) (R_Inv _ _ _ HR)) as (bs & Hb).
    rewrite Hb in *. cbn [bind]. subst bs. split; reflexivity.
  - rewrite gen_bitvector_ssz_append_eq, gen_bitvector_ssz_bytes_len_eq. cbn [i_ssz] in Hz.
    unfold bv_into_bytes in *. rewrite Hz. split; reflexivity.
  - rewrite gen_bitdyn_ssz_append_eq, gen_bitdyn_ssz_bytes_len_eq. cbn [i_ssz] in Hz.
    unfold bd_into_bytes in *. rewrite Hz. split; reflexivity.
Qed.

(** ** C11: the read-only observations of the source on any represented value *)
Theorem Src_C11_observations fl b bits :
  R fl (bf_abs b) bits -> fits b ->
  Gen.bitfield_num_set_bits b = Ok (count_true bits) /\
  Gen.bitfield_highest_set_bit b = Ok (a_hsb bits) /\
  Gen.bitfield_is_zero b = Ok (forallb negb bits) /\
  Gen.bitfield_as_slice b = Ok (a_slice bits) /\
  Gen.bitfield_len b = Ok (blen bits).
Proof.
  intros HR Hf. destruct (R_observe _ _ _ HR) as (Hn & Hh & Hz & Hs & _ & _).
  pose proof (R_Inv _ _ _ HR) as (_ & Hw & _).
  repeat split.
  - rewrite gen_bitfield_num_set_bits_eq by exact Hf. rewrite Hn. reflexivity.
  - rewrite gen_bitfield_highest_set_bit_eq by (try exact Hw; exact Hf). rewrite Hh. reflexivity.
  - rewrite gen_bitfield_is_zero_eq, Hz. reflexivity.
  - rewrite gen_bitfield_as_slice_eq, Hs. reflexivity.
  - rewrite gen_bitfield_len_eq, (R_len _ _ _ HR). reflexivity.
Qed.

Theorem Src_C11_eq fl a abits o obits :
  R fl (bf_abs a) abits -> R fl (bf_abs o) obits ->
  Gen.bitfield_eq a o = Ok (bits_eqb abits obits).
Proof.
  intros Ha Ho. rewrite gen_bitfield_eq_eq. f_equal. apply (R_eqb fl); assumption.
Qed.

Print Assumptions Src_C12_union.
Print Assumptions Src_C12_intersection.
Print Assumptions Src_C12_difference.
Print Assumptions Src_C12_subset.
Print Assumptions Src_C13_new.
Print Assumptions Src_C14_from_ssz_bytes.
Print Assumptions Src_C05_from_ssz_bytes_no_panic.
Print Assumptions Src_C14_dynamic_with_len.
Print Assumptions Src_C14_ssz_append.
Print Assumptions Src_C11_observations.
Print Assumptions Src_C11_eq.
