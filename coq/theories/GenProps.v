(** * GenProps: the properties, stated directly about the definitions that [rs2v] derives from
    the Rust text of /repo ([Generated.v]).

    [GenEquiv.v] proves generated = model; the property theorems are about the model.  Composing
    the two gives, for the translated core, theorems whose subject is the source-derived term
    itself: if the Rust text changes, [Generated.v] changes, and these statements are re-checked
    against what the code says now.  (They are the soft half of the tie, DESIGN.md section 2.3: a
    failure here is reported as TIE-DEGRADED, not as a violation.) *)
From SSZ Require Import Base RustSem Offsets Encoder Builder Bitfield BaseFacts OffsetsFacts
     Layout LayoutFacts BuilderFacts EncoderFacts BitfieldFacts BitfieldOps BitfieldOpsFacts Generated GenEquiv.
From Coq Require Import ZArith ZifyN ZifyBool ZifyNat Lia.
Open Scope N_scope.

(** ** C09 / C15 / C05: the word codec and the byte-parsing helpers, as written in the source *)

(** [read_offset(&encode_length(n)) == Ok(n)] for every [n < 2^32] (C09). *)
Theorem Src_C09_word_round_trip n :
  n < 4294967296 -> (do w <- Gen.encode_length n; Gen.read_offset w) = Ok n.
Proof.
  intro H. rewrite gen_encode_length_eq. cbn [bind]. rewrite gen_read_offset_eq.
  apply read_offset_encode_length. exact H.
Qed.

(** [UnionSelector::new] accepts exactly 0..=127 and returns the byte (C15). *)
Theorem Src_C15_union_selector_new s :
  Gen.union_selector_new s = if s <=? 127 then Ok s else Err.
Proof. rewrite gen_union_selector_new_eq. reflexivity. Qed.

(** [split_union_bytes]: first byte (if at most 127) and the remaining bytes unchanged (C15). *)
Theorem Src_C15_split_union_bytes bs :
  Gen.split_union_bytes bs =
  match bs with [] => Err | s :: body => if s <=? 127 then Ok (s, body) else Err end.
Proof. rewrite gen_split_union_bytes_eq. apply split_union_bytes_spec. Qed.

(** The helpers never panic (C05). *)
Theorem Src_C05_helpers_no_panic bs :
  Gen.read_offset bs <> Panic /\ Gen.split_union_bytes bs <> Panic /\
  Gen.read_four_byte_union_selector bs <> Panic.
Proof.
  rewrite gen_read_offset_eq, gen_split_union_bytes_eq, gen_read_four_byte_union_selector_eq.
  repeat split; try apply read_offset_not_panic. apply split_union_bytes_not_panic.
Qed.

(** ** C09 / C05: the decoder builder, as written in the source *)

Definition gen_new (bs : bytes) : Gen.SszDecoderBuilder :=
  {| Gen.SszDecoderBuilder_bytes := bs; Gen.SszDecoderBuilder_items := [];
     Gen.SszDecoderBuilder_offsets := []; Gen.SszDecoderBuilder_items_index := 0 |}.

(** [?] after each registration: stop at the first error. *)
Fixpoint gen_register_all (s : Gen.SszDecoderBuilder) (regs : list (bool * N)) : outcome Gen.SszDecoderBuilder :=
  match regs with
  | [] => Ok s
  | (f, l) :: r => do s' <- Gen.builder_register s f l; gen_register_all s' r
  end.

(** [SszDecoderBuilder::new(bytes)], the registrations, [build()]: the slices handed out. *)
Definition gen_build (regs : list (bool * N)) (bs : bytes) : outcome (list bytes) :=
  do s <- gen_register_all (gen_new bs) regs;
  omap Gen.SszDecoderBuilder_items (Gen.builder_finalize s).

Lemma gen_register_all_eq regs : forall s,
  omap (fun s' => (Gen.SszDecoderBuilder_bytes s', st_abs s')) (gen_register_all s regs)
  = omap (fun st => (Gen.SszDecoderBuilder_bytes s, st))
         (register_all (Gen.SszDecoderBuilder_bytes s) (st_abs s) regs).
Proof.
  induction regs as [|[f l] r IH]; intro s; [reflexivity|].
  cbn [gen_register_all register_all].
  pose proof (gen_builder_register_eq s f l) as E.
  destruct (Gen.builder_register s f l) as [s'| |];
    destruct (register (Gen.SszDecoderBuilder_bytes s) (st_abs s) f l) as [st'| |];
    cbn [omap bind] in *; try discriminate; try reflexivity.
  injection E as Eb Es. rewrite IH, Eb, Es. reflexivity.
Qed.

Theorem gen_build_eq regs bs : gen_build regs bs = builder_build regs bs.
Proof.
  unfold gen_build, builder_build.
  pose proof (gen_register_all_eq regs (gen_new bs)) as E.
  change (Gen.SszDecoderBuilder_bytes (gen_new bs)) with bs in E.
  change (st_abs (gen_new bs)) with builder_new in E.
  destruct (gen_register_all (gen_new bs) regs) as [s| |];
    destruct (register_all bs builder_new regs) as [st| |];
    cbn [omap bind] in *; try discriminate; try reflexivity.
  injection E as Eb Es. rewrite gen_builder_finalize_eq, Eb, Es. reflexivity.
Qed.

(** The builder written in /repo succeeds exactly on tiled inputs and hands each item its own
    bytes in registration order (C09). *)
Theorem Src_C09_builder_tiles regs bs slices :
  wfb bs -> len bs <= usize_max ->
  (gen_build regs bs = Ok slices <-> Tiles regs bs slices).
Proof. intros Hw Hl. rewrite gen_build_eq. apply builder_build_tiles; assumption. Qed.

(** ... and never panics, for any registration sequence and any input (C05). *)
Theorem Src_C05_builder_no_panic regs bs :
  len bs <= usize_max -> gen_build regs bs <> Panic.
Proof. intro Hl. rewrite gen_build_eq. apply builder_build_no_panic. exact Hl. Qed.

(** ** C11 / C13 / C14: the generic bitfield accessors and [from_raw_bytes], as written in the source *)

(** Reads below the length are the stored bits; reads at or beyond it fail (C11). *)
Theorem Src_C11_get b i :
  Inv (bf_abs b) ->
  Gen.bitfield_get b i =
  if i <? Gen.Bitfield_len b then Ok (bit_at (Gen.Bitfield_bytes b) i) else Err.
Proof.
  intro HI. rewrite gen_bitfield_get_eq.
  destruct (i <? Gen.Bitfield_len b) eqn:E.
  - apply N.ltb_lt in E. apply (bf_get_bit_at (bf_abs b) i HI). exact E.
  - apply N.ltb_ge in E. apply (bf_get_out (bf_abs b) i). exact E.
Qed.

(** A successful [set] changes exactly bit [i], keeps the length and the invariant (minimal byte
    view, nothing set at or beyond the length); an out-of-range [set] fails (C11). *)
Theorem Src_C11_set b i v :
  Inv (bf_abs b) ->
  (i < Gen.Bitfield_len b ->
   exists b', Gen.bitfield_set b i v = Ok b' /\ Inv (bf_abs b') /\
              Gen.Bitfield_len b' = Gen.Bitfield_len b /\
              (forall j, bit_at (Gen.Bitfield_bytes b') j = if j =? i then v else bit_at (Gen.Bitfield_bytes b) j))
  /\ (Gen.Bitfield_len b <= i -> Gen.bitfield_set b i v = Err).
Proof.
  intro HI. pose proof (gen_bitfield_set_eq b i v) as E. split.
  - intro Hi. destruct (bf_set_ok (bf_abs b) i v HI Hi) as (m & Hm & HIm & Hlen & Hbits).
    rewrite Hm in E. destruct (Gen.bitfield_set b i v) as [b'| |]; cbn [omap] in E; try discriminate.
    injection E as E. subst m. exists b'.
    split; [reflexivity|]. split; [exact HIm|]. split; [exact Hlen | exact Hbits].
  - intro Hi. rewrite (bf_set_out (bf_abs b) i v Hi) in E.
    destruct (Gen.bitfield_set b i v); cbn [omap] in E; try discriminate. reflexivity.
Qed.

(** [from_raw_bytes] never panics and whatever it accepts satisfies the invariant (C05, C13). *)
Theorem Src_C13_from_raw_bytes bs n :
  Gen.bitfield_from_raw_bytes bs n <> Panic /\
  (wfb bs -> forall b, Gen.bitfield_from_raw_bytes bs n = Ok b ->
     Inv (bf_abs b) /\ Gen.Bitfield_len b = n /\ Gen.Bitfield_bytes b = bs).
Proof.
  pose proof (gen_bitfield_from_raw_bytes_eq bs n) as E. split.
  - intro HP. rewrite HP in E. cbn [omap] in E. symmetry in E. exact (from_raw_bytes_no_panic bs n E).
  - intros Hw b Hb. rewrite Hb in E. cbn [omap] in E. symmetry in E.
    destruct (from_raw_bytes_Inv bs n _ Hw E) as (H0 & H1 & H2).
    split; [exact H0|]. split; [exact H2 | exact H1].
Qed.

(** [shift_up(n)] as written in the source: for [n <= len] it succeeds, keeps the length and the
    invariant, and moves every bit up by [n] with zeroes below; for [n > len] it fails (C11). *)
Theorem Src_C11_shift_up b n :
  Inv (bf_abs b) ->
  (n <= Gen.Bitfield_len b ->
   exists b', Gen.bitfield_shift_up b n = Ok b' /\ Inv (bf_abs b') /\
              Gen.Bitfield_len b' = Gen.Bitfield_len b /\
              (forall j, bit_at (Gen.Bitfield_bytes b') j =
                         if j <? n then false
                         else if j <? Gen.Bitfield_len b then bit_at (Gen.Bitfield_bytes b) (j - n) else false))
  /\ (Gen.Bitfield_len b < n -> Gen.bitfield_shift_up b n = Err).
Proof.
  intro HI. pose proof (gen_bitfield_shift_up_eq b n) as E. split.
  - intro Hn. destruct (shift_up_spec (bf_abs b) n HI Hn) as (m & Hm & HIm & Hlen & Hbits).
    rewrite Hm in E. destruct (Gen.bitfield_shift_up b n) as [b'| |]; cbn [omap] in E; try discriminate.
    injection E as E. subst m. exists b'.
    split; [reflexivity|]. split; [exact HIm|]. split; [exact Hlen | exact Hbits].
  - intro Hn. unfold shift_up in E. change (bf_len (bf_abs b)) with (Gen.Bitfield_len b) in E.
    replace (n <=? Gen.Bitfield_len b) with false in E by lia.
    destruct (Gen.bitfield_shift_up b n); cbn [omap] in E; try discriminate. reflexivity.
Qed.

(** [difference_inplace] as written in the source never fails and clears exactly the bits of the
    other operand (positions the other operand does not have count as unset) (C12). *)
Theorem Src_C12_difference_inplace a o :
  exists a', Gen.bitfield_difference_inplace a o = Ok a' /\
             Gen.Bitfield_len a' = Gen.Bitfield_len a /\
             (forall i, bit_at (Gen.Bitfield_bytes a') i
                        = bit_at (Gen.Bitfield_bytes a) i && negb (bit_at (Gen.Bitfield_bytes o) i)).
Proof.
  pose proof (gen_bitfield_difference_inplace_eq a o) as E.
  destruct (Gen.bitfield_difference_inplace a o) as [a'| |]; cbn [omap] in E; try discriminate.
  assert (E' : bf_abs a' = difference_inplace (bf_abs a) (bf_abs o)) by congruence.
  clear E. exists a'. split; [reflexivity|]. split.
  - change (Gen.Bitfield_len a') with (bf_len (bf_abs a')). rewrite E'. reflexivity.
  - intro i. change (Gen.Bitfield_bytes a') with (bf_bytes (bf_abs a')). rewrite E'.
    unfold difference_inplace. cbn [bf_bytes]. apply bit_at_diff_bytes.
Qed.

(** ** C10: the manual container encoder, as written in the source *)

Fixpoint gen_appends (s : Gen.SszEncoder) (items : list (bool * (bytes -> bytes))) : outcome Gen.SszEncoder :=
  match items with
  | [] => Ok s
  | (f, app) :: r => do s' <- Gen.encoder_append s f (fun b => Ok (app b)); gen_appends s' r
  end.

(** [SszEncoder::container(buf, nf)], the appends in order, [finalize()]: the resulting buffer. *)
Definition gen_enc_run (buf : bytes) (nf : N) (items : list (bool * (bytes -> bytes))) : outcome bytes :=
  do s <- gen_appends {| Gen.SszEncoder_offset := nf; Gen.SszEncoder_buf := buf; Gen.SszEncoder_variable_bytes := [] |} items;
  omap Gen.SszEncoder_buf (Gen.encoder_finalize s).

Definition item_of (p : part) : bool * (bytes -> bytes) := (fst p, fun b : bytes => b ++ snd p).
Definition var_total (parts : list part) : N :=
  sumN (map (fun p : part => if fst p then 0 else len (snd p)) parts).

Lemma gen_appends_eq parts : forall s,
  Gen.SszEncoder_offset s + len (Gen.SszEncoder_variable_bytes s) + var_total parts <= usize_max ->
  omap enc_abs (gen_appends s (map item_of parts))
  = Ok (fold_left (fun st it => enc_append st (fst it) (snd it)) (map item_of parts) (enc_abs s)).
Proof.
  induction parts as [|[f p] r IH]; intros s H; [reflexivity|].
  cbn [map item_of fst snd gen_appends fold_left].
  unfold var_total in H. cbn [map sumN fst snd] in H. fold (var_total r) in H.
  assert (H0 : Gen.SszEncoder_offset s + len (Gen.SszEncoder_variable_bytes s) <= usize_max) by lia.
  pose proof (gen_encoder_append_eq s f (fun b : bytes => b ++ p) H0) as E. cbv beta in E.
  cbv beta. destruct (Gen.encoder_append s f _) as [s'| |]; cbn [omap bind] in *; try discriminate.
  injection E as E. cbv beta. cbn [fst snd]. rewrite <- E. apply IH.
  change (Gen.SszEncoder_offset s') with (e_offset (enc_abs s')).
  change (Gen.SszEncoder_variable_bytes s') with (e_var (enc_abs s')).
  rewrite E. unfold enc_append. destruct f; cbn [e_offset e_var enc_abs].
  - lia.
  - rewrite len_app. lia.
Qed.

(** Driven with any fields and any pre-filled buffer, the encoder written in /repo produces
    [buf ++ fixed parts and offsets ++ variable parts] (C10), provided the offsets fit a [usize]. *)
Theorem Src_C10_encoder_any_history buf nf (parts : list part) :
  nf + var_total parts <= usize_max ->
  gen_enc_run buf nf (map item_of parts) = Ok (buf ++ assemble nf parts).
Proof.
  intro H. unfold gen_enc_run.
  pose proof (gen_appends_eq parts {| Gen.SszEncoder_offset := nf; Gen.SszEncoder_buf := buf; Gen.SszEncoder_variable_bytes := [] |}) as E.
  cbn [Gen.SszEncoder_offset Gen.SszEncoder_variable_bytes len length N.of_nat] in E.
  specialize (E ltac:(lia)).
  destruct (gen_appends _ (map item_of parts)) as [s| |]; cbn [omap bind] in *; try discriminate.
  injection E as E. rewrite gen_encoder_finalize_eq, E.
  f_equal. apply (enc_run_bytes buf nf parts).
Qed.

Print Assumptions Src_C09_word_round_trip.
Print Assumptions Src_C15_split_union_bytes.
Print Assumptions Src_C05_helpers_no_panic.
Print Assumptions Src_C09_builder_tiles.
Print Assumptions Src_C05_builder_no_panic.
Print Assumptions Src_C11_get.
Print Assumptions Src_C11_set.
Print Assumptions Src_C13_from_raw_bytes.
Print Assumptions Src_C10_encoder_any_history.
Print Assumptions Src_C11_shift_up.
Print Assumptions Src_C12_difference_inplace.
