(** * ListViewEnc: encoding as entry lists, at every depth: a well-typed value of a type with sets / maps anywhere
    inside it encodes exactly as the same value read at the entry-list view of the type (sets and maps are written
    as the lists of their entries, in their ascending order).  The encode-side companion of
    ListViewFacts.dec_by_collection. *)
From SSZ Require Import Base BaseFacts Offsets OffsetsFacts Encoder EncoderFacts Layout Builder Types Codec Spec CodecUnfold MetaFacts AppendFacts
     LeafIface LeafProof SizeFacts Strict ListView ListViewFacts.
From Coq Require Import List ZArith Lia Bool.
Import ListNotations.
Open Scope N_scope.

Lemma list_view_emeta t : e_is_fixed (list_view t) = e_is_fixed t /\ e_fixed_len (list_view t) = e_fixed_len t.
Proof. rewrite !is_fixed_agree, !fixed_len_agree. apply list_view_meta. Qed.

Definition EncView (t : ty) : Prop := forall v, has_ty t v = true -> enc t v = enc (list_view t) v.

Lemma map_enc_view t vs : EncView t -> forallb (has_ty t) vs = true -> map (enc t) vs = map (enc (list_view t)) vs.
Proof.
  intros Ht H. apply map_ext_in. intros x Hx. apply Ht. rewrite forallb_forall in H. exact (H x Hx).
Qed.

Lemma cont_parts_view fs : Forall EncView fs -> forall vs, has_ty_fields fs vs = true ->
  cont_parts fs vs = cont_parts (map list_view fs) vs.
Proof.
  induction 1 as [|f r Hf _ IH]; intros vs Hty; [reflexivity|].
  destruct vs as [|x xr]; [rewrite has_ty_fields_nil_r in Hty; discriminate|].
  rewrite has_ty_fields_cons in Hty. apply andb_prop in Hty as [Hx Hr].
  unfold cont_parts in *. cbn [map combine fst snd]. destruct (list_view_emeta f) as [-> _].
  rewrite (Hf x Hx), (IH xr Hr). reflexivity.
Qed.

Lemma sum_fixed_view fs : sumN (map e_fixed_len (map list_view fs)) = sumN (map e_fixed_len fs).
Proof. induction fs as [|f r IH]; cbn [map sumN]; [reflexivity|]. destruct (list_view_emeta f) as [_ ->]. rewrite IH. reflexivity. Qed.

Theorem enc_by_entry_list t : EncView t.
Proof.
  induction t using ty_ind'; intros v Hty; try reflexivity.
  - (* list *) destruct v as [n0|b0|bs0|l| |x|cs|i x|i|bits]; try discriminate. cbn [list_view]. rewrite !enc_list.
    destruct (list_view_emeta t) as [-> _]. cbn [has_ty] in Hty. rewrite (map_enc_view t l IHt Hty). reflexivity.
  - (* set *) destruct v as [n0|b0|bs0|l| |x|cs|i x|i|bits]; try discriminate. cbn [list_view]. rewrite enc_set, enc_list.
    destruct (list_view_emeta t) as [-> _]. cbn [has_ty] in Hty. apply andb_prop in Hty as [Hty _].
    rewrite (map_enc_view t l IHt Hty). reflexivity.
  - (* map *) destruct v as [n0|b0|bs0|l| |x|cs|i x|i|bits]; try discriminate. cbn [list_view]. rewrite (map_encodes_as_list t1 t2 l Hty), !enc_list.
    rewrite !e_is_fixed_container. cbn [forallb]. destruct (list_view_emeta t1) as [-> E1]. destruct (list_view_emeta t2) as [-> E2].
    f_equal. apply map_ext_in. intros e He.
    cbn [has_ty] in Hty. apply andb_prop in Hty as [Hes _]. rewrite forallb_forall in Hes. specialize (Hes e He).
    destruct e as [n1|b1|bs1|l1| |x1|es|i1 x1|i1|bits1]; try discriminate. destruct es as [|a [|c [|? ?]]]; try discriminate.
    apply andb_prop in Hes as [Ha Hc]. rewrite !enc_container. cbn [map sumN]. rewrite E1, E2.
    unfold cont_parts. cbn [combine map fst snd]. destruct (list_view_emeta t1) as [-> _]. destruct (list_view_emeta t2) as [-> _].
    rewrite (IHt1 a Ha), (IHt2 c Hc). reflexivity.
  - (* option *) destruct v as [n0|b0|bs0|l| |x|cs|i x|i|bits]; try discriminate; [reflexivity|]. cbn [list_view]. rewrite !enc_option_some.
    cbn [has_ty] in Hty. rewrite (IHt x Hty). reflexivity.
  - (* container *) destruct v as [n0|b0|bs0|l| |x|cs|i x|i|bits]; try discriminate. cbn [list_view]. rewrite !enc_container, sum_fixed_view.
    rewrite has_ty_container in Hty. rewrite (cont_parts_view fs H cs Hty). reflexivity.
  - (* union *) destruct v as [n0|b0|bs0|l| |x|cs|i x|i|bits]; try discriminate. cbn [list_view]. rewrite !enc_union.
    rewrite has_ty_union in Hty. apply andb_prop in Hty as [_ Hty]. unfold pick_has_ty in Hty.
    rewrite nth_error_map. destruct (nth_error vs i) as [t|] eqn:E; [|discriminate]. cbn [option_map].
    pose proof (nth_error_In _ _ E) as HI. rewrite Forall_forall in H. rewrite (H t HI x Hty). reflexivity.
  - (* transparent enum *) destruct v as [n0|b0|bs0|l| |x|cs|i x|i|bits]; try discriminate. cbn [list_view]. rewrite !enc_trans.
    rewrite has_ty_trans in Hty. unfold pick_has_ty in Hty.
    rewrite nth_error_map. destruct (nth_error vs i) as [t|] eqn:E; [|discriminate]. cbn [option_map].
    pose proof (nth_error_In _ _ E) as HI. rewrite Forall_forall in H. exact (H t HI x Hty).
  - (* wrap *) cbn [list_view]. unfold enc. cbn [append]. apply (IHt v). exact Hty.
  - (* legacy *) destruct v as [n0|b0|bs0|l| |x|cs|i x|i|bits]; try discriminate; [reflexivity|]. cbn [list_view]. rewrite !enc_legacy_some.
    cbn [has_ty] in Hty. rewrite (IHt x Hty). reflexivity.
Qed.
Print Assumptions enc_by_entry_list.
