(** * Builder: [SszDecoderBuilder] / [SszDecoder] as a state machine
    (ssz/src/decode.rs:134-328). *)
From SSZ Require Export Offsets.

(** [Offset { position, offset }] *)
Record boffset := { o_position : nat; o_offset : N }.

Record bstate := {
  b_items : list bytes;        (* slices; [] placeholder for a variable item until finalize *)
  b_offsets : list boffset;
  b_index : N                  (* items_index *)
}.

Definition builder_new : bstate := {| b_items := []; b_offsets := []; b_index := 0 |}.

Definition last_offset (os : list boffset) : option N :=
  match rev os with [] => None | o :: _ => Some (o_offset o) end.

(** [register_type_parameterized(is_ssz_fixed_len, ssz_fixed_len)].
    [items_index += ssz_fixed_len] is a checked addition (a [fix:] commit made it so: before it,
    overflow panicked under overflow-checks); overflow is an error. *)
Definition register (bs : bytes) (st : bstate) (is_fixed : bool) (fixed_len : N) : outcome bstate :=
  if is_fixed then
    let start := b_index st in
    do idx <- ok_or (checked_add start fixed_len);
    do slice <- ok_or (get_range bs start idx);
    Ok {| b_items := b_items st ++ [slice]; b_offsets := b_offsets st; b_index := idx |}
  else
    do rest <- index_from bs (b_index st);             (* &self.bytes[self.items_index..] *)
    do off <- read_offset rest;
    do off' <- sanitize_offset off (last_offset (b_offsets st)) (len bs) None;
    do idx <- usize_add (b_index st) BYTES_PER_LENGTH_OFFSET;
    Ok {| b_items := b_items st ++ [[]];
          b_offsets := b_offsets st ++ [{| o_position := length (b_items st); o_offset := off' |}];
          b_index := idx |}.

(** [self.items[pos] = slice]; indexing out of range panics. *)
Fixpoint set_nth {A} (l : list A) (pos : nat) (x : A) : outcome (list A) :=
  match l, pos with
  | [], _ => Panic
  | _ :: r, O => Ok (x :: r)
  | y :: r, S p => do r' <- set_nth r p x; Ok (y :: r')
  end.

(** The [windows(2)] loop of [finalize]. *)
Fixpoint fill_pairs (bs : bytes) (os : list boffset) (items : list bytes) : outcome (list bytes) :=
  match os with
  | a :: ((b :: _) as r) =>
      do s <- index_range bs (o_offset a) (o_offset b);
      do items' <- set_nth items (o_position a) s;
      fill_pairs bs r items'
  | _ => Ok items
  end.

Definition finalize (bs : bytes) (st : bstate) : outcome (list bytes) :=
  match b_offsets st with
  | first :: _ =>
      let first_offset := o_offset first in
      if first_offset <? b_index st then Err
      else if b_index st <? first_offset then Err
      else
        do items <- fill_pairs bs (b_offsets st) (b_items st);
        match rev (b_offsets st) with
        | last :: _ =>
            do s <- index_from bs (o_offset last);
            set_nth items (o_position last) s
        | [] => Ok items
        end
  | [] =>
      if negb (b_index st =? len bs) then Err else Ok (b_items st)
  end.

(** Register a whole sequence ([?] after each call: stop at the first error), then [build]. *)
Fixpoint register_all (bs : bytes) (st : bstate) (regs : list (bool * N)) : outcome bstate :=
  match regs with
  | [] => Ok st
  | (f, l) :: r => do st' <- register bs st f l; register_all bs st' r
  end.

Definition builder_build (regs : list (bool * N)) (bs : bytes) : outcome (list bytes) :=
  do st <- register_all bs builder_new regs; finalize bs st.

(** [SszDecoder::decode_next_with(f)]: [f(self.items.remove(0))]; [remove(0)] panics when empty. *)
Definition decode_next {A} (items : list bytes) (f : bytes -> outcome A) : outcome (A * list bytes) :=
  match items with
  | [] => Panic
  | s :: r => do a <- f s; Ok (a, r)
  end.

(** Decode exactly the registered items, in order, each with its own decoder. *)
Fixpoint decode_all {A} (items : list bytes) (fs : list (bytes -> outcome A)) : outcome (list A) :=
  match fs with
  | [] => Ok []
  | f :: fr =>
      do p <- decode_next items f;
      do r <- decode_all (snd p) fr;
      Ok (fst p :: r)
  end.
