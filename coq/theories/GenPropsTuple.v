(** * GenPropsTuple: C01 / C02 / C07 / C19 stated about the tuple and [BTreeMap] impls as rustc expands them
    (GeneratedDerive.v), for every component / key / value type expression. *)
From SSZ Require Import Base RustSem Offsets Encoder Builder Types Codec CodecUnfold BaseFacts OffsetsFacts AppendFacts MetaFacts
     ListDecFacts NoPanic Canon OrderFacts RoundTrip LeafIface LeafProof SizeFacts Strict
     Generated GenEquiv GenEquivDec GenEquivEnc GenProps GeneratedDerive GenEquivDerive GenEquivDerive2 GenEquivTuple GenEquivMap GenPropsDerive.
From Coq Require Import ZArith ZifyN ZifyBool ZifyNat Lia.
Open Scope N_scope.

Definition T2 (tA tB : ty) : ty := TContainer false [tA; tB].

Lemma pair_val_inj p p' : pair_val p' = pair_val p -> p' = p.
Proof. destruct p, p'. unfold pair_val. cbn [fst snd]. intro H. injection H as -> ->. reflexivity. Qed.

Lemma size_T2 tA tB p : has_ty (T2 tA tB) (pair_val p) = true ->
  len (enc (T2 tA tB) (pair_val p)) =
  if e_is_fixed tA && e_is_fixed tB then e_fixed_len tA + e_fixed_len tB else field_len tA (fst p) + field_len tB (snd p).
Proof.
  intro Hty. rewrite <- (proj1 (size_facts leaf_facts _ _ Hty)). unfold T2, pair_val. rewrite bytes_len_container.
  cbn [forallb combine map sumN fst snd]. rewrite andb_true_r. destruct (e_is_fixed tA && e_is_fixed tB); lia.
Qed.

(** C01: a 2-tuple encoded by the expanded impl decodes, by the expanded impl, to itself *)
Theorem Src_C01_tuple2 tA tB a b :
  rt_type (T2 tA tB) = true -> has_ty (T2 tA tB) (VCont [a; b]) = true -> len (enc (T2 tA tB) (VCont [a; b])) < two32 ->
  e_fixed_len tA + e_fixed_len tB + len (enc tA a) <= usize_max ->
  (do bs <- GenD.tuple2_ssz_append (e_is_fixed tA) (e_fixed_len tA) (app_of tA) (e_is_fixed tB) (e_fixed_len tB) (app_of tB) (a, b) [];
   GenD.tuple2_from_ssz_bytes (d_is_fixed tA) (d_fixed_len tA) (dec tA) (d_is_fixed tB) (d_fixed_len tB) (dec tB) bs) = Ok (a, b).
Proof.
  intros Hrt Hty Hlen Hfit.
  apply (src_round_trip (T2 tA tB) pair_val
           (fun p buf => GenD.tuple2_ssz_append (e_is_fixed tA) (e_fixed_len tA) (app_of tA) (e_is_fixed tB) (e_fixed_len tB) (app_of tB) p buf)
           (GenD.tuple2_from_ssz_bytes (d_is_fixed tA) (d_fixed_len tA) (dec tA) (d_is_fixed tB) (d_fixed_len tB) (dec tB)) (a, b)).
  - intros p'. apply pair_val_inj.
  - exact Hrt.
  - exact Hty.
  - exact Hlen.
  - apply gen_tuple2_ssz_append. exact Hfit.
  - intro bs. apply gen_tuple2_from_ssz_bytes.
Qed.

(** C02: what the expanded tuple decoder accepts re-encodes, by the expanded encoder, to the same bytes *)
Theorem Src_C02_tuple2 tA tB bs p :
  canon_type (T2 tA tB) = true -> phys bs -> 2 * (e_fixed_len tA + e_fixed_len tB) <= usize_max ->
  GenD.tuple2_from_ssz_bytes (d_is_fixed tA) (d_fixed_len tA) (dec tA) (d_is_fixed tB) (d_fixed_len tB) (dec tB) bs = Ok p ->
  GenD.tuple2_ssz_append (e_is_fixed tA) (e_fixed_len tA) (app_of tA) (e_is_fixed tB) (e_fixed_len tB) (app_of tB) p [] = Ok bs.
Proof.
  intros Hc Hp HF Hr.
  apply (src_canonical (T2 tA tB) pair_val
           (fun p buf => GenD.tuple2_ssz_append (e_is_fixed tA) (e_fixed_len tA) (app_of tA) (e_is_fixed tB) (e_fixed_len tB) (app_of tB) p buf)
           (GenD.tuple2_from_ssz_bytes (d_is_fixed tA) (d_fixed_len tA) (dec tA) (d_is_fixed tB) (d_fixed_len tB) (dec tB)) bs p Hc Hp).
  - intro b. apply gen_tuple2_from_ssz_bytes.
  - exact Hr.
  - intros Hty Hlen. destruct p as [a b]. apply gen_tuple2_ssz_append. cbn [fst].
    (* the encoding of the tuple contains the encoding of its first component after the fixed part *)
    assert (Hsz := size_T2 tA tB (a, b) Hty). cbn [fst snd] in Hsz.
    assert (HtyA : has_ty tA a = true).
    { unfold T2, pair_val in Hty. rewrite has_ty_container, !has_ty_fields_cons in Hty. apply andb_prop in Hty. exact (proj1 Hty). }
    assert (HA : len (enc tA a) <= field_len tA a).
    { unfold field_len. destruct (e_is_fixed tA) eqn:EF.
      - rewrite (proj2 (size_facts leaf_facts tA a HtyA) EF). lia.
      - rewrite <- (proj1 (size_facts leaf_facts tA a HtyA)). lia. }
    change (enc (T2 tA tB) (pair_val (a, b))) with (enc (T2 tA tB) (VCont [a; b])) in *.
    rewrite Hsz in Hlen. pose proof (proj1 (size_facts leaf_facts tA a HtyA)) as SA.
    unfold field_len in *. destruct (e_is_fixed tA) eqn:EA, (e_is_fixed tB) eqn:EB; cbn [andb] in Hlen;
      try (pose proof (variable_fixed_len tA EA)); try (pose proof (variable_fixed_len tB EB));
      unfold BYTES_PER_LENGTH_OFFSET in *; lia.
Qed.

(** the round-trip composition, needing the decoder's equivalence only at the encoding itself *)
Lemma src_round_trip_at {R} (T : ty) (inj : R -> val) (app : R -> bytes -> outcome bytes) (from : bytes -> outcome R) r :
  (forall r', inj r' = inj r -> r' = r) ->
  rt_type T = true -> has_ty T (inj r) = true -> len (enc T (inj r)) < two32 ->
  app r [] = Ok (append T (inj r) []) -> omap inj (from (enc T (inj r))) = dec T (enc T (inj r)) ->
  (do bs <- app r []; from bs) = Ok r.
Proof.
  intros Hinj Hrt Hty Hlen Happ Hfrom. rewrite Happ. cbn [bind].
  pose proof (rt_facts leaf_facts collect_sorted_holds T Hrt (inj r) Hty Hlen) as H.
  rewrite <- Hfrom in H. unfold enc in H.
  destruct (from (append T (inj r) [])) as [r'| |]; cbn [omap] in H; try discriminate.
  f_equal. apply Hinj. congruence.
Qed.

(** C19 / C01: a map encoded by the expanded impl decodes, by the expanded impl, to itself *)
Lemma map_pair_val_inj l l' : map pair_val l' = map pair_val l -> l' = l.
Proof.
  revert l'. induction l as [|x r IH]; destruct l' as [|y r']; cbn [map]; intro H; try discriminate; [reflexivity|].
  injection H as Hx Hy Hr. f_equal; [destruct x, y; cbn [fst snd] in *; congruence | apply IH; exact Hr].
Qed.

Theorem Src_C19_map_round_trip k v (es : list (val * val)) :
  rt_type (TMap k v) = true -> has_ty (TMap k v) (VList (map pair_val es)) = true ->
  len (enc (TMap k v) (VList (map pair_val es))) < two32 ->
  e_fixed_len k + e_fixed_len v <= usize_max ->
  (forall p, In p es -> e_fixed_len k + e_fixed_len v + len (enc k (fst p)) <= usize_max) ->
  (if e_is_fixed (TEntry k v) then e_fixed_len (TEntry k v) * llen es <= usize_max
   else llen es * 4 <= usize_max /\ fits_run (fun p => append (TEntry k v) (pair_val p)) (llen es * 4) [] es) ->
  (do bs <- GenD.btreemap_ssz_append (e_is_fixed k) (e_fixed_len k) (app_of k) (e_is_fixed v) (e_fixed_len v) (app_of v) es [];
   GenD.btreemap_from_ssz_bytes (d_is_fixed k) (d_fixed_len k) (dec k) val_cmp (d_is_fixed v) (d_fixed_len v) (dec v) bs) = Ok es.
Proof.
  intros Hrt Hty Hlen HF Hit Hseq.
  apply (src_round_trip_at (TMap k v) (fun l => VList (map pair_val l))
           (fun l buf => GenD.btreemap_ssz_append (e_is_fixed k) (e_fixed_len k) (app_of k) (e_is_fixed v) (e_fixed_len v) (app_of v) l buf)
           (GenD.btreemap_from_ssz_bytes (d_is_fixed k) (d_fixed_len k) (dec k) val_cmp (d_is_fixed v) (d_fixed_len v) (dec v)) es).
  - intros l' H. injection H as H. apply map_pair_val_inj. exact H.
  - exact Hrt.
  - exact Hty.
  - exact Hlen.
  - apply gen_btreemap_ssz_append; assumption.
  - apply gen_btreemap_is_dec_TMap; [|rewrite <- !fixed_len_agree; exact HF].
    unfold two32 in Hlen. pose proof usize_max_val. lia.
Qed.

(** C05: the expanded tuple, set and map decoders never panic on a physical input *)
Theorem Src_C05_collections_no_panic bs :
  phys bs ->
  (forall tA tB, GenD.tuple2_from_ssz_bytes (d_is_fixed tA) (d_fixed_len tA) (dec tA) (d_is_fixed tB) (d_fixed_len tB) (dec tB) bs <> Panic) /\
  (forall tA tB tC, GenD.tuple3_from_ssz_bytes (d_is_fixed tA) (d_fixed_len tA) (dec tA) (d_is_fixed tB) (d_fixed_len tB) (dec tB)
                      (d_is_fixed tC) (d_fixed_len tC) (dec tC) bs <> Panic) /\
  (forall t, Gen.btreeset_from_ssz_bytes (d_is_fixed t) (d_fixed_len t) (dec t) val_cmp bs <> Panic) /\
  (forall t n, Gen.smallvec_from_ssz_bytes n (d_is_fixed t) (d_fixed_len t) (dec t) bs <> Panic) /\
  (forall k v, d_fixed_len k + d_fixed_len v <= usize_max ->
     GenD.btreemap_from_ssz_bytes (d_is_fixed k) (d_fixed_len k) (dec k) val_cmp (d_is_fixed v) (d_fixed_len v) (dec v) bs <> Panic).
Proof.
  intro Hp. destruct Hp as (Hw & Hl).
  assert (NP : forall t, dec t bs <> Panic) by (intro t; apply (NoPanic.nopanic_facts leaf_facts t bs); split; assumption).
  assert (T : forall {A B} (f : A -> B) (g : outcome A) (m : outcome B), omap f g = m -> m <> Panic -> g <> Panic).
  { intros A B f g m E Hm Hg. apply Hm. rewrite <- E, Hg. reflexivity. }
  repeat split.
  - intros tA tB. exact (T _ _ _ _ _ (gen_tuple2_from_ssz_bytes tA tB bs) (NP (TContainer false [tA; tB]))).
  - intros tA tB tC. exact (T _ _ _ _ _ (gen_tuple3_from_ssz_bytes tA tB tC bs) (NP (TContainer false [tA; tB; tC]))).
  - intro t. exact (T _ _ _ _ _ (gen_btreeset_is_dec_TSet t bs Hl) (NP (TSet t))).
  - intros t n. exact (T _ _ _ _ _ (gen_smallvec_is_dec_TList n t bs Hl) (NP (TList t))).
  - intros k v HF. exact (T _ _ _ _ _ (gen_btreemap_is_dec_TMap k v bs Hl HF) (NP (TMap k v))).
Qed.

Print Assumptions Src_C01_tuple2.
Print Assumptions Src_C02_tuple2.
Print Assumptions Src_C19_map_round_trip.
Print Assumptions Src_C05_collections_no_panic.
