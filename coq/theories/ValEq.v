(** Boolean equality on values (used by the vm_compute sample that keeps extraction honest). *)
From SSZ Require Import Types.

Fixpoint val_eqb (a b : val) {struct a} : bool :=
  let fix list_eqb (xs ys : list val) : bool :=
    match xs, ys with
    | [], [] => true
    | x :: xr, y :: yr => val_eqb x y && list_eqb xr yr
    | _, _ => false
    end in
  match a, b with
  | VUint x, VUint y => x =? y
  | VBool x, VBool y => Bool.eqb x y
  | VBytes x, VBytes y => bytes_eqb x y
  | VList xs, VList ys => list_eqb xs ys
  | VCont xs, VCont ys => list_eqb xs ys
  | VNone, VNone => true
  | VSome x, VSome y => val_eqb x y
  | VUnion i x, VUnion j y => Nat.eqb i j && val_eqb x y
  | VTag i, VTag j => Nat.eqb i j
  | VBits x, VBits y =>
      (fix beq (p q : list bool) : bool :=
         match p, q with
         | [], [] => true
         | c :: pr, d :: qr => Bool.eqb c d && beq pr qr
         | _, _ => false
         end) x y
  | _, _ => false
  end.

(** helpers for the per-run vm_compute sample *)
From SSZ Require Import Builder BitfieldOps.
Fixpoint lists_eqb {A} (eqb : A -> A -> bool) (a b : list A) : bool :=
  match a, b with
  | [], [] => true
  | x :: ar, y :: br => eqb x y && lists_eqb eqb ar br
  | _, _ => false
  end.
Definition builder_matches (regs : list (bool * N)) (bs : bytes) (expect : option (list bytes)) : bool :=
  match builder_build regs bs, expect with
  | Ok items, Some e => lists_eqb bytes_eqb items e
  | Err, None => true
  | _, _ => false
  end.
Definition history_matches (fl : flavour) (ops : list bop) (st lens : list N) (ssz : list bytes) : bool :=
  let os := run_impl fl ops in
  lists_eqb N.eqb (map o_status os) st && lists_eqb N.eqb (map o_len os) lens
  && lists_eqb bytes_eqb (map o_ssz os) ssz.
