(** * SpecDec: a strict reference deserializer in the style of the consensus-spec text.

    Written independently of [Codec.v]: positional integer value, layout conditions checked on
    all offset words at once ([SplitSpec.split]: first offset = end of the fixed part,
    non-decreasing, not past the end), list length from the first offset, bitfields through the
    closed-form accept sets of [BitfieldOps.a_decode].  Ordered collections are decoded strictly
    (entries must be strictly ascending), which is what the SSZ list-of-entries mapping means;
    the crate is deliberately lenient there (C04 claims only the forward direction for them).
    Definitions only. *)
From SSZ Require Export Spec SplitSpec BitfieldOps.

(** size of a fixed-size type, per the spec *)
Fixpoint spec_size (t : ty) : N :=
  match t with
  | TUint k => N.of_nat k
  | TBool => 1
  | TNonZero => 8
  | TBytesN n => N.of_nat n
  | TTag _ => 1
  | TBitVector n => N.max 1 ((n + 7) / 8)
  | TContainer _ fs => (fix sum fs := match fs with [] => 0 | f :: r => spec_size f + sum r end) fs
  | TWrap a => spec_size a
  | _ => 0
  end.

(** positional value of a little-endian byte string: sum of b_i * 256^i *)
Definition spec_uint_val (bs : bytes) : N :=
  sumN (map (fun ib : nat * N => snd ib * 256 ^ N.of_nat (fst ib)) (combine (seq 0 (length bs)) bs)).

Fixpoint omapM {A B} (f : A -> option B) (l : list A) : option (list B) :=
  match l with
  | [] => Some []
  | x :: r => match f x, omapM f r with Some y, Some ys => Some (y :: ys) | _, _ => None end
  end.

(** deserialize a homogeneous sequence given whether the element type is variable-size, its
    fixed size, and the element deserializer *)
Definition spec_seq {A} (var : bool) (size : N) (d : bytes -> option A) (bs : bytes) : option (list A) :=
  match bs with
  | [] => Some []
  | _ =>
      if var then
        if 4 <=? len bs then
          let o := spec_uint_val (firstn 4 bs) in
          if (o mod 4 =? 0) && (4 <=? o) then
            match SplitSpec.split (repeat (false, 4) (N.to_nat (N.min (o / 4) (len bs)))) bs with
            | Some slices => if N.of_nat (length slices) =? o / 4 then omapM d slices else None
            | None => None
            end
          else None
        else None
      else
        if size =? 0 then None
        else if len bs mod size =? 0 then omapM d (chunks (N.to_nat size) bs) else None
  end.

Fixpoint spec_dec (t : ty) (bs : bytes) {struct t} : option val :=
  match t with
  | TUint k => if Nat.eqb (length bs) k then Some (VUint (spec_uint_val bs)) else None
  | TBool =>
      match bs with
      | [b] => if b =? 0 then Some (VBool false) else if b =? 1 then Some (VBool true) else None
      | _ => None
      end
  | TNonZero =>
      if Nat.eqb (length bs) 8 then
        let x := spec_uint_val bs in if x =? 0 then None else Some (VUint x)
      else None
  | TBytesN n => if Nat.eqb (length bs) n then Some (VBytes bs) else None
  | TByteList => Some (VBytes bs)
  | TList a => option_map VList (spec_seq (is_variable a) (spec_size a) (spec_dec a) bs)
  | TSet a =>
      match spec_seq (is_variable a) (spec_size a) (spec_dec a) bs with
      | Some l => if strictly_sorted false l then Some (VList l) else None
      | None => None
      end
  | TMap k v =>
      let entry (s : bytes) : option val :=
        match SplitSpec.split [(negb (is_variable k), spec_size k); (negb (is_variable v), spec_size v)] s with
        | Some [sk; sv] =>
            match spec_dec k sk, spec_dec v sv with
            | Some a, Some c => Some (VCont [a; c])
            | _, _ => None
            end
        | _ => None
        end in
      match spec_seq (is_variable k || is_variable v) (spec_size k + spec_size v) entry bs with
      | Some l => if strictly_sorted true l then Some (VList l) else None
      | None => None
      end
  | TOption a =>
      match bs with
      | [] => None
      | s :: body =>
          if s =? 0 then (match body with [] => Some VNone | _ => None end)
          else if s =? 1 then option_map VSome (spec_dec a body)
          else None
      end
  | TContainer _ fs =>
      let regs := (fix go fs := match fs with
                                | [] => []
                                | f :: r => (negb (is_variable f), spec_size f) :: go r
                                end) fs in
      match SplitSpec.split regs bs with
      | Some slices =>
          option_map VCont
            ((fix go fs (ss : list bytes) : option (list val) :=
                match fs, ss with
                | [], [] => Some []
                | f :: fr, s :: sr =>
                    match spec_dec f s, go fr sr with
                    | Some x, Some xs => Some (x :: xs)
                    | _, _ => None
                    end
                | _, _ => None
                end) fs slices)
      | None => None
      end
  | TUnion ts =>
      match bs with
      | [] => None
      | s :: body =>
          if s <=? 127 then
            (fix pick ts (j : nat) : option val :=
               match ts with
               | [] => None
               | t :: r => match j with
                           | O => option_map (VUnion (N.to_nat s)) (spec_dec t body)
                           | S j' => pick r j'
                           end
               end) ts (N.to_nat s)
          else None
      end
  | TTag n =>
      match bs with
      | [b] => if b <? N.of_nat n then Some (VTag (N.to_nat b)) else None
      | _ => None
      end
  | TTransEnum ts =>
      (fix first ts (idx : nat) : option val :=
         match ts with
         | [] => None
         | t :: r => match spec_dec t bs with
                     | Some x => Some (VUnion idx x)
                     | None => first r (S idx)
                     end
         end) ts O
  | TWrap a => spec_dec a bs
  | TBitVector n => match a_decode (FVec n) bs with Ok bits => Some (VBits bits) | _ => None end
  | TBitList n => match a_decode (FList n) bs with Ok bits => Some (VBits bits) | _ => None end
  | TBitDyn => match a_decode FDyn bs with Ok bits => Some (VBits bits) | _ => None end
  | TLegacyOpt a =>
      if 4 <=? len bs then
        let sel := spec_uint_val (firstn 4 bs) in
        let rest := skipn 4 bs in
        if sel =? 0 then (match rest with [] => Some VNone | _ => None end)
        else if sel =? 1 then option_map VSome (spec_dec a rest)
        else None
      else None
  end.
