(** * Extraction of the executable model for the correspondence harness.
    [ExtrOcamlBasic] only: bool, option, unit, prod, list, sumbool map to OCaml's; [N], [nat],
    [positive] stay the extracted inductive types.  No [Extract Constant]. *)
From SSZ Require Import Codec Spec BitfieldOps Hex Alloc Derive SplitSpec SpecDec ListView.
Require Extraction.
Require ExtrOcamlBasic.
Extraction Language OCaml.
Set Extraction Optimize.

Definition params : list N :=
  [BYTES_PER_LENGTH_OFFSET; BYTES_PER_UNION_SELECTOR; MAX_UNION_SELECTOR; MAX_LENGTH_VALUE].

Extraction "extracted/ssz_model.ml"
  params wfbb le_bytes le_val
  encode_length decode_offset read_offset sanitize_offset union_selector_new split_union_bytes
  enc_run builder_build decode_all register_all finalize builder_new
  e_is_fixed d_is_fixed e_fixed_len d_fixed_len has_ty val_cmp collect_entries rt_type canon_type wf_type key_type
  append enc as_bytes ssz_encode bytes_len dec decode_list_var_full dec_seq
  spec_enc valid_b is_variable
  bytes_for_bit_len bf_set bf_get from_raw_bytes highest_set_bit is_zero num_set_bits bf_iter
  difference_inplace difference shift_up bf_eqb bf_hash_stream
  bl_with_capacity bl_into_bytes bl_from_bytes bl_intersection bl_union bf_is_subset bl_resize
  bv_new bv_into_bytes bv_from_bytes bv_intersection bv_union
  bd_new bd_into_bytes bd_from_bytes_with_len bd_intersection bd_union bd_decode
  bl_of_bits bv_of_bits bd_of_bits
  fill_buffer arbitrary_usize arb_bitvector arb_bitlist
  run_impl run_abs a_decode a_resize a_from_bytes_with_len i_decode i_ssz a_ssz unpack
  hex_encode prefixed_hex_decode serde_ser serde_de
  units ufactor
  derive derive_enc derive_dec union_selectors
  SplitSpec.split layout_ok spec_dec
  list_view collect_rec.
