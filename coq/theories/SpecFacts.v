(** * The implementation model writes the SSZ wire format of [Spec.v] (C03). *)
From SSZ Require Import Base BaseFacts Offsets OffsetsFacts Encoder EncoderFacts Layout LayoutFacts
     Bitfield Types Codec Spec CodecUnfold MetaFacts AppendFacts LeafIface SizeFacts.
From Coq Require Import ZArith ZifyN ZifyNat ZifyBool.
Ltac Zify.zify_post_hook ::= Z.div_mod_to_equations.
Open Scope N_scope.

(** ** integers: repeated division = positional formula *)
Lemma le_bytes_spec_uint k n : le_bytes k n = spec_uint k n.
Proof.
  unfold spec_uint. revert n. induction k as [|k IH]; intros n; [reflexivity|].
  cbn [le_bytes seq map]. f_equal.
  - cbn [N.of_nat N.pow]. now rewrite N.div_1_r.
  - rewrite IH, <- seq_shift, map_map. apply map_ext. intros i.
    rewrite Nat2N.inj_succ, N.pow_succ_r', N.div_div by lia. reflexivity.
Qed.

Lemma le_bytes_mod k n : le_bytes k (n mod 256 ^ N.of_nat k) = le_bytes k n.
Proof.
  revert n. induction k as [|k IH]; intros n; [reflexivity|].
  cbn [le_bytes]. rewrite Nat2N.inj_succ, N.pow_succ_r'.
  assert (Hp : 256 ^ N.of_nat k <> 0) by (apply N.pow_nonzero; lia).
  rewrite N.mod_mul_r by lia.
  f_equal.
  - replace (n mod 256 + 256 * ((n / 256) mod 256 ^ N.of_nat k))
      with (n mod 256 + ((n / 256) mod 256 ^ N.of_nat k) * 256) by lia.
    rewrite N.mod_add by lia. apply N.mod_mod. lia.
  - replace (n mod 256 + 256 * ((n / 256) mod 256 ^ N.of_nat k))
      with (((n / 256) mod 256 ^ N.of_nat k) * 256 + n mod 256) by lia.
    rewrite N.div_add_l by lia.
    rewrite (N.div_small (n mod 256) 256) by (apply N.mod_lt; lia).
    rewrite N.add_0_r. apply IH.
Qed.

Lemma encode_length_spec n : encode_length n = spec_uint 4 n.
Proof.
  unfold encode_length. change 4294967296 with (256 ^ N.of_nat 4).
  rewrite le_bytes_mod. apply le_bytes_spec_uint.
Qed.

(** ** series: index-based spec formulation = recursive layout *)
Definition to_elem (p : part) : bool * bytes := (negb (fst p), snd p).

Definition vls (elems : list (bool * bytes)) : list N :=
  map len (map (fun e : bool * bytes => if fst e then snd e else []) elems).
Definition fps (elems : list (bool * bytes)) : list (option bytes) :=
  map (fun e : bool * bytes => if fst e then None else Some (snd e)) elems.

Lemma vls_cons f b l :
  vls (map to_elem ((f, b) :: l)) = (if f then 0 else len b) :: vls (map to_elem l).
Proof. destruct f; reflexivity. Qed.

Lemma series_fixed_rec parts : forall off k (offs : list bytes),
  (forall j, (j < length parts)%nat ->
     nth (k + j) offs [] = spec_uint 4 (off + sumN (firstn j (vls (map to_elem parts))))) ->
  concat (map (fun ip : nat * option bytes =>
                 match snd ip with Some s => s | None => nth (fst ip) offs [] end)
              (combine (seq k (length parts)) (fps (map to_elem parts))))
  = assemble_fixed off parts.
Proof.
  induction parts as [|[f b] r IH]; intros off k offs H; [reflexivity|].
  cbn [length seq map fps combine concat fst snd to_elem assemble_fixed].
  destruct f; cbn [negb].
  - f_equal. apply IH. intros j Hj. specialize (H (S j) ltac:(cbn [length]; lia)).
    replace (S k + j)%nat with (k + S j)%nat by lia. rewrite H, vls_cons.
    cbn [firstn sumN]. f_equal; lia.
  - rewrite <- (IH (off + len b) (S k) offs).
    + f_equal. specialize (H 0%nat ltac:(cbn [length]; lia)).
      rewrite Nat.add_0_r in H. rewrite H. cbn [firstn sumN]. rewrite N.add_0_r. symmetry. apply encode_length_spec.
    + intros j Hj. specialize (H (S j) ltac:(cbn [length]; lia)).
      replace (S k + j)%nat with (k + S j)%nat by lia. rewrite H, vls_cons.
      cbn [firstn sumN]. f_equal; lia.
Qed.

Lemma vls_var_concat parts :
  concat (map (fun e : bool * bytes => if fst e then snd e else []) (map to_elem parts)) = var_concat parts.
Proof.
  unfold var_concat. induction parts as [|[[|] b] r IH]; cbn [map concat fst snd to_elem negb]; [reflexivity| |];
    now rewrite IH.
Qed.

Lemma fixed_lengths_fixed_size parts :
  sumN (map (fun p : option bytes => match p with Some s => len s | None => BYTES_PER_LENGTH_OFFSET end)
            (fps (map to_elem parts))) = fixed_size parts.
Proof.
  unfold fixed_size, fps. induction parts as [|[[|] b] r IH]; cbn [map sumN fst snd to_elem negb]; [reflexivity| |];
    now rewrite IH.
Qed.

Lemma nth_map_seq {A} (g : nat -> A) n : forall a j d,
  (j < n)%nat -> nth j (map g (seq a n)) d = g (a + j)%nat.
Proof.
  induction n as [|n IH]; intros a j d H; [lia|].
  destruct j; cbn [seq map nth].
  - f_equal; lia.
  - rewrite IH by lia. f_equal; lia.
Qed.

Theorem assemble_spec_series parts :
  assemble (fixed_size parts) parts = spec_series (map to_elem parts).
Proof.
  unfold spec_series, assemble. cbv zeta. rewrite vls_var_concat. f_equal.
  rewrite map_length. symmetry.
  apply (series_fixed_rec parts (fixed_size parts) 0).
  intros j Hj. cbn [Nat.add]. rewrite nth_map_seq by exact Hj. cbn [Nat.add].
  fold (fps (map to_elem parts)). rewrite fixed_lengths_fixed_size. reflexivity.
Qed.

(** all elements fixed-size: plain concatenation *)
Lemma spec_series_all_fixed (encs : list bytes) :
  spec_series (map (fun e => (false, e)) encs) = concat encs.
Proof.
  rewrite <- (map_id encs) at 2.
  replace (map (fun e => (false, e)) encs) with (map to_elem (map (fun e => (true, e)) encs))
    by (rewrite map_map; reflexivity).
  rewrite <- assemble_spec_series. unfold assemble.
  assert (V : var_concat (map (fun e => (true, e)) encs) = []).
  { unfold var_concat. induction encs; cbn [map concat fst snd]; auto. }
  rewrite V, app_nil_r. generalize (fixed_size (map (fun e : bytes => (true, e)) encs)) as off.
  induction encs as [|e r IH]; intros off; cbn [map assemble_fixed concat]; [reflexivity|]. now rewrite IH, map_id.
Qed.

Lemma spec_series_all_variable (encs : list bytes) :
  spec_series (map (fun e => (true, e)) encs)
  = assemble (4 * N.of_nat (length encs)) (map (fun e => (false, e)) encs).
Proof.
  replace (map (fun e => (true, e)) encs) with (map to_elem (map (fun e => (false, e)) encs))
    by (rewrite map_map; reflexivity).
  rewrite <- assemble_spec_series. f_equal.
  unfold fixed_size. induction encs as [|e r IH]; cbn [map sumN length fst snd]; [reflexivity|].
  rewrite IH. unfold BYTES_PER_LENGTH_OFFSET. lia.
Qed.

Lemma seq_enc_spec f encs :
  seq_enc f encs = spec_series (map (fun e => (negb f, e)) encs).
Proof.
  unfold seq_enc. destruct f; cbn [negb].
  - symmetry. apply spec_series_all_fixed.
  - symmetry. apply spec_series_all_variable.
Qed.

Definition spec_ok (t : ty) : Prop := forall v, has_ty t v = true -> enc t v = spec_enc t v.

Lemma spec_seq t vs :
  spec_ok t -> forallb (has_ty t) vs = true ->
  seq_enc (e_is_fixed t) (map (enc t) vs) = spec_series (map (fun x => (is_variable t, spec_enc t x)) vs).
Proof.
  intros Ht Hvs. rewrite seq_enc_spec, map_map, is_variable_spec.
  f_equal. apply map_ext_in. intros x Hx. rewrite forallb_forall in Hvs. now rewrite (Ht x (Hvs x Hx)).
Qed.

Lemma fixed_size_cont_parts (L : LeafFacts) fs : forall vs,
  has_ty_fields fs vs = true -> sumN (map e_fixed_len fs) = fixed_size (cont_parts fs vs).
Proof.
  unfold fixed_size, cont_parts.
  induction fs as [|f fs IH]; intros [|x vs] Hv; try discriminate; [reflexivity|].
  rewrite has_ty_fields_cons in Hv. apply andb_prop in Hv as [Hx Hvs].
  cbn [combine map sumN fst snd]. rewrite <- (IH vs Hvs). f_equal.
  destruct (size_facts L f x Hx) as [_ Hl].
  destruct (e_is_fixed f) eqn:Ef.
  - symmetry. first [exact (Hl Ef) | exact (Hl eq_refl)].
  - now apply variable_fixed_len.
Qed.

Lemma to_elem_cont_parts fs : Forall spec_ok fs -> forall vs,
  has_ty_fields fs vs = true -> map to_elem (cont_parts fs vs) = spec_elems fs vs.
Proof.
  unfold cont_parts, spec_elems.
  induction 1 as [|f fs Hf _ IH]; intros [|x vs] Hv; try discriminate; [reflexivity|].
  rewrite has_ty_fields_cons in Hv. apply andb_prop in Hv as [Hx Hvs].
  cbn [combine map fst snd]. rewrite (IH vs Hvs). f_equal.
  unfold to_elem. cbn [fst snd]. now rewrite (Hf x Hx), is_variable_spec.
Qed.

Lemma spec_container (L : LeafFacts) d fs : Forall spec_ok fs -> spec_ok (TContainer d fs).
Proof.
  intros HF v Hv. destruct v; try discriminate. rewrite has_ty_container in Hv.
  rewrite enc_container, spec_enc_container.
  rewrite (fixed_size_cont_parts L fs vs Hv), <- (to_elem_cont_parts fs HF vs Hv).
  apply assemble_spec_series.
Qed.

Lemma spec_enc_map k v es :
  spec_enc (TMap k v) (VList es) =
  spec_series (map (fun e => (is_variable k || is_variable v,
                              match e with
                              | VCont [a; c] => spec_series [(is_variable k, spec_enc k a); (is_variable v, spec_enc v c)]
                              | _ => []
                              end)) es).
Proof. reflexivity. Qed.

Theorem spec_facts (L : LeafFacts) t : spec_ok t.
Proof.
  induction t using ty_ind'; intros v Hv.
  - destruct v; try discriminate. unfold enc. cbn [append spec_enc app]. apply le_bytes_spec_uint.
  - destruct v; try discriminate. destruct b; reflexivity.
  - destruct v; try discriminate. unfold enc. cbn [append spec_enc app]. apply le_bytes_spec_uint.
  - destruct v; try discriminate. reflexivity.
  - destruct v; try discriminate. reflexivity.
  - (* TList *) destruct v; try discriminate. cbn [has_ty] in Hv. rewrite enc_list. cbn [spec_enc]. now apply spec_seq.
  - destruct v; try discriminate. cbn [has_ty] in Hv. apply andb_prop in Hv as [Hv _].
    rewrite enc_set. cbn [spec_enc]. now apply spec_seq.
  - (* TMap *) destruct v as [| | |es| | | | | |]; try discriminate.
    cbn [has_ty] in Hv. apply andb_prop in Hv as [Hes _].
    assert (Hshape : Forall (fun e => exists a c, e = VCont [a; c]) es).
    { apply Forall_forall. intros e He. rewrite forallb_forall in Hes. specialize (Hes e He).
      destruct e; try discriminate. destruct vs as [|a [|c [|? ?]]]; try discriminate. eauto. }
    assert (Hty : forallb (has_ty (TContainer false [t1; t2])) es = true).
    { apply forallb_forall. intros e He. rewrite forallb_forall in Hes. specialize (Hes e He).
      destruct e; try discriminate. destruct vs as [|a [|c [|? ?]]]; try discriminate.
      rewrite has_ty_container. unfold has_ty_fields. cbn [length Nat.eqb combine forallb fst snd andb].
      now rewrite andb_true_r. }
    assert (Hc : spec_ok (TContainer false [t1; t2])).
    { apply (spec_container L). constructor; [exact IHt1|constructor; [exact IHt2|constructor]]. }
    rewrite (enc_map t1 t2 es Hshape), enc_list, (spec_seq _ es Hc Hty), spec_enc_map.
    f_equal. apply map_ext_in. intros e He. rewrite Forall_forall in Hshape.
    destruct (Hshape e He) as (a & c & ->). rewrite is_variable_container. cbn [existsb].
    rewrite orb_false_r. reflexivity.
  - (* TOption *) destruct v; try discriminate; [reflexivity|]. cbn [has_ty] in Hv.
    rewrite enc_option_some. cbn [spec_enc]. now rewrite (IHt v Hv).
  - now apply (spec_container L d fs H).
  - (* TUnion *) destruct v; try discriminate. rewrite has_ty_union in Hv. apply andb_prop in Hv as [_ Hv].
    unfold pick_has_ty in Hv. rewrite enc_union, spec_enc_union.
    destruct (nth_error vs i) as [t|] eqn:E; [|reflexivity]. rewrite Forall_forall in H.
    now rewrite (H t (nth_error_In _ _ E) v Hv).
  - (* TTag *) destruct v; try discriminate. cbn [has_ty] in Hv. apply andb_prop in Hv as [Hi Hn].
    unfold enc. cbn [append spec_enc app]. unfold spec_uint. cbn [seq map N.of_nat N.pow].
    rewrite N.div_1_r, N.mod_small; [reflexivity|]. apply Nat.ltb_lt in Hi. apply Nat.leb_le in Hn. lia.
  - (* TTransEnum *) destruct v; try discriminate. rewrite has_ty_trans in Hv. unfold pick_has_ty in Hv.
    rewrite enc_trans, spec_enc_trans. destruct (nth_error vs i) as [t|] eqn:E; [|reflexivity].
    rewrite Forall_forall in H. exact (H t (nth_error_In _ _ E) v Hv).
  - exact (IHt v Hv).
  - destruct v; try discriminate. cbn [has_ty] in Hv. apply N.eqb_eq in Hv.
    unfold enc. cbn [append spec_enc app]. now apply (lf_bv_spec L).
  - destruct v; try discriminate. cbn [has_ty] in Hv. apply N.leb_le in Hv.
    unfold enc. cbn [append spec_enc app]. now apply (lf_bl_spec L).
  - destruct v; try discriminate. cbn [has_ty] in Hv. apply andb_prop in Hv as [H0 H8].
    unfold enc. cbn [append spec_enc app]. apply (lf_bd_spec L); lia.
  - (* TLegacyOpt *) destruct v; try discriminate.
    + unfold enc. cbn [append spec_enc app]. apply encode_length_spec.
    + cbn [has_ty] in Hv. rewrite enc_legacy_some. cbn [spec_enc]. now rewrite encode_length_spec, (IHt v Hv).
Qed.
