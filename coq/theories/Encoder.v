(** * Encoder: [SszEncoder] as a state machine (ssz/src/encode.rs:87-134).

    An item is represented by the effect of its [ssz_append] on a buffer
    ([bytes -> bytes]), exactly what [append_parameterized] receives. *)
From SSZ Require Export Offsets.

Record enc_state := { e_offset : N; e_buf : bytes; e_var : bytes }.

(** [SszEncoder::container(buf, num_fixed_bytes)] *)
Definition enc_container (buf : bytes) (num_fixed_bytes : N) : enc_state :=
  {| e_offset := num_fixed_bytes; e_buf := buf; e_var := [] |}.

(** [append_parameterized(is_ssz_fixed_len, ssz_append)] *)
Definition enc_append (st : enc_state) (is_fixed : bool) (app : bytes -> bytes) : enc_state :=
  if is_fixed then
    {| e_offset := e_offset st; e_buf := app (e_buf st); e_var := e_var st |}
  else
    {| e_offset := e_offset st;
       e_buf := e_buf st ++ encode_length (e_offset st + len (e_var st));
       e_var := app (e_var st) |}.

(** [finalize]: [buf.append(&mut variable_bytes)] *)
Definition enc_finalize (st : enc_state) : bytes := e_buf st ++ e_var st.

(** A whole run: container, appends in order, finalize. *)
Definition enc_run (buf : bytes) (num_fixed_bytes : N) (items : list (bool * (bytes -> bytes))) : bytes :=
  enc_finalize
    (fold_left (fun st it => enc_append st (fst it) (snd it)) items (enc_container buf num_fixed_bytes)).
