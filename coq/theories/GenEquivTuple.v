(** * GenEquivTuple: the tuple impls, which [impl_encode_for_tuples!] / [impl_decode_for_tuples!] write by
    macro repetition.  rustc's expansion of the crate itself is translated (arities 2, 3, 4) and each
    function is proved equal to the model's container codec [TContainer false [..]] -- for every
    component type expression, every value and every byte string: the theorems are generic in the
    component types, whose trait impls enter as dictionaries instantiated with the model's own
    [append] / [bytes_len] / [dec] (the model's recursion over [ty] is the source's trait resolution). *)
From SSZ Require Import Base RustSem Offsets Encoder Builder Types Codec CodecUnfold BaseFacts OffsetsFacts AppendFacts MetaFacts
     Generated GenEquiv GenEquivDec GenEquivEnc GenProps GeneratedDerive GenEquivDerive GenEquivDerive2.
From Coq Require Import ZArith ZifyN ZifyBool ZifyNat Lia.
Open Scope N_scope.
Ltac Zify.zify_post_hook ::= Z.div_mod_to_equations.

(** ** metadata *)
Theorem gen_tuple2_metadata tA tB :
  e_fixed_len tA + e_fixed_len tB <= usize_max -> d_fixed_len tA + d_fixed_len tB <= usize_max ->
  GenD.tuple2_enc_is_ssz_fixed_len (e_is_fixed tA) (e_is_fixed tB) = Ok (e_is_fixed (TContainer false [tA; tB])) /\
  GenD.tuple2_enc_ssz_fixed_len (e_is_fixed tA) (e_fixed_len tA) (e_is_fixed tB) (e_fixed_len tB) = Ok (e_fixed_len (TContainer false [tA; tB])) /\
  GenD.tuple2_dec_is_ssz_fixed_len (d_is_fixed tA) (d_is_fixed tB) = Ok (d_is_fixed (TContainer false [tA; tB])) /\
  GenD.tuple2_dec_ssz_fixed_len (d_is_fixed tA) (d_fixed_len tA) (d_is_fixed tB) (d_fixed_len tB) = Ok (d_fixed_len (TContainer false [tA; tB])).
Proof.
  intros He Hd. rewrite e_is_fixed_container, d_is_fixed_container, e_fixed_len_container, d_fixed_len_container.
  cbn [forallb map sumN]. unfold GenD.tuple2_enc_ssz_fixed_len, GenD.tuple2_dec_ssz_fixed_len,
    GenD.tuple2_enc_is_ssz_fixed_len, GenD.tuple2_dec_is_ssz_fixed_len. cbn [bind].
  rewrite gen_BYTES_PER_LENGTH_OFFSET. repeat split.
  - destruct (e_is_fixed tA), (e_is_fixed tB); reflexivity.
  - destruct (e_is_fixed tA), (e_is_fixed tB); cbn [andb]; try reflexivity.
    unfold usize_add. destruct (e_fixed_len tA + e_fixed_len tB <=? usize_max) eqn:E; [|apply N.leb_gt in E; lia]. cbn [bind].
    destruct (e_fixed_len tA + e_fixed_len tB + 0 <=? usize_max) eqn:E2; [|apply N.leb_gt in E2; lia]. f_equal. lia.
  - destruct (d_is_fixed tA), (d_is_fixed tB); reflexivity.
  - destruct (d_is_fixed tA), (d_is_fixed tB); cbn [andb]; try reflexivity.
    unfold usize_add. destruct (d_fixed_len tA + d_fixed_len tB <=? usize_max) eqn:E; [|apply N.leb_gt in E; lia]. cbn [bind].
    destruct (d_fixed_len tA + d_fixed_len tB + 0 <=? usize_max) eqn:E2; [|apply N.leb_gt in E2; lia]. f_equal. lia.
Qed.

(** ** encoding: each [encoder.append(&self.i)] is one [enc_append] of the model *)
Lemma append_item_bind {A B} f (app : A -> bytes -> bytes) s x (k : Gen.SszEncoder -> outcome B) (k' : enc_state -> outcome B) :
  Gen.SszEncoder_offset s + len (Gen.SszEncoder_variable_bytes s) <= usize_max ->
  (forall s', k s' = k' (enc_abs s')) ->
  (do st <- Gen.encoder_append_item f (fun a b => Ok (app a b)) s x; k st) = k' (enc_append (enc_abs s) f (app x)).
Proof.
  intros Hfit Hk. pose proof (gen_encoder_append_item_eq f app s x Hfit) as E.
  destruct (Gen.encoder_append_item f _ s x) as [s'| |]; cbn [omap bind] in *; try discriminate.
  rewrite Hk. congruence.
Qed.

Lemma finalize_bind s :
  (do st <- Gen.encoder_finalize s; Ok (Gen.SszEncoder_buf st)) = Ok (enc_finalize (enc_abs s)).
Proof. destruct s; reflexivity. Qed.

Lemma e_var_append_len st f (app : bytes -> bytes) n :
  (forall b, len (app b) = len b + n) -> len (e_var (enc_append st f app)) <= len (e_var st) + n.
Proof. intro H. unfold enc_append. destruct f; cbn [e_var]; [lia|]. rewrite H. lia. Qed.

Lemma len_append t x b : len (append t x b) = len b + len (enc t x).
Proof. rewrite append_spec, len_app. reflexivity. Qed.

Theorem gen_tuple2_ssz_append tA tB a b buf :
  e_fixed_len tA + e_fixed_len tB + len (enc tA a) <= usize_max ->
  GenD.tuple2_ssz_append (e_is_fixed tA) (e_fixed_len tA) (app_of tA) (e_is_fixed tB) (e_fixed_len tB) (app_of tB) (a, b) buf
  = Ok (append (TContainer false [tA; tB]) (VCont [a; b]) buf).
Proof.
  intro H. unfold GenD.tuple2_ssz_append, app_of. cbn [fst snd].
  unfold usize_add at 1. destruct (e_fixed_len tA + e_fixed_len tB <=? usize_max) eqn:E1; [|apply N.leb_gt in E1; lia]. cbn [bind].
  unfold usize_add at 1. destruct (e_fixed_len tA + e_fixed_len tB + 0 <=? usize_max) eqn:E2; [|apply N.leb_gt in E2; lia]. cbn [bind].
  unfold Gen.encoder_container. cbn [bind].
  set (s0 := {| Gen.SszEncoder_offset := e_fixed_len tA + e_fixed_len tB + 0; Gen.SszEncoder_buf := buf; Gen.SszEncoder_variable_bytes := [] |}).
  rewrite (append_item_bind (e_is_fixed tA) (append tA) s0 a _
    (fun st => do st5 <- Gen.encoder_append_item (e_is_fixed tB) (fun x b0 => Ok (append tB x b0)) {| Gen.SszEncoder_offset := e_offset st; Gen.SszEncoder_buf := e_buf st; Gen.SszEncoder_variable_bytes := e_var st |} b;
               do st6 <- Gen.encoder_finalize st5; Ok (Gen.SszEncoder_buf st6))).
  2:{ unfold s0. cbn [Gen.SszEncoder_offset Gen.SszEncoder_variable_bytes]. unfold len. cbn [length]. lia. }
  2:{ intros [o bf vb]. reflexivity. }
  set (st1 := enc_append (enc_abs s0) (e_is_fixed tA) (append tA a)).
  rewrite (append_item_bind (e_is_fixed tB) (append tB) _ b _ (fun st => Ok (enc_finalize st))).
  2:{ cbn [Gen.SszEncoder_offset Gen.SszEncoder_variable_bytes].
      pose proof (e_var_append_len (enc_abs s0) (e_is_fixed tA) (append tA a) (len (enc tA a)) (len_append tA a)) as L.
      fold st1 in L. assert (e_offset st1 = e_fixed_len tA + e_fixed_len tB + 0) by (unfold st1, enc_append; destruct (e_is_fixed tA); reflexivity).
      unfold s0, enc_abs in L. cbn [e_var Gen.SszEncoder_variable_bytes] in L. unfold len at 2 in L. cbn [length] in L. lia. }
  2:{ intros s'. apply finalize_bind. }
  f_equal. rewrite append_container. unfold enc_run, cont_items. cbn [combine map fold_left fst snd sumN].
  replace (e_fixed_len tA + (e_fixed_len tB + 0)) with (e_fixed_len tA + e_fixed_len tB + 0) by lia.
  change (Encoder.enc_container buf (e_fixed_len tA + e_fixed_len tB + 0)) with (enc_abs s0). fold st1.
  destruct st1 as [o1 b1 v1]. reflexivity.
Qed.

Theorem gen_tuple2_ssz_bytes_len tA tB a b :
  e_fixed_len tA + e_fixed_len tB <= usize_max ->
  field_len tA a + field_len tB b <= usize_max ->
  GenD.tuple2_ssz_bytes_len (e_is_fixed tA) (e_fixed_len tA) (len_of tA) (e_is_fixed tB) (e_fixed_len tB) (len_of tB) (a, b)
  = Ok (bytes_len (TContainer false [tA; tB]) (VCont [a; b])).
Proof.
  intros Hf H. unfold GenD.tuple2_ssz_bytes_len, len_of. cbn [fst snd].
  rewrite bytes_len_container. cbn [forallb combine map sumN fst snd].
  destruct (gen_tuple2_metadata tA tB Hf) as (M1 & M2 & _).
  { (* the decode-side bound is not needed here: use the encode-side equalities only *)
    rewrite <- !MetaFacts.fixed_len_agree. exact Hf. }
  rewrite M1. cbn [bind]. rewrite e_is_fixed_container. cbn [forallb].
  destruct (e_is_fixed tA && (e_is_fixed tB && true)) eqn:EF.
  - rewrite M2, e_fixed_len_container. cbn [map sumN forallb]. rewrite EF. reflexivity.
  - rewrite gen_BYTES_PER_LENGTH_OFFSET. unfold field_len in *.
    destruct (e_is_fixed tA), (e_is_fixed tB); cbn [andb] in EF; try discriminate; cbn [bind];
      unfold usize_add, BYTES_PER_LENGTH_OFFSET in *;
      repeat (match goal with |- context [?x <=? usize_max] => let E := fresh "E" in destruct (x <=? usize_max) eqn:E; [|apply N.leb_gt in E; lia]; cbn [bind] end);
      f_equal; lia.
Qed.

(** ** decoding: registrations, build, one [decode_next] per component *)
Ltac dec_step0 ITS T :=
  let E := fresh "E" in let x := fresh "x" in let its1 := fresh "its" in let y := fresh "y" in let its2 := fresh "itm" in
  let E1 := fresh "E1" in let E2 := fresh "E2" in
  pose proof (gen_decoder_decode_next_eq ITS (dec T)) as E;
  destruct (Gen.decoder_decode_next (dec T) {| Gen.SszDecoder_items := ITS |}) as [[x [its1]]| |];
  destruct (decode_next ITS (dec T)) as [[y its2]| |];
  cbn [omap bind fst snd] in *; close2;
  apply Ok_inj_pair in E; destruct E as (E1 & E2); cbn [Gen.SszDecoder_items] in *; subst.

Theorem gen_tuple2_from_ssz_bytes tA tB bs :
  omap (fun p : val * val => VCont [fst p; snd p])
    (GenD.tuple2_from_ssz_bytes (d_is_fixed tA) (d_fixed_len tA) (dec tA) (d_is_fixed tB) (d_fixed_len tB) (dec tB) bs)
  = dec (TContainer false [tA; tB]) bs.
Proof.
  unfold GenD.tuple2_from_ssz_bytes. unfold Gen.builder_new. cbn [bind].
  rewrite dec_container. cbn [andb]. unfold regs_of. cbn [map]. unfold builder_build. cbn [register_all].
  set (s0 := {| Gen.SszDecoderBuilder_bytes := bs; Gen.SszDecoderBuilder_items := []; Gen.SszDecoderBuilder_offsets := []; Gen.SszDecoderBuilder_items_index := 0 |}).
  change builder_new with (st_abs s0).
  replace bs with (Gen.SszDecoderBuilder_bytes s0) by reflexivity.
  reg_step2 s0 (d_is_fixed tA) (d_fixed_len tA). rewrite <- Es, <- Eb.
  reg_step2 s (d_is_fixed tB) (d_fixed_len tB). rewrite <- Es0, <- Eb0.
  build_step s1.
  cbn [decode_all].
  dec_step0 its tA. dec_step0 itm tB.
  reflexivity.
Qed.

(** ** arity 3 *)
Theorem gen_tuple3_from_ssz_bytes tA tB tC bs :
  omap (fun p : val * val * val => VCont [fst (fst p); snd (fst p); snd p])
    (GenD.tuple3_from_ssz_bytes (d_is_fixed tA) (d_fixed_len tA) (dec tA) (d_is_fixed tB) (d_fixed_len tB) (dec tB)
       (d_is_fixed tC) (d_fixed_len tC) (dec tC) bs)
  = dec (TContainer false [tA; tB; tC]) bs.
Proof.
  unfold GenD.tuple3_from_ssz_bytes. unfold Gen.builder_new. cbn [bind].
  rewrite dec_container. cbn [andb]. unfold regs_of. cbn [map]. unfold builder_build. cbn [register_all].
  set (s0 := {| Gen.SszDecoderBuilder_bytes := bs; Gen.SszDecoderBuilder_items := []; Gen.SszDecoderBuilder_offsets := []; Gen.SszDecoderBuilder_items_index := 0 |}).
  change builder_new with (st_abs s0).
  replace bs with (Gen.SszDecoderBuilder_bytes s0) by reflexivity.
  reg_step2 s0 (d_is_fixed tA) (d_fixed_len tA). rewrite <- Es, <- Eb.
  reg_step2 s (d_is_fixed tB) (d_fixed_len tB). rewrite <- Es0, <- Eb0.
  reg_step2 s1 (d_is_fixed tC) (d_fixed_len tC). rewrite <- Es1, <- Eb1.
  build_step s2.
  cbn [decode_all].
  dec_step0 its tA. dec_step0 itm tB. dec_step0 itm0 tC.
  reflexivity.
Qed.

Theorem gen_tuple4_from_ssz_bytes tA tB tC tD bs :
  omap (fun p : val * val * val * val => VCont [fst (fst (fst p)); snd (fst (fst p)); snd (fst p); snd p])
    (GenD.tuple4_from_ssz_bytes (d_is_fixed tA) (d_fixed_len tA) (dec tA) (d_is_fixed tB) (d_fixed_len tB) (dec tB)
       (d_is_fixed tC) (d_fixed_len tC) (dec tC) (d_is_fixed tD) (d_fixed_len tD) (dec tD) bs)
  = dec (TContainer false [tA; tB; tC; tD]) bs.
Proof.
  unfold GenD.tuple4_from_ssz_bytes. unfold Gen.builder_new. cbn [bind].
  rewrite dec_container. cbn [andb]. unfold regs_of. cbn [map]. unfold builder_build. cbn [register_all].
  set (s0 := {| Gen.SszDecoderBuilder_bytes := bs; Gen.SszDecoderBuilder_items := []; Gen.SszDecoderBuilder_offsets := []; Gen.SszDecoderBuilder_items_index := 0 |}).
  change builder_new with (st_abs s0).
  replace bs with (Gen.SszDecoderBuilder_bytes s0) by reflexivity.
  reg_step2 s0 (d_is_fixed tA) (d_fixed_len tA). rewrite <- Es, <- Eb.
  reg_step2 s (d_is_fixed tB) (d_fixed_len tB). rewrite <- Es0, <- Eb0.
  reg_step2 s1 (d_is_fixed tC) (d_fixed_len tC). rewrite <- Es1, <- Eb1.
  reg_step2 s2 (d_is_fixed tD) (d_fixed_len tD). rewrite <- Es2, <- Eb2.
  build_step s3.
  cbn [decode_all].
  dec_step0 its tA. dec_step0 itm tB. dec_step0 itm0 tC. dec_step0 itm1 tD.
  reflexivity.
Qed.

(** the same step without a continuation: the new encoder exists and abstracts to the model's *)
Lemma append_item_ok f (app : val -> bytes -> bytes) s x :
  e_offset (enc_abs s) + len (e_var (enc_abs s)) <= usize_max ->
  exists s', Gen.encoder_append_item f (fun a b => Ok (app a b)) s x = Ok s' /\ enc_abs s' = enc_append (enc_abs s) f (app x).
Proof.
  intro Hfit. pose proof (gen_encoder_append_item_eq f app s x Hfit) as E.
  destruct (Gen.encoder_append_item f _ s x) as [s'| |]; cbn [omap] in E; try discriminate.
  exists s'. split; [reflexivity|]. congruence.
Qed.

Lemma enc_append_offset st f app : e_offset (enc_append st f app) = e_offset st.
Proof. unfold enc_append. destruct f; reflexivity. Qed.

Lemma enc_append_var_len st f t x : len (e_var (enc_append st f (append t x))) <= len (e_var st) + len (enc t x).
Proof. apply e_var_append_len. apply len_append. Qed.

Theorem gen_tuple3_ssz_append tA tB tC a b c buf :
  e_fixed_len tA + e_fixed_len tB + e_fixed_len tC + len (enc tA a) + len (enc tB b) <= usize_max ->
  GenD.tuple3_ssz_append (e_is_fixed tA) (e_fixed_len tA) (app_of tA) (e_is_fixed tB) (e_fixed_len tB) (app_of tB)
    (e_is_fixed tC) (e_fixed_len tC) (app_of tC) (a, b, c) buf
  = Ok (append (TContainer false [tA; tB; tC]) (VCont [a; b; c]) buf).
Proof.
  intro H. unfold GenD.tuple3_ssz_append, app_of. cbn [fst snd].
  unfold usize_add at 1. destruct (e_fixed_len tA + e_fixed_len tB <=? usize_max) eqn:E1; [|apply N.leb_gt in E1; lia]. cbn [bind].
  unfold usize_add at 1. destruct (e_fixed_len tA + e_fixed_len tB + e_fixed_len tC <=? usize_max) eqn:E2; [|apply N.leb_gt in E2; lia]. cbn [bind].
  unfold usize_add at 1. destruct (e_fixed_len tA + e_fixed_len tB + e_fixed_len tC + 0 <=? usize_max) eqn:E3; [|apply N.leb_gt in E3; lia]. cbn [bind].
  unfold Gen.encoder_container. cbn [bind].
  set (F := e_fixed_len tA + e_fixed_len tB + e_fixed_len tC + 0).
  set (s0 := {| Gen.SszEncoder_offset := F; Gen.SszEncoder_buf := buf; Gen.SszEncoder_variable_bytes := [] |}).
  assert (V0 : len (e_var (enc_abs s0)) = 0) by reflexivity. assert (O0 : e_offset (enc_abs s0) = F) by reflexivity.
  destruct (append_item_ok (e_is_fixed tA) (append tA) s0 a) as (s1 & -> & A1); [lia|]. cbn [bind].
  pose proof (enc_append_var_len (enc_abs s0) (e_is_fixed tA) tA a) as V1. rewrite <- A1 in V1.
  assert (O1 : e_offset (enc_abs s1) = F) by (rewrite A1, enc_append_offset; exact O0).
  destruct (append_item_ok (e_is_fixed tB) (append tB) s1 b) as (s2 & -> & A2); [unfold F in *; lia|]. cbn [bind].
  pose proof (enc_append_var_len (enc_abs s1) (e_is_fixed tB) tB b) as V2. rewrite <- A2 in V2.
  assert (O2 : e_offset (enc_abs s2) = F) by (rewrite A2, enc_append_offset; exact O1).
  destruct (append_item_ok (e_is_fixed tC) (append tC) s2 c) as (s3 & -> & A3); [unfold F in *; lia|]. cbn [bind].
  rewrite finalize_bind, A3, A2, A1. f_equal.
  rewrite append_container. unfold enc_run, cont_items. cbn [combine map fold_left fst snd sumN].
  replace (e_fixed_len tA + (e_fixed_len tB + (e_fixed_len tC + 0))) with F by (unfold F; lia).
  reflexivity.
Qed.

Theorem gen_tuple4_ssz_append tA tB tC tD a b c d buf :
  e_fixed_len tA + e_fixed_len tB + e_fixed_len tC + e_fixed_len tD + len (enc tA a) + len (enc tB b) + len (enc tC c) <= usize_max ->
  GenD.tuple4_ssz_append (e_is_fixed tA) (e_fixed_len tA) (app_of tA) (e_is_fixed tB) (e_fixed_len tB) (app_of tB)
    (e_is_fixed tC) (e_fixed_len tC) (app_of tC) (e_is_fixed tD) (e_fixed_len tD) (app_of tD) (a, b, c, d) buf
  = Ok (append (TContainer false [tA; tB; tC; tD]) (VCont [a; b; c; d]) buf).
Proof.
  intro H. unfold GenD.tuple4_ssz_append, app_of. cbn [fst snd].
  unfold usize_add at 1. destruct (e_fixed_len tA + e_fixed_len tB <=? usize_max) eqn:E1; [|apply N.leb_gt in E1; lia]. cbn [bind].
  unfold usize_add at 1. destruct (e_fixed_len tA + e_fixed_len tB + e_fixed_len tC <=? usize_max) eqn:E2; [|apply N.leb_gt in E2; lia]. cbn [bind].
  unfold usize_add at 1. destruct (e_fixed_len tA + e_fixed_len tB + e_fixed_len tC + e_fixed_len tD <=? usize_max) eqn:E3; [|apply N.leb_gt in E3; lia]. cbn [bind].
  unfold usize_add at 1. destruct (e_fixed_len tA + e_fixed_len tB + e_fixed_len tC + e_fixed_len tD + 0 <=? usize_max) eqn:E4; [|apply N.leb_gt in E4; lia]. cbn [bind].
  unfold Gen.encoder_container. cbn [bind].
  set (F := e_fixed_len tA + e_fixed_len tB + e_fixed_len tC + e_fixed_len tD + 0).
  set (s0 := {| Gen.SszEncoder_offset := F; Gen.SszEncoder_buf := buf; Gen.SszEncoder_variable_bytes := [] |}).
  assert (V0 : len (e_var (enc_abs s0)) = 0) by reflexivity. assert (O0 : e_offset (enc_abs s0) = F) by reflexivity.
  destruct (append_item_ok (e_is_fixed tA) (append tA) s0 a) as (s1 & -> & A1); [lia|]. cbn [bind].
  pose proof (enc_append_var_len (enc_abs s0) (e_is_fixed tA) tA a) as V1. rewrite <- A1 in V1.
  assert (O1 : e_offset (enc_abs s1) = F) by (rewrite A1, enc_append_offset; exact O0).
  destruct (append_item_ok (e_is_fixed tB) (append tB) s1 b) as (s2 & -> & A2); [unfold F in *; lia|]. cbn [bind].
  pose proof (enc_append_var_len (enc_abs s1) (e_is_fixed tB) tB b) as V2. rewrite <- A2 in V2.
  assert (O2 : e_offset (enc_abs s2) = F) by (rewrite A2, enc_append_offset; exact O1).
  destruct (append_item_ok (e_is_fixed tC) (append tC) s2 c) as (s3 & -> & A3); [unfold F in *; lia|]. cbn [bind].
  pose proof (enc_append_var_len (enc_abs s2) (e_is_fixed tC) tC c) as V3. rewrite <- A3 in V3.
  assert (O3 : e_offset (enc_abs s3) = F) by (rewrite A3, enc_append_offset; exact O2).
  destruct (append_item_ok (e_is_fixed tD) (append tD) s3 d) as (s4 & -> & A4); [unfold F in *; lia|]. cbn [bind].
  rewrite finalize_bind, A4, A3, A2, A1. f_equal.
  rewrite append_container. unfold enc_run, cont_items. cbn [combine map fold_left fst snd sumN].
  replace (e_fixed_len tA + (e_fixed_len tB + (e_fixed_len tC + (e_fixed_len tD + 0)))) with F by (unfold F; lia).
  reflexivity.
Qed.

(** sizes and metadata at arity 3 *)
Ltac fits := repeat (match goal with |- context [?x <=? usize_max] => let E := fresh "E" in destruct (x <=? usize_max) eqn:E; [|apply N.leb_gt in E; lia]; cbn [bind] end).

Theorem gen_tuple3_metadata tA tB tC :
  e_fixed_len tA + e_fixed_len tB + e_fixed_len tC <= usize_max ->
  GenD.tuple3_enc_is_ssz_fixed_len (e_is_fixed tA) (e_is_fixed tB) (e_is_fixed tC) = Ok (e_is_fixed (TContainer false [tA; tB; tC])) /\
  GenD.tuple3_enc_ssz_fixed_len (e_is_fixed tA) (e_fixed_len tA) (e_is_fixed tB) (e_fixed_len tB) (e_is_fixed tC) (e_fixed_len tC)
    = Ok (e_fixed_len (TContainer false [tA; tB; tC])) /\
  GenD.tuple3_dec_is_ssz_fixed_len (d_is_fixed tA) (d_is_fixed tB) (d_is_fixed tC) = Ok (d_is_fixed (TContainer false [tA; tB; tC])) /\
  GenD.tuple3_dec_ssz_fixed_len (d_is_fixed tA) (d_fixed_len tA) (d_is_fixed tB) (d_fixed_len tB) (d_is_fixed tC) (d_fixed_len tC)
    = Ok (d_fixed_len (TContainer false [tA; tB; tC])).
Proof.
  intros He. assert (Hd : d_fixed_len tA + d_fixed_len tB + d_fixed_len tC <= usize_max) by (rewrite <- !fixed_len_agree; exact He).
  rewrite e_is_fixed_container, d_is_fixed_container, e_fixed_len_container, d_fixed_len_container.
  cbn [forallb map sumN]. unfold GenD.tuple3_enc_ssz_fixed_len, GenD.tuple3_dec_ssz_fixed_len,
    GenD.tuple3_enc_is_ssz_fixed_len, GenD.tuple3_dec_is_ssz_fixed_len. cbn [bind].
  rewrite gen_BYTES_PER_LENGTH_OFFSET. repeat split.
  - destruct (e_is_fixed tA), (e_is_fixed tB), (e_is_fixed tC); reflexivity.
  - destruct (e_is_fixed tA), (e_is_fixed tB), (e_is_fixed tC); cbn [andb]; try reflexivity.
    unfold usize_add. fits. f_equal. lia.
  - destruct (d_is_fixed tA), (d_is_fixed tB), (d_is_fixed tC); reflexivity.
  - destruct (d_is_fixed tA), (d_is_fixed tB), (d_is_fixed tC); cbn [andb]; try reflexivity.
    unfold usize_add. fits. f_equal. lia.
Qed.

Theorem gen_tuple3_ssz_bytes_len tA tB tC a b c :
  e_fixed_len tA + e_fixed_len tB + e_fixed_len tC <= usize_max ->
  field_len tA a + field_len tB b + field_len tC c <= usize_max ->
  GenD.tuple3_ssz_bytes_len (e_is_fixed tA) (e_fixed_len tA) (len_of tA) (e_is_fixed tB) (e_fixed_len tB) (len_of tB)
    (e_is_fixed tC) (e_fixed_len tC) (len_of tC) (a, b, c)
  = Ok (bytes_len (TContainer false [tA; tB; tC]) (VCont [a; b; c])).
Proof.
  intros Hf H. unfold GenD.tuple3_ssz_bytes_len, len_of. cbn [fst snd].
  rewrite bytes_len_container. cbn [forallb combine map sumN fst snd].
  destruct (gen_tuple3_metadata tA tB tC Hf) as (M1 & M2 & _).
  rewrite M1. cbn [bind]. rewrite e_is_fixed_container. cbn [forallb].
  destruct (e_is_fixed tA && (e_is_fixed tB && (e_is_fixed tC && true))) eqn:EF.
  - rewrite M2, e_fixed_len_container. cbn [map sumN forallb]. rewrite EF. reflexivity.
  - rewrite gen_BYTES_PER_LENGTH_OFFSET. unfold field_len in *.
    destruct (e_is_fixed tA), (e_is_fixed tB), (e_is_fixed tC); cbn [andb] in EF; try discriminate; cbn [bind];
      unfold usize_add, BYTES_PER_LENGTH_OFFSET in *; fits; f_equal; lia.
Qed.

Theorem gen_tuple4_metadata tA tB tC tD :
  e_fixed_len tA + e_fixed_len tB + e_fixed_len tC + e_fixed_len tD <= usize_max ->
  GenD.tuple4_enc_is_ssz_fixed_len (e_is_fixed tA) (e_is_fixed tB) (e_is_fixed tC) (e_is_fixed tD) = Ok (e_is_fixed (TContainer false [tA; tB; tC; tD])) /\
  GenD.tuple4_enc_ssz_fixed_len (e_is_fixed tA) (e_fixed_len tA) (e_is_fixed tB) (e_fixed_len tB) (e_is_fixed tC) (e_fixed_len tC) (e_is_fixed tD) (e_fixed_len tD)
    = Ok (e_fixed_len (TContainer false [tA; tB; tC; tD])) /\
  GenD.tuple4_dec_is_ssz_fixed_len (d_is_fixed tA) (d_is_fixed tB) (d_is_fixed tC) (d_is_fixed tD) = Ok (d_is_fixed (TContainer false [tA; tB; tC; tD])) /\
  GenD.tuple4_dec_ssz_fixed_len (d_is_fixed tA) (d_fixed_len tA) (d_is_fixed tB) (d_fixed_len tB) (d_is_fixed tC) (d_fixed_len tC) (d_is_fixed tD) (d_fixed_len tD)
    = Ok (d_fixed_len (TContainer false [tA; tB; tC; tD])).
Proof.
  intros He. assert (Hd : d_fixed_len tA + d_fixed_len tB + d_fixed_len tC + d_fixed_len tD <= usize_max) by (rewrite <- !fixed_len_agree; exact He).
  rewrite e_is_fixed_container, d_is_fixed_container, e_fixed_len_container, d_fixed_len_container.
  cbn [forallb map sumN]. unfold GenD.tuple4_enc_ssz_fixed_len, GenD.tuple4_dec_ssz_fixed_len,
    GenD.tuple4_enc_is_ssz_fixed_len, GenD.tuple4_dec_is_ssz_fixed_len. cbn [bind].
  rewrite gen_BYTES_PER_LENGTH_OFFSET. repeat split.
  - destruct (e_is_fixed tA), (e_is_fixed tB), (e_is_fixed tC), (e_is_fixed tD); reflexivity.
  - destruct (e_is_fixed tA), (e_is_fixed tB), (e_is_fixed tC), (e_is_fixed tD); cbn [andb]; try reflexivity.
    unfold usize_add. fits. f_equal. lia.
  - destruct (d_is_fixed tA), (d_is_fixed tB), (d_is_fixed tC), (d_is_fixed tD); reflexivity.
  - destruct (d_is_fixed tA), (d_is_fixed tB), (d_is_fixed tC), (d_is_fixed tD); cbn [andb]; try reflexivity.
    unfold usize_add. fits. f_equal. lia.
Qed.

Theorem gen_tuple4_ssz_bytes_len tA tB tC tD a b c d :
  e_fixed_len tA + e_fixed_len tB + e_fixed_len tC + e_fixed_len tD <= usize_max ->
  field_len tA a + field_len tB b + field_len tC c + field_len tD d <= usize_max ->
  GenD.tuple4_ssz_bytes_len (e_is_fixed tA) (e_fixed_len tA) (len_of tA) (e_is_fixed tB) (e_fixed_len tB) (len_of tB)
    (e_is_fixed tC) (e_fixed_len tC) (len_of tC) (e_is_fixed tD) (e_fixed_len tD) (len_of tD) (a, b, c, d)
  = Ok (bytes_len (TContainer false [tA; tB; tC; tD]) (VCont [a; b; c; d])).
Proof.
  intros Hf H. unfold GenD.tuple4_ssz_bytes_len, len_of. cbn [fst snd].
  rewrite bytes_len_container. cbn [forallb combine map sumN fst snd].
  destruct (gen_tuple4_metadata tA tB tC tD Hf) as (M1 & M2 & _).
  rewrite M1. cbn [bind]. rewrite e_is_fixed_container. cbn [forallb].
  destruct (e_is_fixed tA && (e_is_fixed tB && (e_is_fixed tC && (e_is_fixed tD && true)))) eqn:EF.
  - rewrite M2, e_fixed_len_container. cbn [map sumN forallb]. rewrite EF. reflexivity.
  - rewrite gen_BYTES_PER_LENGTH_OFFSET. unfold field_len in *.
    destruct (e_is_fixed tA), (e_is_fixed tB), (e_is_fixed tC), (e_is_fixed tD); cbn [andb] in EF; try discriminate; cbn [bind];
      unfold usize_add, BYTES_PER_LENGTH_OFFSET in *; fits; f_equal; lia.
Qed.

Print Assumptions gen_tuple2_metadata.
Print Assumptions gen_tuple2_ssz_append.
Print Assumptions gen_tuple2_ssz_bytes_len.
Print Assumptions gen_tuple2_from_ssz_bytes.
Print Assumptions gen_tuple3_metadata.
Print Assumptions gen_tuple3_ssz_append.
Print Assumptions gen_tuple3_ssz_bytes_len.
Print Assumptions gen_tuple3_from_ssz_bytes.
Print Assumptions gen_tuple4_ssz_append.
Print Assumptions gen_tuple4_from_ssz_bytes.
Print Assumptions gen_tuple4_metadata.
Print Assumptions gen_tuple4_ssz_bytes_len.
