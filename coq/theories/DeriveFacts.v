(** * What the derive macros accept and which schema they implement (C08). *)
From SSZ Require Import Base Types Derive.
From Coq Require Import ZArith ZifyN ZifyNat ZifyBool.
Open Scope N_scope.

(** Definitions without an SSZ meaning, and the macro's other documented shape requirements. *)
Definition rejected (d : defn) : Prop :=
  match d with
  | DStruct enum_attr b named fs =>
      enum_attr = true \/ attrs_ok fs = false \/ b = SOther \/
      (b = SContainer /\ named = false /\ fs <> []) \/
      (b = STransparent /\ length (filter (fun f => negb (f_skip_de f)) fs) <> 1%nat)
  | DEnum struct_attr b vs =>
      struct_attr = true \/ b = EAbsent \/ b = EOther \/
      (b = EUnion /\ (Exists (fun v => length v <> 1%nat) vs \/ vs = [] \/ (128 < length vs)%nat)) \/
      (b = ETag /\ (Exists (fun v : list ty => v <> []) vs \/ vs = [] \/ (128 < length vs)%nat)) \/
      (b = ETransparent /\ Exists (fun v => length v <> 1%nat) vs)
  end.


(** ** Auxiliary characterisations *)

Lemma selectors_ok_iff n : selectors_ok n = true <-> (1 <= n <= 128)%nat.
Proof.
  unfold selectors_ok. rewrite Bool.andb_true_iff, !Nat.leb_le. tauto.
Qed.

Lemma selectors_ok_false_iff n : selectors_ok n = false <-> (n = 0 \/ 128 < n)%nat.
Proof.
  destruct (selectors_ok n) eqn:E.
  - apply selectors_ok_iff in E. split; [discriminate | lia].
  - split; [intros _ | reflexivity].
    destruct (Nat.eq_dec n 0) as [|Hn]; [now left|].
    destruct (Nat.le_gt_cases n 128) as [Hle|Hgt]; [|now right].
    assert (selectors_ok n = true) as H by (apply selectors_ok_iff; lia).
    congruence.
Qed.

Lemma all_some_one_field_some vs ts :
  all_some (map one_field vs) = Some ts <-> vs = map (fun t => [t]) ts.
Proof.
  revert ts. induction vs as [|v vs IH]; intros ts; simpl.
  - split; intros H.
    + injection H as <-. reflexivity.
    + destruct ts; [reflexivity | discriminate].
  - destruct v as [|t [|t' v']]; simpl.
    + split; [discriminate | destruct ts; discriminate].
    + destruct (all_some (map one_field vs)) as [xs|] eqn:E.
      * split; intros H.
        -- injection H as <-. simpl. f_equal. apply IH. reflexivity.
        -- destruct ts as [|t0 ts]; [discriminate|]. simpl in H.
           injection H as -> Hvs. apply IH in Hvs. congruence.
      * split; [discriminate|]. intros H.
        destruct ts as [|t0 ts]; [discriminate|]. simpl in H.
        injection H as -> Hvs. apply IH in Hvs. discriminate.
    + split; [discriminate|]. destruct ts; discriminate.
Qed.

Lemma all_some_one_field_length vs ts :
  all_some (map one_field vs) = Some ts -> length ts = length vs.
Proof.
  intros H. apply all_some_one_field_some in H. subst. now rewrite map_length.
Qed.

Lemma all_some_one_field_none vs :
  all_some (map one_field vs) = None <-> Exists (fun v => length v <> 1%nat) vs.
Proof.
  induction vs as [|v vs IH]; simpl.
  - split; [discriminate | intros H; inversion H].
  - destruct v as [|t [|t' v']]; simpl.
    + split; [intros _; left; simpl; lia | reflexivity].
    + destruct (all_some (map one_field vs)) as [xs|] eqn:E.
      * split; [discriminate|]. intros H. inversion H as [? ? H1|? ? H1]; subst.
        -- simpl in H1. lia.
        -- apply IH in H1. discriminate.
      * split; [|reflexivity]. intros _. right. apply IH. reflexivity.
    + split; [intros _; left; simpl; lia | reflexivity].
Qed.

Lemma tag_check_true vs :
  forallb (fun v : list ty => match v with [] => true | _ => false end) vs = true <->
  Forall (fun v : list ty => v = []) vs.
Proof.
  rewrite forallb_forall, Forall_forall.
  split; intros H v Hv; specialize (H v Hv); destruct v; congruence.
Qed.

Lemma tag_check_false vs :
  forallb (fun v : list ty => match v with [] => true | _ => false end) vs = false <->
  Exists (fun v : list ty => v <> []) vs.
Proof.
  induction vs as [|v vs IH]; simpl.
  - split; [discriminate | intros H; inversion H].
  - destruct v as [|t v']; simpl.
    + rewrite IH. split; [intros H; now right|].
      intros H. inversion H as [? ? H1|? ? H1]; subst; [congruence | assumption].
    + split; [intros _; left; discriminate | reflexivity].
Qed.

(** ** The macro rejects exactly the definitions without an SSZ meaning *)

Lemma derive_none_cases d :
  derive d = None <-> derive_enc d = None \/ derive_dec d = None.
Proof.
  unfold derive. destruct (derive_enc d), (derive_dec d); split; intros H;
    try reflexivity; try discriminate; try (now left); try (now right).
  destruct H; discriminate.
Qed.

Theorem derive_none_iff_rejected d : derive d = None <-> rejected d.
Proof.
  rewrite derive_none_cases.
  destruct d as [enum_attr b named fs | struct_attr b vs]; simpl.
  - destruct enum_attr; [split; intros _; [now left | now left]|].
    destruct (attrs_ok fs) eqn:Ha; simpl;
      [| split; intros _; [right; now left | now left]].
    destruct b.
    + (* SContainer *)
      destruct named; simpl.
      * split.
        -- intros [H|H]; discriminate.
        -- intros [H|[H|[H|[(_ & H & _)|(H & _)]]]]; discriminate.
      * destruct fs as [|f fs]; simpl.
        -- split.
           ++ intros [H|H]; discriminate.
           ++ intros [H|[H|[H|[(_ & _ & H)|(H & _)]]]]; try discriminate. now elim H.
        -- split.
           ++ intros _. right; right; right; left. repeat split; discriminate.
           ++ intros _. now right.
    + (* STransparent *)
      destruct (filter (fun f => negb (f_skip_de f)) fs) as [|x [|y l]] eqn:Ef; simpl.
      * split; [|intros _; now left].
        intros _. right; right; right; right. split; [reflexivity | lia].
      * split.
        -- intros [H|H]; discriminate.
        -- intros [H|[H|[H|[(H & _)|(_ & H)]]]]; try discriminate. now elim H.
      * split; [|intros _; now left].
        intros _. right; right; right; right. split; [reflexivity | lia].
    + (* SOther *)
      split; intros _; [right; right; now left | now left].
  - destruct struct_attr; [split; intros _; [now left | now left]|].
    destruct b.
    + (* EUnion *)
      destruct (all_some (map one_field vs)) as [ts|] eqn:E.
      * pose proof (all_some_one_field_length _ _ E) as Hl.
        destruct (selectors_ok (length ts)) eqn:Es.
        -- apply selectors_ok_iff in Es. split.
           ++ intros [H|H]; discriminate.
           ++ intros [H|[H|[H|[(_ & H)|[(H & _)|(H & _)]]]]]; try discriminate.
              destruct H as [H|[H|H]].
              ** apply all_some_one_field_none in H. congruence.
              ** subst vs. simpl in Hl. lia.
              ** lia.
        -- apply selectors_ok_false_iff in Es. split; [|intros _; now left].
           intros _. right; right; right; left. split; [reflexivity|].
           right. destruct Es as [Es|Es].
           ++ left. destruct vs; [reflexivity | simpl in Hl; lia].
           ++ right. lia.
      * split; [|intros _; now left].
        intros _. right; right; right; left. split; [reflexivity|].
        left. now apply all_some_one_field_none.
    + (* ETransparent *)
      destruct (all_some (map one_field vs)) as [ts|] eqn:E.
      * split.
        -- intros [H|H]; discriminate.
        -- intros [H|[H|[H|[(H & _)|[(H & _)|(_ & H)]]]]]; try discriminate.
           apply all_some_one_field_none in H. congruence.
      * split; [|intros _; now left].
        intros _. do 5 right. split; [reflexivity|].
        now apply all_some_one_field_none.
    + (* ETag *)
      destruct (forallb (fun v : list ty => match v with [] => true | _ => false end) vs) eqn:E.
      * destruct (selectors_ok (length vs)) eqn:Es.
        -- apply selectors_ok_iff in Es. split.
           ++ intros [H|H]; discriminate.
           ++ intros [H|[H|[H|[(H & _)|[(_ & H)|(H & _)]]]]]; try discriminate.
              destruct H as [H|[H|H]].
              ** apply tag_check_false in H. congruence.
              ** subst vs. simpl in Es. lia.
              ** lia.
        -- apply selectors_ok_false_iff in Es. split; [|intros _; now left].
           intros _. do 4 right. left. split; [reflexivity|].
           right. destruct Es as [Es|Es].
           ++ left. destruct vs; [reflexivity | simpl in Es; lia].
           ++ right. lia.
      * split; [|intros _; now left].
        intros _. do 4 right. left. split; [reflexivity|].
        left. now apply tag_check_false.
    + (* EAbsent *)
      split; intros _; [right; now left | now left].
    + (* EOther *)
      split; intros _; [right; right; now left | now left].
Qed.

(** ** Accepted containers: declaration order, skipped fields absent *)

Lemma derive_some_inv d e r :
  derive d = Some (e, r) -> derive_enc d = Some e /\ derive_dec d = Some r.
Proof.
  unfold derive. destruct (derive_enc d), (derive_dec d); try discriminate.
  intros H. injection H as -> ->. split; reflexivity.
Qed.

Theorem derive_container_schema named fs e r :
  derive (DStruct false SContainer named fs) = Some (e, r) ->
  e = TContainer true (map field_schema (filter (fun f => negb (f_skip_ser f)) fs)) /\
  r = TContainer true (map field_schema (filter (fun f => negb (f_skip_de f)) fs)).
Proof.
  intros H. apply derive_some_inv in H. destruct H as [He Hr]. simpl in He, Hr.
  destruct (negb (attrs_ok fs)); [discriminate|].
  split.
  - match type of He with (if ?c then _ else _) = _ => destruct c end; [discriminate|].
    now injection He as <-.
  - match type of Hr with (if ?c then _ else _) = _ => destruct c end; [discriminate|].
    now injection Hr as <-.
Qed.

Lemma filter_ext_in' {A} (f g : A -> bool) (l : list A) :
  (forall a, In a l -> f a = g a) -> filter f l = filter g l.
Proof.
  induction l as [|x l IH]; intros H; simpl; [reflexivity|].
  rewrite (H x (or_introl eq_refl)). rewrite IH; [reflexivity|].
  intros a Ha. apply H. now right.
Qed.

Theorem derive_container_symmetric named fs e r :
  derive (DStruct false SContainer named fs) = Some (e, r) ->
  (forall f, In f fs -> f_skip_ser f = f_skip_de f) -> e = r.
Proof.
  intros H Hs. apply derive_container_schema in H. destruct H as [-> ->].
  f_equal. f_equal. apply filter_ext_in'. intros a Ha. now rewrite (Hs a Ha).
Qed.

(** ** Transparent structs: identical to their single live field *)

Theorem derive_transparent_schema named fs e r :
  derive (DStruct false STransparent named fs) = Some (e, r) ->
  exists f, filter (fun f => negb (f_skip_de f)) fs = [f] /\ e = TWrap (f_ty f) /\ r = TWrap (f_ty f).
Proof.
  intros H. apply derive_some_inv in H. destruct H as [He Hr]. simpl in He, Hr.
  destruct (negb (attrs_ok fs)); [discriminate|].
  destruct (filter (fun f => negb (f_skip_de f)) fs) as [|x [|y l]]; try discriminate.
  exists x. injection He as <-. injection Hr as <-. repeat split; reflexivity.
Qed.

(** ** Enums *)

Theorem derive_union_schema vs e r :
  derive (DEnum false EUnion vs) = Some (e, r) ->
  exists ts, map (fun t => [t]) ts = vs /\ e = TUnion ts /\ r = TUnion ts /\ (1 <= length ts <= 128)%nat.
Proof.
  intros H. apply derive_some_inv in H. destruct H as [He Hr]. simpl in He, Hr.
  destruct (all_some (map one_field vs)) as [ts|] eqn:E; [|discriminate].
  destruct (selectors_ok (length ts)) eqn:Es; [|discriminate].
  exists ts. apply all_some_one_field_some in E. apply selectors_ok_iff in Es.
  injection He as <-. injection Hr as <-. repeat split; auto; lia.
Qed.

Theorem derive_tag_schema vs e r :
  derive (DEnum false ETag vs) = Some (e, r) ->
  Forall (fun v : list ty => v = []) vs /\ e = TTag (length vs) /\ r = TTag (length vs) /\ (1 <= length vs <= 128)%nat.
Proof.
  intros H. apply derive_some_inv in H. destruct H as [He Hr]. simpl in He, Hr.
  destruct (forallb (fun v : list ty => match v with [] => true | _ => false end) vs) eqn:E;
    [|discriminate].
  destruct (selectors_ok (length vs)) eqn:Es; [|discriminate].
  apply tag_check_true in E. apply selectors_ok_iff in Es.
  injection He as <-. injection Hr as <-. repeat split; auto; lia.
Qed.

Theorem derive_trans_schema vs e r :
  derive (DEnum false ETransparent vs) = Some (e, r) ->
  exists ts, map (fun t => [t]) ts = vs /\ e = TTransEnum ts /\ r = TTransEnum ts.
Proof.
  intros H. apply derive_some_inv in H. destruct H as [He Hr]. simpl in He, Hr.
  destruct (all_some (map one_field vs)) as [ts|] eqn:E; [|discriminate].
  exists ts. apply all_some_one_field_some in E.
  injection He as <-. injection Hr as <-. repeat split; auto.
Qed.

(** ** Union and tag selectors are the zero-based declaration indices *)

Theorem union_selectors_are_indices n i :
  (i < n)%nat -> length (union_selectors n) = n /\ nth i (union_selectors n) 0%N = N.of_nat i.
Proof.
  intros Hi. unfold union_selectors. split.
  - now rewrite map_length, seq_length.
  - rewrite (nth_indep _ 0%N (N.of_nat 0)) by (now rewrite map_length, seq_length).
    rewrite map_nth, seq_nth by assumption. reflexivity.
Qed.
