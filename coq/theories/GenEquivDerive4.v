(** * GenEquivDerive4: a generic derived definition, [struct Gen1<T> { a: T, b: u8 }].  The expanded impls are
    generic in [T] (dictionary passing); the theorems are generic in the type expression [t] put for [T]:
    the derived codec of [Gen1<T>] is the model's container codec at [TContainer true [t; TUint 1]], on both
    decoding paths (all-fixed: [split_at]; otherwise: the builder). *)
From SSZ Require Import Base RustSem Offsets Encoder Builder Types Codec CodecUnfold BaseFacts OffsetsFacts AppendFacts MetaFacts
     Generated GenEquiv GenEquivDec GenEquivEnc GenProps GeneratedDerive GenEquivDerive GenEquivDerive2 GenEquivTuple.
From Coq Require Import ZArith ZifyN ZifyBool ZifyNat Lia.
Open Scope N_scope.
Ltac Zify.zify_post_hook ::= Z.div_mod_to_equations.

Definition T_Gen1 (t : ty) : ty := TContainer true [t; TUint 1].
Definition v_Gen1 (r : GenD.Gen1 val) : val := VCont [GenD.Gen1_a r; VUint (GenD.Gen1_b r)].

Theorem derive_Gen1_metadata t :
  e_fixed_len t + 1 <= usize_max ->
  GenD.Gen1_enc_is_ssz_fixed_len (e_is_fixed t) = Ok (e_is_fixed (T_Gen1 t)) /\
  GenD.Gen1_enc_ssz_fixed_len (e_is_fixed t) (e_fixed_len t) = Ok (e_fixed_len (T_Gen1 t)) /\
  GenD.Gen1_dec_is_ssz_fixed_len (d_is_fixed t) = Ok (d_is_fixed (T_Gen1 t)) /\
  GenD.Gen1_dec_ssz_fixed_len (d_is_fixed t) (d_fixed_len t) = Ok (d_fixed_len (T_Gen1 t)).
Proof.
  intro H. assert (Hd : d_fixed_len t + 1 <= usize_max) by (rewrite <- fixed_len_agree; exact H).
  unfold T_Gen1. rewrite e_is_fixed_container, d_is_fixed_container, e_fixed_len_container, d_fixed_len_container.
  cbn [forallb map sumN e_is_fixed d_is_fixed e_fixed_len d_fixed_len]. change (N.of_nat 1) with 1.
  unfold GenD.Gen1_enc_ssz_fixed_len, GenD.Gen1_dec_ssz_fixed_len, GenD.Gen1_enc_is_ssz_fixed_len, GenD.Gen1_dec_is_ssz_fixed_len.
  leaf_meta. cbn [bind]. rewrite gen_BYTES_PER_LENGTH_OFFSET. repeat split.
  - destruct (e_is_fixed t); reflexivity.
  - destruct (e_is_fixed t); cbn [andb]; [|reflexivity]. unfold checked_add.
    destruct (0 + e_fixed_len t <=? usize_max) eqn:E1; [|apply N.leb_gt in E1; lia]. cbn [unwrap_or_panic bind andb].
    destruct (0 + e_fixed_len t + 1 <=? usize_max) eqn:E2; [|apply N.leb_gt in E2; lia]. cbn [unwrap_or_panic bind andb]; try (f_equal; lia).
  - destruct (d_is_fixed t); reflexivity.
  - destruct (d_is_fixed t); cbn [andb]; [|reflexivity]. unfold checked_add.
    destruct (0 + d_fixed_len t <=? usize_max) eqn:E1; [|apply N.leb_gt in E1; lia]. cbn [unwrap_or_panic bind andb].
    destruct (0 + d_fixed_len t + 1 <=? usize_max) eqn:E2; [|apply N.leb_gt in E2; lia]. cbn [unwrap_or_panic bind andb]; try (f_equal; lia).
Qed.

(** one [encoder.append] of an item of any native type whose encoder is pure *)
Lemma append_item_ok_any {A} f (app : A -> bytes -> bytes) s x :
  e_offset (enc_abs s) + len (e_var (enc_abs s)) <= usize_max ->
  exists s', Gen.encoder_append_item f (fun a b => Ok (app a b)) s x = Ok s' /\ enc_abs s' = enc_append (enc_abs s) f (app x).
Proof.
  intro Hfit. pose proof (gen_encoder_append_item_eq f app s x Hfit) as E.
  destruct (Gen.encoder_append_item f _ s x) as [s'| |]; cbn [omap] in E; try discriminate.
  exists s'. split; [reflexivity|]. congruence.
Qed.

Theorem derive_Gen1_ssz_append t r buf :
  e_fixed_len t + 1 + len (enc t (GenD.Gen1_a r)) <= usize_max ->
  GenD.Gen1_ssz_append (e_is_fixed t) (e_fixed_len t) (app_of t) r buf = Ok (append (T_Gen1 t) (v_Gen1 r) buf).
Proof.
  intro H. destruct r as [a b]. cbn [GenD.Gen1_a] in H. unfold GenD.Gen1_ssz_append, app_of. cbn [GenD.Gen1_a GenD.Gen1_b]. leaf_meta.
  unfold checked_add at 1. destruct (0 + e_fixed_len t <=? usize_max) eqn:E1; [|apply N.leb_gt in E1; lia]. cbn [unwrap_or_panic bind].
  unfold checked_add at 1. destruct (0 + e_fixed_len t + 1 <=? usize_max) eqn:E2; [|apply N.leb_gt in E2; lia]. cbn [unwrap_or_panic bind].
  unfold Gen.encoder_container. cbn [bind].
  set (F := 0 + e_fixed_len t + 1).
  set (s0 := {| Gen.SszEncoder_offset := F; Gen.SszEncoder_buf := buf; Gen.SszEncoder_variable_bytes := [] |}).
  assert (V0 : len (e_var (enc_abs s0)) = 0) by reflexivity. assert (O0 : e_offset (enc_abs s0) = F) by reflexivity.
  destruct (append_item_ok_any (e_is_fixed t) (append t) s0 a) as (s1 & -> & A1); [unfold F in *; lia|]. cbn [bind].
  pose proof (enc_append_var_len (enc_abs s0) (e_is_fixed t) t a) as V1. rewrite <- A1 in V1.
  assert (O1 : e_offset (enc_abs s1) = F) by (rewrite A1, enc_append_offset; exact O0).
  change Gen.u8_ssz_append with (fun (n : N) (b0 : bytes) => Ok (b0 ++ le_bytes 1 n)).
  destruct (append_item_ok_any true (fun n b0 => b0 ++ le_bytes 1 n) s1 b) as (s2 & Eq2 & A2); [unfold F in *; lia|].
  match goal with |- context [Gen.encoder_append_item true ?f s1 b] =>
    replace (Gen.encoder_append_item true f s1 b) with (Ok s2 : outcome Gen.SszEncoder) by (symmetry; exact Eq2) end. cbn [bind].
  rewrite finalize_bind, A2, A1.
  unfold T_Gen1, v_Gen1. rewrite append_container. unfold enc_run, cont_items. cbn [combine map fold_left fst snd sumN GenD.Gen1_a GenD.Gen1_b].
  cbn [e_is_fixed e_fixed_len append]. change (N.of_nat 1) with 1.
  replace (e_fixed_len t + (1 + 0)) with F by (unfold F; lia). reflexivity.
Qed.

Theorem derive_Gen1_ssz_bytes_len t r :
  e_fixed_len t + 1 <= usize_max -> field_len t (GenD.Gen1_a r) + 1 <= usize_max ->
  GenD.Gen1_ssz_bytes_len (e_is_fixed t) (e_fixed_len t) (len_of t) r = Ok (bytes_len (T_Gen1 t) (v_Gen1 r)).
Proof.
  intros HF H. destruct r as [a b]. cbn [GenD.Gen1_a] in H. unfold GenD.Gen1_ssz_bytes_len, len_of. cbn [GenD.Gen1_a GenD.Gen1_b].
  destruct (derive_Gen1_metadata t HF) as (M1 & M2 & _). rewrite M1. cbn [bind].
  unfold T_Gen1, v_Gen1. cbn [GenD.Gen1_a GenD.Gen1_b]. rewrite bytes_len_container. fold (T_Gen1 t).
  unfold T_Gen1 at 1. rewrite e_is_fixed_container. cbn [forallb e_is_fixed]. rewrite andb_true_r.
  destruct (e_is_fixed t) eqn:EF.
  - rewrite M2. unfold T_Gen1. rewrite e_fixed_len_container. cbn [forallb map sumN e_is_fixed e_fixed_len]. rewrite EF. reflexivity.
  - leaf_meta. cbn [bind combine map sumN fst snd]. unfold field_len in *. rewrite EF in *. cbn [e_is_fixed e_fixed_len].
    rewrite gen_BYTES_PER_LENGTH_OFFSET. unfold checked_add, BYTES_PER_LENGTH_OFFSET in *. change (N.of_nat 1) with 1.
    repeat (fits; cbn [unwrap_or_panic bind]). try (f_equal; lia).
Qed.

Theorem derive_Gen1_from_ssz_bytes t bs :
  d_fixed_len t + 1 <= usize_max ->
  omap v_Gen1 (GenD.Gen1_from_ssz_bytes (d_is_fixed t) (d_fixed_len t) (dec t) bs) = dec (T_Gen1 t) bs.
Proof.
  intro HF. unfold GenD.Gen1_from_ssz_bytes.
  destruct (derive_Gen1_metadata t ltac:(rewrite fixed_len_agree; exact HF)) as (_ & _ & M3 & M4). rewrite M3. cbn [bind].
  unfold T_Gen1 at 1. rewrite d_is_fixed_container. cbn [forallb d_is_fixed]. rewrite andb_true_r.
  unfold T_Gen1. rewrite dec_container. cbn [andb forallb d_is_fixed]. rewrite andb_true_r.
  destruct (d_is_fixed t) eqn:EF.
  - (* all-fixed: the [split_at] path *)
    rewrite M4. cbn [bind]. unfold T_Gen1. rewrite d_fixed_len_container. cbn [forallb map sumN d_is_fixed d_fixed_len]. rewrite EF. cbn [andb].
    change (N.of_nat 1) with 1. rewrite llen_len.
    destruct (len bs =? d_fixed_len t + (1 + 0)); cbn [negb omap]; [|reflexivity].
    cbn [split_dec]. rewrite split_at_n_eq.
    destruct (split_at bs (d_fixed_len t)) as [[s1 r1]| |]; cbn [bind fst snd omap]; try reflexivity.
    destruct (dec t s1) as [a| |]; cbn [bind omap]; try reflexivity.
    leaf_meta. cbn [bind]. rewrite split_at_n_eq.
    destruct (split_at r1 1) as [[s2 r2]| |]; cbn [bind fst snd omap]; try reflexivity.
    rewrite <- (gen_u8_from_ssz_bytes_eq s2).
    destruct (Gen.u8_from_ssz_bytes s2) as [b| |]; reflexivity.
  - (* otherwise: the builder *)
    unfold Gen.builder_new. cbn [bind]. unfold regs_of. cbn [map d_is_fixed d_fixed_len]. change (N.of_nat 1) with 1.
    unfold builder_build. cbn [register_all]. leaf_meta. cbn [bind].
    set (s0 := {| Gen.SszDecoderBuilder_bytes := bs; Gen.SszDecoderBuilder_items := []; Gen.SszDecoderBuilder_offsets := []; Gen.SszDecoderBuilder_items_index := 0 |}).
    change builder_new with (st_abs s0).
    replace bs with (Gen.SszDecoderBuilder_bytes s0) by reflexivity.
    rewrite EF.
    reg_step2 s0 false (d_fixed_len t). rewrite <- Es, <- Eb.
    reg_step2 s true 1. rewrite <- Es0, <- Eb0.
    build_step s1.
    cbn [decode_all].
    dec_step0 its t.
    dec_step2 itm Gen.u8_from_ssz_bytes (TUint 1) VUint gen_u8_from_ssz_bytes_eq.
    reflexivity.
Qed.

Print Assumptions derive_Gen1_metadata.
Print Assumptions derive_Gen1_ssz_append.
Print Assumptions derive_Gen1_ssz_bytes_len.
Print Assumptions derive_Gen1_from_ssz_bytes.
