(** * BitfieldOpsFacts: the byte-level bitfield implementation refines the boolean-sequence
    machine of [BitfieldOps.v], operation by operation and over whole histories. *)
From SSZ Require Import Base BaseFacts Bitfield Types Codec Spec BitfieldFacts BitfieldOps.
From Coq Require Import ZArith ZifyN ZifyNat ZifyBool.
Open Scope N_scope.
Ltac Zify.zify_post_hook ::= Z.div_mod_to_equations.

(* the flavour's length rule *)
Definition len_ok (fl : flavour) (l : N) : Prop :=
  match fl with FList cap => l <= cap | FVec n => l = n | FDyn => 0 < l /\ l mod 8 = 0 end.
(* representation relation between an implementation bitfield and a boolean sequence *)
Definition R (fl : flavour) (b : bf) (bits : list bool) : Prop :=
  Inv b /\ bf_iter b = bits /\ len_ok fl (bf_len b).

(** ** list helpers *)
Lemma nth_firstn {A} (l : list A) k i d : nth i (firstn k l) d = if Nat.ltb i k then nth i l d else d.
Proof.
  revert l i. induction k as [|k IH]; intros l i.
  - cbn [firstn]. destruct i; reflexivity.
  - destruct l as [|x r]; cbn [firstn].
    + destruct i; cbn [nth]; destruct (Nat.ltb _ _); reflexivity.
    + destruct i as [|i]; cbn [nth]; [reflexivity|]. rewrite IH.
      change (Nat.ltb (S i) (S k)) with (Nat.ltb i k). reflexivity.
Qed.
Lemma nth_skipn {A} (l : list A) k i d : nth i (skipn k l) d = nth (k + i) l d.
Proof.
  revert l. induction k as [|k IH]; intros l; [reflexivity|].
  destruct l as [|x r]; cbn [skipn Nat.add nth]; [destruct i; reflexivity | apply IH].
Qed.
Lemma nth_repeat_false k i : nth i (repeat false k) false = false.
Proof.
  revert i. induction k as [|k IH]; intros i; cbn [repeat]; destruct i; cbn [nth]; auto.
Qed.
Lemma sumN_app a b : sumN (a ++ b) = sumN a + sumN b.
Proof. induction a as [|x r IH]; cbn [app sumN]; [reflexivity | rewrite IH; lia]. Qed.
Lemma forallb_negb_nth (l : list bool) :
  forallb negb l = true <-> forall k, nth k l false = false.
Proof.
  induction l as [|x r IH]; cbn [forallb].
  - split; [intros _ k; destruct k; reflexivity | reflexivity].
  - rewrite Bool.andb_true_iff, IH. split.
    + intros [Hx Hr] k. destruct k; cbn [nth]; [destruct x; [discriminate|reflexivity] | apply Hr].
    + intros H. split; [specialize (H 0%nat); cbn [nth] in H; rewrite H; reflexivity|].
      intros k. apply (H (S k)).
Qed.
Lemma list_bool_ext (a b : list bool) : length a = length b ->
  (forall k, (k < length a)%nat -> nth k a false = nth k b false) -> a = b.
Proof. intros Hl H. apply nth_ext with (d := false) (d' := false); auto. Qed.

(** ** unpack *)
Lemma length_byte_bits x : length (byte_bits x) = 8%nat.
Proof. reflexivity. Qed.
Lemma nth_byte_bits x k : nth k (byte_bits x) false = if Nat.ltb k 8 then N.testbit x (N.of_nat k) else false.
Proof.
  unfold byte_bits. destruct (Nat.ltb k 8) eqn:E.
  - rewrite nth_map_seq by lia. reflexivity.
  - apply nth_overflow. rewrite map_length, seq_length. lia.
Qed.
Lemma unpack_cons x r : unpack (x :: r) = byte_bits x ++ unpack r.
Proof. reflexivity. Qed.
Lemma length_unpack bs : length (unpack bs) = (8 * length bs)%nat.
Proof.
  induction bs as [|x r IH]; [reflexivity|].
  rewrite unpack_cons, app_length, IH, length_byte_bits. cbn [length]. lia.
Qed.
Lemma nth_unpack bs k : nth k (unpack bs) false = bit_at bs (N.of_nat k).
Proof.
  revert k. induction bs as [|x r IH]; intros k.
  - cbn. destruct k; reflexivity.
  - rewrite unpack_cons, bit_at_cons. destruct (N.of_nat k <? 8) eqn:E.
    + rewrite app_nth1 by (rewrite length_byte_bits; lia). rewrite nth_byte_bits.
      replace (Nat.ltb k 8) with true by lia. reflexivity.
    + rewrite app_nth2 by (rewrite length_byte_bits; lia). rewrite length_byte_bits, IH.
      f_equal. lia.
Qed.

(** ** the relation [R] *)
Lemma R_len fl b bits : R fl b bits -> bf_len b = blen bits.
Proof. intros (HI & <- & _). unfold blen. rewrite bf_iter_length; auto. Qed.
Lemma R_Inv fl b bits : R fl b bits -> Inv b.
Proof. intros H. apply H. Qed.
Lemma R_bit fl b bits j : R fl b bits -> bit_at (bf_bytes b) j = nth (N.to_nat j) bits false.
Proof. intros (HI & <- & _). rewrite nth_bf_iter by auto. rewrite N2Nat.id. reflexivity. Qed.
Lemma R_bitn fl b bits k : R fl b bits -> bit_at (bf_bytes b) (N.of_nat k) = nth k bits false.
Proof. intros H. rewrite (R_bit fl b bits) by auto. rewrite Nat2N.id. reflexivity. Qed.
Lemma R_intro fl b bits : Inv b -> bf_len b = blen bits -> len_ok fl (bf_len b) ->
  (forall j, j < bf_len b -> bit_at (bf_bytes b) j = nth (N.to_nat j) bits false) -> R fl b bits.
Proof.
  intros HI Hl Hok H. split; [exact HI|]. split; [|exact Hok]. apply bf_iter_eq; auto.
Qed.
Lemma R_len_ok fl b bits : R fl b bits -> len_ok fl (bf_len b).
Proof. intros H. apply H. Qed.
Lemma R_bytes_len fl b bits : R fl b bits -> len (bf_bytes b) = bytes_for_bit_len (blen bits).
Proof. intros H. rewrite <- (R_len fl b bits H). apply H. Qed.

Lemma blen_repeat (x : bool) n : blen (repeat x (N.to_nat n)) = n.
Proof. unfold blen. rewrite repeat_length. lia. Qed.

Lemma R_zero fl n : len_ok fl n -> R fl (zero_bf n) (repeat false (N.to_nat n)).
Proof.
  intros H. apply R_intro; auto.
  - apply Inv_zero.
  - rewrite blen_repeat. reflexivity.
  - intros j _. cbn [zero_bf bf_bytes]. rewrite bit_at_zeros, nth_repeat_false. reflexivity.
Qed.

Lemma R_new fl n : match i_new fl n, a_new fl n with
                   | Ok b, Ok bits => R fl b bits | Err, Err => True | _, _ => False end.
Proof.
  destruct fl as [cap|m|]; cbn [i_new a_new].
  - unfold bl_with_capacity. destruct (n <=? cap) eqn:E; [|exact I].
    apply (R_zero (FList cap) n). cbn [len_ok]. lia.
  - apply (R_zero (FVec m) m). reflexivity.
  - unfold bd_new. destruct (n =? 0) eqn:E0; cbn [orb]; [exact I|].
    destruct (negb (n mod 8 =? 0)) eqn:E8; [exact I|].
    apply (R_zero FDyn n). cbn [len_ok]. lia.
Qed.

Lemma nth_set_idx {A} (l : list A) i x k d :
  nth k (set_idx l i x) d = if (Nat.eqb k i && Nat.ltb i (length l))%bool then x else nth k l d.
Proof.
  revert i k. induction l as [|y r IH]; intros i k.
  - cbn [set_idx length]. rewrite Bool.andb_false_r. reflexivity.
  - destruct i as [|i]; cbn [set_idx length].
    + destruct k; cbn [nth]; reflexivity.
    + destruct k as [|k]; cbn [nth]; [reflexivity|]. rewrite IH.
      change (Nat.eqb (S k) (S i)) with (Nat.eqb k i).
      change (Nat.ltb (S i) (S (length r))) with (Nat.ltb i (length r)). reflexivity.
Qed.
Lemma length_set_idx {A} (l : list A) i x : length (set_idx l i x) = length l.
Proof.
  revert i. induction l as [|y r IH]; intros i; [reflexivity|].
  destruct i; cbn [set_idx length]; [reflexivity | rewrite IH; reflexivity].
Qed.

Lemma R_set fl b bits i v : R fl b bits ->
  match bf_set b i v, a_set bits i v with Ok b', Ok bits' => R fl b' bits' | Err, Err => True | _, _ => False end.
Proof.
  intros HR. pose proof (R_len _ _ _ HR) as Hl. unfold a_set. rewrite <- Hl.
  destruct (i <? bf_len b) eqn:E.
  - destruct (bf_set_ok b i v (R_Inv _ _ _ HR) ltac:(lia)) as (b' & Hs & HI' & Hl' & Hb').
    rewrite Hs. apply R_intro; auto.
    + rewrite Hl', Hl. unfold blen. rewrite length_set_idx. reflexivity.
    + rewrite Hl'. apply HR.
    + intros j Hj. rewrite Hb', nth_set_idx, (R_bit _ _ _ j HR).
      unfold blen in Hl.
      destruct (j =? i) eqn:E1.
      * replace (Nat.eqb (N.to_nat j) (N.to_nat i)) with true by lia.
        replace (Nat.ltb (N.to_nat i) (length bits)) with true by lia. reflexivity.
      * replace (Nat.eqb (N.to_nat j) (N.to_nat i)) with false by lia. reflexivity.
  - rewrite bf_set_out by lia. exact I.
Qed.

(** ** shift_up *)
Lemma range_down_S lo m :
  range_down lo (lo + N.of_nat (S m)) = (lo + N.of_nat m) :: range_down lo (lo + N.of_nat m).
Proof.
  unfold range_down. replace (N.to_nat (lo + N.of_nat (S m) - lo)) with (S m) by lia.
  replace (N.to_nat (lo + N.of_nat m - lo)) with m by lia.
  rewrite seq_S, rev_app_distr. reflexivity.
Qed.
Lemma range_down_0 lo : range_down lo (lo + N.of_nat 0) = [].
Proof. unfold range_down. replace (N.to_nat (lo + N.of_nat 0 - lo)) with 0%nat by lia. reflexivity. Qed.
Lemma range_up_S m : range_up 0 (N.of_nat (S m)) = range_up 0 (N.of_nat m) ++ [N.of_nat m].
Proof.
  unfold range_up. replace (N.to_nat (N.of_nat (S m) - 0)) with (S m) by lia.
  replace (N.to_nat (N.of_nat m - 0)) with m by lia.
  rewrite seq_S, map_app. reflexivity.
Qed.

Definition shift_step1 (n : N) (acc : outcome bf) (i : N) : outcome bf :=
  do cur <- acc; do x <- bf_get cur (i - n); bf_set cur i x.
Definition shift_step2 (acc : outcome bf) (i : N) : outcome bf :=
  do cur <- acc; match bf_set cur i false with Ok c => Ok c | _ => Panic end.

Lemma shift_loop1 b0 n : Inv b0 -> n <= bf_len b0 ->
  forall m cur, n + N.of_nat m <= bf_len b0 -> Inv cur -> bf_len cur = bf_len b0 ->
    (forall j, bit_at (bf_bytes cur) j =
               if (n + N.of_nat m <=? j) && (j <? bf_len b0) then bit_at (bf_bytes b0) (j - n)
               else bit_at (bf_bytes b0) j) ->
    exists b1, fold_left (shift_step1 n) (range_down n (n + N.of_nat m)) (Ok cur) = Ok b1 /\
               Inv b1 /\ bf_len b1 = bf_len b0 /\
               forall j, bit_at (bf_bytes b1) j =
                         if (n <=? j) && (j <? bf_len b0) then bit_at (bf_bytes b0) (j - n)
                         else bit_at (bf_bytes b0) j.
Proof.
  intros HI0 Hn. induction m as [|m IH]; intros cur Hm HIc Hlc Hbits.
  - rewrite range_down_0. cbn [fold_left]. exists cur. repeat split; try apply HIc; auto.
    intros j. rewrite Hbits. replace (n + N.of_nat 0) with n by lia. reflexivity.
  - rewrite range_down_S. cbn [fold_left]. unfold shift_step1 at 2. cbn [bind].
    replace (n + N.of_nat m - n) with (N.of_nat m) by lia.
    rewrite bf_get_bit_at by (auto; lia). cbn [bind].
    destruct (bf_set_ok cur (n + N.of_nat m) (bit_at (bf_bytes cur) (N.of_nat m)) HIc ltac:(lia))
      as (c & Hs & HIc' & Hlc' & Hbc').
    rewrite Hs. apply IH; auto; [lia | congruence |].
    intros j. rewrite Hbc', !Hbits.
    replace ((n + N.of_nat (S m) <=? N.of_nat m) && (N.of_nat m <? bf_len b0)) with false by lia.
    destruct (j =? n + N.of_nat m) eqn:E.
    + replace ((n + N.of_nat m <=? j) && (j <? bf_len b0)) with true by lia. f_equal. lia.
    + destruct ((n + N.of_nat (S m) <=? j) && (j <? bf_len b0)) eqn:E2.
      * replace ((n + N.of_nat m <=? j) && (j <? bf_len b0)) with true by lia. reflexivity.
      * replace ((n + N.of_nat m <=? j) && (j <? bf_len b0)) with false by lia. reflexivity.
Qed.

Lemma shift_loop2 b1 : Inv b1 ->
  forall m, N.of_nat m <= bf_len b1 ->
    exists b2, fold_left shift_step2 (range_up 0 (N.of_nat m)) (Ok b1) = Ok b2 /\
               Inv b2 /\ bf_len b2 = bf_len b1 /\
               forall j, bit_at (bf_bytes b2) j = if j <? N.of_nat m then false else bit_at (bf_bytes b1) j.
Proof.
  intros HI1. induction m as [|m IH]; intros Hm.
  - exists b1. split; [reflexivity|]. split; [exact HI1|]. split; [reflexivity|].
    intros j. replace (j <? N.of_nat 0) with false by lia. reflexivity.
  - destruct (IH ltac:(lia)) as (c & Hf & HIc & Hlc & Hbc).
    rewrite range_up_S, fold_left_app, Hf. cbn [fold_left]. unfold shift_step2. cbn [bind].
    destruct (bf_set_ok c (N.of_nat m) false HIc ltac:(lia)) as (c' & Hs & HIc' & Hlc' & Hbc').
    rewrite Hs. exists c'. split; [reflexivity|]. split; [exact HIc'|]. split; [congruence|].
    intros j. rewrite Hbc', Hbc. destruct (j =? N.of_nat m) eqn:E.
    + replace (j <? N.of_nat (S m)) with true by lia. reflexivity.
    + destruct (j <? N.of_nat m) eqn:E2.
      * replace (j <? N.of_nat (S m)) with true by lia. reflexivity.
      * replace (j <? N.of_nat (S m)) with false by lia. reflexivity.
Qed.

Lemma shift_up_spec b n : Inv b -> n <= bf_len b ->
  exists b', shift_up b n = Ok b' /\ Inv b' /\ bf_len b' = bf_len b /\
    forall j, bit_at (bf_bytes b') j =
              if j <? n then false else if j <? bf_len b then bit_at (bf_bytes b) (j - n) else false.
Proof.
  intros HI Hn. unfold shift_up. replace (n <=? bf_len b) with true by lia.
  destruct (shift_loop1 b n HI Hn (N.to_nat (bf_len b - n)) b) as (b1 & H1 & HI1 & Hl1 & Hb1); auto.
  - lia.
  - intros j. replace (n + N.of_nat (N.to_nat (bf_len b - n))) with (bf_len b) by lia.
    replace ((bf_len b <=? j) && (j <? bf_len b)) with false by lia. reflexivity.
  - replace (n + N.of_nat (N.to_nat (bf_len b - n))) with (bf_len b) in H1 by lia.
    change (fun acc i => do cur <- acc; do x <- bf_get cur (i - n); bf_set cur i x) with (shift_step1 n).
    rewrite H1. cbn [bind].
    destruct (shift_loop2 b1 HI1 (N.to_nat n) ltac:(lia)) as (b2 & H2 & HI2 & Hl2 & Hb2).
    rewrite N2Nat.id in H2, Hb2.
    change (fun acc i => do cur <- acc; match bf_set cur i false with Ok c => Ok c | _ => Panic end)
      with shift_step2.
    rewrite H2. exists b2. split; [reflexivity|]. split; [exact HI2|]. split; [congruence|].
    intros j. rewrite Hb2, Hb1. destruct (j <? n) eqn:E1; [reflexivity|].
    destruct (j <? bf_len b) eqn:E2.
    + replace ((n <=? j) && true) with true by lia. reflexivity.
    + rewrite Bool.andb_false_r. destruct HI as (_ & _ & Hz). apply Hz. lia.
Qed.

Lemma R_shift_up fl b bits n : R fl b bits ->
  match shift_up b n, a_shift_up bits n with Ok b', Ok bits' => R fl b' bits' | Err, Err => True | _, _ => False end.
Proof.
  intros HR. pose proof (R_len _ _ _ HR) as Hl. unfold a_shift_up. rewrite <- Hl.
  destruct (n <=? bf_len b) eqn:E.
  - destruct (shift_up_spec b n (R_Inv _ _ _ HR) ltac:(lia)) as (b' & Hs & HI' & Hl' & Hb').
    rewrite Hs. unfold blen in Hl. apply R_intro; auto.
    + rewrite Hl', Hl. unfold blen. rewrite app_length, repeat_length, firstn_length. lia.
    + rewrite Hl'. apply HR.
    + intros j Hj. rewrite Hb'. destruct (j <? n) eqn:E1.
      * rewrite app_nth1 by (rewrite repeat_length; lia). rewrite nth_repeat_false. reflexivity.
      * rewrite app_nth2 by (rewrite repeat_length; lia). rewrite repeat_length, nth_firstn.
        replace (j <? bf_len b) with true by lia.
        replace (Nat.ltb (N.to_nat j - N.to_nat n) (length bits - N.to_nat n)) with true by lia.
        rewrite (R_bit _ _ _ (j - n) HR). f_equal. lia.
  - unfold shift_up. rewrite E. exact I.
Qed.

(** ** bytewise operations *)
Lemma land_lt_256 x y : x < 256 -> N.land x y < 256.
Proof.
  intros Hx. replace x with (N.land x (N.ones 8)).
  - rewrite <- N.land_assoc, (N.land_comm (N.ones 8) y), N.land_assoc, N.land_ones.
    apply N.mod_lt. cbn. lia.
  - rewrite N.land_ones. apply N.mod_small. exact Hx.
Qed.
Lemma lor_lt_256 x y : x < 256 -> y < 256 -> N.lor x y < 256.
Proof.
  intros Hx Hy. replace (N.lor x y) with (N.land (N.lor x y) (N.ones 8)).
  - rewrite N.land_ones. apply N.mod_lt. cbn. lia.
  - rewrite N.land_lor_distr_l, !N.land_ones, !N.mod_small; auto.
Qed.
Lemma not8_bit y j : j < 8 -> N.testbit (not8 y) j = negb (N.testbit y j).
Proof.
  intros Hj. unfold not8. rewrite N.lxor_spec. change 255 with (N.ones 8).
  rewrite N.ones_spec_low by exact Hj. reflexivity.
Qed.

Lemma bit_at_hd_tl l i :
  bit_at l i = if i <? 8 then N.testbit (hd 0 l) i else bit_at (tl l) (i - 8).
Proof.
  destruct l as [|x r]; cbn [hd tl].
  - rewrite !bit_at_nil, N.bits_0. destruct (i <? 8); reflexivity.
  - apply bit_at_cons.
Qed.
Lemma wfb_hd l : wfb l -> hd 0 l < 256.
Proof. intros H. destruct l; cbn [hd]; [lia | inversion H; auto]. Qed.
Lemma wfb_tl l : wfb l -> wfb (tl l).
Proof. intros H. destruct l; cbn [tl]; [constructor | inversion H; auto]. Qed.

Lemma length_zip f n a o : length (zip_get_or0 f n a o) = n.
Proof.
  revert a o. induction n as [|n IH]; intros a o; cbn [zip_get_or0 length]; [reflexivity|].
  rewrite IH. reflexivity.
Qed.
Lemma wfb_zip f n a o : (forall x y, x < 256 -> y < 256 -> f x y < 256) ->
  wfb a -> wfb o -> wfb (zip_get_or0 f n a o).
Proof.
  intros Hf. revert a o. induction n as [|n IH]; intros a o Ha Ho; cbn [zip_get_or0].
  - constructor.
  - constructor; [apply Hf; apply wfb_hd; auto | apply IH; apply wfb_tl; auto].
Qed.
Lemma bit_at_zip f fb n a o i :
  (forall x y j, N.testbit (f x y) j = fb (N.testbit x j) (N.testbit y j)) ->
  bit_at (zip_get_or0 f n a o) i =
  if i <? 8 * N.of_nat n then fb (bit_at a i) (bit_at o i) else false.
Proof.
  intros Hf. revert a o i. induction n as [|n IH]; intros a o i; cbn [zip_get_or0].
  - rewrite bit_at_nil. replace (i <? 8 * N.of_nat 0) with false by lia. reflexivity.
  - rewrite bit_at_cons, IH, (bit_at_hd_tl a i), (bit_at_hd_tl o i), Hf.
    destruct (i <? 8) eqn:E.
    + replace (i <? 8 * N.of_nat (S n)) with true by lia. reflexivity.
    + destruct (i - 8 <? 8 * N.of_nat n) eqn:E2.
      * replace (i <? 8 * N.of_nat (S n)) with true by lia. reflexivity.
      * replace (i <? 8 * N.of_nat (S n)) with false by lia. reflexivity.
Qed.
Lemma and_index_zip n a o : (n <= length a)%nat -> (n <= length o)%nat ->
  and_index n a o = Ok (zip_get_or0 N.land n a o).
Proof.
  revert a o. induction n as [|n IH]; intros a o Ha Ho; cbn [and_index zip_get_or0]; [reflexivity|].
  destruct a as [|x ar]; [cbn [length] in Ha; lia|]. destruct o as [|y or]; [cbn [length] in Ho; lia|].
  cbn [length] in Ha, Ho. rewrite IH by lia. reflexivity.
Qed.

Lemma len_diff_bytes a o : len (diff_bytes a o) = len a.
Proof.
  revert o. induction a as [|x r IH]; intros o; [reflexivity|].
  destruct o as [|y s]; cbn [diff_bytes]; [reflexivity|]. rewrite !len_cons, IH. reflexivity.
Qed.
Lemma wfb_diff_bytes a o : wfb a -> wfb (diff_bytes a o).
Proof.
  intros Ha. revert o. induction Ha as [|x r Hx Hr IH]; intros o; [constructor|].
  destruct o as [|y s]; cbn [diff_bytes].
  - constructor; assumption.
  - constructor; [apply land_lt_256, Hx | apply IH].
Qed.
Lemma bit_at_diff_bytes a o i :
  bit_at (diff_bytes a o) i = bit_at a i && negb (bit_at o i).
Proof.
  revert o i. induction a as [|x r IH]; intros o i.
  - cbn [diff_bytes]. rewrite bit_at_nil. reflexivity.
  - destruct o as [|y s]; cbn [diff_bytes].
    + rewrite bit_at_nil. cbn [negb]. rewrite Bool.andb_true_r. reflexivity.
    + rewrite !bit_at_cons, IH. destruct (i <? 8) eqn:E; [|reflexivity].
      rewrite N.land_spec, not8_bit by lia. reflexivity.
Qed.

Lemma nth_a_zip f n a o k :
  nth k (a_zip f n a o) false = if Nat.ltb k n then f (bit a k) (bit o k) else false.
Proof.
  unfold a_zip. destruct (Nat.ltb k n) eqn:E.
  - rewrite nth_map_seq by lia. reflexivity.
  - apply nth_overflow. rewrite map_length, seq_length. lia.
Qed.
Lemma length_a_zip f n a o : length (a_zip f n a o) = n.
Proof. unfold a_zip. rewrite map_length, seq_length. reflexivity. Qed.

Lemma R_diff fl a abits o obits : R fl a abits -> R fl o obits ->
  R fl (difference_inplace a o) (a_diff abits obits).
Proof.
  intros Ra Ro. pose proof (R_len _ _ _ Ra) as Hla. destruct (R_Inv _ _ _ Ra) as (Hl & Hw & Hz).
  unfold blen in Hla. apply R_intro; unfold difference_inplace; cbn [bf_bytes bf_len].
  - split; [|split]; cbn [bf_bytes bf_len].
    + rewrite len_diff_bytes. exact Hl.
    + apply wfb_diff_bytes, Hw.
    + intros i Hi. rewrite bit_at_diff_bytes, Hz by exact Hi. reflexivity.
  - unfold a_diff, blen. rewrite length_a_zip. exact Hla.
  - apply Ra.
  - intros j Hj. unfold a_diff. rewrite bit_at_diff_bytes, nth_a_zip.
    replace (Nat.ltb (N.to_nat j) (length abits)) with true by lia.
    rewrite (R_bit _ _ _ j Ra), (R_bit _ _ _ j Ro). reflexivity.
Qed.

Lemma length_zeros n : length (zeros n) = N.to_nat n.
Proof. unfold zeros. apply repeat_length. Qed.

(* generic: a zip over [bytes_for_bit_len L] bytes *)
Lemma R_zip fl f fb a abits o obits L :
  R fl a abits -> R fl o obits ->
  (forall x y j, N.testbit (f x y) j = fb (N.testbit x j) (N.testbit y j)) ->
  (forall x y, x < 256 -> y < 256 -> f x y < 256) ->
  len_ok fl L ->
  (forall i, L <= i -> fb (bit_at (bf_bytes a) i) (bit_at (bf_bytes o) i) = false) ->
  R fl {| bf_bytes := zip_get_or0 f (length (zeros (bytes_for_bit_len L))) (bf_bytes a) (bf_bytes o);
          bf_len := L |} (a_zip fb (N.to_nat L) abits obits).
Proof.
  intros Ra Ro Hf Hw Hok Hz. rewrite length_zeros.
  assert (Hbit : forall i, bit_at (zip_get_or0 f (N.to_nat (bytes_for_bit_len L)) (bf_bytes a) (bf_bytes o)) i =
                           if i <? L then fb (bit_at (bf_bytes a) i) (bit_at (bf_bytes o) i) else false).
  { intros i. rewrite (bit_at_zip f fb) by exact Hf. rewrite N2Nat.id.
    destruct (i <? L) eqn:E.
    - replace (i <? 8 * bytes_for_bit_len L) with true by (unfold bytes_for_bit_len; lia). reflexivity.
    - rewrite Hz by lia. destruct (i <? 8 * bytes_for_bit_len L); reflexivity. }
  apply R_intro; cbn [bf_bytes bf_len]; auto.
  - split; [|split]; cbn [bf_bytes bf_len].
    + unfold len. rewrite length_zip. lia.
    + apply wfb_zip; auto; [apply (R_Inv _ _ _ Ra) | apply (R_Inv _ _ _ Ro)].
    + intros i Hi. rewrite Hbit. replace (i <? L) with false by lia. reflexivity.
  - unfold blen. rewrite length_a_zip. lia.
  - intros j Hj. rewrite Hbit, nth_a_zip. replace (j <? L) with true by lia.
    replace (Nat.ltb (N.to_nat j) (N.to_nat L)) with true by lia.
    rewrite (R_bit _ _ _ j Ra), (R_bit _ _ _ j Ro). reflexivity.
Qed.

Lemma Inv_above b i : Inv b -> bf_len b <= i -> bit_at (bf_bytes b) i = false.
Proof. intros (_ & _ & Hz). apply Hz. Qed.

Lemma R_union fl a abits o obits : R fl a abits -> R fl o obits ->
  match i_union fl a o, a_union fl abits obits with Ok r, Ok rbits => R fl r rbits | _, _ => False end.
Proof.
  intros Ra Ro. pose proof (R_len _ _ _ Ra) as Hla. pose proof (R_len _ _ _ Ro) as Hlo.
  pose proof (R_len_ok _ _ _ Ra) as Hoka. pose proof (R_len_ok _ _ _ Ro) as Hoko.
  pose proof (R_Inv _ _ _ Ra) as HIa. pose proof (R_Inv _ _ _ Ro) as HIo.
  unfold blen in Hla, Hlo.
  destruct fl as [cap|m|]; cbn [i_union a_union len_ok] in *.
  - unfold bl_union, bl_with_capacity.
    replace (N.max (bf_len a) (bf_len o) <=? cap) with true by lia. cbn [bf_bytes bf_len].
    replace (Nat.max (length abits) (length obits)) with (N.to_nat (N.max (bf_len a) (bf_len o))) by lia.
    apply (R_zip (FList cap) N.lor orb); auto.
    + intros x y j. apply N.lor_spec.
    + apply lor_lt_256.
    + cbn [len_ok]. lia.
    + intros i Hi. rewrite !Inv_above by (auto; lia). reflexivity.
  - unfold bv_union, bv_new. cbn [bf_bytes bf_len].
    apply (R_zip (FVec m) N.lor orb); auto.
    + intros x y j. apply N.lor_spec.
    + apply lor_lt_256.
    + reflexivity.
    + intros i Hi. rewrite !Inv_above by (auto; lia). reflexivity.
  - unfold bd_union, bd_binop, bd_new.
    replace (N.max (bf_len a) (bf_len o) =? 0) with false by lia.
    replace (negb (N.max (bf_len a) (bf_len o) mod 8 =? 0)) with false by lia.
    cbn [bind bf_bytes bf_len].
    replace (Nat.max (length abits) (length obits)) with (N.to_nat (N.max (bf_len a) (bf_len o))) by lia.
    apply (R_zip FDyn N.lor orb); auto.
    + intros x y j. apply N.lor_spec.
    + apply lor_lt_256.
    + cbn [len_ok]. lia.
    + intros i Hi. rewrite !Inv_above by (auto; lia). reflexivity.
Qed.

Lemma bfbl_mono a b : a <= b -> bytes_for_bit_len a <= bytes_for_bit_len b.
Proof. unfold bytes_for_bit_len. lia. Qed.

Lemma R_inter fl a abits o obits : R fl a abits -> R fl o obits ->
  match i_inter fl a o, a_inter fl abits obits with Ok r, Ok rbits => R fl r rbits | _, _ => False end.
Proof.
  intros Ra Ro. pose proof (R_len _ _ _ Ra) as Hla. pose proof (R_len _ _ _ Ro) as Hlo.
  pose proof (R_len_ok _ _ _ Ra) as Hoka. pose proof (R_len_ok _ _ _ Ro) as Hoko.
  pose proof (R_Inv _ _ _ Ra) as HIa. pose proof (R_Inv _ _ _ Ro) as HIo.
  pose proof HIa as (Hba & _ & _). pose proof HIo as (Hbo & _ & _).
  unfold blen in Hla, Hlo. unfold len in Hba, Hbo.
  destruct fl as [cap|m|]; cbn [i_inter a_inter len_ok] in *.
  - unfold bl_intersection, bl_with_capacity.
    replace (N.min (bf_len a) (bf_len o) <=? cap) with true by lia. cbn [bf_bytes bf_len].
    pose proof (bfbl_mono (N.min (bf_len a) (bf_len o)) (bf_len a) ltac:(lia)).
    pose proof (bfbl_mono (N.min (bf_len a) (bf_len o)) (bf_len o) ltac:(lia)).
    rewrite and_index_zip by (rewrite length_zeros; lia). cbn [bind].
    replace (Nat.min (length abits) (length obits)) with (N.to_nat (N.min (bf_len a) (bf_len o))) by lia.
    apply (R_zip (FList cap) N.land andb); auto.
    + intros x y j. apply N.land_spec.
    + intros x y Hx _. apply land_lt_256, Hx.
    + cbn [len_ok]. lia.
    + intros i Hi. destruct (bf_len a <=? bf_len o) eqn:E.
      * rewrite (Inv_above a) by (auto; lia). reflexivity.
      * rewrite (Inv_above o) by (auto; lia). apply Bool.andb_false_r.
  - unfold bv_intersection, bv_new. cbn [bf_bytes bf_len]. rewrite Hoka in Hba. rewrite Hoko in Hbo.
    rewrite and_index_zip by (rewrite length_zeros; lia). cbn [bind].
    apply (R_zip (FVec m) N.land andb); auto.
    + intros x y j. apply N.land_spec.
    + intros x y Hx _. apply land_lt_256, Hx.
    + reflexivity.
    + intros i Hi. rewrite !Inv_above by (auto; lia). reflexivity.
  - unfold bd_intersection, bd_binop, bd_new.
    replace (N.max (bf_len a) (bf_len o) =? 0) with false by lia.
    replace (negb (N.max (bf_len a) (bf_len o) mod 8 =? 0)) with false by lia.
    cbn [bind bf_bytes bf_len].
    replace (Nat.max (length abits) (length obits)) with (N.to_nat (N.max (bf_len a) (bf_len o))) by lia.
    apply (R_zip FDyn N.land andb); auto.
    + intros x y j. apply N.land_spec.
    + intros x y Hx _. apply land_lt_256, Hx.
    + cbn [len_ok]. lia.
    + intros i Hi. rewrite !Inv_above by (auto; lia). reflexivity.
Qed.

(** ** observations *)
(* the unpacked bytes are the bits followed by padding zeros *)
Lemma R_unpack fl b bits : R fl b bits ->
  exists pad, unpack (bf_bytes b) = bits ++ pad /\ forallb negb pad = true.
Proof.
  intros HR. pose proof (R_len _ _ _ HR) as Hl. unfold blen in Hl.
  pose proof (R_Inv _ _ _ HR) as (Hlen & _ & Hz). unfold len in Hlen.
  exists (skipn (length bits) (unpack (bf_bytes b))). split.
  - rewrite <- (firstn_skipn (length bits) (unpack (bf_bytes b))) at 1. f_equal.
    apply list_bool_ext.
    + rewrite firstn_length, length_unpack. unfold bytes_for_bit_len in Hlen. lia.
    + intros k Hk. rewrite nth_firstn.
      rewrite firstn_length, length_unpack in Hk.
      replace (Nat.ltb k (length bits)) with true by lia.
      rewrite nth_unpack. apply (R_bitn _ _ _ k HR).
  - apply forallb_negb_nth. intros k. rewrite nth_skipn, nth_unpack. apply Hz. lia.
Qed.

Lemma count_true_app a b : count_true (a ++ b) = count_true a + count_true b.
Proof. unfold count_true. rewrite map_app, sumN_app. reflexivity. Qed.
Lemma count_true_zero l : forallb negb l = true -> count_true l = 0.
Proof.
  induction l as [|x r IH]; [reflexivity|]. cbn [forallb]. intros H.
  apply Bool.andb_true_iff in H. destruct H as [Hx Hr]. destruct x; [discriminate|].
  unfold count_true in *. cbn [map sumN]. rewrite IH by exact Hr. reflexivity.
Qed.
Lemma count_ones8_bits x : x < 256 -> count_ones8 x = count_true (byte_bits x).
Proof.
  intros Hx. apply N.eqb_eq. revert x Hx.
  apply (sweep1 (fun x => count_ones8 x =? count_true (byte_bits x))). vm_compute. reflexivity.
Qed.
Lemma count_unpack bs : wfb bs -> sumN (map count_ones8 bs) = count_true (unpack bs).
Proof.
  induction 1 as [|x r Hx Hr IH]; [reflexivity|].
  rewrite unpack_cons, count_true_app. cbn [map sumN]. rewrite IH, count_ones8_bits by exact Hx.
  reflexivity.
Qed.
Lemma zero_byte_bits x : x < 256 -> (x =? 0) = forallb negb (byte_bits x).
Proof.
  intros Hx. apply Bool.eqb_prop. revert x Hx.
  apply (sweep1 (fun x => Bool.eqb (x =? 0) (forallb negb (byte_bits x)))). vm_compute. reflexivity.
Qed.
Lemma zero_unpack bs : wfb bs -> forallb (fun x => x =? 0) bs = forallb negb (unpack bs).
Proof.
  induction 1 as [|x r Hx Hr IH]; [reflexivity|].
  rewrite unpack_cons, forallb_app. cbn [forallb]. rewrite IH, zero_byte_bits by exact Hx.
  reflexivity.
Qed.

Lemma a_hsb_go_spec bits : forall i acc,
  match a_hsb_go bits i acc with
  | Some l => (acc = Some l /\ forall j, nth j bits false = false) \/
              (exists p, l = i + N.of_nat p /\ nth p bits false = true /\
                         forall j, (p < j)%nat -> nth j bits false = false)
  | None => acc = None /\ forall j, nth j bits false = false
  end.
Proof.
  induction bits as [|x r IH]; intros i acc.
  - cbn [a_hsb_go]. destruct acc as [l|]; [left|]; split; auto; intros j; destruct j; reflexivity.
  - cbn [a_hsb_go]. specialize (IH (i + 1) (if x then Some i else acc)).
    destruct (a_hsb_go r (i + 1) _) as [l|].
    + destruct IH as [[Hacc Hall]|(p & Hl & Hpt & Hpa)].
      * destruct x.
        -- right. exists 0%nat. split; [injection Hacc as <-; lia|]. split; [reflexivity|].
           intros j Hj. destruct j; [lia|]. cbn [nth]. apply Hall.
        -- left. split; [exact Hacc|]. intros j. destruct j; [reflexivity | apply Hall].
      * right. exists (S p). split; [lia|]. split; [exact Hpt|].
        intros j Hj. destruct j; [lia|]. cbn [nth]. apply Hpa. lia.
    + destruct IH as [Hacc Hall]. destruct x; [discriminate|].
      split; [exact Hacc|]. intros j. destruct j; [reflexivity | apply Hall].
Qed.
Lemma a_hsb_none bits : (forall j, nth j bits false = false) -> a_hsb bits = None.
Proof.
  intros H. unfold a_hsb. pose proof (a_hsb_go_spec bits 0 None) as S.
  destruct (a_hsb_go bits 0 None) as [l|]; [|reflexivity].
  destruct S as [[Hacc _]|(p & _ & Hpt & _)]; [discriminate|]. rewrite H in Hpt. discriminate.
Qed.
Lemma a_hsb_unique bits p : nth p bits false = true ->
  (forall j, (p < j)%nat -> nth j bits false = false) -> a_hsb bits = Some (N.of_nat p).
Proof.
  intros Ht Ha. unfold a_hsb. pose proof (a_hsb_go_spec bits 0 None) as S.
  destruct (a_hsb_go bits 0 None) as [l|].
  - destruct S as [[Hacc _]|(q & Hl & Hqt & Hqa)]; [discriminate|]. f_equal.
    destruct (Nat.lt_trichotomy q p) as [Hlt|[Heq|Hgt]].
    + rewrite Hqa in Ht by exact Hlt. discriminate.
    + lia.
    + rewrite Ha in Hqt by exact Hgt. discriminate.
  - destruct S as [_ Hall]. rewrite Hall in Ht. discriminate.
Qed.

Lemma R_hsb fl b bits : R fl b bits -> highest_set_bit b = a_hsb bits.
Proof.
  intros HR. pose proof (R_Inv _ _ _ HR) as (_ & Hw & _).
  destruct b as [bs n]. cbn [bf_bytes] in *.
  destruct (highest_set_bit _) as [l|] eqn:E.
  - apply hsb_some in E; auto. destruct E as (_ & Ht & Ha). symmetry.
    rewrite <- (N2Nat.id l). apply a_hsb_unique.
    + rewrite <- (R_bitn _ _ _ _ HR). cbn [bf_bytes]. rewrite N2Nat.id. exact Ht.
    + intros j Hj. rewrite <- (R_bitn _ _ _ _ HR). cbn [bf_bytes]. apply Ha. lia.
  - symmetry. apply a_hsb_none. intros j. rewrite <- (R_bitn _ _ _ _ HR). cbn [bf_bytes].
    apply (hsb_none bs n Hw E).
Qed.

Lemma R_slice fl b bits : R fl b bits -> bf_bytes b = a_slice bits.
Proof.
  intros HR. pose proof (R_Inv _ _ _ HR) as (Hlen & Hw & _).
  pose proof (R_len _ _ _ HR) as Hl. unfold a_slice. rewrite <- Hl.
  etransitivity; [apply (pack_of_bytes bits); auto|].
  - intros i _. apply (R_bit _ _ _ i HR).
  - f_equal. unfold len in Hlen. lia.
Qed.

Lemma R_ssz fl b bits : R fl b bits -> i_ssz fl b = a_ssz fl bits.
Proof.
  intros HR. pose proof (R_Inv _ _ _ HR) as HI. pose proof HI as (Hlen & Hw & Hz).
  pose proof (R_len _ _ _ HR) as Hl. pose proof (R_len_ok _ _ _ HR) as Hok.
  unfold blen in Hl. unfold len in Hlen.
  destruct fl as [cap|m|]; cbn [i_ssz a_ssz len_ok] in *.
  - destruct (bl_into_bytes_spec b HI) as (b2 & Hinto & HI2 & Hl2 & Hb2). rewrite Hinto.
    unfold spec_bitlist. destruct HI2 as (Hlen2 & Hw2 & _).
    etransitivity; [apply (pack_of_bytes (bits ++ [true])); auto|].
    + intros i _. rewrite Hb2, (R_bit _ _ _ i HR). destruct (i =? bf_len b) eqn:E.
      * rewrite app_nth2 by lia. replace (N.to_nat i - length bits)%nat with 0%nat by lia.
        reflexivity.
      * destruct (i <? bf_len b) eqn:E2.
        -- rewrite app_nth1 by lia. reflexivity.
        -- rewrite !nth_overflow; [reflexivity| |lia]. rewrite app_length. cbn [length]. lia.
    + f_equal. unfold len, bytes_for_bit_len in Hlen2. lia.
  - unfold bv_into_bytes, spec_bitvector.
    etransitivity; [apply (pack_of_bytes bits); auto|].
    + intros i _. apply (R_bit _ _ _ i HR).
    + f_equal. unfold bytes_for_bit_len in Hlen. lia.
  - unfold bd_into_bytes.
    etransitivity; [apply (pack_of_bytes bits); auto|].
    + intros i _. apply (R_bit _ _ _ i HR).
    + f_equal. unfold bytes_for_bit_len in Hlen. lia.
Qed.

Lemma R_observe fl b bits : R fl b bits ->
  num_set_bits b = count_true bits /\ highest_set_bit b = a_hsb bits /\ is_zero b = forallb negb bits /\
  bf_bytes b = a_slice bits /\ i_ssz fl b = a_ssz fl bits /\ bf_hash_stream b = len (a_slice bits) :: a_slice bits ++ [blen bits].
Proof.
  intros HR. pose proof (R_Inv _ _ _ HR) as (_ & Hw & _).
  destruct (R_unpack _ _ _ HR) as (pad & Hu & Hpad).
  split; [|split; [|split; [|split; [|split]]]].
  - unfold num_set_bits. rewrite count_unpack, Hu, count_true_app, (count_true_zero pad) by auto. lia.
  - apply (R_hsb _ _ _ HR).
  - unfold is_zero. rewrite zero_unpack, Hu, forallb_app, Hpad by auto. apply Bool.andb_true_r.
  - apply (R_slice _ _ _ HR).
  - apply (R_ssz _ _ _ HR).
  - unfold bf_hash_stream. rewrite <- (R_slice _ _ _ HR), (R_len _ _ _ HR). reflexivity.
Qed.

Lemma R_subset fl a abits o obits : R fl a abits -> R fl o obits ->
  bf_is_subset a o = forallb negb (a_diff abits obits).
Proof.
  intros Ra Ro. unfold bf_is_subset, difference.
  apply (R_observe fl (difference_inplace a o) (a_diff abits obits)). apply R_diff; auto.
Qed.

Lemma bytes_eqb_eq a b : bytes_eqb a b = true <-> a = b.
Proof.
  revert b. induction a as [|x r IH]; intros [|y s]; cbn [bytes_eqb]; split; try congruence; try discriminate.
  - intros H. apply Bool.andb_true_iff in H. destruct H as [H1 H2]. apply IH in H2. f_equal; [lia|exact H2].
  - intros [= -> ->]. rewrite N.eqb_refl. apply IH. reflexivity.
Qed.
Lemma bits_eqb_eq a b : bits_eqb a b = true <-> a = b.
Proof.
  revert b. induction a as [|x r IH]; intros [|y s]; cbn [bits_eqb]; split; try congruence; try discriminate.
  - intros H. apply Bool.andb_true_iff in H. destruct H as [H1 H2]. apply IH in H2.
    apply Bool.eqb_prop in H1. congruence.
  - intros [= -> ->]. rewrite Bool.eqb_reflx. apply IH. reflexivity.
Qed.
Lemma R_eqb fl a abits o obits : R fl a abits -> R fl o obits -> bf_eqb a o = bits_eqb abits obits.
Proof.
  intros Ra Ro. apply Bool.eq_true_iff_eq. rewrite bits_eqb_eq. unfold bf_eqb.
  rewrite Bool.andb_true_iff, bytes_eqb_eq. split.
  - intros [H1 H2]. destruct Ra as (_ & <- & _), Ro as (_ & <- & _).
    destruct a as [ba la], o as [bo lo]. cbn [bf_bytes bf_len] in *. f_equal. f_equal; [exact H2 | lia].
  - intros <-. assert (a = o) as <-.
    { apply Inv_ext; [apply Ra | apply Ro | |].
      - rewrite (R_len _ _ _ Ra), (R_len _ _ _ Ro). reflexivity.
      - intros i _. rewrite (R_bit _ _ _ i Ra), (R_bit _ _ _ i Ro). reflexivity. }
    split; [lia | reflexivity].
Qed.

(** ** decoding: the accept sets in closed form *)
Lemma R_firstn_unpack fl b bs : Inv b -> len_ok fl (bf_len b) -> bf_len b <= 8 * len bs ->
  (forall j, j < bf_len b -> bit_at (bf_bytes b) j = bit_at bs j) ->
  R fl b (firstn (N.to_nat (bf_len b)) (unpack bs)).
Proof.
  intros HI Hok Hle Hb. unfold len in Hle. apply R_intro; auto.
  - unfold blen. rewrite firstn_length, length_unpack. lia.
  - intros j Hj. rewrite Hb by exact Hj. rewrite nth_firstn, nth_unpack, N2Nat.id.
    replace (Nat.ltb (N.to_nat j) (N.to_nat (bf_len b))) with true by lia. reflexivity.
Qed.

Lemma tail_zero bs n :
  forallb negb (skipn n (unpack bs)) = true <-> (forall i, N.of_nat n <= i -> bit_at bs i = false).
Proof.
  rewrite forallb_negb_nth. split.
  - intros H i Hi. specialize (H (N.to_nat i - n)%nat). rewrite nth_skipn, nth_unpack in H.
    rewrite <- H. f_equal. lia.
  - intros H k. rewrite nth_skipn, nth_unpack. apply H. lia.
Qed.

Lemma bl_decode_hi bs pre last : wfb bs -> bs = pre ++ [last] -> last <> 0 ->
  let l := 8 * (len bs - 1) + N.log2 last in
  len bs = l / 8 + 1 /\ bit_at bs l = true /\ (forall j, l < j -> bit_at bs j = false).
Proof.
  intros Hw Hbs Hne l. assert (Hlast : last < 256).
  { rewrite Hbs in Hw. apply wfb_app in Hw. destruct Hw as [_ Hw]. inversion Hw; auto. }
  destruct (byte_log2 last Hlast ltac:(lia)) as (Hlg & Htb & Hab).
  assert (Hlen : len bs = len pre + 1). { rewrite Hbs, len_app, len_cons, len_nil. lia. }
  assert (Hl : l = 8 * len pre + N.log2 last). { unfold l. rewrite Hlen. lia. }
  split; [lia|]. split.
  - rewrite Hbs, bit_at_app. replace (l <? 8 * len pre) with false by lia.
    rewrite bit_at_cons. replace (l - 8 * len pre) with (N.log2 last) by lia.
    replace (N.log2 last <? 8) with true by lia. exact Htb.
  - intros j Hj. rewrite Hbs, bit_at_app. replace (j <? 8 * len pre) with false by lia.
    rewrite bit_at_cons. destruct (j - 8 * len pre <? 8) eqn:E; [|apply bit_at_nil].
    apply Hab. lia.
Qed.

Lemma R_decode_list cap bs : wfb bs ->
  match bl_from_bytes cap bs, a_decode (FList cap) bs with
  | Ok b, Ok bits => R (FList cap) b bits | Err, Err => True | _, _ => False end.
Proof.
  intros Hw. cbn [a_decode]. destruct (rev bs) as [|last t] eqn:Er.
  - apply rev_nil_inv in Er. subst bs. vm_compute. exact I.
  - assert (Hbs : bs = rev t ++ [last]).
    { rewrite <- (rev_involutive bs), Er. reflexivity. }
    assert (Hlen : len bs = len (rev t) + 1). { rewrite Hbs, len_app, len_cons, len_nil. lia. }
    pose proof (bitlist_no_panic cap bs Hw) as Hnp.
    destruct (last =? 0) eqn:E0.
    + destruct (bl_from_bytes cap bs) as [b| |] eqn:Ei; [|exact I|congruence].
      destruct (bl_from_bytes_elim cap bs b Hw Ei) as (l & Hl & _ & Ht & _).
      rewrite Hbs, bit_at_app in Ht. replace (l <? 8 * len (rev t)) with false in Ht by lia.
      rewrite bit_at_cons in Ht. replace last with 0 in Ht by lia.
      rewrite N.bits_0, bit_at_nil in Ht. destruct (_ <? 8); discriminate.
    + destruct (bl_decode_hi bs (rev t) last Hw Hbs ltac:(lia)) as (Hl & Ht & Ha).
      set (l := 8 * (len bs - 1) + N.log2 last) in *.
      destruct (l <=? cap) eqn:Ec.
      * destruct (bl_from_bytes_intro cap bs l Hw Hl ltac:(lia) Ht Ha) as (b & Hb & HI & Hbl & Hbits).
        rewrite Hb. rewrite <- Hbl. apply R_firstn_unpack; auto.
        -- cbn [len_ok]. lia.
        -- lia.
        -- intros j Hj. apply Hbits. lia.
      * destruct (bl_from_bytes cap bs) as [b| |] eqn:Ei; [|exact I|congruence].
        destruct (bl_from_bytes_elim cap bs b Hw Ei) as (l' & _ & Hcap & Ht' & Ha' & _).
        destruct (N.lt_trichotomy l' l) as [Hlt|[Heq|Hgt]].
        -- rewrite Ha' in Ht by exact Hlt. discriminate.
        -- lia.
        -- rewrite Ha in Ht' by exact Hgt. discriminate.
Qed.

Lemma R_decode_vec n bs : wfb bs ->
  match bv_from_bytes n bs, a_decode (FVec n) bs with
  | Ok b, Ok bits => R (FVec n) b bits | Err, Err => True | _, _ => False end.
Proof.
  intros Hw. cbn [a_decode]. unfold bv_from_bytes.
  pose proof (from_raw_bytes_no_panic bs n) as Hnp.
  destruct ((len bs =? bytes_for_bit_len n) && forallb negb (skipn (N.to_nat n) (unpack bs))) eqn:Ec.
  - apply Bool.andb_true_iff in Ec. destruct Ec as [E1 E2]. rewrite tail_zero, N2Nat.id in E2.
    rewrite from_raw_intro by (auto; lia).
    apply (R_firstn_unpack (FVec n) {| bf_bytes := bs; bf_len := n |} bs); cbn [bf_bytes bf_len]; auto.
    + split; [|split]; cbn [bf_bytes bf_len]; auto. lia.
    + reflexivity.
    + unfold bytes_for_bit_len in E1. lia.
  - destruct (from_raw_bytes bs n) as [b| |] eqn:Ef; [|exact I|congruence].
    destruct (from_raw_elim bs n b Hw Ef) as (_ & Hl & Hz).
    assert (forallb negb (skipn (N.to_nat n) (unpack bs)) = true) as E2.
    { apply tail_zero. rewrite N2Nat.id. exact Hz. }
    rewrite E2 in Ec. lia.
Qed.

Lemma R_decode_dyn bs : wfb bs ->
  match bd_decode bs, a_decode FDyn bs with
  | Ok b, Ok bits => R FDyn b bits | Err, Err => True | _, _ => False end.
Proof.
  intros Hw. destruct (nil_or_not bs) as [->|Hne]; [exact I|].
  assert (Ha : a_decode FDyn bs = Ok (unpack bs)) by (destruct bs; [congruence|reflexivity]).
  rewrite Ha, bd_decode_eq, from_raw_full by auto.
  pose proof (len_pos bs Hne) as Hp.
  rewrite <- (firstn_all2 (n := N.to_nat (len bs * 8)) (unpack bs))
    by (rewrite length_unpack; unfold len; lia).
  apply (R_firstn_unpack FDyn {| bf_bytes := bs; bf_len := len bs * 8 |} bs); cbn [bf_bytes bf_len]; auto.
  - apply Inv_full; auto.
  - cbn [len_ok]. lia.
  - lia.
Qed.

Lemma R_decode fl bs : wfb bs ->
  match i_decode fl bs, a_decode fl bs with Ok b, Ok bits => R fl b bits | Err, Err => True | _, _ => False end.
Proof.
  intros Hw. destruct fl as [cap|n|]; cbn [i_decode].
  - apply R_decode_list, Hw.
  - apply R_decode_vec, Hw.
  - apply R_decode_dyn, Hw.
Qed.

(** ** histories *)
Definition ops_wfb (ops : list bop) : Prop :=
  Forall (fun o => match o with ODecode _ bs => wfb bs | _ => True end) ops.

Definition oR (fl : flavour) (x : option bf) (y : option (list bool)) : Prop :=
  match x, y with Some b, Some bits => R fl b bits | None, None => True | _, _ => False end.
Definition RR (fl : flavour) (rs : regs bf) (rs' : regs (list bool)) : Prop := Forall2 (oR fl) rs rs'.
(* outcomes of related operations *)
Definition resR (fl : flavour) (x : outcome bf) (y : outcome (list bool)) : Prop :=
  match x, y with Ok b, Ok bits => R fl b bits | Err, Err => True | _, _ => False end.

Lemma RR_nth fl rs rs' k : RR fl rs rs' -> oR fl (nth k rs None) (nth k rs' None).
Proof.
  intros H. revert k. induction H as [|x y r r' Hxy _ IH]; intros k.
  - destruct k; exact I.
  - destruct k; cbn [nth]; [exact Hxy | apply IH].
Qed.
Lemma RR_get fl rs rs' r : RR fl rs rs' -> oR fl (reg_get rs r) (reg_get rs' r).
Proof. intros H. unfold reg_get. apply RR_nth, H. Qed.
Lemma RR_set_idx fl rs rs' k x y : RR fl rs rs' -> oR fl x y -> RR fl (set_idx rs k x) (set_idx rs' k y).
Proof.
  intros H Hxy. revert k. induction H as [|x0 y0 r r' Hxy0 Hr IH]; intros k.
  - constructor.
  - destruct k; cbn [set_idx]; constructor; auto. apply IH.
Qed.
Lemma RR_set fl rs rs' r x y : RR fl rs rs' -> oR fl x y -> RR fl (reg_set rs r x) (reg_set rs' r y).
Proof. intros H Hxy. unfold reg_set. apply RR_set_idx; auto. Qed.
Lemma RR_empty fl : RR fl empty_regs empty_regs.
Proof. repeat constructor. Qed.

Definition i_upd (rs : regs bf) (r : nat) (res : outcome bf) : regs bf * N * option bool :=
  match res with
  | Ok b => (reg_set rs r (Some b), 0, None)
  | Err => (rs, 1, None)
  | Panic => (rs, 2, None)
  end.
Definition a_upd (rs : regs (list bool)) (r : nat) (res : outcome (list bool)) : regs (list bool) * N * option bool :=
  match res with
  | Ok b => (reg_set rs r (Some b), 0, None)
  | Err => (rs, 1, None)
  | Panic => (rs, 2, None)
  end.
Definition stepR (fl : flavour) (x : regs bf * N * option bool) (y : regs (list bool) * N * option bool) : Prop :=
  RR fl (fst (fst x)) (fst (fst y)) /\ snd (fst x) = snd (fst y) /\ snd x = snd y.

Lemma upd_R fl rs rs' r res res' : RR fl rs rs' -> resR fl res res' ->
  stepR fl (i_upd rs r res) (a_upd rs' r res').
Proof.
  intros H Hres. destruct res as [b| |], res' as [bits| |]; cbn [resR] in Hres; try contradiction;
    cbn [i_upd a_upd stepR fst snd].
  - split; [|split; reflexivity]. apply RR_set; auto.
  - split; [exact H|split; reflexivity].
Qed.
Lemma none_R fl rs rs' : RR fl rs rs' -> stepR fl (rs, 1, None) (rs', 1, None).
Proof. intros H. split; [exact H|split; reflexivity]. Qed.

Lemma resR_Ok fl b bits : R fl b bits -> resR fl (Ok b) (Ok bits).
Proof. intros H. exact H. Qed.
Lemma resR_strong fl x y :
  match x, y with Ok r, Ok rbits => R fl r rbits | _, _ => False end -> resR fl x y.
Proof. destruct x, y; cbn [resR]; auto. Qed.

Lemma step_R fl rs rs' o : RR fl rs rs' ->
  match o with ODecode _ bs => wfb bs | _ => True end ->
  stepR fl (i_step fl rs o) (a_step fl rs' o).
Proof.
  intros H Hw.
  destruct o as [r n|r i v|r n|r s|r s|r bs|r a b|r a b|r a b|r a b]; cbn [i_step a_step].
  - apply (upd_R fl rs rs' r _ _ H). apply R_new.
  - pose proof (RR_get fl rs rs' r H) as Hr.
    destruct (reg_get rs r) as [x|], (reg_get rs' r) as [xb|]; cbn [oR] in Hr; try contradiction.
    + apply (upd_R fl rs rs' r _ _ H). apply R_set, Hr.
    + apply none_R, H.
  - pose proof (RR_get fl rs rs' r H) as Hr.
    destruct (reg_get rs r) as [x|], (reg_get rs' r) as [xb|]; cbn [oR] in Hr; try contradiction.
    + apply (upd_R fl rs rs' r _ _ H). apply R_shift_up, Hr.
    + apply none_R, H.
  - pose proof (RR_get fl rs rs' r H) as Hr. pose proof (RR_get fl rs rs' s H) as Hs.
    destruct (reg_get rs r) as [x|], (reg_get rs' r) as [xb|]; cbn [oR] in Hr; try contradiction;
    destruct (reg_get rs s) as [y|], (reg_get rs' s) as [yb|]; cbn [oR] in Hs; try contradiction;
      try (apply none_R, H).
    apply (upd_R fl rs rs' r (Ok (difference_inplace x y)) (Ok (a_diff xb yb)) H). apply resR_Ok, R_diff; auto.
  - pose proof (RR_get fl rs rs' s H) as Hs.
    destruct (reg_get rs s) as [y|], (reg_get rs' s) as [yb|]; cbn [oR] in Hs; try contradiction.
    + apply (upd_R fl rs rs' r (Ok y) (Ok yb) H). apply resR_Ok, Hs.
    + apply none_R, H.
  - apply (upd_R fl rs rs' r _ _ H). apply R_decode, Hw.
  - pose proof (RR_get fl rs rs' a H) as Ha. pose proof (RR_get fl rs rs' b H) as Hb.
    destruct (reg_get rs a) as [x|], (reg_get rs' a) as [xb|]; cbn [oR] in Ha; try contradiction;
    destruct (reg_get rs b) as [y|], (reg_get rs' b) as [yb|]; cbn [oR] in Hb; try contradiction;
      try (apply none_R, H).
    apply (upd_R fl rs rs' r _ _ H). apply resR_strong, R_union; auto.
  - pose proof (RR_get fl rs rs' a H) as Ha. pose proof (RR_get fl rs rs' b H) as Hb.
    destruct (reg_get rs a) as [x|], (reg_get rs' a) as [xb|]; cbn [oR] in Ha; try contradiction;
    destruct (reg_get rs b) as [y|], (reg_get rs' b) as [yb|]; cbn [oR] in Hb; try contradiction;
      try (apply none_R, H).
    apply (upd_R fl rs rs' r _ _ H). apply resR_strong, R_inter; auto.
  - pose proof (RR_get fl rs rs' a H) as Ha. pose proof (RR_get fl rs rs' b H) as Hb.
    destruct (reg_get rs a) as [x|], (reg_get rs' a) as [xb|]; cbn [oR] in Ha; try contradiction;
    destruct (reg_get rs b) as [y|], (reg_get rs' b) as [yb|]; cbn [oR] in Hb; try contradiction;
      try (apply none_R, H).
    apply (upd_R fl rs rs' r (Ok (difference x y)) (Ok (a_diff xb yb)) H). apply resR_Ok. unfold difference. apply R_diff; auto.
  - pose proof (RR_get fl rs rs' a H) as Ha. pose proof (RR_get fl rs rs' b H) as Hb.
    destruct (reg_get rs a) as [x|], (reg_get rs' a) as [xb|]; cbn [oR] in Ha; try contradiction;
    destruct (reg_get rs b) as [y|], (reg_get rs' b) as [yb|]; cbn [oR] in Hb; try contradiction;
      try (apply none_R, H).
    split; [exact H|]. split; [reflexivity|]. cbn [snd]. f_equal. apply (R_subset fl); auto.
Qed.

Lemma eq_map_R fl rs rs' b bits : RR fl rs rs' -> R fl b bits ->
  map (fun x => match x with Some c => bf_eqb b c | None => false end) rs =
  map (fun x => match x with Some c => bits_eqb bits c | None => false end) rs'.
Proof.
  intros H Hb. induction H as [|x y r r' Hxy _ IH]; [reflexivity|]. cbn [map]. f_equal; [|exact IH].
  destruct x as [c|], y as [cb|]; cbn [oR] in Hxy; try contradiction; [|reflexivity].
  apply (R_eqb fl); auto.
Qed.

Lemma observe_R fl rs rs' r st sub : RR fl rs rs' ->
  i_observe fl rs r st sub = a_observe fl rs' r st sub.
Proof.
  intros H. unfold i_observe, a_observe. pose proof (RR_get fl rs rs' r H) as Hr.
  destruct (reg_get rs r) as [b|], (reg_get rs' r) as [bits|]; cbn [oR] in Hr; try contradiction;
    [|reflexivity].
  destruct (R_observe fl b bits Hr) as (H1 & H2 & H3 & H4 & H5 & H6).
  rewrite H1, H2, H3, H4, H5, H6, (R_len _ _ _ Hr), (eq_map_R fl rs rs' b bits H Hr).
  destruct Hr as (_ & -> & _). reflexivity.
Qed.

Lemma run_R fl ops : ops_wfb ops -> forall rs rs', RR fl rs rs' -> i_run fl rs ops = a_run fl rs' ops.
Proof.
  induction 1 as [|o ops Ho _ IH]; intros rs rs' H; [reflexivity|].
  cbn [i_run a_run]. pose proof (step_R fl rs rs' o H Ho) as HS.
  destruct (i_step fl rs o) as [[rs1 st1] sub1], (a_step fl rs' o) as [[rs2 st2] sub2].
  destruct HS as (HR & Hst & Hsub). cbn [fst snd] in HR, Hst, Hsub. subst st2 sub2.
  f_equal; [apply observe_R, HR | apply IH, HR].
Qed.

Theorem run_refines fl ops : ops_wfb ops -> run_impl fl ops = run_abs fl ops.
Proof. intros H. apply run_R; [exact H | apply RR_empty]. Qed.

(** in every reachable state the exposed byte view is minimal and has no bit at or beyond
    [len], and the length rule of the flavour holds *)
Definition obs_ok (fl : flavour) (o : obs) : Prop :=
  o_present o = true ->
  len (o_slice o) = bytes_for_bit_len (o_len o) /\ wfb (o_slice o) /\
  (forall i, o_len o <= i -> bit_at (o_slice o) i = false) /\ len_ok fl (o_len o).

Lemma observe_ok fl rs rs' r st sub : RR fl rs rs' -> obs_ok fl (i_observe fl rs r st sub).
Proof.
  intros H. unfold i_observe, obs_ok. pose proof (RR_get fl rs rs' r H) as Hr.
  destruct (reg_get rs r) as [b|], (reg_get rs' r) as [bits|]; cbn [oR] in Hr; try contradiction.
  - cbn [o_present o_slice o_len]. intros _. destruct Hr as ((H1 & H2 & H3) & _ & H4). auto.
  - cbn [no_obs o_present]. discriminate.
Qed.

Lemma run_ok fl ops : ops_wfb ops -> forall rs rs', RR fl rs rs' -> Forall (obs_ok fl) (i_run fl rs ops).
Proof.
  induction 1 as [|o ops Ho _ IH]; intros rs rs' H; [constructor|].
  cbn [i_run]. pose proof (step_R fl rs rs' o H Ho) as HS.
  destruct (i_step fl rs o) as [[rs1 st1] sub1], (a_step fl rs' o) as [[rs2 st2] sub2].
  destruct HS as (HR & _ & _). cbn [fst snd] in HR.
  constructor; [apply (observe_ok fl rs1 rs2), HR | apply (IH rs1 rs2), HR].
Qed.

Theorem reachable_inv fl ops : ops_wfb ops ->
  Forall (fun o => o_present o = true ->
                   len (o_slice o) = bytes_for_bit_len (o_len o) /\ wfb (o_slice o) /\
                   (forall i, o_len o <= i -> bit_at (o_slice o) i = false) /\ len_ok fl (o_len o))
         (run_impl fl ops).
Proof. intros H. apply (run_ok fl ops H empty_regs empty_regs), RR_empty. Qed.

(** failed operations leave every register unchanged *)
Theorem failed_step_unchanged fl rs o : snd (fst (i_step fl rs o)) <> 0 -> fst (fst (i_step fl rs o)) = rs.
Proof.
  destruct o; cbn [i_step];
    repeat match goal with
           | |- context [match reg_get ?a ?b with _ => _ end] => destruct (reg_get a b)
           end;
    try match goal with
        | |- context [match ?x with Ok _ => _ | Err => _ | Panic => _ end] => destruct x
        end;
    cbn [fst snd]; intros H; try reflexivity; congruence.
Qed.

(** ** remaining construction paths *)
Theorem resize_refines n m b bits : R (FList n) b bits ->
  match bl_resize n m b, a_resize n m bits with
  | Ok r, Ok rbits => R (FList m) r rbits | Err, Err => True | _, _ => False end.
Proof.
  intros HR. pose proof (R_len _ _ _ HR) as Hl. pose proof (R_len_ok _ _ _ HR) as Hok.
  unfold blen in Hl. cbn [len_ok] in Hok. unfold bl_resize, a_resize.
  destruct (m <? n) eqn:E; [exact I|]. unfold bl_with_capacity. rewrite N.leb_refl. cbn [bind].
  destruct HR as (HI & Hit & _). rewrite Hit.
  destruct (set_all_spec bits (zero_bf m) 0 (Inv_zero m)) as (r & H1 & H2 & H3 & H4).
  { cbn [zero_bf bf_len]. lia. }
  change {| bf_bytes := zeros (bytes_for_bit_len m); bf_len := m |} with (zero_bf m).
  rewrite H1. cbn [zero_bf bf_len bf_bytes] in H3, H4. apply R_intro; auto.
  - rewrite H3. unfold blen. rewrite app_length, repeat_length. lia.
  - rewrite H3. cbn [len_ok]. lia.
  - intros j Hj. rewrite H4, bit_at_zeros.
    destruct ((0 <=? j) && (j <? 0 + N.of_nat (length bits))) eqn:E2.
    + rewrite app_nth1 by lia. f_equal. lia.
    + rewrite app_nth2 by lia. rewrite nth_repeat_false. reflexivity.
Qed.

Theorem from_bytes_with_len_refines bs l : wfb bs ->
  match bd_from_bytes_with_len bs l, a_from_bytes_with_len bs l with
  | Ok b, Ok bits => R FDyn b bits | Err, Err => True | _, _ => False end.
Proof.
  intros Hw. unfold bd_from_bytes_with_len, a_from_bytes_with_len.
  destruct (l =? 8 * len bs) eqn:E.
  - replace (negb (l =? len bs * 8)) with false by lia. replace l with (len bs * 8) by lia.
    destruct (nil_or_not bs) as [->|Hne]; [vm_compute; exact I|].
    rewrite <- bd_decode_eq by exact Hne. apply R_decode_dyn, Hw.
  - replace (negb (l =? len bs * 8)) with true by lia. exact I.
Qed.

Theorem dyn_into_bytes b bits : R FDyn b bits -> bd_into_bytes b = a_ssz FDyn bits.
Proof. intros H. apply (R_ssz FDyn b bits H). Qed.


(** ** SSZ round trip on representations, and the [arbitrary] generators *)
(* decoding the SSZ encoding of a bitfield gives back the very same representation (C18, C20) *)
Theorem decode_ssz_round_trip fl b bits : R fl b bits ->
  wfb (i_ssz fl b) /\ i_decode fl (i_ssz fl b) = Ok b.
Proof.
  intros HR. pose proof (R_Inv _ _ _ HR) as HI. pose proof HI as (Hlen & Hw & Hz).
  pose proof (R_len_ok _ _ _ HR) as Hok.
  destruct fl as [cap|m|]; cbn [i_ssz i_decode len_ok] in *.
  - destruct (bl_into_bytes_spec b HI) as (b2 & Hinto & HI2 & Hl2 & Hb2). rewrite Hinto.
    pose proof HI2 as (Hlen2 & Hw2 & _). split; [exact Hw2|].
    destruct (bl_from_bytes_intro cap (bf_bytes b2) (bf_len b)) as (b3 & H3 & HI3 & Hl3 & Hb3); auto.
    + rewrite Hlen2, Hl2. unfold bytes_for_bit_len. lia.
    + rewrite Hb2, N.eqb_refl. reflexivity.
    + intros j Hj. rewrite Hb2. replace (j =? bf_len b) with false by lia. apply Hz. lia.
    + rewrite H3. f_equal. apply Inv_ext; auto. intros i Hi.
      rewrite Hb3 by lia. rewrite Hb2. replace (i =? bf_len b) with false by lia. reflexivity.
  - unfold bv_into_bytes, bv_from_bytes. split; [exact Hw|].
    rewrite <- Hok. apply from_raw_bytes_of_Inv, HI.
  - unfold bd_into_bytes. split; [exact Hw|].
    assert (Hne : bf_bytes b <> []).
    { intros E. rewrite E, len_nil in Hlen. unfold bytes_for_bit_len in Hlen. lia. }
    rewrite bd_decode_eq by exact Hne.
    replace (len (bf_bytes b) * 8) with (bf_len b)
      by (rewrite Hlen; unfold bytes_for_bit_len; lia).
    apply from_raw_bytes_of_Inv, HI.
Qed.

Lemma wfb_fill_buffer data n : wfb data ->
  wfb (fst (fill_buffer data n)) /\ wfb (snd (fill_buffer data n)).
Proof.
  intros Hw. unfold fill_buffer. cbn [fst snd]. split.
  - apply wfb_app. split; [apply wfb_take, Hw | apply wfb_zeros].
  - apply wfb_drop, Hw.
Qed.
Lemma wfb_arb_vec_buf n data : wfb data -> wfb (fst (fill_buffer data (bytes_for_bit_len n))).
Proof. intros Hw. apply wfb_fill_buffer, Hw. Qed.
Lemma wfb_arb_list_buf n data : wfb data ->
  wfb (fst (fill_buffer (snd (arbitrary_usize data)) (N.min (fst (arbitrary_usize data)) n))).
Proof.
  intros Hw. apply wfb_fill_buffer. unfold arbitrary_usize. cbn [snd]. apply wfb_fill_buffer, Hw.
Qed.

Lemma decode_ok_R fl bs b : wfb bs -> i_decode fl bs = Ok b -> exists bits, R fl b bits.
Proof.
  intros Hw H. pose proof (R_decode fl bs Hw) as HD. rewrite H in HD.
  destruct (a_decode fl bs) as [bits| |]; [eauto | contradiction | contradiction].
Qed.

Theorem arb_bitvector_sound n data b : wfb data ->
  arb_bitvector n data = Ok b -> exists bits, R (FVec n) b bits.
Proof.
  intros Hw H. unfold arb_bitvector in H. cbv zeta in H.
  apply (decode_ok_R (FVec n) _ b (wfb_arb_vec_buf n data Hw)). exact H.
Qed.
Theorem arb_bitlist_sound n data b : wfb data ->
  arb_bitlist n data = Ok b -> exists bits, R (FList n) b bits.
Proof.
  intros Hw H. unfold arb_bitlist in H. cbv zeta in H.
  apply (decode_ok_R (FList n) _ b (wfb_arb_list_buf n data Hw)). exact H.
Qed.
Theorem arb_no_panic n data : wfb data -> arb_bitvector n data <> Panic /\ arb_bitlist n data <> Panic.
Proof.
  intros Hw. split.
  - unfold arb_bitvector. cbv zeta. apply bitvector_no_panic.
  - unfold arb_bitlist. cbv zeta. apply bitlist_no_panic, wfb_arb_list_buf, Hw.
Qed.

Theorem arb_bitvector_reachable n : exists b, arb_bitvector n [] = Ok b.
Proof.
  exists (zero_bf n). unfold arb_bitvector, fill_buffer. cbv zeta. cbn [fst].
  change (len []) with 0. rewrite N.min_0_r, N.sub_0_r.
  change (take 0 []) with (@nil N). cbn [app].
  apply (from_raw_bytes_of_Inv (zero_bf n)), Inv_zero.
Qed.

Theorem arb_bitlist_reachable n : 1 <= n -> exists b, arb_bitlist n [1; 0; 0; 0; 0; 0; 0; 0; 1] = Ok b.
Proof.
  intros Hn. unfold arb_bitlist. cbv zeta.
  assert (Hu : arbitrary_usize [1; 0; 0; 0; 0; 0; 0; 0; 1] = (1, [1])) by (vm_compute; reflexivity).
  rewrite Hu. cbn [fst snd]. replace (N.min 1 n) with 1 by lia.
  assert (Hf : fill_buffer [1] 1 = ([1], [])) by (vm_compute; reflexivity).
  rewrite Hf. cbn [fst].
  destruct (bl_from_bytes_intro n [1] 0) as (b & Hb & _).
  - constructor; [lia | constructor].
  - reflexivity.
  - lia.
  - reflexivity.
  - intros j Hj. rewrite bit_at_cons, bit_at_nil. destruct (j <? 8); [|reflexivity].
    apply N.bits_above_log2. exact Hj.
  - exists b. exact Hb.
Qed.
