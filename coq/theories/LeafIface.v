(** * The facts about bitfield leaf types that the generic codec theorems use.

    They are proved in [BitfieldFacts.v] ([LeafProof.v] builds the record); the generic
    theorems take the record as a premise and the property files instantiate it, so nothing
    is assumed in the end. *)
From SSZ Require Import Base Bitfield Types Codec Spec.
Open Scope N_scope.

Record LeafFacts : Prop := {
  lf_bv_rt : forall n bits, N.of_nat (length bits) = n ->
    exists b, bv_from_bytes n (bitvector_bytes n bits) = Ok b /\ bf_iter b = bits;
  lf_bv_canon : forall n bs b, wfb bs -> bv_from_bytes n bs = Ok b ->
    bitvector_bytes n (bf_iter b) = bs /\ N.of_nat (length (bf_iter b)) = n;
  lf_bv_no_panic : forall n bs, bv_from_bytes n bs <> Panic;
  lf_bv_spec : forall n bits, N.of_nat (length bits) = n -> bitvector_bytes n bits = spec_bitvector bits;
  lf_bv_len : forall n bits, N.of_nat (length bits) = n -> len (bitvector_bytes n bits) = bytes_for_bit_len n;
  lf_bv_wfb : forall n bits, wfb (bitvector_bytes n bits);
  lf_bl_rt : forall n bits, N.of_nat (length bits) <= n ->
    exists b, bl_from_bytes n (bitlist_bytes n bits) = Ok b /\ bf_iter b = bits;
  lf_bl_canon : forall n bs b, wfb bs -> bl_from_bytes n bs = Ok b ->
    bitlist_bytes n (bf_iter b) = bs /\ N.of_nat (length (bf_iter b)) <= n;
  lf_bl_no_panic : forall n bs, wfb bs -> bl_from_bytes n bs <> Panic;
  lf_bl_spec : forall n bits, N.of_nat (length bits) <= n -> bitlist_bytes n bits = spec_bitlist bits;
  lf_bl_wfb : forall n bits, wfb (bitlist_bytes n bits);
  lf_bd_rt : forall bits, (0 < length bits)%nat -> N.of_nat (length bits) mod 8 = 0 ->
    exists b, bd_decode (bitdyn_bytes bits) = Ok b /\ bf_iter b = bits;
  lf_bd_canon : forall bs b, wfb bs -> bd_decode bs = Ok b ->
    bitdyn_bytes (bf_iter b) = bs /\ (0 < length (bf_iter b))%nat /\ N.of_nat (length (bf_iter b)) mod 8 = 0;
  lf_bd_no_panic : forall bs, bd_decode bs <> Panic;
  lf_bd_spec : forall bits, (0 < length bits)%nat -> N.of_nat (length bits) mod 8 = 0 ->
    bitdyn_bytes bits = spec_pack bits (Nat.div (length bits) 8);
  lf_bd_wfb : forall bits, wfb (bitdyn_bytes bits)
}.
