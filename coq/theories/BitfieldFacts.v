(** * BitfieldFacts: the representation invariant of bitfields and the leaf-type interface
    (round trip, canonicity, no panic, agreement with the spec) of BitVector / BitList /
    Dynamic bitfields. *)
From SSZ Require Import Base BaseFacts Bitfield Types Codec Spec.
From Coq Require Import ZArith ZifyN ZifyNat ZifyBool.
Open Scope N_scope.
Ltac Zify.zify_post_hook ::= Z.div_mod_to_equations.

(* the representation invariant of every reachable bitfield *)
Definition bit_at (bs : bytes) (i : N) : bool :=
  match nthN bs (i / 8) with Some byte => N.testbit byte (i mod 8) | None => false end.
Definition Inv (b : bf) : Prop :=
  len (bf_bytes b) = bytes_for_bit_len (bf_len b) /\ wfb (bf_bytes b) /\
  (forall i, bf_len b <= i -> bit_at (bf_bytes b) i = false).

(** ** Finite sweeps over bytes and bit positions *)
Definition bytes256 : list N := map N.of_nat (seq 0 256).
Definition idx8 : list N := map N.of_nat (seq 0 8).

Lemma In_bytes256 b : b < 256 -> In b bytes256.
Proof.
  intros H. unfold bytes256. rewrite <- (N2Nat.id b). apply in_map. apply in_seq. lia.
Qed.
Lemma In_idx8 k : In k idx8 <-> k < 8.
Proof.
  unfold idx8. rewrite in_map_iff. split.
  - intros (x & <- & Hx). apply in_seq in Hx. lia.
  - intros H. exists (N.to_nat k). split; [apply N2Nat.id | apply in_seq; lia].
Qed.

Lemma sweep1 (P : N -> bool) :
  forallb P bytes256 = true -> forall b, b < 256 -> P b = true.
Proof. intros H b Hb. rewrite forallb_forall in H. apply H, In_bytes256, Hb. Qed.
Lemma sweep2 (P : N -> N -> bool) :
  forallb (fun b => forallb (P b) idx8) bytes256 = true ->
  forall b k, b < 256 -> k < 8 -> P b k = true.
Proof.
  intros H b k Hb Hk. rewrite forallb_forall in H. specialize (H b (In_bytes256 b Hb)).
  rewrite forallb_forall in H. apply H, In_idx8, Hk.
Qed.
Lemma sweep3 (P : N -> N -> N -> bool) :
  forallb (fun b => forallb (fun k => forallb (P b k) idx8) idx8) bytes256 = true ->
  forall b k j, b < 256 -> k < 8 -> j < 8 -> P b k j = true.
Proof.
  intros H b k j Hb Hk Hj. rewrite forallb_forall in H. specialize (H b (In_bytes256 b Hb)).
  rewrite forallb_forall in H. specialize (H k (proj2 (In_idx8 k) Hk)).
  rewrite forallb_forall in H. apply H, In_idx8, Hj.
Qed.

Lemma byte_set_bits b k j : b < 256 -> k < 8 -> j < 8 ->
  N.testbit (N.lor b (shl8 1 k)) j = (j =? k) || N.testbit b j.
Proof.
  intros Hb Hk Hj. apply Bool.eqb_prop. revert b k j Hb Hk Hj.
  apply (sweep3 (fun b k j => Bool.eqb (N.testbit (N.lor b (shl8 1 k)) j) ((j =? k) || N.testbit b j))).
  vm_compute. reflexivity.
Qed.
Lemma byte_set_lt b k : b < 256 -> k < 8 -> N.lor b (shl8 1 k) < 256.
Proof.
  intros Hb Hk. apply N.ltb_lt. revert b k Hb Hk.
  apply (sweep2 (fun b k => N.lor b (shl8 1 k) <? 256)). vm_compute. reflexivity.
Qed.
Lemma byte_clr_bits b k j : b < 256 -> k < 8 -> j < 8 ->
  N.testbit (N.land b (not8 (shl8 1 k))) j = negb (j =? k) && N.testbit b j.
Proof.
  intros Hb Hk Hj. apply Bool.eqb_prop. revert b k j Hb Hk Hj.
  apply (sweep3 (fun b k j => Bool.eqb (N.testbit (N.land b (not8 (shl8 1 k))) j)
                                       (negb (j =? k) && N.testbit b j))).
  vm_compute. reflexivity.
Qed.
Lemma byte_clr_lt b k : b < 256 -> k < 8 -> N.land b (not8 (shl8 1 k)) < 256.
Proof.
  intros Hb Hk. apply N.ltb_lt. revert b k Hb Hk.
  apply (sweep2 (fun b k => N.land b (not8 (shl8 1 k)) <? 256)). vm_compute. reflexivity.
Qed.
Lemma byte_get b k : b < 256 -> k < 8 -> (0 <? N.land b (shl8 1 k)) = N.testbit b k.
Proof.
  intros Hb Hk. apply Bool.eqb_prop. revert b k Hb Hk.
  apply (sweep2 (fun b k => Bool.eqb (0 <? N.land b (shl8 1 k)) (N.testbit b k))).
  vm_compute. reflexivity.
Qed.
Lemma byte_mask b m : b < 256 -> m < 8 ->
  (N.land b (not8 (overflowing_shr8 255 (8 - m))) =? 0) =
  (m =? 0) || forallb (fun j => (j <? m) || negb (N.testbit b j)) idx8.
Proof.
  intros Hb Hm. apply Bool.eqb_prop. revert b m Hb Hm.
  apply (sweep2 (fun b m => Bool.eqb (N.land b (not8 (overflowing_shr8 255 (8 - m))) =? 0)
                  ((m =? 0) || forallb (fun j => (j <? m) || negb (N.testbit b j)) idx8))).
  vm_compute. reflexivity.
Qed.
Definition byte_of_bits (f : nat -> bool) : N :=
  sumN (map (fun i => if f i then 2 ^ N.of_nat i else 0) (seq 0 8)).
Lemma byte_decomp b : b < 256 -> b = byte_of_bits (fun i => N.testbit b (N.of_nat i)).
Proof.
  intros Hb. apply N.eqb_eq. revert b Hb.
  apply (sweep1 (fun b => b =? byte_of_bits (fun i => N.testbit b (N.of_nat i)))).
  vm_compute. reflexivity.
Qed.
Lemma byte_of_bits_ext f g : (forall i, (i < 8)%nat -> f i = g i) -> byte_of_bits f = byte_of_bits g.
Proof.
  intros H. unfold byte_of_bits. f_equal. apply map_ext_in. intros i Hi. apply in_seq in Hi.
  rewrite H by lia. reflexivity.
Qed.
Lemma byte_ext a b : a < 256 -> b < 256 ->
  (forall j, j < 8 -> N.testbit a j = N.testbit b j) -> a = b.
Proof.
  intros Ha Hb H. rewrite (byte_decomp a Ha), (byte_decomp b Hb).
  apply byte_of_bits_ext. intros i Hi. apply H. lia.
Qed.
Lemma byte_log2 b : b < 256 -> 0 < b ->
  N.log2 b < 8 /\ N.testbit b (N.log2 b) = true /\
  (forall j, N.log2 b < j -> N.testbit b j = false).
Proof.
  intros Hb H0. split; [|split].
  - apply N.log2_lt_pow2; [exact H0|]. change (2 ^ 8) with 256. exact Hb.
  - apply N.bit_log2. lia.
  - intros j Hj. apply N.bits_above_log2. exact Hj.
Qed.

(** ** nthN / updN *)
Lemma nthN_ge l i : len l <= i -> nthN l i = None.
Proof.
  revert i. induction l as [|x r IH]; intros i H; cbn [nthN]; [reflexivity|].
  rewrite len_cons in H. destruct (i =? 0) eqn:E; [lia|]. apply IH. lia.
Qed.
Lemma nthN_lt l i : i < len l -> exists x, nthN l i = Some x.
Proof.
  revert i. induction l as [|x r IH]; intros i H.
  - rewrite len_nil in H. lia.
  - rewrite len_cons in H. cbn [nthN]. destruct (i =? 0) eqn:E; [eauto|]. apply IH. lia.
Qed.
Lemma nthN_wfb l i x : wfb l -> nthN l i = Some x -> x < 256.
Proof.
  intros Hw. revert i. induction Hw as [|y r Hy _ IH]; intros i H; cbn [nthN] in H.
  - discriminate.
  - destruct (i =? 0); [injection H as <-; exact Hy | eapply IH; eauto].
Qed.
Lemma len_updN l i x : len (updN l i x) = len l.
Proof.
  revert i. induction l as [|y r IH]; intros i; cbn [updN]; [reflexivity|].
  destruct (i =? 0); rewrite !len_cons; [reflexivity | rewrite IH; reflexivity].
Qed.
Lemma wfb_updN l i x : wfb l -> x < 256 -> wfb (updN l i x).
Proof.
  intros Hw Hx. revert i. induction Hw as [|y r Hy Hr IH]; intros i; cbn [updN].
  - constructor.
  - destruct (i =? 0); constructor; auto. apply IH.
Qed.
Lemma nthN_updN l i x j :
  i < len l -> nthN (updN l i x) j = if j =? i then Some x else nthN l j.
Proof.
  revert i j. induction l as [|y r IH]; intros i j H.
  - rewrite len_nil in H. lia.
  - rewrite len_cons in H. cbn [updN]. destruct (i =? 0) eqn:Ei; cbn [nthN].
    + destruct (j =? 0) eqn:Ej; destruct (j =? i) eqn:Eji; try lia; reflexivity.
    + destruct (j =? 0) eqn:Ej.
      * destruct (j =? i) eqn:Eji; try lia; reflexivity.
      * rewrite IH by lia.
        destruct (j - 1 =? i - 1) eqn:E1; destruct (j =? i) eqn:E2; try lia; reflexivity.
Qed.

(** ** bit_at *)
Lemma bit_at_nil i : bit_at [] i = false.
Proof. reflexivity. Qed.
Lemma bit_at_cons x r j :
  bit_at (x :: r) j = if j <? 8 then N.testbit x j else bit_at r (j - 8).
Proof.
  unfold bit_at. cbn [nthN]. destruct (j <? 8) eqn:E.
  - replace (j / 8 =? 0) with true by lia. replace (j mod 8) with j by lia. reflexivity.
  - replace (j / 8 =? 0) with false by lia.
    replace ((j - 8) / 8) with (j / 8 - 1) by lia.
    replace ((j - 8) mod 8) with (j mod 8) by lia. reflexivity.
Qed.
Lemma bit_at_out bs i : 8 * len bs <= i -> bit_at bs i = false.
Proof. intros H. unfold bit_at. rewrite nthN_ge by lia. reflexivity. Qed.
Lemma bit_at_app a b i :
  bit_at (a ++ b) i = if i <? 8 * len a then bit_at a i else bit_at b (i - 8 * len a).
Proof.
  revert i. induction a as [|x r IH]; intros i.
  - rewrite len_nil. cbn [app]. replace (i <? 8 * 0) with false by lia.
    replace (i - 8 * 0) with i by lia. reflexivity.
  - cbn [app]. rewrite !bit_at_cons, IH, len_cons.
    destruct (i <? 8) eqn:E1.
    + replace (i <? 8 * (len r + 1)) with true by lia. reflexivity.
    + destruct (i - 8 <? 8 * len r) eqn:E2.
      * replace (i <? 8 * (len r + 1)) with true by lia. reflexivity.
      * replace (i <? 8 * (len r + 1)) with false by lia. f_equal. lia.
Qed.
Lemma bit_at_updN bs k x j : k < len bs ->
  bit_at (updN bs k x) j = if j / 8 =? k then N.testbit x (j mod 8) else bit_at bs j.
Proof.
  intros H. unfold bit_at. rewrite nthN_updN by exact H.
  destruct (j / 8 =? k); reflexivity.
Qed.
Lemma len_zeros n : len (zeros n) = n.
Proof. unfold len, zeros. rewrite repeat_length. lia. Qed.
Lemma wfb_zeros n : wfb (zeros n).
Proof.
  unfold zeros, wfb. apply Forall_forall. intros x Hx. apply repeat_spec in Hx. lia.
Qed.
Lemma bit_at_zeros n i : bit_at (zeros n) i = false.
Proof.
  unfold zeros. generalize (N.to_nat n) as k. intros k. revert i.
  induction k as [|k IH]; intros i; cbn [repeat].
  - reflexivity.
  - rewrite bit_at_cons, IH. destruct (i <? 8); [apply N.bits_0 | reflexivity].
Qed.
Lemma bit_at_firstn k bs i :
  bit_at (firstn k bs) i = if i <? 8 * N.of_nat k then bit_at bs i else false.
Proof.
  revert bs i. induction k as [|k IH]; intros bs i.
  - cbn [firstn]. replace (i <? 8 * N.of_nat 0) with false by lia. reflexivity.
  - destruct bs as [|x r]; cbn [firstn].
    + rewrite bit_at_nil. destruct (i <? _); reflexivity.
    + rewrite !bit_at_cons, IH. destruct (i <? 8) eqn:E1.
      * replace (i <? 8 * N.of_nat (S k)) with true by lia. reflexivity.
      * destruct (i - 8 <? 8 * N.of_nat k) eqn:E2.
        -- replace (i <? 8 * N.of_nat (S k)) with true by lia. reflexivity.
        -- replace (i <? 8 * N.of_nat (S k)) with false by lia. reflexivity.
Qed.
Lemma bit_at_take n bs i :
  bit_at (take n bs) i = if i <? 8 * n then bit_at bs i else false.
Proof. unfold take. rewrite bit_at_firstn, N2Nat.id. reflexivity. Qed.

Lemma bytes_ext a b : len a = len b -> wfb a -> wfb b ->
  (forall i, bit_at a i = bit_at b i) -> a = b.
Proof.
  revert b. induction a as [|x r IH]; intros [|y s] Hl Ha Hb H.
  - reflexivity.
  - rewrite len_nil, len_cons in Hl. lia.
  - rewrite len_nil, len_cons in Hl. lia.
  - rewrite !len_cons in Hl. inversion Ha as [|? ? Hx Hr]; subst.
    inversion Hb as [|? ? Hy Hs]; subst. f_equal.
    + apply byte_ext; auto. intros j Hj. specialize (H j). rewrite !bit_at_cons in H.
      replace (j <? 8) with true in H by lia. exact H.
    + apply IH; auto; [lia|]. intros i. specialize (H (i + 8)). rewrite !bit_at_cons in H.
      replace (i + 8 <? 8) with false in H by lia.
      replace (i + 8 - 8) with i in H by lia. exact H.
Qed.

(** ** get / set / iter under the invariant *)
Lemma Inv_nth b i : Inv b -> i < bf_len b ->
  exists x, nthN (bf_bytes b) (i / 8) = Some x /\ x < 256.
Proof.
  intros (Hl & Hw & _) Hi. destruct (nthN_lt (bf_bytes b) (i / 8)) as [x Hx].
  - rewrite Hl. unfold bytes_for_bit_len. lia.
  - exists x. split; [exact Hx|]. eapply nthN_wfb; eauto.
Qed.

Lemma bf_get_bit_at b i : Inv b -> i < bf_len b -> bf_get b i = Ok (bit_at (bf_bytes b) i).
Proof.
  intros HI Hi. destruct (Inv_nth b i HI Hi) as (x & Hx & Hx256). unfold bf_get, bit_at.
  replace (i <? bf_len b) with true by lia. rewrite Hx. rewrite byte_get by lia. reflexivity.
Qed.
Lemma bf_get_out b i : bf_len b <= i -> bf_get b i = Err.
Proof. intros H. unfold bf_get. replace (i <? bf_len b) with false by lia. reflexivity. Qed.
Lemma bf_set_out b i v : bf_len b <= i -> bf_set b i v = Err.
Proof. intros H. unfold bf_set. replace (i <? bf_len b) with false by lia. reflexivity. Qed.

Lemma bf_set_ok b i v : Inv b -> i < bf_len b ->
  exists b', bf_set b i v = Ok b' /\ Inv b' /\ bf_len b' = bf_len b /\
             (forall j, bit_at (bf_bytes b') j = if j =? i then v else bit_at (bf_bytes b) j).
Proof.
  intros HI Hi. destruct (Inv_nth b i HI Hi) as (x & Hx & Hx256). destruct HI as (Hl & Hw & Hz).
  set (x' := if v then N.lor x (shl8 1 (i mod 8)) else N.land x (not8 (shl8 1 (i mod 8)))).
  assert (Hx' : x' < 256).
  { unfold x'. destruct v; [apply byte_set_lt | apply byte_clr_lt]; lia. }
  assert (Hbits : forall j, j < 8 -> N.testbit x' j = if j =? i mod 8 then v else N.testbit x j).
  { intros j Hj. unfold x'. destruct v.
    - rewrite byte_set_bits by lia. destruct (j =? i mod 8); reflexivity.
    - rewrite byte_clr_bits by lia. destruct (j =? i mod 8); reflexivity. }
  assert (Hk : i / 8 < len (bf_bytes b)). { rewrite Hl. unfold bytes_for_bit_len. lia. }
  assert (Hbit : forall j, bit_at (updN (bf_bytes b) (i / 8) x') j =
                           if j =? i then v else bit_at (bf_bytes b) j).
  { intros j. rewrite bit_at_updN by exact Hk. destruct (j / 8 =? i / 8) eqn:E.
    - rewrite Hbits by lia. unfold bit_at. replace (j / 8) with (i / 8) by lia. rewrite Hx.
      destruct (j =? i) eqn:E2; destruct (j mod 8 =? i mod 8) eqn:E3; try lia; reflexivity.
    - replace (j =? i) with false by lia. reflexivity. }
  exists {| bf_bytes := updN (bf_bytes b) (i / 8) x'; bf_len := bf_len b |}.
  split; [|split; [|split]].
  - unfold bf_set. replace (i <? bf_len b) with true by lia. rewrite Hx. reflexivity.
  - split; [|split]; cbn [bf_bytes bf_len].
    + rewrite len_updN. exact Hl.
    + apply wfb_updN; auto.
    + intros j Hj. rewrite Hbit. replace (j =? i) with false by lia. apply Hz, Hj.
  - reflexivity.
  - exact Hbit.
Qed.

Lemma iter_fuel_spec f b i : Inv b -> i + N.of_nat f <= bf_len b ->
  iter_fuel f b i = map (fun k => bit_at (bf_bytes b) (i + N.of_nat k)) (seq 0 f).
Proof.
  intros HI. revert i. induction f as [|f IH]; intros i H; [reflexivity|].
  cbn [iter_fuel]. rewrite bf_get_bit_at by (auto; lia). rewrite IH by lia.
  cbn [seq map]. rewrite <- seq_shift, map_map. f_equal.
  - f_equal. lia.
  - apply map_ext. intros k. f_equal. lia.
Qed.
Lemma bf_iter_spec b : Inv b ->
  bf_iter b = map (fun k => bit_at (bf_bytes b) (N.of_nat k)) (seq 0 (N.to_nat (bf_len b))).
Proof.
  intros HI. unfold bf_iter. rewrite iter_fuel_spec by (auto; lia).
  apply map_ext. intros k. f_equal.
Qed.
Lemma bf_iter_length b : Inv b -> N.of_nat (length (bf_iter b)) = bf_len b.
Proof. intros HI. rewrite bf_iter_spec, map_length, seq_length by auto. lia. Qed.

Lemma nth_map_seq {A} (f : nat -> A) n k d : (k < n)%nat -> nth k (map f (seq 0 n)) d = f k.
Proof.
  intros H. rewrite (nth_indep _ d (f 0%nat)) by (rewrite map_length, seq_length; auto).
  rewrite map_nth, seq_nth by auto. reflexivity.
Qed.
Lemma nth_bf_iter b k : Inv b -> nth k (bf_iter b) false = bit_at (bf_bytes b) (N.of_nat k).
Proof.
  intros HI. rewrite bf_iter_spec by auto. destruct (Nat.ltb k (N.to_nat (bf_len b))) eqn:E.
  - rewrite nth_map_seq by lia. reflexivity.
  - rewrite nth_overflow by (rewrite map_length, seq_length; lia).
    destruct HI as (_ & _ & Hz). rewrite Hz by lia. reflexivity.
Qed.

(* two invariant-satisfying bitfields with the same length and the same bits are equal *)
Lemma Inv_ext a b : Inv a -> Inv b -> bf_len a = bf_len b ->
  (forall i, i < bf_len a -> bit_at (bf_bytes a) i = bit_at (bf_bytes b) i) -> a = b.
Proof.
  intros (Hla & Hwa & Hza) (Hlb & Hwb & Hzb) Hlen H. destruct a as [ba la], b as [bb lb].
  cbn [bf_bytes bf_len] in *. subst lb. f_equal. apply bytes_ext; auto; [congruence|].
  intros i. destruct (i <? la) eqn:E; [apply H; lia|]. rewrite Hza, Hzb by lia. reflexivity.
Qed.

(** ** from_raw_bytes *)
Lemma rev_nil_inv {A} (l : list A) : rev l = [] -> l = [].
Proof. intros H. rewrite <- (rev_involutive l), H. reflexivity. Qed.
Lemma from_raw_bytes_no_panic bs n : from_raw_bytes bs n <> Panic.
Proof.
  unfold from_raw_bytes. destruct (n =? 0) eqn:En.
  - destruct bs as [|b0 [|? ?]]; try discriminate. destruct (b0 =? 0); discriminate.
  - destruct (negb (len bs =? bytes_for_bit_len n)) eqn:El; [discriminate|].
    destruct (rev bs) as [|l t] eqn:Er.
    + apply rev_nil_inv in Er. subst bs.
      rewrite len_nil in El. unfold bytes_for_bit_len in El. lia.
    + destruct (N.land _ _ =? 0); discriminate.
Qed.

Lemma mask_check bs l t n : wfb bs -> n <> 0 -> len bs = bytes_for_bit_len n -> rev bs = l :: t ->
  ((N.land l (not8 (overflowing_shr8 255 (8 - (n mod 4294967296) mod 8))) =? 0) = true <->
   (forall i, n <= i -> bit_at bs i = false)).
Proof.
  intros Hw Hn Hl Hr. apply (f_equal (@rev _)) in Hr. rewrite rev_involutive in Hr.
  cbn [rev] in Hr. subst bs. set (pre := rev t) in *.
  apply wfb_app in Hw. destruct Hw as [_ Hw]. inversion Hw as [|? ? Hl256 _]; subst.
  rewrite len_app, len_cons, len_nil in Hl. unfold bytes_for_bit_len in Hl.
  replace ((n mod 4294967296) mod 8) with (n mod 8) by lia.
  rewrite byte_mask by lia. destruct (n mod 8 =? 0) eqn:Em; cbn [orb].
  - split; [|reflexivity]. intros _ i Hi. apply bit_at_out.
    rewrite len_app, len_cons, len_nil. lia.
  - rewrite forallb_forall. split.
    + intros Hall i Hi. rewrite bit_at_app.
      replace (i <? 8 * len pre) with false by lia. rewrite bit_at_cons.
      destruct (i - 8 * len pre <? 8) eqn:E; [|apply bit_at_nil].
      specialize (Hall (i - 8 * len pre)). rewrite In_idx8 in Hall. specialize (Hall ltac:(lia)).
      replace (i - 8 * len pre <? n mod 8) with false in Hall by lia. cbn [orb] in Hall.
      destruct (N.testbit l (i - 8 * len pre)); [discriminate|reflexivity].
    + intros H j Hj. apply In_idx8 in Hj. destruct (j <? n mod 8) eqn:E; cbn [orb]; [reflexivity|].
      specialize (H (8 * len pre + j) ltac:(lia)). rewrite bit_at_app in H.
      replace (8 * len pre + j <? 8 * len pre) with false in H by lia.
      replace (8 * len pre + j - 8 * len pre) with j in H by lia.
      rewrite bit_at_cons in H. replace (j <? 8) with true in H by lia. rewrite H. reflexivity.
Qed.

Lemma from_raw_intro bs n : wfb bs -> len bs = bytes_for_bit_len n ->
  (forall i, n <= i -> bit_at bs i = false) ->
  from_raw_bytes bs n = Ok {| bf_bytes := bs; bf_len := n |}.
Proof.
  intros Hw Hl Hz. unfold from_raw_bytes. destruct (n =? 0) eqn:En.
  - apply N.eqb_eq in En. subst n. destruct bs as [|b0 [|b1 r]].
    + rewrite len_nil in Hl. unfold bytes_for_bit_len in Hl. lia.
    + inversion Hw as [|? ? Hb0 _]; subst.
      assert (b0 = 0) as ->.
      { apply byte_ext; [exact Hb0|lia|]. intros j Hj. specialize (Hz j ltac:(lia)).
        rewrite bit_at_cons in Hz. replace (j <? 8) with true in Hz by lia.
        rewrite Hz, N.bits_0. reflexivity. }
      reflexivity.
    + rewrite !len_cons in Hl. unfold bytes_for_bit_len in Hl. lia.
  - replace (negb (len bs =? bytes_for_bit_len n)) with false by lia.
    destruct (rev bs) as [|l t] eqn:Er.
    + apply rev_nil_inv in Er. subst bs.
      rewrite len_nil in Hl. unfold bytes_for_bit_len in Hl. lia.
    + rewrite (proj2 (mask_check bs l t n Hw ltac:(lia) Hl Er) Hz). reflexivity.
Qed.

Lemma from_raw_elim bs n b : wfb bs -> from_raw_bytes bs n = Ok b ->
  b = {| bf_bytes := bs; bf_len := n |} /\ len bs = bytes_for_bit_len n /\
  (forall i, n <= i -> bit_at bs i = false).
Proof.
  intros Hw. unfold from_raw_bytes. destruct (n =? 0) eqn:En.
  - apply N.eqb_eq in En. subst n. destruct bs as [|b0 [|b1 r]]; try discriminate.
    destruct (b0 =? 0) eqn:E0; [|discriminate]. apply N.eqb_eq in E0. subst b0.
    intros [= <-]. split; [reflexivity|]. split; [reflexivity|].
    intros i _. change [0] with (zeros 1). apply bit_at_zeros.
  - destruct (negb (len bs =? bytes_for_bit_len n)) eqn:El; [discriminate|].
    destruct (rev bs) as [|l t] eqn:Er; [discriminate|].
    destruct (N.land _ _ =? 0) eqn:Ec; [|discriminate].
    intros [= <-]. split; [reflexivity|]. split; [lia|].
    apply (proj1 (mask_check bs l t n Hw ltac:(lia) ltac:(lia) Er) Ec).
Qed.

Lemma from_raw_bytes_Inv bs n b : wfb bs -> from_raw_bytes bs n = Ok b ->
  Inv b /\ bf_bytes b = bs /\ bf_len b = n.
Proof.
  intros Hw H. destruct (from_raw_elim bs n b Hw H) as (-> & Hl & Hz).
  split; [|split; reflexivity]. split; [|split]; cbn [bf_bytes bf_len]; auto.
Qed.
Lemma from_raw_bytes_of_Inv b : Inv b -> from_raw_bytes (bf_bytes b) (bf_len b) = Ok b.
Proof.
  intros (Hl & Hw & Hz). destruct b as [bs n]. cbn [bf_bytes bf_len] in *.
  apply from_raw_intro; auto.
Qed.

(** ** Building a bitfield from its bits *)
Lemma set_all_spec bits : forall z i0, Inv z -> i0 + N.of_nat (length bits) <= bf_len z ->
  exists b, set_all z i0 bits = Ok b /\ Inv b /\ bf_len b = bf_len z /\
    forall j, bit_at (bf_bytes b) j =
      if (i0 <=? j) && (j <? i0 + N.of_nat (length bits))
      then nth (N.to_nat (j - i0)) bits false else bit_at (bf_bytes z) j.
Proof.
  induction bits as [|x r IH]; intros z i0 HI H.
  - exists z. cbn [set_all length]. repeat split; try apply HI. intros j.
    replace ((i0 <=? j) && (j <? i0 + N.of_nat 0)) with false by lia. reflexivity.
  - cbn [length] in H.
    destruct (bf_set_ok z i0 x HI ltac:(lia)) as (z' & Hs & HI' & Hl' & Hb').
    destruct (IH z' (i0 + 1) HI' ltac:(lia)) as (b & Hb1 & Hb2 & Hb3 & Hb4).
    exists b. cbn [set_all]. rewrite Hs. cbn [bind].
    split; [exact Hb1|]. split; [exact Hb2|]. split; [congruence|].
    intros j. rewrite Hb4, Hb'. cbn [length]. destruct (j =? i0) eqn:E.
    + replace ((i0 + 1 <=? j) && (j <? i0 + 1 + N.of_nat (length r))) with false by lia.
      replace ((i0 <=? j) && (j <? i0 + N.of_nat (S (length r)))) with true by lia.
      replace (N.to_nat (j - i0)) with 0%nat by lia. reflexivity.
    + destruct ((i0 + 1 <=? j) && (j <? i0 + 1 + N.of_nat (length r))) eqn:E2.
      * replace ((i0 <=? j) && (j <? i0 + N.of_nat (S (length r)))) with true by lia.
        replace (N.to_nat (j - i0)) with (S (N.to_nat (j - (i0 + 1)))) by lia. reflexivity.
      * replace ((i0 <=? j) && (j <? i0 + N.of_nat (S (length r)))) with false by lia.
        reflexivity.
Qed.

Definition zero_bf (n : N) : bf := {| bf_bytes := zeros (bytes_for_bit_len n); bf_len := n |}.
Lemma Inv_zero n : Inv (zero_bf n).
Proof.
  split; [|split]; cbn [zero_bf bf_bytes bf_len].
  - apply len_zeros.
  - apply wfb_zeros.
  - intros i _. apply bit_at_zeros.
Qed.

Lemma of_bits_spec n bits : n = N.of_nat (length bits) ->
  exists b, set_all (zero_bf n) 0 bits = Ok b /\ Inv b /\ bf_len b = n /\
            (forall j, bit_at (bf_bytes b) j = nth (N.to_nat j) bits false).
Proof.
  intros Hn. destruct (set_all_spec bits (zero_bf n) 0 (Inv_zero n)) as (b & H1 & H2 & H3 & H4).
  { cbn [zero_bf bf_len]. lia. }
  exists b. split; [exact H1|]. split; [exact H2|]. split; [exact H3|].
  intros j. rewrite H4. destruct ((0 <=? j) && (j <? 0 + N.of_nat (length bits))) eqn:E.
  - replace (j - 0) with j by lia. reflexivity.
  - cbn [zero_bf bf_bytes]. rewrite bit_at_zeros, nth_overflow by lia. reflexivity.
Qed.

Lemma bf_iter_eq b bits : Inv b -> bf_len b = N.of_nat (length bits) ->
  (forall j, j < bf_len b -> bit_at (bf_bytes b) j = nth (N.to_nat j) bits false) ->
  bf_iter b = bits.
Proof.
  intros HI Hl H. rewrite bf_iter_spec by auto. rewrite Hl, Nat2N.id.
  apply nth_ext with (d := false) (d' := false).
  - rewrite map_length, seq_length. reflexivity.
  - intros k Hk. rewrite map_length, seq_length in Hk. rewrite nth_map_seq by exact Hk.
    rewrite H by lia. rewrite Nat2N.id. reflexivity.
Qed.

Lemma rebuild b : Inv b -> set_all (zero_bf (bf_len b)) 0 (bf_iter b) = Ok b.
Proof.
  intros HI.
  destruct (of_bits_spec (bf_len b) (bf_iter b)) as (b' & H1 & H2 & H3 & H4).
  { rewrite bf_iter_length; auto. }
  rewrite H1. f_equal. apply Inv_ext; auto. intros i Hi.
  rewrite H4, nth_bf_iter by auto. rewrite N2Nat.id. reflexivity.
Qed.

(** ** Agreement of the byte representation with the spec's index formula *)
Lemma spec_pack_S bits k :
  spec_pack bits (S k) = spec_pack bits k ++ [spec_byte_of_bits bits k].
Proof. unfold spec_pack. rewrite seq_S, map_app. reflexivity. Qed.

Lemma pack_of_bytes bits bs : wfb bs ->
  (forall i, i < 8 * len bs -> bit_at bs i = nth (N.to_nat i) bits false) ->
  bs = spec_pack bits (length bs).
Proof.
  induction bs as [|x pre IH] using rev_ind; intros Hw H; [reflexivity|].
  apply wfb_app in Hw. destruct Hw as [Hpre Hx]. inversion Hx as [|? ? Hx256 _]; subst.
  rewrite app_length. cbn [length]. rewrite Nat.add_1_r, spec_pack_S.
  rewrite len_app, len_cons, len_nil in H. f_equal.
  - apply IH; auto. intros i Hi. rewrite <- H by lia. rewrite bit_at_app.
    replace (i <? 8 * len pre) with true by lia. reflexivity.
  - f_equal. rewrite (byte_decomp x Hx256).
    change (spec_byte_of_bits bits (length pre))
      with (byte_of_bits (fun i => nth (8 * length pre + i)%nat bits false)).
    apply byte_of_bits_ext. intros i Hi.
    specialize (H (8 * len pre + N.of_nat i) ltac:(lia)). rewrite bit_at_app in H.
    replace (8 * len pre + N.of_nat i <? 8 * len pre) with false in H by lia.
    replace (8 * len pre + N.of_nat i - 8 * len pre) with (N.of_nat i) in H by lia.
    rewrite bit_at_cons in H. replace (N.of_nat i <? 8) with true in H by lia.
    rewrite H. f_equal. unfold len. lia.
Qed.

(** ** BitVector *)
Lemma bv_of_bits_ok n bits : N.of_nat (length bits) = n ->
  exists b, bv_of_bits n bits = Ok b /\ Inv b /\ bf_len b = n /\
            (forall j, bit_at (bf_bytes b) j = nth (N.to_nat j) bits false).
Proof.
  intros H. unfold bv_of_bits, bf_of_bits_from.
  replace (N.of_nat (length bits) =? n) with true by lia.
  change (bv_new n) with (zero_bf n). apply of_bits_spec. lia.
Qed.

Lemma bitvector_rt n bits : N.of_nat (length bits) = n ->
  exists b, bv_from_bytes n (bitvector_bytes n bits) = Ok b /\ bf_iter b = bits.
Proof.
  intros H. destruct (bv_of_bits_ok n bits H) as (b & H1 & HI & Hl & Hb).
  exists b. unfold bitvector_bytes, bv_from_bytes. rewrite H1. unfold bv_into_bytes. split.
  - rewrite <- Hl. apply from_raw_bytes_of_Inv, HI.
  - apply bf_iter_eq; auto. lia.
Qed.
Lemma bitvector_canon n bs b : wfb bs -> bv_from_bytes n bs = Ok b ->
  bitvector_bytes n (bf_iter b) = bs /\ N.of_nat (length (bf_iter b)) = n.
Proof.
  intros Hw H. destruct (from_raw_bytes_Inv bs n b Hw H) as (HI & Hbs & Hn).
  clear H. subst bs n. unfold bitvector_bytes, bv_of_bits, bf_of_bits_from.
  rewrite bf_iter_length by auto. rewrite N.eqb_refl.
  change (bv_new (bf_len b)) with (zero_bf (bf_len b)). rewrite rebuild by auto.
  split; reflexivity.
Qed.
Lemma bitvector_no_panic n bs : bv_from_bytes n bs <> Panic.
Proof. apply from_raw_bytes_no_panic. Qed.
Lemma bitvector_spec n bits : N.of_nat (length bits) = n -> bitvector_bytes n bits = spec_bitvector bits.
Proof.
  intros H. destruct (bv_of_bits_ok n bits H) as (b & H1 & HI & Hl & Hb).
  unfold bitvector_bytes. rewrite H1. unfold bv_into_bytes, spec_bitvector.
  destruct HI as (Hlen & Hw & _).
  etransitivity; [apply (pack_of_bytes bits); auto|]. f_equal.
  unfold len, bytes_for_bit_len in Hlen. lia.
Qed.
Lemma bitvector_len n bits : N.of_nat (length bits) = n -> len (bitvector_bytes n bits) = bytes_for_bit_len n.
Proof.
  intros H. destruct (bv_of_bits_ok n bits H) as (b & H1 & HI & Hl & Hb).
  unfold bitvector_bytes. rewrite H1. unfold bv_into_bytes. rewrite <- Hl. apply HI.
Qed.
Lemma bitvector_wfb n bits : wfb (bitvector_bytes n bits).
Proof.
  destruct (N.of_nat (length bits) =? n) eqn:E.
  - destruct (bv_of_bits_ok n bits ltac:(lia)) as (b & H1 & HI & Hl & Hb).
    unfold bitvector_bytes. rewrite H1. apply HI.
  - unfold bitvector_bytes, bv_of_bits. rewrite E. constructor.
Qed.

(** ** Dynamic *)
Lemma bd_of_bits_ok bits : (0 < length bits)%nat -> N.of_nat (length bits) mod 8 = 0 ->
  exists b, bd_of_bits bits = Ok b /\ Inv b /\ bf_len b = N.of_nat (length bits) /\
            (forall j, bit_at (bf_bytes b) j = nth (N.to_nat j) bits false).
Proof.
  intros H0 H8. unfold bd_of_bits, bd_new, bf_of_bits_from.
  replace (N.of_nat (length bits) =? 0) with false by lia.
  replace (negb (N.of_nat (length bits) mod 8 =? 0)) with false by lia. cbn [bind].
  apply (of_bits_spec (N.of_nat (length bits)) bits). reflexivity.
Qed.
Lemma nil_or_not (bs : bytes) : bs = [] \/ bs <> [].
Proof. destruct bs; [left|right]; congruence. Qed.
Lemma len_pos bs : bs <> [] -> 1 <= len bs.
Proof. destruct bs; [congruence|]. rewrite len_cons. lia. Qed.
Lemma bd_decode_eq bs : bs <> [] -> bd_decode bs = from_raw_bytes bs (len bs * 8).
Proof. destruct bs; [congruence|reflexivity]. Qed.

Lemma bitdyn_rt bits : (0 < length bits)%nat -> N.of_nat (length bits) mod 8 = 0 ->
  exists b, bd_decode (bitdyn_bytes bits) = Ok b /\ bf_iter b = bits.
Proof.
  intros H0 H8. destruct (bd_of_bits_ok bits H0 H8) as (b & H1 & HI & Hl & Hb).
  exists b. unfold bitdyn_bytes. rewrite H1. unfold bd_into_bytes. split.
  - pose proof HI as (Hlen & _ & _). rewrite bd_decode_eq.
    + replace (len (bf_bytes b) * 8) with (bf_len b)
        by (rewrite Hlen; unfold bytes_for_bit_len; lia).
      apply from_raw_bytes_of_Inv, HI.
    + intros E. rewrite E, len_nil in Hlen. unfold bytes_for_bit_len in Hlen. lia.
  - apply bf_iter_eq; auto.
Qed.
Lemma bitdyn_canon bs b : wfb bs -> bd_decode bs = Ok b ->
  bitdyn_bytes (bf_iter b) = bs /\ (0 < length (bf_iter b))%nat /\ N.of_nat (length (bf_iter b)) mod 8 = 0.
Proof.
  intros Hw H. destruct (nil_or_not bs) as [->|Hne]; [discriminate|].
  rewrite bd_decode_eq in H by auto.
  destruct (from_raw_bytes_Inv bs _ b Hw H) as (HI & Hbs & Hn).
  pose proof (len_pos bs Hne) as Hp. pose proof (bf_iter_length b HI) as Hil.
  split; [|split; lia].
  unfold bitdyn_bytes, bd_of_bits, bd_new, bf_of_bits_from. rewrite Hil.
  replace (bf_len b =? 0) with false by lia.
  replace (negb (bf_len b mod 8 =? 0)) with false by lia. cbn [bind].
  change {| bf_bytes := zeros (bytes_for_bit_len (bf_len b)); bf_len := bf_len b |}
    with (zero_bf (bf_len b)).
  rewrite rebuild by auto. exact Hbs.
Qed.
Lemma bitdyn_no_panic bs : bd_decode bs <> Panic.
Proof. destruct bs; [discriminate|]. apply from_raw_bytes_no_panic. Qed.
Lemma bitdyn_spec bits : (0 < length bits)%nat -> N.of_nat (length bits) mod 8 = 0 ->
  bitdyn_bytes bits = spec_pack bits (Nat.div (length bits) 8).
Proof.
  intros H0 H8. destruct (bd_of_bits_ok bits H0 H8) as (b & H1 & HI & Hl & Hb).
  unfold bitdyn_bytes. rewrite H1. unfold bd_into_bytes. destruct HI as (Hlen & Hw & _).
  etransitivity; [apply (pack_of_bytes bits); auto|]. f_equal.
  unfold len, bytes_for_bit_len in Hlen. lia.
Qed.
Lemma bitdyn_wfb bits : wfb (bitdyn_bytes bits).
Proof.
  destruct ((0 <? N.of_nat (length bits)) && (N.of_nat (length bits) mod 8 =? 0)) eqn:E.
  - destruct (bd_of_bits_ok bits ltac:(lia) ltac:(lia)) as (b & H1 & HI & Hl & Hb).
    unfold bitdyn_bytes. rewrite H1. apply HI.
  - unfold bitdyn_bytes, bd_of_bits, bd_new.
    destruct (N.of_nat (length bits) =? 0) eqn:E0; [constructor|].
    destruct (negb (N.of_nat (length bits) mod 8 =? 0)) eqn:E8; [constructor|]. lia.
Qed.

(** ** BitList *)
Lemma bl_of_bits_ok n bits : N.of_nat (length bits) <= n ->
  exists b, bl_of_bits n bits = Ok b /\ Inv b /\ bf_len b = N.of_nat (length bits) /\
            (forall j, bit_at (bf_bytes b) j = nth (N.to_nat j) bits false).
Proof.
  intros H. unfold bl_of_bits, bl_with_capacity, bf_of_bits_from.
  replace (N.of_nat (length bits) <=? n) with true by lia. cbn [bind].
  apply (of_bits_spec (N.of_nat (length bits)) bits). reflexivity.
Qed.

Lemma len_resize bs n : len (resize_bytes bs n) = n.
Proof.
  unfold resize_bytes. destruct (n <=? len bs) eqn:E.
  - apply len_take. lia.
  - rewrite len_app, len_zeros. lia.
Qed.
Lemma wfb_resize bs n : wfb bs -> wfb (resize_bytes bs n).
Proof.
  intros H. unfold resize_bytes. destruct (n <=? len bs).
  - apply wfb_take, H.
  - apply wfb_app. split; [exact H | apply wfb_zeros].
Qed.
Lemma bit_at_resize bs n i :
  bit_at (resize_bytes bs n) i = if i <? 8 * n then bit_at bs i else false.
Proof.
  unfold resize_bytes. destruct (n <=? len bs) eqn:E.
  - apply bit_at_take.
  - rewrite bit_at_app, bit_at_zeros. destruct (i <? 8 * len bs) eqn:E1.
    + replace (i <? 8 * n) with true by lia. reflexivity.
    + rewrite bit_at_out by lia. destruct (i <? 8 * n); reflexivity.
Qed.

Lemma bl_into_bytes_spec b : Inv b ->
  exists b2, bl_into_bytes b = Ok (bf_bytes b2) /\ Inv b2 /\ bf_len b2 = bf_len b + 1 /\
    (forall j, bit_at (bf_bytes b2) j = if j =? bf_len b then true else bit_at (bf_bytes b) j).
Proof.
  intros HI. pose proof HI as (Hlen & Hw & Hz).
  set (bs := resize_bytes (bf_bytes b) (bytes_for_bit_len (bf_len b + 1))).
  set (b1 := {| bf_bytes := bs; bf_len := bf_len b + 1 |}).
  assert (HI1 : Inv b1).
  { split; [|split]; cbn [b1 bf_bytes bf_len]; unfold bs.
    - apply len_resize.
    - apply wfb_resize, Hw.
    - intros i Hi. rewrite bit_at_resize. rewrite Hz by lia. destruct (i <? _); reflexivity. }
  pose proof (from_raw_bytes_of_Inv b1 HI1) as Hraw. cbn [b1 bf_bytes bf_len] in Hraw.
  destruct (bf_set_ok b1 (bf_len b) true HI1) as (b2 & Hs & HI2 & Hl2 & Hb2).
  { cbn [b1 bf_len]. lia. }
  exists b2. split; [|split; [exact HI2|split; [exact Hl2|]]].
  - unfold bl_into_bytes. cbv zeta. fold bs. rewrite Hraw. fold b1. rewrite Hs. reflexivity.
  - intros j. rewrite Hb2. cbn [b1 bf_bytes]. unfold bs. rewrite bit_at_resize.
    destruct (j =? bf_len b) eqn:E; [reflexivity|].
    destruct (j <? 8 * bytes_for_bit_len (bf_len b + 1)) eqn:E1; [reflexivity|].
    rewrite Hz; [reflexivity|]. unfold bytes_for_bit_len in E1. lia.
Qed.

(* into_bytes never reaches its unreachable!/expect sites *)
Lemma bl_into_bytes_ok b : Inv b -> exists bs, bl_into_bytes b = Ok bs.
Proof. intros HI. destruct (bl_into_bytes_spec b HI) as (b2 & H & _). eauto. Qed.

Lemma hsb_go_spec bs : wfb bs -> forall i acc,
  match hsb_go bs i acc with
  | Some l => (acc = Some l /\ forall j, bit_at bs j = false) \/
              (exists p, l = i * 8 + p /\ p < 8 * len bs /\ bit_at bs p = true /\
                         forall j, p < j -> bit_at bs j = false)
  | None => acc = None /\ forall j, bit_at bs j = false
  end.
Proof.
  induction 1 as [|x r Hx Hr IH]; intros i acc.
  - cbn [hsb_go]. destruct acc as [l|]; [left|]; split; auto.
  - cbn [hsb_go]. specialize (IH (i + 1) (if 0 <? x then Some (i * 8 + N.log2 x) else acc)).
    destruct (hsb_go r (i + 1) _) as [l|].
    + destruct IH as [[Hacc Hall]|(p & Hl & Hp & Hpt & Hpa)].
      * destruct (0 <? x) eqn:E0.
        -- destruct (byte_log2 x Hx ltac:(lia)) as (Hlg & Htb & Hab).
           right. exists (N.log2 x). split; [congruence|]. split; [rewrite len_cons; lia|].
           split.
           ++ rewrite bit_at_cons. replace (N.log2 x <? 8) with true by lia. exact Htb.
           ++ intros j Hj. rewrite bit_at_cons. destruct (j <? 8); [apply Hab, Hj | apply Hall].
        -- left. split; [exact Hacc|]. intros j. rewrite bit_at_cons.
           replace x with 0 by lia. destruct (j <? 8); [apply N.bits_0 | apply Hall].
      * right. exists (p + 8). split; [lia|]. split; [rewrite len_cons; lia|]. split.
        -- rewrite bit_at_cons. replace (p + 8 <? 8) with false by lia.
           replace (p + 8 - 8) with p by lia. exact Hpt.
        -- intros j Hj. rewrite bit_at_cons. replace (j <? 8) with false by lia.
           apply Hpa. lia.
    + destruct IH as [Hacc Hall]. destruct (0 <? x) eqn:E0; [discriminate|].
      split; [exact Hacc|]. intros j. rewrite bit_at_cons.
      replace x with 0 by lia. destruct (j <? 8); [apply N.bits_0 | apply Hall].
Qed.

Lemma hsb_some bs n l : wfb bs -> highest_set_bit {| bf_bytes := bs; bf_len := n |} = Some l ->
  l < 8 * len bs /\ bit_at bs l = true /\ (forall j, l < j -> bit_at bs j = false).
Proof.
  intros Hw H. unfold highest_set_bit in H. cbn [bf_bytes] in H.
  pose proof (hsb_go_spec bs Hw 0 None) as S. rewrite H in S.
  destruct S as [[Hacc _]|(p & Hl & Hp & Hpt & Hpa)]; [discriminate|].
  replace l with p by lia. auto.
Qed.
Lemma hsb_none bs n : wfb bs -> highest_set_bit {| bf_bytes := bs; bf_len := n |} = None ->
  forall j, bit_at bs j = false.
Proof.
  intros Hw H. unfold highest_set_bit in H. cbn [bf_bytes] in H.
  pose proof (hsb_go_spec bs Hw 0 None) as S. rewrite H in S. apply S.
Qed.
Lemma hsb_unique bs n l : wfb bs -> bit_at bs l = true -> (forall j, l < j -> bit_at bs j = false) ->
  highest_set_bit {| bf_bytes := bs; bf_len := n |} = Some l.
Proof.
  intros Hw Ht Ha. destruct (highest_set_bit _) as [l'|] eqn:E.
  - apply hsb_some in E; auto. destruct E as (_ & Ht' & Ha'). f_equal.
    destruct (N.lt_trichotomy l' l) as [Hlt|[Heq|Hgt]]; [|exact Heq|].
    + rewrite Ha' in Ht by exact Hlt. discriminate.
    + rewrite Ha in Ht' by exact Hgt. discriminate.
  - rewrite (hsb_none bs n Hw E) in Ht. discriminate.
Qed.

Lemma from_raw_full bs : wfb bs -> bs <> [] ->
  from_raw_bytes bs (len bs * 8) = Ok {| bf_bytes := bs; bf_len := len bs * 8 |}.
Proof.
  intros Hw Hne. pose proof (len_pos bs Hne) as Hp. apply from_raw_intro; auto.
  - unfold bytes_for_bit_len. lia.
  - intros i Hi. apply bit_at_out. lia.
Qed.
Lemma Inv_full bs : wfb bs -> bs <> [] -> Inv {| bf_bytes := bs; bf_len := len bs * 8 |}.
Proof.
  intros Hw Hne. apply (from_raw_bytes_Inv bs (len bs * 8)); auto. apply from_raw_full; auto.
Qed.

Lemma bl_from_bytes_intro n bs l : wfb bs -> len bs = l / 8 + 1 -> l <= n ->
  bit_at bs l = true -> (forall j, l < j -> bit_at bs j = false) ->
  exists b, bl_from_bytes n bs = Ok b /\ Inv b /\ bf_len b = l /\
            (forall j, j < l -> bit_at (bf_bytes b) j = bit_at bs j).
Proof.
  intros Hw Hlen Hln Ht Ha.
  assert (Hne : bs <> []). { intros ->. rewrite len_nil in Hlen. lia. }
  pose proof (Inv_full bs Hw Hne) as HI0.
  destruct (bf_set_ok _ l false HI0) as (c & Hs & HIc & Hlc & Hbc).
  { cbn [bf_len]. lia. }
  cbn [bf_bytes bf_len] in Hlc, Hbc. destruct HIc as (Hclen & Hcw & _).
  rewrite Hlc in Hclen.
  assert (Hclen' : len (bf_bytes c) = l / 8 + 1).
  { rewrite Hclen. unfold bytes_for_bit_len. lia. }
  set (bs' := take (bytes_for_bit_len l) (bf_bytes c)).
  assert (Hw' : wfb bs') by (apply wfb_take, Hcw).
  assert (Hl' : len bs' = bytes_for_bit_len l).
  { apply len_take. rewrite Hclen'. unfold bytes_for_bit_len. lia. }
  assert (Hz' : forall i, l <= i -> bit_at bs' i = false).
  { intros i Hi. unfold bs'. rewrite bit_at_take, Hbc.
    destruct (i <? _); [|reflexivity]. destruct (i =? l) eqn:E; [reflexivity|].
    apply Ha. lia. }
  exists {| bf_bytes := bs'; bf_len := l |}. split; [|split; [|split]].
  - unfold bl_from_bytes. cbv zeta. rewrite from_raw_full by auto. cbn [bind].
    rewrite (hsb_unique bs (len bs * 8) l Hw Ht Ha). cbn [ok_or bind].
    replace (negb (l / 8 + 1 =? len bs)) with false by lia.
    replace (l <=? n) with true by lia. rewrite Hs. fold bs'.
    apply from_raw_intro; auto.
  - split; [|split]; cbn [bf_bytes bf_len]; auto.
  - reflexivity.
  - intros j Hj. cbn [bf_bytes]. unfold bs'. rewrite bit_at_take, Hbc.
    replace (j <? 8 * bytes_for_bit_len l) with true by (unfold bytes_for_bit_len; lia).
    replace (j =? l) with false by lia. reflexivity.
Qed.

Lemma bl_from_bytes_elim n bs b : wfb bs -> bl_from_bytes n bs = Ok b ->
  exists l, len bs = l / 8 + 1 /\ l <= n /\ bit_at bs l = true /\
            (forall j, l < j -> bit_at bs j = false) /\
            Inv b /\ bf_len b = l /\ (forall j, j < l -> bit_at (bf_bytes b) j = bit_at bs j).
Proof.
  intros Hw H.
  assert (Hne : bs <> []). { intros ->. cbv in H. discriminate. }
  pose proof H as H0. unfold bl_from_bytes in H0. cbv zeta in H0.
  rewrite from_raw_full in H0 by auto. cbn [bind] in H0.
  destruct (highest_set_bit _) as [l|] eqn:Eh; cbn [ok_or bind] in H0; [|discriminate].
  destruct (negb (l / 8 + 1 =? len bs)) eqn:E1; [discriminate|].
  destruct (l <=? n) eqn:E2; [|discriminate].
  apply hsb_some in Eh; auto. destruct Eh as (Hlt & Ht & Ha).
  destruct (bl_from_bytes_intro n bs l Hw ltac:(lia) ltac:(lia) Ht Ha) as (b' & Hb' & HI' & Hl' & Hbits').
  rewrite Hb' in H. injection H as <-.
  exists l. repeat split; try apply HI'; auto; lia.
Qed.

Lemma bitlist_rt n bits : N.of_nat (length bits) <= n ->
  exists b, bl_from_bytes n (bitlist_bytes n bits) = Ok b /\ bf_iter b = bits.
Proof.
  intros H. destruct (bl_of_bits_ok n bits H) as (b & H1 & HI & Hl & Hb).
  destruct (bl_into_bytes_spec b HI) as (b2 & Hinto & HI2 & Hl2 & Hb2).
  unfold bitlist_bytes. rewrite H1, Hinto. cbn [unwrap_bytes].
  pose proof HI as (_ & _ & Hz). pose proof HI2 as (Hlen2 & Hw2 & _).
  destruct (bl_from_bytes_intro n (bf_bytes b2) (bf_len b)) as (b3 & H3 & HI3 & Hl3 & Hb3); auto.
  - rewrite Hlen2, Hl2. unfold bytes_for_bit_len. lia.
  - lia.
  - rewrite Hb2, N.eqb_refl. reflexivity.
  - intros j Hj. rewrite Hb2. replace (j =? bf_len b) with false by lia. apply Hz. lia.
  - exists b3. split; [exact H3|]. apply bf_iter_eq; auto; [lia|].
    intros j Hj. rewrite Hb3 by lia. rewrite Hb2. replace (j =? bf_len b) with false by lia.
    apply Hb.
Qed.

Lemma bitlist_canon n bs b : wfb bs -> bl_from_bytes n bs = Ok b ->
  bitlist_bytes n (bf_iter b) = bs /\ N.of_nat (length (bf_iter b)) <= n.
Proof.
  intros Hw H.
  destruct (bl_from_bytes_elim n bs b Hw H) as (l & Hlen & Hln & Ht & Ha & HI & Hl & Hbits).
  pose proof (bf_iter_length b HI) as Hil. split; [|lia].
  unfold bitlist_bytes, bl_of_bits, bl_with_capacity, bf_of_bits_from. rewrite Hil.
  replace (bf_len b <=? n) with true by lia. cbn [bind].
  change {| bf_bytes := zeros (bytes_for_bit_len (bf_len b)); bf_len := bf_len b |}
    with (zero_bf (bf_len b)).
  rewrite rebuild by auto.
  destruct (bl_into_bytes_spec b HI) as (b2 & Hinto & HI2 & Hl2 & Hb2).
  rewrite Hinto. cbn [unwrap_bytes]. destruct HI2 as (Hlen2 & Hw2 & _).
  destruct HI as (_ & _ & Hz).
  apply bytes_ext; auto.
  - rewrite Hlen2, Hl2, Hlen. unfold bytes_for_bit_len. lia.
  - intros i. rewrite Hb2. destruct (i =? bf_len b) eqn:E.
    + replace i with l by lia. symmetry. exact Ht.
    + destruct (i <? l) eqn:E2.
      * apply Hbits. lia.
      * rewrite Hz, Ha by lia. reflexivity.
Qed.

Lemma bitlist_no_panic n bs : wfb bs -> bl_from_bytes n bs <> Panic.
Proof.
  intros Hw. destruct (nil_or_not bs) as [->|Hne]; [cbv; discriminate|].
  unfold bl_from_bytes. cbv zeta. rewrite from_raw_full by auto. cbn [bind].
  destruct (highest_set_bit _) as [l|] eqn:Eh; cbn [ok_or bind]; [|discriminate].
  destruct (negb (l / 8 + 1 =? len bs)); [discriminate|].
  destruct (l <=? n); [|discriminate].
  apply hsb_some in Eh; auto. destruct Eh as (Hlt & _ & _).
  destruct (bf_set_ok _ l false (Inv_full bs Hw Hne)) as (c & Hs & _).
  { cbn [bf_len]. lia. }
  rewrite Hs. apply from_raw_bytes_no_panic.
Qed.

Lemma bitlist_spec n bits : N.of_nat (length bits) <= n -> bitlist_bytes n bits = spec_bitlist bits.
Proof.
  intros H. destruct (bl_of_bits_ok n bits H) as (b & H1 & HI & Hl & Hb).
  destruct (bl_into_bytes_spec b HI) as (b2 & Hinto & HI2 & Hl2 & Hb2).
  unfold bitlist_bytes. rewrite H1, Hinto. cbn [unwrap_bytes]. unfold spec_bitlist.
  destruct HI2 as (Hlen2 & Hw2 & _).
  etransitivity; [apply (pack_of_bytes (bits ++ [true])); auto|].
  - intros i _. rewrite Hb2, Hb. destruct (i =? bf_len b) eqn:E.
    + rewrite app_nth2 by lia. replace (N.to_nat i - length bits)%nat with 0%nat by lia.
      reflexivity.
    + destruct (i <? bf_len b) eqn:E2.
      * rewrite app_nth1 by lia. reflexivity.
      * rewrite !nth_overflow; [reflexivity| |lia]. rewrite app_length. cbn [length]. lia.
  - f_equal. unfold len, bytes_for_bit_len in Hlen2. lia.
Qed.

Lemma bitlist_wfb n bits : wfb (bitlist_bytes n bits).
Proof.
  destruct (N.of_nat (length bits) <=? n) eqn:E.
  - destruct (bl_of_bits_ok n bits ltac:(lia)) as (b & H1 & HI & Hl & Hb).
    destruct (bl_into_bytes_spec b HI) as (b2 & Hinto & HI2 & Hl2 & Hb2).
    unfold bitlist_bytes. rewrite H1, Hinto. apply HI2.
  - unfold bitlist_bytes, bl_of_bits, bl_with_capacity. rewrite E. constructor.
Qed.
