(** * Facts about [SplitSpec]: the spelled-out "read all offsets, check, cut" description
    accepts exactly the tiled inputs and returns exactly the tiling ([Layout.Tiles]); hence it
    agrees with the builder state machine ([Builder.builder_build]). *)
From SSZ Require Import Base BaseFacts Offsets OffsetsFacts Builder Layout BuilderFacts SplitSpec.
From Coq Require Import ZArith ZifyN ZifyNat ZifyBool.
Ltac Zify.zify_post_hook ::= Z.div_mod_to_equations.
Open Scope N_scope.

(** ** What the fixed portion of [bs] looks like, read off [regs] alone

    [raw_at regs c bs] is the [raw] description of [BuilderFacts] ([(true, slice)] for a fixed
    item, [(false, word)] for a variable one) computed directly from the positions. *)
Fixpoint raw_at (regs : list (bool * N)) (c : N) (bs : bytes) : list part :=
  match regs with
  | [] => []
  | r :: rest => (fst r, take (reg_width r) (drop c bs)) :: raw_at rest (c + reg_width r) bs
  end.

(** The offset words of a [raw] description, as numbers. *)
Fixpoint raw_offs (raw : list part) : list N :=
  match raw with
  | [] => []
  | (true, _) :: r => raw_offs r
  | (false, w) :: r => le_val w :: raw_offs r
  end.

Lemma fixed_end_cons r regs : fixed_end (r :: regs) = reg_width r + fixed_end regs.
Proof. reflexivity. Qed.

Lemma read_offsets_at regs bs c :
  map (fun p => le_val (take 4 (drop (pos_start p) bs)))
      (filter (fun p => negb (pos_is_fixed p)) (positions regs c))
  = raw_offs (raw_at regs c bs).
Proof.
  revert c; induction regs as [|[[|] l] regs IH]; intros c;
    cbn [positions filter pos_is_fixed fst snd negb map raw_at raw_offs pos_start].
  - reflexivity.
  - apply IH.
  - rewrite IH. reflexivity.
Qed.

Lemma read_offsets_raw regs bs : read_offsets regs bs = raw_offs (raw_at regs 0 bs).
Proof. apply read_offsets_at. Qed.

Lemma next_off_hd raw n : next_off raw n = hd n (raw_offs raw).
Proof.
  induction raw as [|[[|] w] r IH]; cbn [next_off raw_offs hd]; auto.
Qed.

Lemma place_fill regs bs : forall c,
  place (positions regs c) (var_slices (raw_offs (raw_at regs c bs)) bs) bs
  = map snd (fill_parts bs (raw_at regs c bs)).
Proof.
  induction regs as [|[[|] l] regs IH]; intros c;
    cbn [positions place pos_is_fixed pos_start pos_width fst snd raw_at raw_offs fill_parts map
         var_slices].
  - reflexivity.
  - rewrite IH. reflexivity.
  - rewrite IH, next_off_hd. reflexivity.
Qed.

(** ** The fixed portion fits: [raw_at] is a well-formed description *)
Lemma raw_at_ok regs bs : forall c,
  c + fixed_end regs <= len bs ->
  RawOk regs (raw_at regs c bs) /\
  drop c bs = raw_bytes (raw_at regs c bs) ++ drop (c + fixed_end regs) bs.
Proof.
  induction regs as [|[f l] regs IH]; intros c Hc.
  - cbn [raw_at RawOk]. split; [exact I|].
    unfold raw_bytes, fixed_end. cbn [map concat sumN app]. rewrite N.add_0_r. reflexivity.
  - rewrite fixed_end_cons in Hc |- *. cbn [raw_at RawOk fst].
    set (w := reg_width (f, l)) in *.
    destruct (IH (c + w)) as [I1 I2]; [lia|].
    assert (len (take w (drop c bs)) = w) as Hl by (apply len_take; rewrite len_drop; lia).
    split; [split; [reflexivity|split; [|exact I1]]|].
    + destruct f; [exact Hl|]. unfold len in Hl. subst w.
      unfold reg_width, BYTES_PER_LENGTH_OFFSET in *. cbn [fst] in *. lia.
    + rewrite raw_bytes_cons, <- app_assoc.
      replace (c + (w + fixed_end regs)) with (c + w + fixed_end regs) by lia.
      rewrite <- I2. apply drop_split.
Qed.

Lemma RawOk_len regs : forall raw, RawOk regs raw -> len (raw_bytes raw) = fixed_end regs.
Proof.
  induction regs as [|[f l] regs IH]; intros [|[g b] raw] H; cbn [RawOk] in H; try contradiction.
  - reflexivity.
  - destruct H as (-> & Hb & H). rewrite raw_bytes_cons, len_app, fixed_end_cons, (IH raw H).
    f_equal. unfold reg_width, BYTES_PER_LENGTH_OFFSET. cbn [fst snd].
    destruct f; [exact Hb|]. unfold len. rewrite Hb. reflexivity.
Qed.

(** A well-formed description of a prefix of [drop c bs] is the one [raw_at] computes. *)
Lemma raw_at_unique regs bs : forall raw c rest,
  RawOk regs raw -> drop c bs = raw_bytes raw ++ rest -> raw_at regs c bs = raw.
Proof.
  induction regs as [|[f l] regs IH]; intros [|[g b] raw] c rest H Hd; cbn [RawOk] in H;
    try contradiction.
  - reflexivity.
  - destruct H as (-> & Hb & H). rewrite raw_bytes_cons, <- app_assoc in Hd.
    assert (reg_width (f, l) = len b) as Hw.
    { unfold reg_width, BYTES_PER_LENGTH_OFFSET. cbn [fst snd].
      destruct f; [symmetry; exact Hb|]. unfold len. rewrite Hb. reflexivity. }
    cbn [raw_at fst]. rewrite Hw. f_equal.
    + f_equal. rewrite Hd. apply take_app_exact.
    + apply (IH raw (c + len b) rest H).
      rewrite <- drop_drop, Hd. apply drop_app_exact.
Qed.

(** ** The conditions of the property text, as the [chain] of [BuilderFacts] *)
Lemma chain_iff raw n : forall prev,
  chain prev raw n <->
  prev <= hd n (raw_offs raw) /\ nondecreasing (raw_offs raw) = true
  /\ forallb (fun x => x <=? n) (raw_offs raw) = true.
Proof.
  induction raw as [|[[|] w] r IH]; intros prev; cbn [chain raw_offs].
  - cbn [hd nondecreasing forallb]. tauto.
  - apply IH.
  - rewrite IH. cbn [hd forallb].
    change (nondecreasing (le_val w :: raw_offs r))
      with (match raw_offs r with
            | [] => true
            | b :: _ => (le_val w <=? b) && nondecreasing (raw_offs r)
            end).
    destruct (raw_offs r) as [|b t].
    + cbn [hd nondecreasing forallb]. rewrite andb_true_r. split.
      * intros (H1 & H2 & _). repeat split; auto. lia.
      * intros (H1 & _ & H2). repeat split; auto. lia.
    + cbn [hd]. cbn [forallb]. rewrite !andb_true_iff. split.
      * intros (H1 & H2 & H3 & H4 & H5). repeat split; auto; lia.
      * intros (H1 & (H2 & H3) & H4 & H5 & H6). repeat split; auto; lia.
Qed.

Lemma layout_ok_chain regs bs :
  layout_ok regs bs = true <->
  fixed_end regs <= len bs /\ chain 0 (raw_at regs 0 bs) (len bs)
  /\ next_off (raw_at regs 0 bs) (len bs) = fixed_end regs.
Proof.
  unfold layout_ok. rewrite read_offsets_raw, chain_iff, next_off_hd.
  set (offs := raw_offs (raw_at regs 0 bs)).
  rewrite andb_true_iff. destruct offs as [|o t]; cbv zeta.
  - cbn [hd nondecreasing forallb]. split.
    + intros [H1 H2]. repeat split; auto; lia.
    + intros (H1 & _ & H2). split; lia.
  - cbn [hd]. rewrite !andb_true_iff. split.
    + intros (H1 & (H2 & H3) & H4). repeat split; auto; lia.
    + intros (H1 & (_ & H3 & H4) & H2). repeat split; auto; lia.
Qed.

(** ** Main statements *)
Theorem split_tiles regs bs slices :
  wfb bs -> (split regs bs = Some slices <-> Tiles regs bs slices).
Proof.
  intros Hw. unfold split. rewrite read_offsets_raw, place_fill. split.
  - destruct (layout_ok regs bs) eqn:L; [|discriminate]. intros [= <-].
    apply layout_ok_chain in L as (Hfe & Hc & Hn).
    set (raw := raw_at regs 0 bs) in *.
    destruct (raw_at_ok regs bs 0) as [H1 H2]; [lia|]. fold raw in H1, H2.
    rewrite drop_0, N.add_0_l in H2.
    assert (wfb (raw_bytes raw)) as Hwr by (rewrite H2 in Hw; apply wfb_app in Hw; apply Hw).
    destruct (layout_sound bs raw regs 0 H1 Hwr Hc) as (L1 & L2 & L3 & L4).
    pose proof (RawOk_len regs raw H1) as Hrl.
    unfold Tiles.
    assert (combine (map fst regs) (map snd (fill_parts bs raw)) = fill_parts bs raw) as Hcomb.
    { rewrite <- (RawOk_fst regs raw H1), <- (fill_parts_fst bs raw). apply combine_fst_snd. }
    split.
    { rewrite map_length, <- (map_length fst), fill_parts_fst, map_length. apply RawOk_length. exact H1. }
    cbv zeta. rewrite Hcomb.
    split; [apply RawOk_fixed_len; exact H1|].
    rewrite L4, Hrl, <- Hn.
    split; [exact L3|].
    unfold assemble. rewrite L1, L2, Hn. exact H2.
  - unfold Tiles. cbv zeta. intros (HL & HF & Hfit & Hbs).
    set (parts := combine (map fst regs) slices) in *.
    assert (map fst parts = map fst regs) as Hfst
      by (apply map_fst_combine'; rewrite map_length; exact HL).
    assert (map snd parts = slices) as Hsnd
      by (apply map_snd_combine'; rewrite map_length; exact HL).
    set (nf := fixed_size parts) in *.
    set (raw := raw_of nf parts).
    assert (len bs = nf + len (var_concat parts)) as Hl by (rewrite Hbs; apply assemble_len).
    assert (raw_bytes raw = assemble_fixed nf parts) as Hrb by apply raw_bytes_raw_of.
    assert (RawOk regs raw) as HR.
    { apply RawOk_raw_of; [symmetry; exact Hfst|apply Forall2_combine_fst; exact HF]. }
    assert (fixed_end regs = nf) as Hfe.
    { rewrite <- (RawOk_len regs raw HR), Hrb. apply assemble_fixed_len. }
    assert (raw_at regs 0 bs = raw) as Hraw.
    { apply (raw_at_unique regs bs raw 0 (var_concat parts) HR).
      rewrite drop_0, Hrb. exact Hbs. }
    assert (chain 0 raw (len bs)) as Hc by (apply chain_raw_of; [exact Hfit|apply N.le_0_l|lia]).
    assert (next_off raw (len bs) = nf) as Hn
      by (rewrite Hl; apply next_off_raw_of; exact Hfit).
    rewrite Hraw.
    rewrite (proj2 (layout_ok_chain regs bs)).
    + f_equal. rewrite <- Hsnd. f_equal.
      pose proof (fill_parts_raw_of bs parts (assemble_fixed nf parts)) as HP.
      rewrite assemble_fixed_len in HP. apply HP; [exact Hbs|exact Hfit].
    + rewrite Hraw, Hfe. split; [lia|]. split; [exact Hc|exact Hn].
Qed.

Corollary split_builder regs bs slices :
  wfb bs -> len bs <= usize_max ->
  (split regs bs = Some slices <-> builder_build regs bs = Ok slices).
Proof.
  intros Hw Hm. rewrite (split_tiles regs bs slices Hw).
  symmetry. apply builder_build_tiles; assumption.
Qed.

(** The spelled-out conditions are exactly acceptance. *)
Lemma layout_ok_split regs bs : layout_ok regs bs = true <-> exists slices, split regs bs = Some slices.
Proof.
  unfold split. destruct (layout_ok regs bs); split.
  - intros _. eexists. reflexivity.
  - reflexivity.
  - discriminate.
  - intros [s H]. discriminate.
Qed.

Corollary layout_ok_tiles regs bs :
  wfb bs -> (layout_ok regs bs = true <-> exists slices, Tiles regs bs slices).
Proof.
  intros Hw. rewrite layout_ok_split. split; intros [s H]; exists s; apply (split_tiles regs bs s Hw); exact H.
Qed.

Corollary layout_ok_accepts regs bs :
  wfb bs -> len bs <= usize_max ->
  (layout_ok regs bs = true <-> exists slices, builder_build regs bs = Ok slices).
Proof.
  intros Hw Hm. rewrite layout_ok_split.
  split; intros [s H]; exists s; apply (split_builder regs bs s Hw Hm); exact H.
Qed.

(** The cut is a function of the input: at most one tiling. *)
Corollary tiles_unique regs bs s1 s2 :
  wfb bs -> Tiles regs bs s1 -> Tiles regs bs s2 -> s1 = s2.
Proof.
  intros Hw H1 H2. apply (split_tiles regs bs _ Hw) in H1, H2. congruence.
Qed.

Print Assumptions split_tiles.
Print Assumptions split_builder.
Print Assumptions layout_ok_accepts.
